"""Descriptor sessions (stream `fdsess`): generator, renderer and process-level runner shared by C02, C04, C08.

A session is a list of items run by ONE `cicada` process from a script file; every item is followed by a
sentinel `fdstage q<k> P S$?` that records the shell's descriptor table and `$?`.  Every stage is the helper
`fdstage` (helpers/fdstage.c), which records the descriptors it was started with before doing anything else."""
import os, re, shutil, subprocess
from . import core, proc
from .core import Case, hx

PRE_FILES = {"pre1": ["old1"], "pre2": ["old2a", "old2b"], "inp": ["in1", "in2"], "inp2": ["second"]}
UNWRITABLE = ["adir", "nodir/x"]
UNREADABLE = ["missing", ""]
NOTFOUND = ["nosuchprog"]
STDIN_LINES = ["sin1"]

OUT_OPS = [(">", "1", ">"), (">>", "1", ">>"), ("1>", "1", ">"), ("2>", "2", ">"), ("2>>", "2", ">>"), ("1>>", "1", ">>")]
DUP_OPS = ["2>&1", "1>&2", ">&2"]


def gen_redirs(r, k, profile, targets):
    """returns list of rendered redirection words (each may be 1 or 2 words)"""
    out = []
    n = r.choice([0, 0, 1, 1, 1, 2, 2, 3, 4]) if profile != "plain" else 0
    for _ in range(n):
        if r.below(3) == 0:
            out.append(r.choice(DUP_OPS))
        else:
            op = r.choice(OUT_OPS)[0]
            m = r.below(10)
            tgt = r.choice(UNWRITABLE) if m == 0 else targets()
            k_ = r.below(6)
            out.append(op + tgt if k_ < 3 else (op + " " + tgt if k_ < 5 else op + ' "' + tgt + '"'))     # also `2> "file"`
    return out


def gen_pipeline(r, k, profile, maxst, fresh):
    """stages are planned together: a stage writes to its stdout pipe only when the next stage reads its stdin to the
    end before doing anything else (otherwise the writer races with the reader's exit: SIGPIPE or not)"""
    n = 1 + r.below(maxst) if r.below(3) else 1
    kinds, sin = [], []
    for i in range(n):
        kd = r.below(12)
        if profile in ("redir", "mixed", "long") and kd == 0:
            kinds.append("builtin")
        elif profile != "plain" and kd == 1:
            kinds.append("notfound")
        elif profile in ("redir", "mixed", "long") and kd == 2 and n > 1:
            kinds.append("source")          # a builtin stage that itself starts a program (from the forked stage's table)
        else:
            kinds.append("helper")
        m = r.below(14) if profile != "plain" else 99
        # input redirections: files (present / missing / the empty name), here-strings incl. the empty word and a quoted phrase
        sin.append("<" + r.choice([" inp", " inp", " missing", " inp2", " inp", "inp", ' ""']) if m == 0 else
                   (r.choice(["<<< hs%d%d" % (k, i)] * 4 + ['<<< ""', "<<< ''", '<<< "two words%d"' % k, "<<<hs%d%d" % (k, i)]) if m == 1 else None))
    rds = [gen_redirs(r, k, profile, fresh) for _ in range(n)]
    isfail = lambda i: any(any(u in w for u in UNWRITABLE) for w in rds[i]) or (sin[i] is not None and ("missing" in sin[i] or sin[i] == '< ""'))
    # at most one stage of a pipeline prints a diagnostic (two would interleave their pieces)
    seen = False
    for i in range(n):
        d = isfail(i) or kinds[i] == "notfound"
        if d and seen:
            rds[i] = [w for w in rds[i] if not any(u in w for u in UNWRITABLE)]
            if sin[i] is not None and ("missing" in sin[i] or sin[i] == '< ""'):
                sin[i] = None
            if kinds[i] == "notfound":
                kinds[i] = "helper"
        seen = seen or d
    fails = [isfail(i) for i in range(n)]
    reads = [i > 0 and kinds[i] == "helper" and sin[i] is None and not fails[i] for i in range(n)]
    # a stage that prints a diagnostic does so in several write calls: no other stage of that pipeline writes to stderr
    quiet = n > 1 and any(fails[i] or kinds[i] == "notfound" for i in range(n))
    stages = []
    for i in range(n):
        tag = "a%dx%d" % (k, i)
        can_write = (i == n - 1) or reads[i + 1]
        if kinds[i] == "builtin":
            # (minfd inside a pipeline prints a number that depends on the forked child's private descriptors: single commands only)
            words = [r.choice(["minfd", "minfd", "alias", "alias a b c"] if n == 1 else ["alias"])] if can_write else ["alias q7=v"]   # (the usage error is printed in two write calls: single commands only)
        elif kinds[i] == "source":
            words = ["source", "s%dx%d.sh" % (k, i)]
        elif kinds[i] == "notfound":
            words = ["nosuchprog", "x"]
        else:
            ops = []
            if reads[i]:
                ops.append(r.choice(["R", "F"]) if can_write else "R")
            elif r.below(3) == 0:
                ops.append(r.choice(["R", "F"]) if can_write else "R")
            if can_write and r.below(4):
                ops.append("W%so" % tag)
            if r.below(3) and not quiet:
                ops.append("E%se" % tag)
            if r.below(3) == 0:
                ops.append("x%d" % r.choice([0, 1, 2, 3, 7, 42, 126, 127, 128, 200, 255]))
            words = ["fdstage", tag] + ops
        rd = rds[i]
        if kinds[i] == "source":
            rd = []                          # (redirections on `source` itself are not this stream's subject)
            sin[i] = None
        if not can_write:
            rd = [w for w in rd if w != "2>&1"]
        if quiet and not (fails[i] or kinds[i] == "notfound"):
            rd = [w for w in rd if w not in DUP_OPS]      # (would route a marker line into the stream the diagnostic is written to)
        if sin[i] is not None:
            rd.insert(r.below(len(rd) + 1), sin[i])
        # redirections may sit anywhere after the program word
        # (an attached `<file` right after the program word would become the helper's tag: keep it behind the tag)
        lo = 2 if words[0] == "fdstage" else 1
        pos = [min(len(words), lo + r.below(len(words))) for _ in rd] if r.below(3) == 0 else [len(words)] * len(rd)
        res = list(words)
        for p_, w in sorted(zip(pos, rd), key=lambda x: -x[0]):
            res.insert(p_, w)
        stages.append(" ".join(res))
    return " | ".join(stages)


def gen_items(r, profile, nitems, maxst=4, limit=None):
    """items: ('P', line) | ('S', outer, inner); sentinels included"""
    cnt = [0]
    older = ["pre1", "pre2"]      # targets of earlier commands (and the pre-existing files): may be reused by a later command
    cur = []                      # targets used by the command being generated: never reused inside it

    def fresh():
        cand = [t for t in older if t not in cur]
        if cand and r.below(3) == 0:
            t = r.choice(cand)
        else:
            cnt[0] += 1
            t = "t%d" % cnt[0]
        cur.append(t)
        return t

    def next_command():
        older.extend(t for t in cur if t not in older)
        del cur[:]

    items = []
    if profile in ("redir", "mixed", "long") and r.below(2):
        items.append(("P", "alias q7=v"))
    if limit is not None:
        items.append(("P", "ulimit -n %d" % limit))
    for k in range(nitems):
        next_command()
        m = r.below(10)
        if profile in ("mixed", "long", "subst") and m < 2:
            inner_n = 1 + r.below(2)
            word = r.choice(["Esub%d" % k, "Wsub%d" % k, "x%d" % r.choice([0, 3])])
            kind = r.below(6)
            if kind == 0:
                inner = "minfd"
                outer = "fdstage o%d S" % k          # glued: the op becomes S<number>
            elif kind == 1:
                inner = "alias"
                outer = "fdstage o%d " % k
            else:
                st = []
                for i in range(inner_n):
                    tag = "c%dx%d" % (k, i)
                    ops = ["F"] if i > 0 else []
                    if i == 0:
                        ops.append("W" + word)
                    if r.below(3) == 0:
                        ops.append("E%se" % tag)
                    rd = ""
                    if r.below(5) == 0:
                        # (2>&1 on an inner non-last stage would put a second line into the captured text)
                        rd = " " + r.choice((["2>&1"] if i == inner_n - 1 else []) + ["1>&2", "> " + fresh(), "2> " + fresh()])
                    st.append("fdstage %s %s%s" % (tag, " ".join(ops), rd))
                inner = " | ".join(st)
                outer = "fdstage o%d " % k
            items.append(("S", outer, inner))
        else:
            items.append(("P", gen_pipeline(r, k, profile, maxst, fresh)))
        items.append(("P", "fdstage q%d P S$?" % k))
    return items


BUILTIN_OPS = ["> %s", ">> %s", "1> %s", "2> %s", "2>> %s", "2>&1", "1>&2", ">&2"]
BUILTIN_CMDS = ["alias", "alias a b c", "minfd"]      # prints to stdout / a usage error to stderr / a number to stdout


def builtin_redir_lists(r, tier):
    """redirection lists for a builtin that is the whole line: every list of length 1 and 2 over BUILTIN_OPS (quick) or 1..3
    (thorough), plus random lists of length 3 and 4; each list is a tuple of op templates"""
    ls = [(a,) for a in BUILTIN_OPS] + [(a, b) for a in BUILTIN_OPS for b in BUILTIN_OPS]
    if tier != "quick":
        ls += [(a, b, c) for a in BUILTIN_OPS for b in BUILTIN_OPS for c in BUILTIN_OPS]
    for _ in range(36 if tier == "quick" else 400):
        ls.append(tuple(r.choice(BUILTIN_OPS) for _ in range(3 + r.below(2))))
    # a target that cannot be opened AFTER redirections that succeeded (what the earlier ones opened must be given back)
    bad = ["> adir", "2> nodir/x", ">> adir", "1> nodir/x"]
    for a in BUILTIN_OPS:
        for b in (bad if tier != "quick" else bad[:2]):
            ls.append((a, b))
            ls.append((a, a, b))
    return ls


def builtin_redir_sessions(r, tier, per_session=6):
    """sessions made of builtins that are the whole line, each with one of the lists above (left-to-right meaning of
    `2> f 1>&2`, `1>&2 2> f`, `2>&1 > f` ... on the builtin path of `builtins::utils`)"""
    lists = builtin_redir_lists(r, tier)
    sessions = []
    k = 0
    items = []
    for i, ops in enumerate(lists):
        if not items:
            items = [("P", "alias q7=v")]
            k = 0
            tn = 0
        words = []
        for op in ops:
            if "%s" in op:
                tn += 1
                # a target that already has content (truncation must empty it, append must keep it), at most once each per command
                free = [t for t in ("pre1", "pre2") if t not in " ".join(words)]
                tgt = r.choice(free) if free and r.below(3) == 0 else "t%d" % tn
                w = op % tgt
                words.append(w if r.below(2) else w.replace(" ", "", 1))
            else:
                words.append(op)
        cmd = BUILTIN_CMDS[i % len(BUILTIN_CMDS)]
        items.append(("P", cmd + " " + " ".join(words)))
        items.append(("P", "fdstage q%d P S$?" % k))
        k += 1
        if k == per_session:
            sessions.append(items)
            items = []
    if items:
        sessions.append(items)
    return sessions


def render_script(items):
    lines = []
    for it in items:
        if it[0] == "P":
            lines.append(it[1])
        else:
            lines.append("%s$(%s)" % (it[1], it[2]))
    return "\n".join(lines) + "\n"


def make_case(items, limit=0, stream="fdsess", meta=None, mode="script"):
    enc = ";".join(("P:" + hx(it[1])) if it[0] == "P" else ("S:%s:%s" % (hx(it[1]), hx(it[2]))) for it in items)
    script = render_script(items)
    allfiles = dict(PRE_FILES)
    for tag in re.findall(r"source (s\d+x\d+)\.sh", script):
        allfiles[tag + ".sh"] = ["fdstage " + tag]          # a sourced file holds one line: the helper named after it
    files = ";".join(hx(n) + "=" + ",".join(hx(l) for l in ls) for n, ls in sorted(allfiles.items()))
    m = {"gen": "q", "script": script, "mode": mode, "files": allfiles}
    if meta:
        m.update(meta)
    return Case(stream, [str(limit), enc, ",".join(hx(x) for x in UNWRITABLE), ",".join(hx(x) for x in UNREADABLE),
                         ",".join(hx(x) for x in NOTFOUND), ",".join(hx(x) for x in STDIN_LINES), files, mode], m)


CORPUS = [
    # `source` as a pipeline stage / as the whole line: the program it starts begins with 0, 1, 2 only
    ([("P", "source s0x0.sh | fdstage a0x1 R | fdstage a0x2 R"), ("P", "fdstage q0 P S$?"),
      ("P", "fdstage a1x0 | source s1x1.sh | fdstage a1x2 R | fdstage a1x3 R"), ("P", "fdstage q1 P S$?"),
      ("P", "source s2x0.sh"), ("P", "fdstage q2 P S$?"), ("P", "fdstage a3x0 | source s3x1.sh"), ("P", "fdstage q3 P S$?")], "script"),
    # (items, mode): witnesses of repaired defects and of known findings; they run first in every check
    ([("P", "fdstage a0x0 2>&1"), ("P", "fdstage q0 P S$?"), ("P", "fdstage a1x0 1>&2"), ("P", "fdstage q1 P S$?")], "script"),
    ([("S", "fdstage o0 S", "minfd"), ("P", "minfd"), ("P", "fdstage q0 P S$?")], "script"),
    ([("P", "fdstage a0x0 Wx | fdstage a0x1 R <<< foo"), ("P", "fdstage q0 P S$?")], "script"),
    ([("P", "fdstage a0x0 | fdstage a0x1 R | fdstage a0x2 R <<< foo"), ("P", "fdstage q0 P S$?")], "script"),
    ([("P", "fdstage a0x0 > t1 2>&1 Wo Ee"), ("P", "fdstage a1x0 2>&1 > t2 Wo Ee"), ("P", "fdstage q1 P S$?")], "script"),
    ([("P", "alias q7=v"), ("P", "alias 1>&2 2> t1"), ("P", "fdstage q0 P S$?"), ("P", "alias a b c 2>&1 > t2"), ("P", "fdstage q1 P S$?")], "script"),
    ([("P", "minfd 1>&2 >&2"), ("P", "fdstage q0 P S$?"), ("P", "minfd 1>&2 1> t1"), ("P", "fdstage q1 P S$?")], "script"),
    ([("P", "alias q7=v"), ("P", "alias > adir"), ("P", "fdstage q0 P S$?"), ("P", "fdstage a1x0 Wo > nodir/x"), ("P", "fdstage q1 P S$?")], "script"),
    ([("S", "fdstage o0 ", "fdstage c0x0 WEzz Ec0 2> t1"), ("P", "fdstage q0 P S$?"), ("S", "fdstage o1 ", "fdstage c1x0 WEzz > t2"), ("P", "fdstage q1 P S$?")], "script"),
    ([("S", "fdstage o0 ", "fdstage c0x0 WEzz Ec0 2>&1"), ("P", "fdstage q0 P S$?")], "script"),
    ([("P", "ulimit -n 8"), ("S", "fdstage o0 ", "fdstage c0x0 Wx0 | fdstage c0x1 F"), ("P", "fdstage q0 P S$?")], "c"),
    ([("P", "ulimit -n 6"), ("P", "fdstage a0x0 <<< hs | fdstage a0x1 R"), ("P", "fdstage q0 P S$?"), ("P", "fdstage a1x0 Wok"), ("P", "fdstage q1 P S$?")], "c"),
    ([("P", "ulimit -n 7"), ("P", "fdstage a0x0 | fdstage a0x1 R <<< hs | fdstage a0x2 R"), ("P", "fdstage q0 P S$?")], "c"),
    ([("P", "nosuchprog <<< hs"), ("P", "fdstage q0 P S$?"), ("P", "fdstage a1x0 R >> nodir/x <<< hs"), ("P", "fdstage q1 P S$?")], "script"),
    # a here-string larger than a pipe buffer given to a command that never reads it (the shell used to die of SIGPIPE)
    ([("P", "fdstage a0x0 <<< " + "x" * 65536), ("P", "fdstage q0 P S$?")], "script"),
    # ... and afterwards the shell must not be left ignoring SIGPIPE: a later writer behind an early-exiting reader is still woken up
    ([("P", "fdstage a0x0 <<< " + "x" * 100000), ("P", "fdstage q0 P S$?"), ("P", "fdstage g0 G"), ("P", "fdstage q1 P S$?")], "script"),
    # the empty word is a word: `<<< ""` supplies one empty line, `< ""` names a file that cannot be opened
    ([("P", 'fdstage a0x0 R <<< ""'), ("P", "fdstage q0 P S$?"), ("P", "fdstage a1x0 Wup | fdstage a1x1 R <<< ''"), ("P", "fdstage q1 P S$?"),
      ("P", 'fdstage a2x0 R < ""'), ("P", "fdstage q2 P S$?")], "script"),
]


def corpus_cases():
    return [make_case(items, mode=mode, meta={"corpus": True}) for items, mode in CORPUS]


# ----------------------------------------------------------------------------- running

def hexlines(data):
    ls = data.split("\n")
    if ls and ls[-1] == "":
        ls = ls[:-1]
    return ls


def canon_target(mode, tgt, cwd, std):
    acc = mode.replace("c", "")
    if tgt in std:
        return "i%d" % std[tgt]
    m = re.fullmatch(r"pipe:\[(\d+)\]", tgt)
    if m:
        return ("pr" if acc.startswith("r") and not acc.startswith("rw") else "pw") + m.group(1)
    if tgt.startswith(cwd + "/"):
        rel = tgt[len(cwd) + 1:]
        md = 0 if acc == "r" else (2 if "a" in acc else 1)
        return "f%d:%s" % (md, hx(rel))
    if tgt == "/dev/null":
        return "f0:" + hx("/dev/null")
    return "u:" + hx(tgt)


def table_text(text, cwd, std):
    ent = []
    for l in text.split("\n"):
        p = l.split(" ", 2)
        if len(p) == 3 and p[0].isdigit():
            ent.append((int(p[0]), canon_target(p[1], p[2], cwd, std)))
    return ",".join("%d=%s" % e for e in sorted(ent))


def canon_pipes(s):
    """rename pipe identities in order of first appearance"""
    names = {}

    def sub(m):
        k = m.group(2)
        if k not in names:
            names[k] = str(len(names))
        return m.group(1) + names[k]
    return re.sub(r"(=p[rw])(\d+)", sub, s)


def run_session(cicada, case, idx, timeout=60):
    sb = proc.Sandbox("fds%d" % idx)
    try:
        cwd = sb.cwd
        obs = os.path.join(sb.dir, "obs")
        os.makedirs(obs)
        for n, ls in case.meta.get("files", PRE_FILES).items():
            open(os.path.join(cwd, n), "w").write("".join(l + "\n" for l in ls))
        os.makedirs(os.path.join(cwd, "adir"))
        fin = os.path.join(sb.dir, "in.txt"); fout = os.path.join(sb.dir, "out.txt"); ferr = os.path.join(sb.dir, "err.txt")
        open(fin, "w").write("".join(l + "\n" for l in STDIN_LINES))
        spath = os.path.join(sb.dir, "session.sh")
        open(spath, "w").write(case.meta["script"])
        std = {os.path.realpath(fin): 0, os.path.realpath(fout): 1, os.path.realpath(ferr): 2, os.path.realpath(spath): 3}
        with open(fin) as i, open(fout, "w") as o, open(ferr, "w") as e:
            try:
                argv = [cicada, spath] if case.meta.get("mode", "script") == "script" else [cicada, "-c", " ; ".join(case.meta["script"].strip().split("\n"))]
                p = subprocess.run(argv, cwd=cwd, env=sb.env({"OBS_DIR": obs}), stdin=i, stdout=o, stderr=e, timeout=timeout)
                rc = p.returncode
            except subprocess.TimeoutExpired:
                return "HANG"
        if rc < 0 or rc == 101:
            return "CRASH rc=%d" % rc
        recs = []
        rcwd = os.path.realpath(cwd)
        counts = {}
        sp = os.path.join(obs, "starts")
        if os.path.exists(sp):
            for t in open(sp).read().split("\n"):
                if t:
                    counts[t] = counts.get(t, 0) + 1
        for f in sorted(os.listdir(obs)):
            if "." not in f:
                continue
            tag, kind = f.rsplit(".", 1)
            data = open(os.path.join(obs, f), errors="replace").read()
            if kind == "fds":
                recs.append("T:%s:%s" % (tag, table_text(data, rcwd, std)))
            elif kind == "pfds":
                recs.append("P:%s:%s" % (tag, table_text(data, rcwd, std)))
            elif kind == "stdin":
                recs.append("I:%s:%s" % (tag, ",".join(hx(l) for l in hexlines(data) if not l.startswith("cicada:"))))
            elif kind == "S":
                recs.append("S:%s:%s" % (tag, data))
            elif kind == "in":
                recs.append("D:%s:%s" % (tag, hx(data.strip())))
        for t, n in sorted(counts.items()):
            if n != 1:
                recs.append("N:%s:%d" % (t, n))
        recs.sort()
        files = []
        for dp, dn, fn in os.walk(rcwd):
            for f in fn:
                rel = os.path.relpath(os.path.join(dp, f), rcwd)
                ls = [l for l in hexlines(open(os.path.join(dp, f), errors="replace").read()) if not l.startswith("cicada:")]
                files.append("F:%s:%s" % (hx(rel), ",".join(sorted(hx(l) for l in ls))))
        files.sort()
        drop = lambda ls: [l for l in ls if not l.startswith("cicada:")]
        o = sorted(hx(l) for l in drop(hexlines(open(fout, errors="replace").read())))
        e = sorted(hx(l) for l in drop(hexlines(open(ferr, errors="replace").read())))
        return canon_pipes("|".join(recs + files + ["O:" + ",".join(o), "E:" + ",".join(e)]))
    finally:
        sb.cleanup()


def run_cases(cicada, cases):
    def one(ic):
        i, c = ic
        try:
            return c.id, run_session(cicada, c, i)
        except Exception as ex:   # harness error: reported as such
            return c.id, "HARNESS-ERROR %r" % (ex,)
    return dict(proc.pmap(one, list(enumerate(cases))))


# ----------------------------------------------------------------------------- projections (what each property looks at)

def split_obs(x):
    return x.split("|") if x else []


def proj(prop, x):
    if x.startswith(("HANG", "CRASH", "HARNESS", "UNMODELLED", "MISSING")):
        return x
    out = []
    for rec in split_obs(x):
        k = rec[:2]
        if prop == "C08":
            if k == "T:":
                tag, tab = rec[2:].split(":", 1)
                out.append("T:%s:%s" % (tag, ",".join(e.split("=")[0] for e in tab.split(",") if e)))
            elif k in ("P:", "S:", "N:"):
                out.append(rec)
        elif prop == "C04":
            if k == "T:":
                tag, tab = rec[2:].split(":", 1)
                out.append("T:%s:%s" % (tag, ",".join(e for e in tab.split(",") if e and int(e.split("=")[0]) < 3)))
            elif k in ("S:", "N:", "F:", "O:", "E:", "I:"):
                out.append(rec)
        else:  # C02
            if k == "T:":
                tag, tab = rec[2:].split(":", 1)
                out.append("T:%s:%s" % (tag, ",".join(e for e in tab.split(",") if e and int(e.split("=")[0]) < 3)))
            elif k in ("S:", "N:", "I:", "O:", "D:"):
                out.append(rec)
    return canon_pipes("|".join(out))
