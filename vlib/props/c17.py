"""C17 — aliases replace exactly the command word, once, and can be listed and removed."""
from .. import core, gens
from ..core import Case, hx, toks

ID = "C17"
NEEDS_BINARY = False
NAMES = ["ls", "ll", "g", "a.b", "x-y", "A_1", "9z", "wc", "xargs", "foo"]
VALUES = ["ls -l", "ls --color=auto", "ls | wc", "echo 'a b'", 'echo "x y"', "ll -a", "g", "foo bar foo", "wc -l", "it's", "say \"hi\"", "a  b",
          "echo $HOME", "x;y", "", "xargs ls", "ls > f", "-n", "é ü",
          '"x y" z', "echo $$", "echo {a,b}", "echo (p) #c", " ", "   "]       # (all-blank values: the command word simply disappears)
RULE = ("alias tables over 10 names drawn from [A-Za-z0-9_.-]+ (incl. `xargs`) and 19 values (options, blanks, quotes of the other kind, "
        "pipes, other alias names, self reference, empty): token lists of 1..3 stages with alias names as first and as non-first words "
        "through shell::expand_alias vs the Lean model vs the Lean spec; random sequences (<= 20) of define (3 quoting spellings) / redefine / "
        "unalias / list / show-one / use through the real builtins in-process vs the model; listing fed back to a fresh shell. "
        "non-trivial = distinct cases in which at least one word is replaced or the table changes")


def generate(tier, rng):
    cases = []
    r = rng.fork("c17")
    n = 4000 if tier == "quick" else 60000
    for _ in range(n):
        table = {}
        for _ in range(1 + r.below(5)):
            table[r.choice(NAMES)] = r.choice(VALUES)
        env = gens.env_field(aliases=table, exported={"HOME": "/h"})
        ns = 1 + r.below(3)
        stages = []
        for _ in range(ns):
            k = 1 + r.below(4)
            st = []
            for j in range(k):
                w = r.choice(NAMES + ["-l", "file", "'ls'", "|x", "ls"])
                sep = r.choice(["", "", "", "'", '"'])
                st.append((sep, w))
            stages.append(st)
        joined = []
        for i, st in enumerate(stages):
            if i:
                joined.append(("", "|"))
            joined += st
        cases.append(Case("xalias", [env, toks(joined), "c17", ";".join(toks(s) for s in stages)], {"gen": "g", "t": toks(joined), "env": env}))
    for _ in range(n // 2):
        table = {}
        for _ in range(r.below(4)):
            table[r.choice(NAMES)] = r.choice(VALUES)
        env = gens.env_field(aliases=table, exported={"HOME": "/h"})
        ops = []
        # one case in three is a LIFE CYCLE of one or two names: define, use, re-define or remove, define again, use again
        # (what a name means is what the table says NOW, however often it was used or removed before)
        cyc = [r.choice(NAMES) for _ in range(1 + r.below(2))] if r.chance(1, 3) else None
        for _ in range(1 + r.below(20)):
            k = r.below(8)
            nm = r.choice(NAMES)
            if cyc is not None:
                nm = r.choice(cyc)
                k = r.choice([0, 1, 3, 6, 6, 6, 5])
            v = r.choice(VALUES)
            if k <= 2:
                q = r.choice(["'%s'", '"%s"', "%s"])
                if q == "%s":
                    v = v.replace(" ", "_")
                ops.append("alias %s=%s" % (nm, q % v))
            elif k == 3:
                ops.append("unalias %s" % nm)
            elif k == 4:
                ops.append("alias")
            elif k == 5:
                ops.append("alias %s" % nm)
            elif k == 6 and cyc is None and r.below(3) == 0:
                ops.append("unset %s" % r.choice(["ls", "ll", "g", "x-y", "A_1", "wc", "foo"]))      # removes variables / functions, never an alias
            elif k == 6:
                ops.append("use %s -x %s | %s a" % (nm, r.choice(NAMES), r.choice(cyc if cyc is not None else NAMES)))
            else:
                ops.append(r.choice(["alias a b c", "unalias", "alias =x", "alias x=", "alias 'q r'=1", "unalias a b"]))
        cases.append(Case("bseq", [env, ",".join(hx(o) for o in ops)], {"gen": "seq", "ops": tuple(ops)}))
        cases.append(Case("aliasrt", [env], {"gen": "rt", "env": env}))
    return cases


def nontrivial(c, M, S, g, cls):
    if c.stream == "xalias":
        return (c.meta["env"], c.meta["t"]) if M != c.meta["t"] else None
    if c.stream == "bseq":
        return c.meta["ops"]
    return c.meta.get("env")
