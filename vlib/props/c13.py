"""C13 — results of expansions are data and are never re-read as shell syntax."""
import os
from .. import core, gens, proc
from ..core import Case, hx

ID = "C13"
NEEDS_BINARY = True
VALUES = ["|", "&", ";", "<", ">", "a>b", "<f", "2>&1", ";x", "#c", ">>", "a|b", "&&", "||", " ", "x y", "*", "'", '"', "\\", "$Y", "${Y}",
          "`id`", "$(id)", "~", "{a,b}", "", "-n", "a b>c", "<<<", "1>&2", "a;b", "é|", "2>e", "&x", "x&", "(", ")", "a\nb", "A=1",
          "<<<a>b", "<f>g"]          # an operand-shaped value holding a second operator (seed C13-4 cut such operands at the `>`)
FORMS = {"v": "$%s", "b": "${%s}", "p": "$(%s)", "q": "`%s`"}
RULE = ("values / outputs containing each operator character alone and embedded (40 values) delivered through $NAME, ${NAME}, $(...), "
        "backquotes, unquoted and double-quoted, at every argument position of a 1..3-argument command: line_to_cmds + "
        "CommandLine::from_line in-process (scripted command outputs) vs the Lean model vs the Lean spec (shape of the plan; argv for "
        "double-quoted deliveries); filename expansion as the delivery (patterns over a fixture directory whose 21 entries spell operators, "
        "redirections, substitutions, ranges, quotes: the glob crate's own answers are the oracle); double-quoted variable deliveries through the real binary with an argv helper and a new-file check. "
        "non-trivial = distinct (value, form, quoting, position)")


def mk(p, ds, vals, meta):
    """ds: list of (form, idx, dq); vals: list of values"""
    vars_ = {}
    cmds = {}
    parts = [p]
    enc = []
    for form, i, dq in ds:
        name = "N%d" % i if form in "vb" else "out%d" % i
        if form in "vb":
            vars_[name] = vals[i]
        else:
            cmds[name] = vals[i] + "\n"
        core_ = FORMS[form] % name
        parts.append('"%s"' % core_ if dq else core_)
        enc.append("%s:%s:%d" % (form, hx(name), 1 if dq else 0))
    line = " ".join(parts)
    env = gens.env_field(vars=vars_, exported={"HOME": "/h"}, cmds=cmds)
    kind = "argv" if all(dq for _, _, dq in ds) else "shape"
    m = dict(meta); m["kind"] = kind
    return Case("plan1", [env, hx(line), "c13", hx(p), ",".join(enc) or "[]"], m)


def generate(tier, rng):
    cases = []
    for vi, v in enumerate(VALUES):
        for form in "vbpq":
            for dq in (True, False):
                # alone, first of two, last of two, middle of three
                for pos, n in ((0, 1), (0, 2), (1, 2), (1, 3)):
                    vals = ["w%d" % k for k in range(n)]
                    vals[pos] = v
                    ds = [("v", k, True) for k in range(n)]
                    ds[pos] = (form, pos, dq)
                    cases.append(mk("prog", ds, vals, {"gen": "e", "v": v, "form": form, "dq": dq, "pos": (pos, n)}))
    # the SAME word delivered twice on one line, once unquoted and once double-quoted, in both orders (each occurrence keeps its own quoting)
    for v in VALUES:
        for form in "vb":
            for first_dq in (False, True):
                ds = [(form, 0, first_dq), (form, 0, not first_dq)]
                cases.append(mk("prog", ds, [v], {"gen": "twice", "v": v, "form": form + form, "dq": (first_dq, not first_dq), "pos": "same-word"}))
                ds3 = [("v", 1, True), (form, 0, first_dq), (form, 0, not first_dq)]
                cases.append(mk("prog", ds3, [v, "w"], {"gen": "twice", "v": v, "form": "v" + form + form, "dq": (True, first_dq, not first_dq), "pos": "same-word-3"}))
    # filename expansion as the delivery: patterns over the fixture's `ops/` directory, whose entries spell shell syntax
    genv = gens.env_field(exported={"HOME": "/h"})
    for pat in ["ops/g*", "ops/h*", "ops/i*", "ops/j*", "ops/k*", "ops/l*", "ops/m*", "ops/n*", "ops/o*", "ops/p*", "ops/r*", "ops/s*", "ops/t*",
                "ops/v*", "ops/w*", "ops/*", "ops/&*", "ops/|*", "ops/>*", "ops/<*", "ops/y*", "ops/~*", "ops/*x", "ops/*k", "ops/*&", "ops/[*", "ops/nomatch*"]:
        for p in ("prog", "./argv"):
            cases.append(Case("plan1", [genv, hx(p + " " + pat), "c13g", hx(p), hx(pat)], {"gen": "glob", "v": pat, "form": "g", "dq": False, "pos": p, "kind": "argv"}))
    # data that travels through an alias: the value holds a double-quoted expansion, the variable holds operator characters
    for v in ["a>b", "<f", "|", "&", "2>&1", ">x", "a b", ";", "*"]:
        aenv = gens.env_field(vars={"V": v}, exported={"HOME": "/h"}, aliases={"show": 'prog "$V"', "sh2": 'prog "${V}" \'$V\' z'}, cmds={"o0": v + "\n"})
        for line in ("show", "show tail", "sh2", "x | show", "show ; sh2"):
            cases.append(Case("plan", [aenv, hx(line)], {"gen": "alias", "v": v, "form": "alias", "dq": True, "pos": line, "kind": "shape"}))
    r = rng.fork("c13")
    n = 2000 if tier == "quick" else 30000
    for _ in range(n):
        k = 1 + r.below(4)
        vals = [r.choice(VALUES) if r.chance(2, 3) else gens.rand_string(r, gens.META + ["a", " ", "é"], 0, 5) for _ in range(k)]
        ds = [(r.choice("vbpq"), i, r.chance(1, 2)) for i in range(k)]
        if k >= 2 and r.chance(1, 4):
            # one delivery repeats an earlier one's source (same variable / same command), with its own quoting
            j = 1 + r.below(k - 1)
            ds[j] = (ds[j - 1][0], ds[j - 1][1], r.chance(1, 2))
        cases.append(mk(r.choice(["prog", "./argv", "x-1"]), ds, vals, {"gen": "g", "v": tuple(vals), "form": tuple(d[0] for d in ds), "dq": tuple(d[2] for d in ds), "pos": None}))
    return cases


def project(c, s):
    if s.startswith("shape|") or not s.startswith("ok|"):
        return s
    from .c01 import project as argv_proj
    if c.meta.get("kind") != "shape":
        return argv_proj(c, s)
    parts = s.split("|")
    if len(parts) != 4:
        return s
    cmds = [] if parts[3] == "[]" else parts[3].split(";")
    red, frm = [], []
    for cm in cmds:
        x = cm.split("/")
        if len(x) == 3:
            if x[1] != "[]":
                red.append(x[1])
            if x[2] != "none":
                frm.append(x[2])
    return "shape|%d|%s|%s|%s|%s" % (len(cmds), ",".join(red) or "[]", ",".join(frm) or "[]", parts[1], parts[2])


def nontrivial(c, M, S, g, cls):
    return (c.meta.get("v"), c.meta.get("form"), c.meta.get("dq"), c.meta.get("pos"))


def process(tier, rng, cicada):
    r = rng.fork("c13-p")
    safe = [v for v in VALUES if "`" not in v and "$(" not in v and "\n" not in v]
    cases = []
    n = 120 if tier == "quick" else 1500
    for i in range(n):
        k = 1 + r.below(3)
        vals = [r.choice(safe) for _ in range(k)]
        ds = [(r.choice("vb"), j, True) for j in range(k)]
        c = mk("argv", ds, vals, {"gen": "p", "vals": vals})
        c.id = "p%d" % i
        cases.append(c)
    sb = proc.Sandbox("c13")

    def one(c):
        d = os.path.join(sb.dir, c.id)
        os.makedirs(d)
        log = os.path.join(sb.dir, "argv-" + c.id)
        ex = {"ARGV_LOG": log}
        for j, v in enumerate(c.meta["vals"]):
            ex["N%d" % j] = v
        old = sb.cwd
        try:
            import subprocess
            p = subprocess.run([cicada, "-c", core.unhx(c.fields[1])], cwd=d, env=sb.env(ex), stdin=subprocess.DEVNULL,
                               stdout=subprocess.PIPE, stderr=subprocess.PIPE, timeout=20)
            rc = p.returncode
        except Exception as e:
            rc = "EXC"
        recs = []
        if os.path.exists(log):
            lines = open(log).read().split("\n")
            os.remove(log)
            if lines and lines[0]:
                recs = lines[1:1 + int(lines[0])]
        created = sorted(os.listdir(d))
        if created:
            return c.id, "CREATED-FILES %r" % created
        if not recs:
            return c.id, "NOT-RUN rc=%s" % rc
        return c.id, "ok|0|[]|%s/[]/none" % ",".join(recs)

    impl = dict(proc.pmap(one, cases))
    sb.cleanup()
    return [("-c", cases, impl)]
