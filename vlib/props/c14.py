"""C14 — scripts execute exactly the command sequence their block structure prescribes."""
import os, subprocess
from .. import core, gens, proc
from ..core import Case, hx

ID = "C14"
NEEDS_BINARY = True
RULE = ("random abstract syntax trees (depth <= 4, <= 30 nodes) over {command, if with 0..3 else-if arms and optional else, for over 0..4 "
        "words, while with a scripted condition, break, continue}, rendered in both spellings (newline form and `; then` / `; do`) with "
        "varied indentation and blank lines, plus truncated / unbalanced variants and random keyword soup: (i) the pest parse tree through "
        "locust::parse_lines vs the Lean PEG model; (ii) execution through the real binary: commands are marker-writing stage helpers, "
        "conditions answered by a helper from a programmed status sequence; ordered marker trace vs the Lean interpreter model vs the "
        "structured semantics. non-trivial = distinct scripts with at least one block")


class Gen:
    def __init__(self, r):
        self.r = r
        self.n = 0
        self.cond = 0
        # one script in three carries quoted `#` characters inside block heads (a head is taken verbatim up to the line end or `; then`;
        # unquoted `#`, `a#b` and `\\#` are cut by the line-level comment rule when the head is run, which is not this property's matter)
        self.hashy = r.chance(1, 3)
        self.deco = {}
        self.compound = {}

    def newcond(self, part=False):
        self.cond += 1
        c = self.cond
        if self.hashy and self.r.chance(1, 2):
            self.deco[c] = self.r.choice([" '#'", ' "#"', " '#x y'", " '# fi'", " '#'"])
        if not part and self.r.chance(1, 4):
            # a head that is a list: the block is entered on the status of the LAST command the list ran
            self.compound[c] = [(self.r.choice(["||", "&&"]), self.newcond(True)) for _ in range(1 + self.r.below(2))]
        return c

    def base(self, c):
        return "cond %d%s" % (c, self.deco.get(c, ""))

    def ctext(self, c):
        return self.base(c) + "".join(" %s %s" % (op, self.base(c2)) for op, c2 in self.compound.get(c, []))

    def block(self, depth, in_loop, budget):
        k = 1 + self.r.below(3)
        out = []
        for _ in range(k):
            if budget[0] <= 0:
                break
            out.append(self.stmt(depth, in_loop, budget))
        if not out:
            out.append(self.cmd())
        return out

    def cmd(self):
        self.n += 1
        return ("cmd", self.n)

    def stmt(self, depth, in_loop, budget):
        budget[0] -= 1
        r = self.r
        kinds = ["cmd", "cmd", "cmd"]
        if depth > 0:
            kinds += ["if", "if", "for", "while"]
        if in_loop:
            kinds += ["break", "continue"]
        k = r.choice(kinds)
        if k == "cmd":
            return self.cmd()
        if k in ("break", "continue"):
            return (k,)
        if k == "if":
            arms = []
            for _ in range(1 + r.below(4)):
                arms.append((self.newcond(), self.block(depth - 1, in_loop, budget)))
            els = self.block(depth - 1, in_loop, budget) if r.chance(1, 2) else None
            return ("if", arms, els)
        if k == "for":
            words = ["w%d" % i for i in range(r.below(5))]
            if getattr(self, "globs", False) and r.chance(1, 5):
                words = ["*.txt"]            # a word list produced by filename expansion (one of the names holds a blank)
            return ("for", "v%d" % r.below(3), words, self.block(depth - 1, True, budget))
        return ("while", self.newcond(), self.block(depth - 1, True, budget))


def render(block, style, r, ind=0, ct=lambda c: "cond %d" % c):
    """style: 'nl' or 'semi'"""
    out = []
    pad = lambda: " " * (ind if r is None else (ind + (r.below(3) if r.chance(1, 4) else 0)))
    for s in block:
        if r is not None and r.chance(1, 10):
            out.append("")
        if s[0] == "cmd":
            out.append(pad() + "stage %d 0" % s[1])
        elif s[0] in ("break", "continue"):
            out.append(pad() + s[0])
        elif s[0] == "if":
            for i, (c, b) in enumerate(s[1]):
                kw = "if" if i == 0 else "else if"
                out.append(pad() + "%s %s%s" % (kw, ct(c), "; then" if style == "semi" else ""))
                out += render(b, style, r, ind + 4, ct)
            if s[2] is not None:
                out.append(pad() + "else")
                out += render(s[2], style, r, ind + 4, ct)
            out.append(pad() + "fi")
        elif s[0] == "for":
            out.append(pad() + "for %s in %s%s" % (s[1], " ".join(s[2]) if s[2] else "$EMPTY", "; do" if style == "semi" else ""))
            out += render(s[3], style, r, ind + 4, ct)
            out.append(pad() + "done")
        elif s[0] == "while":
            out.append(pad() + "while %s%s" % (ct(s[1]), "; do" if style == "semi" else ""))
            out += render(s[2], style, r, ind + 4, ct)
            out.append(pad() + "done")
    return out


def wire(block, ct=lambda c: "cond %d" % c):
    out = []
    for st in block:
        if st[0] == "cmd":
            out += ["c", hx("stage %d 0" % st[1])]
        elif st[0] == "break":
            out.append("b")
        elif st[0] == "continue":
            out.append("k")
        elif st[0] == "if":
            out.append("i")
            for c, b in st[1]:
                out += ["t", hx(ct(c)), "{"] + wire(b, ct) + ["}"]
            if st[2] is not None:
                out += ["e", "{"] + wire(st[2], ct) + ["}"]
        elif st[0] == "for":
            out += ["f", hx(st[1]), hx(" ".join(st[2]) if st[2] else "$EMPTY"), "{"] + wire(st[3], ct) + ["}"]
        elif st[0] == "while":
            out += ["w", hx(ct(st[1])), "{"] + wire(st[2], ct) + ["}"]
    return out


def generate(tier, rng):
    cases = []
    r = rng.fork("c14")
    # execution: scripted statuses for every condition (a sequence ending in a non-zero status so that loops end)
    ne = 3000 if tier == "quick" else 50000
    for i in range(ne):
        g = Gen(r)
        b = g.block(1 + r.below(4), False, [30])
        style = r.choice(["nl", "semi"])
        text = "\n".join(render(b, style, r, 0, g.ctext)) + "\n"
        seq = {}
        for c in range(1, g.cond + 1):
            k = r.below(4)
            seq[g.base(c)] = [0] * k + [r.choice([1, 1, 2, 127])]
        for n_ in range(1, g.n + 1):
            if r.chance(1, 4):
                seq["stage %d 0" % n_] = [r.choice([0, 1, 3])]
        seqf = ",".join(hx(k) + ":" + ".".join(str(x) for x in v) for k, v in seq.items()) or "[]"
        env = gens.env_field(exported={"HOME": "/h"})
        cases.append(Case("srun", [env, hx(text), ",".join(hx(x) for x in ["cicada", "s.sh", "A1"]), seqf, ",".join(hx(x) for x in ["v0", "v1", "v2"]),
                                   " ".join(wire(b, g.ctext))], {"gen": "run", "t": text}))
    n = 6000 if tier == "quick" else 100000
    for i in range(n):
        g = Gen(r)
        b = g.block(1 + r.below(4), False, [30])
        lines = render(b, r.choice(["nl", "semi"]), r, 0, g.ctext)
        text = "\n".join(lines) + ("\n" if r.chance(5, 6) else "")
        kind = "ok"
        if r.chance(1, 5):
            # truncated / unbalanced variants
            k = r.below(3)
            if k == 0 and len(lines) > 1:
                del lines[r.below(len(lines))]
            elif k == 1:
                lines.insert(r.below(len(lines) + 1), r.choice(["fi", "done", "else", "if x", "for a in b", "while y", "else if z", "  fi  ", "fi;", "done x"]))
            else:
                lines = lines[: 1 + r.below(len(lines))]
            text = "\n".join(lines) + "\n"
            kind = "mut"
        cases.append(Case("ptree", [hx(text)], {"gen": kind, "t": text}))
    soup = ["if a", "if a; then", "fi", "else", "else if b", "for x in 1 2", "for x in 1; do", "done", "while c", "while c; do", "cmd", "  cmd x ", "", " ", "\t",
            "if", "fix", "done.", "elsewhere", "for x", "forx in y", "if a ;  then", "if a;then", "echo ; then", "break", "continue", "é", "if a; do", "while b; then",
            "if a '#' b", "if a \"#\"; then", "while c '#x'", "for x in 1 '#' 2", "for x in a#b; do", "else if b '#'", "cmd # x", "echo '#'", "fi # x", "done #", "else #"]
    for _ in range(n):
        k = 1 + r.below(7)
        text = "\n".join(r.choice(soup) for _ in range(k)) + r.choice(["\n", "", "\n\n", " "])
        cases.append(Case("ptree", [hx(text)], {"gen": "soup", "t": text}))
    return cases


def nontrivial(c, M, S, g, cls):
    return c.meta["t"] if ("EXP_IF" in M or "EXP_FOR" in M or "EXP_WHILE" in M) else None


def project(c, s):
    """process-level traces carry no variable values: compare (line, status) only"""
    if c.meta.get("gen") != "p" or s in ("[]", "SYNTAX-ERROR", "HANG") or ":" not in s:
        return s
    return ",".join(":".join(x.split(":")[:2]) for x in s.split(","))


def process(tier, rng, cicada):
    r = rng.fork("c14-p")
    n = 150 if tier == "quick" else 3000
    cases = []
    for i in range(n):
        g = Gen(r)
        g.hashy = False     # the condition helper takes exactly one argument
        g.globs = True
        b = g.block(1 + r.below(4), False, [25])
        text = "\n".join(render(b, r.choice(["nl", "semi"]), r, 0, g.ctext)) + "\n"
        seq = {}
        for c_ in range(1, g.cond + 1):
            seq["cond %d" % c_] = [0] * r.below(4) + [r.choice([1, 2, 127])]
        stat = {}
        for n_ in range(1, g.n + 1):
            stat[n_] = r.choice([0, 0, 0, 1, 3])
            text = text.replace("stage %d 0\n" % n_, "stage %d %d\n" % (n_, stat[n_]))
            seq["stage %d %d" % (n_, stat[n_])] = [stat[n_]]
        seqf = ",".join(hx(k) + ":" + ".".join(str(x) for x in v) for k, v in seq.items()) or "[]"
        w = " ".join(wire(b, g.ctext))
        for n_ in range(1, g.n + 1):
            w = w.replace(hx("stage %d 0" % n_), hx("stage %d %d" % (n_, stat[n_])))
        envf = gens.env_field(exported={"HOME": "/h"})
        if "*.txt" in text:
            envf += ";g=" + hx("*.txt") + ":" + hx("a.txt") + "/" + hx("b c.txt")      # what the glob crate answers in the session directory
        c = Case("srun", [envf, hx(text), ",".join(hx(x) for x in ["cicada", "s.sh"]), seqf, "[]", w],
                 {"gen": "p", "t": text, "seq": seq})
        c.id = "p%d" % i
        cases.append(c)
    sb = proc.Sandbox("c14")

    def one(c):
        d = os.path.join(sb.dir, c.id)
        os.makedirs(d)
        for k, v in c.meta["seq"].items():
            if k.startswith("cond "):
                open(os.path.join(d, k.split()[1] + ".seq"), "w").write(" ".join(str(x) for x in v))
        open(os.path.join(d, "s.sh"), "w").write(c.meta["t"])
        if "*.txt" in c.meta["t"]:
            for fn in ("a.txt", "b c.txt"):
                open(os.path.join(d, fn), "w").close()
        log = os.path.join(d, "trace.log")
        try:
            p = subprocess.run([cicada, os.path.join(d, "s.sh")], cwd=d, env=sb.env({"STAGE_LOG": log, "COND_DIR": d}), stdin=subprocess.DEVNULL,
                               stdout=subprocess.PIPE, stderr=subprocess.PIPE, timeout=30)
        except subprocess.TimeoutExpired:
            return c.id, "HANG"
        if b"syntax error" in p.stderr:
            return c.id, "SYNTAX-ERROR"
        out = []
        if os.path.exists(log):
            for ln in open(log).read().split("\n"):
                if not ln:
                    continue
                name, st = ln.rsplit(":", 1)
                text = name if name.startswith("cond ") else "stage %s %s" % (name, st)
                out.append("%s:%s" % (hx(text), st))
        return c.id, ",".join(out) or "[]"

    impl = dict(proc.pmap(one, cases))
    # the same block run TWICE in one shell with different positional parameters in its heads: a function called as `f 3 5` and then
    # `f 4 6` (`if cond $1`, `while cond $2`): each call must run what the structured semantics prescribes for ITS arguments
    ct = lambda c_: "cond $%d" % c_
    shapes = [
        [("if", [(1, [("cmd", 1)])], [("cmd", 2)]), ("cmd", 3)],
        [("while", 1, [("cmd", 1)]), ("if", [(2, [("cmd", 2)])], None)],
        [("if", [(1, [("cmd", 1)]), (2, [("cmd", 2)])], [("cmd", 3)])],
        [("while", 2, [("if", [(1, [("cmd", 1)])], [("cmd", 2)])]), ("cmd", 3)],
    ]
    twice = []
    for j in range(8 if tier == "quick" else 80):
        b = shapes[j % len(shapes)]
        body = "\n".join(render(b, r.choice(["nl", "semi"]), None, 4, ct)) + "\n"
        seq = {"cond %d" % k: [0] * r.below(3) + [r.choice([1, 2])] for k in (3, 4, 5, 6)}
        if j % 2 == 0:
            seq["cond 3"], seq["cond 4"] = [0, 1], [1]            # the two calls must take different branches
        for n_ in (1, 2, 3):
            seq["stage %d 0" % n_] = [0]
        seqf = ",".join(hx(k) + ":" + ".".join(str(x) for x in v) for k, v in seq.items())
        pair = []
        for tag, a in (("a", ["3", "5"]), ("b", ["4", "6"])):
            c = Case("srun", [gens.env_field(exported={"HOME": "/h"}), hx(body), ",".join(hx(x) for x in ["cicada", "f"] + a), seqf, "[]",
                              # the reference reads the block with THIS call's arguments in place of $1 / $2
                              " ".join(wire(b, lambda c_, a=a: "cond %s" % a[c_ - 1]))],
                     {"gen": "p", "t": "function f, call %s: %s" % (" ".join(a), body), "seq": seq})
            c.id = "q%d%s" % (j, tag)
            pair.append(c)
        twice.append((j, body, seq, pair))

    def one_twice(job):
        j, body, seq, pair = job
        d = os.path.join(sb.dir, "q%d" % j)
        os.makedirs(d)
        for k, v in seq.items():
            if k.startswith("cond "):
                open(os.path.join(d, k.split()[1] + ".seq"), "w").write(" ".join(str(x) for x in v))
        open(os.path.join(d, "s.sh"), "w").write("function f() {\n" + body + "}\nf 3 5\nstage 99 0\nf 4 6\n")
        log = os.path.join(d, "trace.log")
        try:
            p = subprocess.run([cicada, os.path.join(d, "s.sh")], cwd=d, env=sb.env({"STAGE_LOG": log, "COND_DIR": d}), stdin=subprocess.DEVNULL,
                               stdout=subprocess.PIPE, stderr=subprocess.PIPE, timeout=30)
        except subprocess.TimeoutExpired:
            return [(c.id, "HANG") for c in pair]
        if b"syntax error" in p.stderr:
            return [(c.id, "SYNTAX-ERROR") for c in pair]
        parts, cur = [], []
        for ln in (open(log).read().split("\n") if os.path.exists(log) else []):
            if not ln:
                continue
            name, st = ln.rsplit(":", 1)
            if name == "99":
                parts.append(cur)
                cur = []
                continue
            text = name if name.startswith("cond ") else "stage %s %s" % (name, st)
            cur.append("%s:%s" % (hx(text), st))
        parts.append(cur)
        if len(parts) != 2:
            return [(c.id, "MARKER-MISSING " + ",".join(cur)) for c in pair]
        return [(c.id, ",".join(pt) or "[]") for c, pt in zip(pair, parts)]

    for part in proc.pmap(one_twice, twice):
        impl.update(dict(part))
    cases = cases + [c for _, _, _, pair in twice for c in pair]
    sb.cleanup()
    return [("script", cases, impl)]
