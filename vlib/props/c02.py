"""C02 — pipelines deliver every byte, terminate, and report the last stage's status."""
import itertools, os, re, shutil, subprocess, time
from .. import core, fdsess, proc
from ..core import Case, hx

ID = "C02"
NEEDS_BINARY = True
RULE = ("process level, three streams on the real binary. (1) sessions of pipelines of 1..6 stages without redirections: helper stages that "
        "record the descriptors they start with, copy or read their stdin, write marker lines, exit with codes from 0..255; builtins "
        "and not-found commands in every position; `$?` after every pipeline (fdsess). (2) payload: `w<N> | f | … | r` with N from 0 to "
        "300 000 bytes (several pipe buffers: writers block), the sink reports byte count and FNV hash, compared with the pattern's; "
        "variants whose reader exits without reading (fdpay). (3) finishing order: n = 1..4 stages blocked on FIFOs are released in "
        "EVERY permutation (random orders for n = 5, 6), the last stage with every exit code class and terminating signals 1, 2, 9, 13, "
        "15; observed: `$?`, each stage started exactly once, and that the command after the pipeline has not started before the last "
        "stage was released (fdorder); the model's answer is wait_fg_job (Model/Jobs.lean) run on that very queue. Every run is under a "
        "watchdog: a pipeline that does not finish is reported as HANG. non-trivial = distinct shapes")
TRUSTED = ["byte transport, blocking, end-of-file and SIGPIPE are the kernel's: they are exercised by the payload stream, not modelled beyond "
           "'a pipe delivers what its writers wrote, in order, to the reader'",
           "the descriptor world of Model/Kernel.lean and helpers/fdstage.c"]
ASSUMPTIONS = ["a stage writes to its output pipe only when the next stage reads its input to the end (otherwise SIGPIPE races with the reader's exit)"]

CODES = [0, 1, 2, 3, 7, 42, 126, 127, 128, 129, 130, 200, 254, 255]
SIGS = [1, 2, 9, 13, 15]


def generate(tier, rng):
    return []


def project(c, x):
    if c.stream != "fdsess":
        return x
    return fdsess.proj("C02", x)


def nontrivial(c, M, S, g, cls):
    if M.startswith("UNMODELLED"):
        return None
    if c.stream == "list":
        return ("bg", c.meta.get("ops"), c.meta.get("sts"), c.meta.get("segs", [""])[0])
    if c.stream == "fdorder":
        return ("order", c.fields[0].count(",") + 1, c.fields[1], c.fields[0].split(",")[-1][:1])
    return re.sub(r"\d+", "N", c.meta.get("script", ""))


def gen_plain_items(r, nitems):
    """pipelines without redirections; builtins / not-found commands in every position"""
    items = []
    if r.below(2):
        items.append(("P", "alias q7=v"))
    for k in range(nitems):
        n = 1 + r.below(6)
        kinds = []
        for i in range(n):
            kd = r.below(10)
            kinds.append("builtin" if kd == 0 else ("notfound" if kd == 1 else "helper"))
        # at most one diagnostic-printing stage
        seen = False
        for i in range(n):
            if kinds[i] == "notfound":
                if seen:
                    kinds[i] = "helper"
                seen = True
        reads = [i > 0 and kinds[i] == "helper" for i in range(n)]
        quiet = n > 1 and "notfound" in kinds
        st = []
        for i in range(n):
            tag = "a%dx%d" % (k, i)
            can_write = i == n - 1 or reads[i + 1]
            if kinds[i] == "builtin":
                st.append("alias" if can_write else "alias q7=v")
            elif kinds[i] == "notfound":
                st.append("nosuchprog x")
            else:
                ops = []
                if reads[i]:
                    ops.append(r.choice(["R", "F"]) if can_write else "R")
                if can_write and r.below(4):
                    ops.append("W%so" % tag)
                if r.below(3) and not quiet:
                    ops.append("E%se" % tag)
                if r.below(2):
                    ops.append("x%d" % r.choice(CODES) if r.below(5) else "xs%d" % r.choice(SIGS))
                st.append(" ".join(["fdstage", tag] + ops))
        items.append(("P", " | ".join(st)))
        items.append(("P", "fdstage q%d P S$?" % k))
    return items


# ----------------------------------------------------------------------------- payload stream

def seed_of(tag):
    s = 7
    for ch in tag.encode():
        s = (s * 31 + ch) & 0xff
    return s


def fnv_pattern(seed, n):
    h = 1469598103934665603
    for i in range(n):
        b = (i * 131 + seed) & 0xff
        if b == 0:
            b = 1
        h ^= b
        h = (h * 1099511628211) & 0xFFFFFFFFFFFFFFFF
    return h


def payload_cases(r, tier):
    sizes = [0, 1, 4096, 65535, 65536, 65537, 131072, 300000] if tier == "quick" else [0, 1, 2, 4095, 4096, 4097, 65535, 65536, 65537, 100000, 131072, 262144, 300000, 1000000]
    cases = []
    for N in sizes:
        for relays in ([0, 2] if tier == "quick" else [0, 1, 2, 4]):
            st = ["fdstage p0 w%d" % N] + ["fdstage p%d f" % (i + 1) for i in range(relays)] + ["fdstage p%d r x%d" % (relays + 1, r.choice(CODES))]
            items = [("P", " | ".join(st)), ("P", "fdstage q0 P S$?")]
            cases.append(fdsess.make_case(items, meta={"payload": N}))
    # a reader that exits without reading: the writer gets SIGPIPE / EPIPE, the pipeline still finishes with the last stage's status
    for N in ([300000] if tier == "quick" else [70000, 300000, 1000000]):
        for code in (0, 9):
            items = [("P", "fdstage p0 w%d | fdstage p1 x%d" % (N, code)), ("P", "fdstage q0 P S$?")]
            cases.append(fdsess.make_case(items, meta={"payload": N, "noreader": True}))
        # … behind 1..3 silent relays: every writer upstream must still be woken up (EPIPE / SIGPIPE), none may be left blocked
        for relays in ((1, 2, 3) if tier == "quick" else (1, 2, 3, 4)):
            st = ["fdstage p0 w%d" % N] + ["fdstage p%d c" % (i + 1) for i in range(relays)] + ["fdstage p%d x7" % (relays + 1)]
            items = [("P", " | ".join(st)), ("P", "fdstage q0 P S$?")]
            cases.append(fdsess.make_case(items, meta={"payload": N, "noreader": True}))
    # a stage that cannot be started (its `< file` cannot be opened, or the program is not found) behind a writer of several pipe
    # buffers, last and in the middle: the writer must be woken up, the pipeline must end
    for N in ([300000] if tier == "quick" else [70000, 300000, 1000000]):
        for bad in ("fdstage p1 c < missing", "nosuchprog x"):
            items = [("P", "fdstage p0 w%d | %s" % (N, bad)), ("P", "fdstage q0 P S$?")]
            cases.append(fdsess.make_case(items, meta={"payload": N, "noreader": True}))
            items = [("P", "fdstage p0 w%d | %s | fdstage p2 R" % (N, bad)), ("P", "fdstage q0 P S$?")]
            cases.append(fdsess.make_case(items, meta={"payload": N, "noreader": True}))
    # a here-string of more than a pipe buffer that its command never reads, THEN a writer behind an early-exiting reader: the
    # shell must not have been left ignoring SIGPIPE (its children inherit that: helper op `G` records the disposition it starts with)
    items = [("P", "fdstage a0x0 <<< " + "x" * 100000), ("P", "fdstage q0 P S$?"),
             ("P", "fdstage g0 G"), ("P", "fdstage p0 w300000 | fdstage p1 c | fdstage p2 x7"), ("P", "fdstage q1 P S$?")]
    cases.append(fdsess.make_case(items, meta={"payload": 300000, "noreader": True}))
    return cases


def fix_payload_obs(obs, case):
    """replace the sink's `count hash` record by the pseudo-line the model uses when the hash is the pattern's"""
    return obs


# ----------------------------------------------------------------------------- finishing-order stream

def order_cases(r, tier):
    cases = []
    for n in range(1, 5):
        for perm in itertools.permutations(range(n)):
            lasts = ["e%d" % r.choice(CODES), "s%d" % r.choice(SIGS)] if tier == "quick" else ["e%d" % c for c in (0, 1, 255, r.choice(CODES))] + ["s%d" % s for s in SIGS]
            for last in lasts:
                codes = ["e%d" % r.choice(CODES) if r.below(4) else "s%d" % r.choice(SIGS) for _ in range(n - 1)] + [last]
                cases.append(Case("fdorder", [",".join(codes), ",".join(map(str, perm))], {"gen": "q"}))
    for n in (5, 6):
        for _ in range(6 if tier == "quick" else 60):
            perm = list(range(n))
            for i in range(n - 1, 0, -1):
                j = r.below(i + 1)
                perm[i], perm[j] = perm[j], perm[i]
            codes = ["e%d" % r.choice(CODES) if r.below(4) else "s%d" % r.choice(SIGS) for _ in range(n)]
            cases.append(Case("fdorder", [",".join(codes), ",".join(map(str, perm))], {"gen": "q"}))
    return cases


def run_order(cicada, case, idx):
    codes = case.fields[0].split(",")
    order = [int(x) for x in case.fields[1].split(",")]
    n = len(codes)
    sb = proc.Sandbox("ord%d" % idx)
    try:
        obs = os.path.join(sb.dir, "obs")
        os.makedirs(obs)
        for i in range(n):
            os.mkfifo(os.path.join(obs, "s%d.gate" % i))
        st = []
        for i, c in enumerate(codes):
            st.append("fdstage s%d g %s" % (i, ("x" + c[1:]) if c[0] == "e" else ("xs" + c[1:])))
        script = " | ".join(st) + "\nfdstage q0 S$?\n"
        spath = os.path.join(sb.dir, "o.sh")
        open(spath, "w").write(script)
        p = subprocess.Popen([cicada, spath], cwd=sb.cwd, env=sb.env({"OBS_DIR": obs}), stdin=subprocess.DEVNULL,
                             stdout=subprocess.DEVNULL, stderr=subprocess.DEVNULL)
        deadline = time.time() + 30
        try:
            while not all(os.path.exists(os.path.join(obs, "s%d.atgate" % i)) for i in range(n)):
                if time.time() > deadline or p.poll() is not None:
                    return "HARNESS-ERROR stages did not reach their gates"
                time.sleep(0.005)
            early = 0
            for k, i in enumerate(order):
                pid = int(open(os.path.join(obs, "s%d.pid" % i)).read().split()[0])
                # the command after the pipeline must not have started while a stage is still blocked
                if os.path.exists(os.path.join(obs, "q0.fds")):
                    early = 1
                fd = os.open(os.path.join(obs, "s%d.gate" % i), os.O_WRONLY)
                os.close(fd)
                # wait until that stage is gone (zombie or reaped) before releasing the next one
                while True:
                    try:
                        stt = open("/proc/%d/stat" % pid).read().rsplit(")", 1)[1].split()[0]
                    except OSError:
                        break
                    if stt in ("Z", "X"):
                        break
                    if time.time() > deadline:
                        return "HARNESS-ERROR stage did not exit after release"
                    time.sleep(0.002)
                if k < len(order) - 1:
                    time.sleep(0.02)
                    if os.path.exists(os.path.join(obs, "q0.fds")):
                        early = 1
            try:
                p.wait(timeout=20)
            except subprocess.TimeoutExpired:
                return "HANG"
        finally:
            if p.poll() is None:
                p.kill()
                p.wait()
        sfile = os.path.join(obs, "q0.S")
        status = open(sfile).read() if os.path.exists(sfile) else "?"
        starts = open(os.path.join(obs, "starts")).read().split()
        extra = ""
        for i in range(n):
            if starts.count("s%d" % i) != 1:
                extra += "|N:s%d:%d" % (i, starts.count("s%d" % i))
        if early:
            extra += "|EARLY"
        return "S:%s%s" % (status, extra)
    finally:
        sb.cleanup()


def process(tier, rng, cicada):
    r = rng.fork("c02")
    out = []
    # (1) + (2): sessions
    cases = []
    n = 80 if tier == "quick" else 1500
    for i in range(n):
        cases.append(fdsess.make_case(gen_plain_items(r, 1 + r.below(4))))
    cases += payload_cases(r, tier)
    for i, c in enumerate(cases):
        c.id = "p%d" % i
    impl = fdsess.run_cases(cicada, cases)
    # the sink's record `count hash` becomes the model's pseudo-line when the hash is the pattern's
    for c in cases:
        if "payload" in c.meta:
            N = c.meta["payload"]
            want = "%d %016x" % (N, fnv_pattern(seed_of("p0"), N))
            line = hx("#blob:%d:%d" % (seed_of("p0"), N))
            o = impl[c.id]
            recs = []
            for rec in o.split("|"):
                if rec.startswith("D:"):
                    tag, val = rec[2:].split(":", 1)
                    if val == hx(want):
                        rec = "D:%s:%s" % (tag, line if N > 0 or True else "")
                    if N == 0 and val == hx("0 cbf29ce484222325"):
                        rec = "D:%s:%s" % (tag, line)
                recs.append(rec)
            impl[c.id] = "|".join(recs)
    out.append(("", cases, impl))
    # (3): finishing order
    oc = order_cases(r, tier)
    for i, c in enumerate(oc):
        c.id = "o%d" % i
    oimpl = dict(proc.pmap(lambda ic: (ic[1].id, run_order(cicada, ic[1], ic[0])), list(enumerate(oc))))
    out.append(("o", oc, oimpl))
    # (4): an earlier background job ends (exit or signal) while the foreground command is being waited for: the shell resumes only
    # after the foreground command has ended and reports ITS status (the list-evaluation programs of C03 behind such a job)
    from . import c03
    import itertools
    progs = [(list(ops), list(sts)) for n in (1, 2) for ops in itertools.product("sao", repeat=n - 1) for sts in itertools.product((0, 3), repeat=n)]
    bc = c03.bg_cases(tier, progs * 3)
    for i, c in enumerate(bc):
        c.id = "b%d" % i
    out.append(("bg", bc, c03.run_process(cicada, bc, "c")))
    return out
