"""C06 — the job table tracks exactly the live jobs under every order of child events."""
import itertools
from .. import core, gens
from ..core import Case

ID = "C06"
NEEDS_BINARY = True
RULE = ("histories of job launches (foreground / background pipelines of 1..3 processes, process ids not monotone), child status changes "
        "(stop / continue cycles ending in exit or kill) and delivery points (a foreground wait consuming the pending notifications, the "
        "prompt-time poll): every history over a small bounded space (<= 2 jobs, <= 2 processes, <= 5 events, every delivery placement) and "
        "random longer ones (<= 3 jobs, <= 3 processes per job, <= 11 events); replayed on the real Shell / jobc / signals code through "
        "scripted kernel notifications and compared after every operation with the Lean model (table, stopped sets, flags, wait status, "
        "unconsumed notifications) and at the end with the abstract world. non-trivial = distinct histories with >= 2 events")

PIDS = [300, 100, 200, 250, 120, 400, 90, 310, 50]


class Hist:
    def __init__(self, r):
        self.r = r
        self.ops = []
        self.jobs = []      # dict(gid, pids, state{pid: R|S|G}, bg)
        self.pool = list(PIDS)
        r_ = r
        # shuffle pool deterministically
        for i in range(len(self.pool) - 1, 0, -1):
            j = r_.below(i + 1)
            self.pool[i], self.pool[j] = self.pool[j], self.pool[i]
        self.flags = set()
        self.pending = []   # events not yet delivered: (kind, pid)

    def live(self):
        return [(j, p) for j in self.jobs for p in j["pids"] if j["state"][p] != "G"]

    def launch(self, bg, n):
        if len(self.pool) < n:
            return False
        pids = [self.pool.pop() for _ in range(n)]
        gid = pids[0]
        self.jobs.append({"gid": gid, "pids": pids, "state": {p: "R" for p in pids}, "bg": bg})
        self.ops.append("L:%d:%d:%s" % (1 if bg else 0, gid, ".".join(map(str, pids))))
        return True

    def event(self):
        lv = self.live()
        if not lv:
            return False
        j, p = self.r.choice(lv)
        st = j["state"][p]
        if st == "R":
            k = self.r.choice(["e", "e", "k", "s", "s"])
        else:
            k = self.r.choice(["c", "c", "k"])
        v = {"e": self.r.choice([0, 0, 1, 7]), "k": self.r.choice([9, 15, 2]), "s": self.r.choice([20, 19]), "c": 0}[k]
        # finding conditions (input-level classes, see known_findings.json)
        if k == "s" and len(j["pids"]) >= 2:
            self.flags.add("multi-process-job-with-stop")
        if k in "sc" and (("s", p) in self.pending or ("c", p) in self.pending):
            self.flags.add("stop-cont-same-pid-same-interval")
        if k == "c" and not j["bg"]:
            self.flags.add("foreground-member-continued")
        j["state"][p] = {"e": "G", "k": "G", "s": "S", "c": "R"}[k]
        self.pending.append((k, p))
        self.ops.append("E:%s:%d:%d" % (k, p, v))
        return True

    def wait(self):
        cands = [j for j in self.jobs if not j["bg"] and any(j["state"][p] != "G" for p in j["pids"]) or (not j["bg"] and any(p2 == p for (_, p2) in self.pending for p in j["pids"]))]
        if not cands:
            return False
        j = cands[-1]
        self.ops.append("W:%d:%s" % (j["gid"], ".".join(map(str, j["pids"]))))
        self.flags.add("has-wait")
        return True

    def poll(self):
        self.ops.append("P")
        self.pending = []
        return True


def random_history(r, max_ops, max_jobs=3, max_procs=3):
    h = Hist(r)
    h.launch(r.chance(1, 2), 1 + r.below(max_procs))
    for _ in range(max_ops):
        k = r.below(10)
        if k == 0 and len(h.jobs) < max_jobs:
            h.launch(r.chance(1, 2), 1 + r.below(max_procs))
        elif k <= 5:
            h.event()
        elif k == 6:
            h.wait()
        else:
            h.poll()
    h.ops.append("P")
    return h


def generate(tier, rng):
    cases = []
    r = rng.fork("c06")
    n = 30000 if tier == "quick" else 600000
    for _ in range(n):
        h = random_history(r, 3 + r.below(12 if tier == "quick" else 16))
        findings = [f for f in ("stop-cont-same-pid-same-interval", "multi-process-job-with-stop", "foreground-member-continued") if f in h.flags]
        cls = findings[0] if findings else "-"
        cases.append(Case("jobs", [";".join(h.ops), "1" if not findings else "0", cls], {"gen": "g", "h": ";".join(h.ops)}))
    return cases


# the `fg` / `bg` builtins on table rows whose members were stopped or continued one by one, and the foreground wait behind them:
# real processes in a pseudo-terminal, compared with the small-step model of Model/Term.lean (machinery of C07)
SESSIONS = [
    "L:b:S,S;T:1;E;F:1;Z;J",            # one member stopped from outside, the job resumed by fg, then Ctrl-Z: the wait must return
    "L:b:S,S;T:1;E;F:1;C;J",
    "L:b:S,S;T:2;E;B:1;J;F:1;C",
    "L:b:S;T:1;E;J;F:1;Z;J;B:1;J;K:1;E;J",
    "L:f:S,S;Z;F;Z;J;F;C;J",
    "L:b:S,S,S;T:2;E;T:3;E;F:1;Z;J;F:1;C",
    "L:b:S;L:b:S,S;T:3;E;F:2;Z;J;F:1;C;J",
]


# the pty sessions are classified by C07's driver; the same input-level classes under the names of C06's findings
# (a member of a multi-process job stopped on its own; stop and continue of one process between two polls)
CLASS_NAMES = {"member-signalled-alone": "multi-process-job-with-stop", "wait-counts-member-twice": "multi-process-job-with-stop",
               "stop-cont-parked-together": "stop-cont-same-pid-same-interval"}


def process(tier, rng, cicada):
    from . import c07
    return c07.process(tier, rng, cicada, corpus=SESSIONS, nrandom=0 if tier == "quick" else 60)


def project(c, s):
    if c.stream == "term":
        from . import c07
        return c07.project(c, s)
    return s


def post(rep):
    from . import c07
    rep.notes.extend(c07.NOTES[:20])
    for k, v in sorted(c07.STATS.items()):
        rep.extra["pty_" + k] = v


def nontrivial(c, M, S, g, cls):
    if c.stream == "term":
        return c.fields[0]
    return c.meta["h"] if c.meta["h"].count("E:") >= 2 else None
