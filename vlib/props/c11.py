"""C11 — command substitution splices the command's output in literally, exactly once."""
import os, subprocess
from .. import core, gens, proc
from ..core import Case, hx, toks
from .c01 import project as argv_project

ID = "C11"
NEEDS_BINARY = True
OUTS = ["x", "a b", "a$1b", "${x}", "$name", "$$", "a\\b", "\\n", "*", "{a,b}", "a\nb", "x\n", "x\n\n", "  a  ", " a", "a ", "\ta", "$(id)", "`id`", "", "\n",
        "~", "a|b", ">f", "&", ";", "'q'", '"d"', "é ü", "#c", "a=b", "$HOME", "%s", "(x)", "[a]", "^$", ".*", "a)b", "$(", "1 2  3"]
RULE = ("39 output texts over the printable alphabet ($1, ${x}, $name, backslashes, *, braces, newlines, leading/trailing blanks, nested "
        "substitution syntax) x both spellings x word start/middle/end x double-quoted/unquoted through line_to_cmds + from_line in-process "
        "with scripted command outputs, vs the Lean model vs the Lean spec; the substitution pass alone on random token lists (several "
        "substitutions per word and line, rejected inner commands); through the real binary: output literalness with printf, run-exactly-once "
        "with a counting helper, assignments and here-strings. non-trivial = distinct (output, spelling, position, quoting)")


def mk(p, pre, form, cmd, post, dq, out, meta, key=None):
    core_ = pre + ("$(" + cmd + ")" if form == "p" else "`" + cmd + "`") + post
    arg = '"' + core_ + '"' if dq else core_
    env = gens.env_field(exported={"HOME": "/h"}, cmds={key or cmd: out})
    return Case("plan1", [env, hx(p + " " + arg), "c11", hx(p), hx(pre), form, hx(cmd), hx(post), "1" if dq else "0", hx(out)], meta)


def generate(tier, rng):
    cases = []
    for oi, out in enumerate(OUTS):
        for form in "pq":
            for pre, post in (("", ""), ("a", ""), ("", "b"), ("a-", ".b"), ("5$-", "-z"), ("a$ ", ""), ("$", "$"), ("x=", "%")):
                for dq in (True, False):
                    cases.append(mk("prog", pre, form, "out%d" % oi, post, dq, out, {"gen": "e", "k": (oi, form, pre, post, dq)}))
    r = rng.fork("c11")
    n = 3000 if tier == "quick" else 40000
    outs = {"o%d" % i: o for i, o in enumerate(OUTS)}
    env = gens.env_field(vars={"A": "va"}, exported={"HOME": "/h"}, cmds=outs)
    words = ["$(o1)", "`o2`", "x$(o0)y", "$(o3)$(o4)", "`o0``o1`", "$(o17)", "$(echo >)", "`a >`", "A=$(o1)", "A=`o1`", "$(o0", "$(o0))", "\"$(o5)\"",
             "'$(o0)'", "$A", "$(o36)", "plain", "$(o20)", "$( o0 )", "$(o0 | o1)", "<<<", "$(o38)", "5$-$(o0)-z", "a$ $(o1)", "$$(o0)", "$(o0)\nrest", "p\n$(o0)", "$-`o1`$", "a)$(o0)(b"]
    for _ in range(n):
        k = 1 + r.below(4)
        ts = []
        for _ in range(k):
            w = r.choice(words)
            sep = r.choice(["", "", '"', "'", "`", "\\"])
            if w.startswith('"') or w.startswith("'"):
                sep, w = w[0], w[1:-1]
            ts.append((sep, w))
        cases.append(Case("subst", [env, toks(ts)], {"gen": "g", "k": toks(ts)}))
        cases.append(Case("xall", [env, toks([("", "prog")] + ts)], {"gen": "g", "k": toks(ts)}))
        cases.append(Case("shoulddollar", [hx(r.choice(words) + r.choice(words))], {"gen": "g", "k": None}))
    return cases


def project(c, s):
    return argv_project(c, s)


def nontrivial(c, M, S, g, cls):
    return c.meta.get("k")


def process(tier, rng, cicada):
    r = rng.fork("c11-p")
    sb = proc.Sandbox("c11")
    outs = [o for o in OUTS if "\n" not in o and "'" not in o and "%" not in o and "\\" not in o and '"' not in o and "$" not in o and "`" not in o]
    cases = []
    n = 60 if tier == "quick" else 800
    for i in range(n):
        out = r.choice(outs)
        form = r.choice("pq")
        pre, post = r.choice([("", ""), ("a", "b"), ("x-", "")])
        # the inner command is `printf %s 'OUT'` : the model is told its output
        cmd = "printf %s '" + out + "'"
        c = mk("argv", pre, form, cmd, post, True, out, {"gen": "p", "k": (out, form, pre, post)}, key="printf %s " + out)
        c.id = "p%d" % i
        cases.append(c)

    def one(c):
        d = os.path.join(sb.dir, c.id)
        os.makedirs(d)
        log = os.path.join(d, "argv.log")
        cnt = os.path.join(d, "count.log")
        line = core.unhx(c.fields[1])
        try:
            p = subprocess.run([cicada, "-c", line], cwd=d, env=sb.env({"ARGV_LOG": log, "HOME": "/h"}), stdin=subprocess.DEVNULL,
                               stdout=subprocess.PIPE, stderr=subprocess.PIPE, timeout=20)
        except subprocess.TimeoutExpired:
            return c.id, "HANG"
        recs = []
        if os.path.exists(log):
            lines = open(log).read().split("\n")
            if lines and lines[0]:
                recs = lines[1:1 + int(lines[0])]
        if not recs:
            return c.id, "NOT-RUN rc=%s" % p.returncode
        return c.id, "ok|0|[]|%s/[]/none" % ",".join(recs)

    impl = dict(proc.pmap(one, cases))
    # exactly once: a counting helper as the inner command
    once = []
    for i, line in enumerate(["argv $(stage 1 0)", "argv \"`stage 1 0`\"", "argv x$(stage 1 0)y z", "X=$(stage 1 0)", "argv $(stage 1 0) $(stage 2 0)"]):
        d = os.path.join(sb.dir, "once%d" % i)
        os.makedirs(d)
        lg = os.path.join(d, "stage.log")
        subprocess.run([cicada, "-c", line], cwd=d, env=sb.env({"STAGE_LOG": lg, "ARGV_LOG": os.path.join(d, "a.log")}),
                       stdin=subprocess.DEVNULL, stdout=subprocess.PIPE, stderr=subprocess.PIPE, timeout=20)
        ran = [x.split(":")[0] for x in open(lg).read().split()] if os.path.exists(lg) else []
        once.append((line, ran))
    sb.cleanup()
    global ONCE
    ONCE = once
    return [("-c", cases, impl)]


ONCE = []


def post(rep):
    for line, ran in ONCE:
        exp = ["1", "2"] if "stage 2" in line else ["1"]
        rep.evaluations += 1
        if ran != exp:
            rep.violation({"property": "C11", "kind": "inner command did not run exactly once", "line": line, "runs": ran, "expected": exp})
