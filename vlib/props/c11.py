"""C11 — command substitution splices the command's output in literally, exactly once."""
import os, subprocess
from .. import core, gens, proc
from ..core import Case, hx, toks
from .c01 import project as argv_project

ID = "C11"
NEEDS_BINARY = True
OUTS = ["x", "a b", "a$1b", "${x}", "$name", "$$", "a\\b", "\\n", "*", "{a,b}", "a\nb", "x\n", "x\n\n", "  a  ", " a", "a ", "\ta", "$(id)", "`id`", "", "\n",
        "~", "a|b", ">f", "&", ";", "'q'", '"d"', "é ü", "#c", "a=b", "$HOME", "%s", "(x)", "[a]", "^$", ".*", "a)b", "$(", "1 2  3"]
RULE = ("39 output texts over the printable alphabet ($1, ${x}, $name, backslashes, *, braces, newlines, leading/trailing blanks, nested "
        "substitution syntax) x both spellings x word start/middle/end x double-quoted/unquoted through line_to_cmds + from_line in-process "
        "with scripted command outputs, vs the Lean model vs the Lean spec; the substitution pass alone on random token lists (several "
        "substitutions per word and line -- words composed of 2-4 substitutions of either spelling with valid and rejected inner commands and "
        "literal text between them --, rejected inner commands); through the real binary: output literalness with printf, run-exactly-once "
        "with a counting helper, assignments and here-strings; `state`: histories of variable / directory operations some of which are written "
        "inside a substitution (`true $(cd d1)`, `$(export A=v)`, `$(unset A)`, `$(exit 3)`), observed like C09's script stream; `fcap`: the inner command is a shell function whose body is a generated block "
        "(C14's generator): the captured text must be the ids printed by exactly the commands the structured semantics runs. non-trivial = distinct (output, spelling, position, quoting)")


def mk(p, pre, form, cmd, post, dq, out, meta, key=None):
    core_ = pre + ("$(" + cmd + ")" if form == "p" else "`" + cmd + "`") + post
    arg = '"' + core_ + '"' if dq else core_
    env = gens.env_field(exported={"HOME": "/h"}, cmds={key or cmd: out})
    return Case("plan1", [env, hx(p + " " + arg), "c11", hx(p), hx(pre), form, hx(cmd), hx(post), "1" if dq else "0", hx(out)], meta)


def generate(tier, rng):
    cases = []
    for oi, out in enumerate(OUTS):
        for form in "pq":
            for pre, post in (("", ""), ("a", ""), ("", "b"), ("a-", ".b"), ("5$-", "-z"), ("a$ ", ""), ("$", "$"), ("x=", "%")):
                for dq in (True, False):
                    cases.append(mk("prog", pre, form, "out%d" % oi, post, dq, out, {"gen": "e", "k": (oi, form, pre, post, dq)}))
    # substitutions in unusual places: carried by an alias value, used on a line that has no substitution of its own
    aenv = gens.env_field(vars={"A": "va"}, exported={"HOME": "/h"}, aliases={"s1": "prog $(o0)", "s2": "prog `o1` x", "s3": 'prog "a$(o2)b"'},
                          cmds={"o%d" % i: o for i, o in enumerate(OUTS)})
    for al in ("s1", "s2", "s3"):
        for rest in ([], [("", "z")], [("'", "$(o3)")], [("", "|"), ("", al)]):
            cases.append(Case("xall", [aenv, toks([("", al)] + rest)], {"gen": "al", "k": (al, toks(rest))}))
            cases.append(Case("plan", [aenv, hx(al + "".join(" " + (q + t + q) for q, t in rest))], {"gen": "al", "k": (al, "line", toks(rest))}))
    r = rng.fork("c11")
    n = 3000 if tier == "quick" else 40000
    outs = {"o%d" % i: o for i, o in enumerate(OUTS)}
    env = gens.env_field(vars={"A": "va"}, exported={"HOME": "/h"}, cmds=outs)
    words = ["$(o1)", "`o2`", "x$(o0)y", "$(o3)$(o4)", "`o0``o1`", "$(o17)", "$(echo >)", "`a >`", "A=$(o1)", "A=`o1`", "$(o0", "$(o0))", "\"$(o5)\"",
             "'$(o0)'", "$A", "$(o36)", "plain", "$(o20)", "$( o0 )", "$(o0 | o1)", "<<<", "$(o38)", "5$-$(o0)-z", "a$ $(o1)", "$$(o0)", "$(o0)\nrest", "p\n$(o0)", "$-`o1`$", "a)$(o0)(b"]
    # words composed of several substitutions in a row: valid and rejected inner commands, both spellings, literal text between
    pieces_bq = ["`o0`", "`o1`", "`o2`", "`a >`", "`>`", "`o20`", "`o14`"]
    pieces_dl = ["$(o0)", "$(o1)", "$(echo >)", "$(o20)", "$(o3)"]
    lits = ["-", "a", ".", "", "x=", ":"]

    def composed():
        pool = pieces_bq if r.below(3) else (pieces_dl if r.below(2) else pieces_bq + pieces_dl)
        return "".join(r.choice(lits) + r.choice(pool) for _ in range(2 + r.below(3))) + r.choice(lits)

    for _ in range(n):
        k = 1 + r.below(4)
        ts = []
        for _ in range(k):
            w = r.choice(words) if r.below(3) else composed()
            sep = r.choice(["", "", '"', "'", "`", "\\"])
            if w.startswith('"') or w.startswith("'"):
                sep, w = w[0], w[1:-1]
            ts.append((sep, w))
        cases.append(Case("subst", [env, toks(ts)], {"gen": "g", "k": toks(ts)}))
        cases.append(Case("xall", [env, toks([("", "prog")] + ts)], {"gen": "g", "k": toks(ts)}))
        cases.append(Case("shoulddollar", [hx(r.choice(words) + r.choice(words))], {"gen": "g", "k": None}))
    return cases


def project(c, s):
    return argv_project(c, s)


def nontrivial(c, M, S, g, cls):
    return c.meta.get("k")


def process(tier, rng, cicada):
    r = rng.fork("c11-p")
    sb = proc.Sandbox("c11")
    outs = [o for o in OUTS if "\n" not in o and "'" not in o and "%" not in o and "\\" not in o and '"' not in o and "$" not in o and "`" not in o]
    cases = []
    n = 60 if tier == "quick" else 800
    for i in range(n):
        out = r.choice(outs)
        form = r.choice("pq")
        pre, post = r.choice([("", ""), ("a", "b"), ("x-", "")])
        # the inner command is `printf %s 'OUT'` : the model is told its output
        cmd = "printf %s '" + out + "'"
        c = mk("argv", pre, form, cmd, post, True, out, {"gen": "p", "k": (out, form, pre, post)}, key="printf %s " + out)
        c.id = "p%d" % i
        cases.append(c)

    def one(c):
        d = os.path.join(sb.dir, c.id)
        os.makedirs(d)
        log = os.path.join(d, "argv.log")
        cnt = os.path.join(d, "count.log")
        line = core.unhx(c.fields[1])
        try:
            p = subprocess.run([cicada, "-c", line], cwd=d, env=sb.env({"ARGV_LOG": log, "HOME": "/h"}), stdin=subprocess.DEVNULL,
                               stdout=subprocess.PIPE, stderr=subprocess.PIPE, timeout=20)
        except subprocess.TimeoutExpired:
            return c.id, "HANG"
        recs = []
        if os.path.exists(log):
            lines = open(log).read().split("\n")
            if lines and lines[0]:
                recs = lines[1:1 + int(lines[0])]
        if not recs:
            return c.id, "NOT-RUN rc=%s" % p.returncode
        return c.id, "ok|0|[]|%s/[]/none" % ",".join(recs)

    impl = dict(proc.pmap(one, cases))
    # exactly once: a counting helper as the inner command
    once = []
    for i, line in enumerate(["argv $(stage 1 0)", "argv \"`stage 1 0`\"", "argv x$(stage 1 0)y z", "X=$(stage 1 0)", "argv $(stage 1 0) $(stage 2 0)"]):
        d = os.path.join(sb.dir, "once%d" % i)
        os.makedirs(d)
        lg = os.path.join(d, "stage.log")
        subprocess.run([cicada, "-c", line], cwd=d, env=sb.env({"STAGE_LOG": lg, "ARGV_LOG": os.path.join(d, "a.log")}),
                       stdin=subprocess.DEVNULL, stdout=subprocess.PIPE, stderr=subprocess.PIPE, timeout=20)
        ran = [x.split(":")[0] for x in open(lg).read().split()] if os.path.exists(lg) else []
        once.append((line, ran))
    sb.cleanup()
    global ONCE
    ONCE = once
    scases, simpl = substate(tier, rng, cicada)
    fcases, fimpl = funcap(tier, rng, cicada)
    return [("-c", cases, impl), ("state", scases, simpl), ("fcap", fcases, fimpl)]


def funcap(tier, rng, cicada):
    """the inner command is a shell FUNCTION whose body is a generated block (if / else if / else, for, while, break, continue --
    the generator of C14): `argv "$(f)"` must receive the ids printed by exactly the commands the structured semantics runs"""
    from . import c14
    r = rng.fork("c11-fcap")
    n = 40 if tier == "quick" else 800
    cases = []
    for i in range(n):
        g = c14.Gen(r)
        g.hashy = False
        b = g.block(1 + r.below(3), False, [14])
        body = "\n".join(c14.render(b, r.choice(["nl", "semi"]), None)) + "\n"
        seq = {}
        for c_ in range(1, g.cond + 1):
            seq["cond %d" % c_] = [0] * r.below(3) + [r.choice([1, 2])]
        w = " ".join(c14.wire(b))
        extra = g.cond
        for n_ in range(1, g.n + 1):
            new = "stage %d 0 p" % n_
            seq[new] = [0]
            if r.below(3) == 0:
                # a LIST as a line of the body: a silent pipeline decides whether the printing one runs (`cond 7 && stage 3 0 p`)
                extra += 1
                seq["cond %d L" % extra] = [r.choice([0, 1, 2])]                 # (`L`: a pipeline of a list line, not a block head)
                new = "cond %d L %s %s" % (extra, r.choice(["&&", "||"]), new)
            body = body.replace("stage %d 0\n" % n_, new + "\n")
            w = w.replace(hx("stage %d 0" % n_), hx(new))
        seqf = ",".join(hx(k) + ":" + ".".join(str(x) for x in v) for k, v in seq.items()) or "[]"
        c = Case("fcap", [gens.env_field(exported={"HOME": "/h"}), hx(body), ",".join(hx(x) for x in ["cicada", "s.sh"]), seqf, "[]", w],
                 {"gen": "p", "t": body, "seq": seq, "k": ("fcap", w), "heads": g.cond})
        c.id = "f%d" % i
        cases.append(c)
    # the same substitution MANY times in one session (every call of a session is the first call's equal: the observation of a
    # repeated case is that of one call if all calls agree, and names the first call that differs otherwise)
    for j, rep in enumerate([70, 130] if tier == "quick" else [70, 130, 300, 65, 64]):
        new = "stage 1 0 p"
        c = Case("fcap", [gens.env_field(exported={"HOME": "/h"}), hx(new + "\n"), ",".join(hx(x) for x in ["cicada", "s.sh"]), hx(new) + ":0", "[]",
                          "c " + hx(new)], {"gen": "p", "t": new + "\n", "seq": {new: [0]}, "k": ("fcap-rep", rep), "heads": 0, "rep": rep})
        c.id = "r%d" % j
        cases.append(c)
    sb = proc.Sandbox("c11f")

    def one(c):
        d = os.path.join(sb.dir, c.id)
        os.makedirs(d)
        if c.meta.get("rep"):
            return c.id, one_repeated(c, d)
        for k, v in c.meta["seq"].items():
            if k.startswith("cond "):
                open(os.path.join(d, k.split()[1] + ".seq"), "w").write(" ".join(str(x) for x in v))
        open(os.path.join(d, "s.sh"), "w").write("function f() {\n" + c.meta["t"] + "}\nargv \"$(f)\"\n")
        log = os.path.join(d, "trace.log")
        alog = os.path.join(d, "argv.log")
        try:
            p = subprocess.run([cicada, os.path.join(d, "s.sh")], cwd=d, env=sb.env({"STAGE_LOG": log, "COND_DIR": d, "ARGV_LOG": alog}),
                               stdin=subprocess.DEVNULL, stdout=subprocess.PIPE, stderr=subprocess.PIPE, timeout=30)
        except subprocess.TimeoutExpired:
            return c.id, "HANG"
        if b"syntax error" in p.stderr:
            return c.id, "SYNTAX-ERROR"
        out = []
        if os.path.exists(log):
            for ln in open(log).read().split("\n"):
                if not ln:
                    continue
                name, st = ln.rsplit(":", 1)
                text = (name + (" L" if int(name.split()[1]) > c.meta["heads"] else "")) if name.startswith("cond ") else "stage %s %s p" % (name, st)
                out.append("%s:%s:" % (hx(text), st))
        got = "NOT-RUN"
        if os.path.exists(alog):
            lines = open(alog).read().split("\n")
            if lines and lines[0]:
                k = int(lines[0])                     # the record holds argv[0] too
                got = lines[2] if k == 2 else "ARGC=%d" % (k - 1)
        return c.id, (",".join(out) or "[]") + "#" + got

    def one_repeated(c, d):
        n_ = c.meta["rep"]
        open(os.path.join(d, "s.sh"), "w").write("function f() {\n" + c.meta["t"] + "}\n" + 'argv "$(f)"\n' * n_)
        log, alog = os.path.join(d, "trace.log"), os.path.join(d, "argv.log")
        try:
            subprocess.run([cicada, os.path.join(d, "s.sh")], cwd=d, env=sb.env({"STAGE_LOG": log, "COND_DIR": d, "ARGV_LOG": alog}),
                           stdin=subprocess.DEVNULL, stdout=subprocess.PIPE, stderr=subprocess.PIPE, timeout=120)
        except subprocess.TimeoutExpired:
            return "HANG"
        tr = [x for x in (open(log).read().split("\n") if os.path.exists(log) else []) if x]
        recs, lines, i = [], (open(alog).read().split("\n") if os.path.exists(alog) else []), 0
        while i < len(lines) and lines[i]:
            k = int(lines[i])
            recs.append(lines[i + 2] if k == 2 else "ARGC=%d" % (k - 1))
            i += k + 2
        for k in range(n_):
            got = recs[k] if k < len(recs) else "NOT-RUN"
            ran = tr[k] if k < len(tr) else "NOT-RUN"
            if got != recs[0] or ran != tr[0]:
                return "call %d of %d differs from the first: argument %s (first %s), command %s (first %s)" % (k + 1, n_, got, recs[0], ran, tr[0])
        if len(recs) != n_ or len(tr) != n_:
            return "%d calls: %d argv records, %d commands run" % (n_, len(recs), len(tr))
        name, st = tr[0].rsplit(":", 1)
        return "%s:%s:#%s" % (hx("stage %s %s p" % (name, st)), st, recs[0])

    impl = dict(proc.pmap(one, cases))
    sb.cleanup()
    return cases, impl


WRAP_CD = ["d1", "d1/d2", "..", "l1", "lrel", "nope", "d1/f", "@R/d1", "@R/l1"]
WRAP_VALS = ["v", "1", "p:q", "d1", "w", "0"]


def substate(tier, rng, cicada):
    """"the shell's own state is unaffected": histories of variable / directory operations (the generator of C09) in which some
    operations are written inside a command substitution -- `true $(cd d1)`, `true $(export A=v)`, `true $(unset A)` -- and
    optionally a `true $(exit 3)`; observed after every operation exactly as in C09's script stream (`$?`, expansions, the
    environment and cwd of a real child, the directory a relative redirection lands in)."""
    import shutil
    from . import c09
    r = rng.fork("c11-state")
    sb = proc.Sandbox("c11s")
    n = 24 if tier == "quick" else 400
    jobs = []
    for i in range(n):
        R = os.path.realpath(os.path.join(sb.dir, "t%d" % i, "p1", "p2", "R"))
        base = c09.gen_ops(r, 8)
        base = [o for o in base if o[0] != "r"]                      # (read needs a here-string: not this stream's subject)
        ops, wrapped = [], []
        for o in base:
            ops.append(o)
            if r.below(3) == 0 and i % 4 != 3:
                k = r.choice("ccxu")
                if k == "c":
                    w = ("c", [r.choice(WRAP_CD)])
                elif k == "x":
                    w = ("x", r.choice(["A", "B"]), r.choice(WRAP_VALS))
                else:
                    w = ("u", r.choice(["A", "B"]))
                wrapped.append(len(ops))
                ops.append(w)
                ops.append(("c", ["."]))                              # a plain command afterwards: the state it starts from
        exit_after = None
        if ops and i % 5 == 4:
            exit_after = r.below(len(ops))
        env = c09.init_env(r, R)
        lines = [c09.render(r, op, R) for op in ops]
        c = Case("substate", [",".join(hx(k) + ":" + hx(v) for k, v in env), ",".join(hx(x) for x in c09.NAMES), ",".join(hx(l) for l in lines),
                              hx(R), c09.enc_ops(ops, R), c09.tree_field(R), ".".join(map(str, wrapped)) or "-",
                              "-" if exit_after is None else str(exit_after)],
                 {"gen": "p", "k": ("state", tuple(o[0] for o in ops), tuple(wrapped), exit_after)})
        c.id = "s%d" % i
        jobs.append((c, R, ops, env, lines, wrapped, exit_after))

    def one(job):
        c, R, ops, env, lines, wrapped, exit_after = job
        os.makedirs(os.path.dirname(R), exist_ok=True)
        c09.make_tree(R)
        NAMES = c09.NAMES
        script = []
        for k, (op, line) in enumerate(zip(ops, lines)):
            if k in wrapped:
                script.append("true $(%s)" % line.replace("'", "").replace('"', ""))
                script.append('echo "S|%d|$?|%s"' % (k, "|".join('$%s' % n_ for n_ in NAMES)))
                script.append("envcwd %s > out.%d" % (" ".join(NAMES), k))
            elif op[0] == "p":
                script.append("%s %s > out.%d" % (line, " ".join(NAMES), k))
                script.append('echo "S|%d|$?|%s"' % (k, "|".join('$%s' % n_ for n_ in NAMES)))
            else:
                script.append(line)
                script.append('echo "S|%d|$?|%s"' % (k, "|".join('$%s' % n_ for n_ in NAMES)))
                script.append("envcwd %s > out.%d" % (" ".join(NAMES), k))
            if exit_after == k:
                script.append("true $(exit 3)")
        spath = os.path.join(os.path.dirname(R), "..", "..", "script.sh")
        open(spath, "w").write("\n".join(script) + "\n")
        e = sb.env(dict(env))
        if "HOME" not in dict(env):
            e.pop("HOME", None)
        try:
            p = subprocess.run([cicada, os.path.realpath(spath)], cwd=R, env=e, stdin=subprocess.DEVNULL, stdout=subprocess.PIPE,
                               stderr=subprocess.PIPE, timeout=60)
            out = p.stdout.decode("utf-8", "replace")
        except subprocess.TimeoutExpired:
            return c.id, "HANG"
        echo = {}
        for l in out.split("\n"):
            if l.startswith("S|"):
                parts = l.split("|")
                echo[int(parts[1])] = (parts[2], parts[3:])
        where = {}
        top = os.path.realpath(os.path.join(os.path.dirname(R), "..", ".."))
        for dp, dn, fn in os.walk(top):
            for f in fn:
                if f.startswith("out."):
                    where[int(f[4:])] = (os.path.realpath(dp), open(os.path.join(dp, f)).read().strip())
        obs = []
        for k in range(len(ops)):
            st, exps = echo.get(k, ("?", []))
            d, rec = where.get(k, ("?", "?;?"))
            ccwd, cenv = (rec.split(";") + ["?"])[:2]
            obs.append("%s;%s;%s;%s;%s" % (st, hx(d), ccwd, ",".join(hx(x) for x in exps), cenv))
        shutil.rmtree(top, ignore_errors=True)
        return c.id, "|".join(obs)

    impl = dict(proc.pmap(one, jobs))
    sb.cleanup()
    return [j[0] for j in jobs], impl


ONCE = []


def post(rep):
    for line, ran in ONCE:
        exp = ["1", "2"] if "stage 2" in line else ["1"]
        rep.evaluations += 1
        if ran != exp:
            rep.violation({"property": "C11", "kind": "inner command did not run exactly once", "line": line, "runs": ran, "expected": exp})
