"""C20 — what TAB inserts for a file name is read back as exactly that file."""
import fcntl, os, pty, select, signal, sqlite3, struct, termios, time
from .. import core, gens, proc
from ..core import Case, hx, unhx

ID = "C20"
NEEDS_BINARY = True
ASSUMPTIONS = ["names that are not valid UTF-8 are skipped by complete_path (a TODO in the source) and are outside the model (text is List Char)",
               "names holding `*` together with a backquote or `$` are not generated: running the completed line makes the real shell recurse "
               "until its stack overflows (the inner command of the substitution globs the name itself); the crash is reported separately",
               "the directory contents do not change between TAB and Enter"]
# the special alphabet of the property + plain letters + two multi-byte letters
SPECIAL = [" ", "'", '"', "\\", "$", "*", "?", "[", "]", "{", "}", ",", "~", "#", "|", "&", ";", "<", ">", "(", ")", "!", "^", "`", "=", "%"]
ALPHA = SPECIAL + ["é", "日", "a", "b"]
PLAIN = ["a", "b", "c", "x", "1", ".", "-", "_", "é", "日"]
CTXS = ["u", "s", "d"]
ESC_CLASS = None
ENV = gens.env_field(exported={"HOME": "/h", "V": "val"})
RULE = ("file and directory names over the property's alphabet (blank ' \" \\ $ * ? [ ] { } , ~ # | & ; < > ( ) ! ^ ` = % é 日 and plain letters): "
        "quick = every name of length <= 2 as the only entry of a directory x {file, directory} x 3 typing contexts (unquoted / open ' / open \") "
        "x {empty prefix, first character typed}, names `a`+s+`b` and longer random names up to 12 characters, tab and newline included; "
        "random directories of 1..12 entries with shared prefixes and one level of sub-directories, typed prefixes of 0..3 characters "
        "(with and without a directory part), `cd` (directories only) vs another command; thorough = length <= 3 and 10x the random part. "
        "Each case: the real complete_path in a directory created for the case, every offered text put after `prog ` and planned by the real "
        "line_to_cmds + CommandLine::from_line in that directory, vs the Lean model, vs the Lean spec (candidates by prefix, argv = [prog, name]). "
        "escaped_word_start on generated lines vs the model. pty stream: the real binary under a pseudo-terminal, `argv <prefix><TAB><Enter>`, "
        "accepted line read back from the history database and argv from the helper's side file, vs the model's prediction. "
        "non-trivial = distinct (context, name) pairs with at least one special character that were offered and planned")


def esc_class():
    """the escape class as the running tree spells it (used only to type prefixes the way TAB itself would)"""
    global ESC_CLASS
    if ESC_CLASS is None:
        import re
        t = open(os.path.join(core.REPO, "src", "tools.rs"), encoding="utf-8").read()
        m = re.search(r'pub fn escape_path\(path: &str\) -> String \{\s*let re = Regex::new\(r##"\(\?P<c>\[(.*?)\]\)"##\)', t, re.S)
        body = m.group(1) if m else ""
        out = set()
        i = 0
        while i < len(body):
            if body[i] == "\\":
                i += 1
            out.add(body[i])
            i += 1
        ESC_CLASS = out
    return ESC_CLASS


def typed(ctx, prefix):
    if ctx == "s":
        return "'" + prefix
    if ctx == "d":
        return '"' + prefix
    cl = esc_class()
    return "".join(("\\" + c) if c in cl else c for c in prefix)


def tree_field(entries):
    """entries: list of (relative path, is_dir)"""
    if not entries:
        return "[]"
    return ",".join(hx(p) + ":" + ("d" if d else "f") for p, d in entries)


def mk(entries, ctx, prefix, for_dir, meta, env=ENV, prog="prog"):
    return Case("cmpl", [env, tree_field(entries), ctx, hx(prefix), hx(typed(ctx, prefix)), "1" if for_dir else "0", hx(prog)], meta)


def valid_name(n):
    # a name holding `*` together with a backquote or `$` is left out: once completed and run, the inner command of the
    # substitution is globbed against the directory, finds the name itself and substitutes again without end -- the real
    # shell dies of a stack overflow (`echo \\`\\*\\`` next to a file named `*` in backquotes; reported, outside this property)
    # and the outcome (abort or watchdog) cannot be compared
    if "*" in n and ("`" in n or "$" in n):
        return False
    return n not in ("", ".", "..") and "/" not in n and "\0" not in n


def single(cases, n, tag):
    """one entry, both kinds, three contexts, empty prefix and first character typed"""
    if not valid_name(n):
        return
    for is_dir in (False, True):
        for ctx in CTXS:
            for k in (0, 1):
                if k > len(n):
                    continue
                cases.append(mk([(n, is_dir)], ctx, n[:k], False, {"gen": tag, "ctx": ctx, "n": n}))


def rand_name(r, lo, hi, special_num=1, special_den=3):
    while True:
        n = "".join(r.choice(ALPHA + ["\t", "\n"]) if r.chance(special_num, special_den) else r.choice(PLAIN) for _ in range(lo + r.below(hi - lo + 1)))
        if valid_name(n):
            return n


def rand_dir(r):
    """1..12 entries with shared prefixes, some sub-directories with children"""
    stems = [r.choice(["a", "ab", "b", "x", "é", "a b", "a$", "c"]) for _ in range(2)]
    names = set()
    k = 1 + r.below(12)
    while len(names) < k:
        if r.chance(2, 3):
            n = r.choice(stems) + rand_name(r, 0, 4) if r.chance(3, 4) else r.choice(stems)
        else:
            n = rand_name(r, 1, 6)
        if valid_name(n):
            names.add(n)
    entries = []
    for n in sorted(names):
        is_dir = r.chance(1, 3)
        entries.append((n, is_dir))
        if is_dir and r.chance(1, 2):
            for _ in range(1 + r.below(3)):
                c = r.choice(stems) + rand_name(r, 0, 3, 1, 4)
                if valid_name(c) and (n + "/" + c, False) not in entries and (n + "/" + c, True) not in entries:
                    entries.append((n + "/" + c, r.chance(1, 4)))
    return entries


def _child_signals():
    core.child_signals()


def generate(tier, rng):
    cases = []
    # witnesses of the known findings first
    for ctx, n in [("u", "a*b"), ("u", "~a"), ("u", "a$b"), ("u", "{a,b}"), ("u", "a`b`"), ("u", "&"), ("u", "a "), ("u", "a>b"),
                   ("s", "it's"), ("d", 'a"b'), ("d", "a$V"), ("d", "a`b`"), ("d", "a\\b")]:
        single(cases, n, "w")
    cases.append(mk([("a*b", False), ("axb", False)], "u", "a*", False, {"gen": "w", "ctx": "u", "n": "a*b"}))
    cases.append(mk([("$a b", False)], "u", "$", False, {"gen": "w", "ctx": "u", "n": "$a b"}))
    cases.append(mk([("|#", False)], "u", "|", False, {"gen": "w", "ctx": "u", "n": "|#"}))
    kfull = 2 if tier == "quick" else 3
    for n in gens.all_strings(ALPHA, kfull, 1):
        single(cases, n, "e")
    for s in SPECIAL + ["\t", "\n", "é", "日", "**", "$V", "${V}", "$(a)", "{a,b}", "{1..3}", " ~ ", "&&", "||", ">>", "2>", "!!"]:
        for n in ("a" + s + "b", s + "b", "a" + s):
            single(cases, n, "m")
    r = rng.fork("c20")
    nr = 1000 if tier == "quick" else 8000
    for _ in range(nr):
        single(cases, rand_name(r, 3, 12), "r")
    nd = 4000 if tier == "quick" else 40000
    for _ in range(nd):
        entries = rand_dir(r)
        tops = [e for e in entries if "/" not in e[0]]
        ctx = r.choice(CTXS)
        for_dir = r.chance(1, 4)
        if r.chance(1, 4):
            subs = [e for e in entries if "/" in e[0]]
            if subs:
                p = r.choice(subs)[0]
                d, f = p.rsplit("/", 1)
                prefix = d + "/" + f[:r.below(min(3, len(f)) + 1)]
            else:
                d = r.choice(tops)[0]
                prefix = d + "/"
        else:
            t = r.choice(tops)[0]
            prefix = t[:r.below(min(3, len(t)) + 1)]
            if r.chance(1, 12):
                prefix = r.choice(["zz", "a|", "$V", "~/", "./", "a//"])
        cases.append(mk(entries, ctx, prefix, for_dir, {"gen": "d"}, prog=r.choice(["prog", "cd", "prog", "./argv", "ls"]) if not for_dir else "cd"))
    # escaped_word_start
    ne = 4000 if tier == "quick" else 40000
    WS = ["ls", "a", "b", " ", " ", "  ", "\\", "\\ ", "'", '"', "é", "日", "中文", "ø", "a\\ b", "'a b", '"x y', "\\'", '\\"', "|", "$", "\U0001F600"]
    for ln in gens.all_strings(["a", " ", "\\", "'", '"', "é"], 4 if tier == "quick" else 5):
        cases.append(Case("ews", [hx(ln)], {"gen": "ews-e"}))
    for _ in range(ne):
        cases.append(Case("ews", [hx("".join(r.choice(WS) for _ in range(1 + r.below(8))))], {"gen": "ews"}))
    for n in ["a b", "it's", 'q"', "é!", "a\\b", "$x", "<>", "sp ace.txt"]:
        cases.append(Case("escpath", [hx(n)], {"gen": "esc"}))
    for _ in range(300 if tier == "quick" else 3000):
        cases.append(Case("escpath", [hx(rand_name(r, 0, 8, 2, 3))], {"gen": "esc"}))
    return cases


def attach(cvh, cases, tag):
    """glob oracle: ask the model which patterns the candidates' lines hand to the glob crate, ask the implementation's
    glob crate what they match in the case's own directory, put the answers into the environment field"""
    q = []
    for c in cases:
        if c.stream == "cmpl" and "2a" in c.fields[1]:          # some entry name holds a `*`
            qc = Case("cmplneeds", list(c.fields))
            qc.id = "n" + c.id
            q.append((c, qc))
    if not q:
        return
    needs = core.run_model([x[1] for x in q], tag + "cn")
    gq = []
    for c, qc in q:
        m = needs.get(qc.id)
        if m and m[0] != "[]":
            x = Case("cmplglob", [c.fields[1], ",".join(sorted(set(m[0].split(","))))])
            x.id = "g" + c.id
            gq.append((c, x))
    if not gq:
        return
    ans = core.run_harness(cvh, [x[1] for x in gq], tag + "cg", keep_pid=False)
    for c, x in gq:
        a = ans.get(x.id, "")
        if a and ":" in a:
            c.fields[0] = c.fields[0] + ";g=" + a


def _argv_of_plan(p):
    """plan dump -> the observable of the property (same syntax as the spec column)"""
    if not p.startswith("ok|"):
        return p
    parts = p.split("|")
    if len(parts) != 4:
        return p
    cmds = []
    for c in parts[3].split(";"):
        x = c.split("/")
        if len(x) != 3:
            cmds.append(c)
            continue
        toks = x[0]
        if toks != "[]":
            toks = ",".join(t.split(":")[-1] for t in toks.split(","))
        cmds.append("/".join([toks, x[1], x[2]]))
    return "|".join(parts[:3] + [";".join(cmds)])


def project(case, s):
    """candidates with their plans -> sorted list of what the program would receive for each candidate;
    pty observation -> the recorded argv"""
    if case.stream not in ("cmpl", "tab") or s in ("[]", "-") or s.startswith(("UNMODELLED", "PANIC", "HANG", "CRASH", "ERR ", "MISSING", "NOT-RUN")):
        return s
    if case.stream == "tab":
        if case.meta.get("line", "").startswith("cd "):
            return s        # `cd` starts no helper: the accepted line itself is the observable (directories only after `cd`)
        return s[s.index("A="):] if "A=" in s else s
    out = []
    for cand in s.split("&"):
        f = cand.split("@")
        out.append(_argv_of_plan(f[-1]))
    return "&".join(sorted(out))


def nontrivial(c, M, S, g, cls):
    n = c.meta.get("n")
    if n is not None and M not in ("[]",) and any(ch in n for ch in SPECIAL):
        return (c.meta["ctx"], n)
    return None


# ----------------------------------------------------------------------------- process level: the real binary under a pty

NOTES = []
PTY_ALPHA = [" ", "'", '"', "\\", "$", "?", "[", "]", "{", "}", ",", "~", "#", "|", "&", ";", "<", ">", "(", ")", "^", "=", "%", "é", "日", "a", "b", "c", "x", ".", "-"]
TIMEOUT = 30.0


def pty_name(r, stem):
    """a name starting with the plain stem, the rest over the alphabet (no `*`, backquote, `!`, `$(`: those would run
    commands or need the glob oracle; they are covered in-process)"""
    while True:
        tail = "".join(r.choice(PTY_ALPHA) if r.chance(1, 2) else r.choice(["a", "b", "c", "x", "1"]) for _ in range(r.below(7)))
        n = stem + tail
        if "$(" not in n and valid_name(n):
            return n


def pty_session(cicada, sb, idx, entries, keys, env_extra):
    """one shell in a pseudo-terminal: type `keys`, then a sentinel command; returns (history rows, argv records, error or None).
    Every wait is on an observable condition (prompt text, sentinel record in the side file, child exit)."""
    base = os.path.join(sb.dir, "s%d" % idx)
    cwd = os.path.join(base, "cwd")
    home = os.path.join(base, "home")
    os.makedirs(cwd)
    os.makedirs(home)
    for p, d in entries:
        fp = os.path.join(cwd.encode(), p.encode("utf-8"))
        if d:
            os.makedirs(fp, exist_ok=True)
        else:
            os.makedirs(os.path.dirname(fp), exist_ok=True)
            open(fp, "w").close()
    log = os.path.join(base, "argv.log")
    hist = os.path.join(home, "history.sqlite")
    env = sb.env({"HOME": home, "HISTORY_FILE": hist, "XDG_CONFIG_HOME": os.path.join(home, ".config"), "ARGV_LOG": log})
    env.update(env_extra)
    pid, fd = pty.fork()
    if pid == 0:
        try:
            # a fixed window size: with the 0 x 0 window of a fresh pty the line editor's column arithmetic
            # underflows on a wide character (width - 1) -- an artefact of the harness, not of a real terminal
            fcntl.ioctl(0, termios.TIOCSWINSZ, struct.pack("HHHH", 24, 200, 0, 0))
            os.chdir(cwd)
            _child_signals()
            os.execve(cicada, [cicada], env)
        finally:
            os._exit(127)
    out = bytearray()
    err = None

    def drain(t):
        r_, _, _ = select.select([fd], [], [], t)
        if r_:
            try:
                d = os.read(fd, 65536)
            except OSError:
                return False
            if not d:
                return False
            out.extend(d)
        return True

    eof = [False]

    def wait_for(cond, what):
        end = time.time() + TIMEOUT
        while time.time() < end:
            if cond():
                return True
            if eof[0]:
                time.sleep(0.01)          # the terminal is closed: nothing left to read, keep polling the condition
            elif not drain(0.02):
                eof[0] = True
        return cond()

    def done_logged():
        try:
            return hx("__done__") in open(log).read()
        except OSError:
            return False

    exited = [False]

    def child_gone():
        if exited[0]:
            return True
        try:
            p_, _ = os.waitpid(pid, os.WNOHANG)
        except ChildProcessError:
            p_ = pid
        if p_ == pid:
            exited[0] = True
        return exited[0]

    if not wait_for(lambda: b"$ " in out, "prompt"):
        err = "time-out waiting for the first prompt"
    else:
        if isinstance(keys, (list, tuple)):
            # typed piece by piece, the editor's reaction drained in between (a burst is read by the line editor as pasted text:
            # a TAB inside it does not run the completer)
            for piece in keys:
                os.write(fd, piece.encode("utf-8"))
                drain(0.03)
                if piece.endswith("\r"):
                    # a submitted line: let it finish (the next key must reach the line editor, not a terminal in cooked mode
                    # where Ctrl-C would be a SIGINT for the shell itself) -- wait until the output has been quiet for 0.2 s
                    end_q = time.time() + 8
                    while time.time() < end_q:
                        n0 = len(out)
                        drain(0.2)
                        if len(out) == n0:
                            break
            os.write(fd, b"\r" + b"argv __done__\r")
        else:
            os.write(fd, keys.encode("utf-8") + b"\r" + b"argv __done__\r")
        if not wait_for(done_logged, "sentinel"):
            err = "time-out waiting for the sentinel command after the completed line (screen: %r)" % bytes(out[-900:])
        else:
            try:
                os.write(fd, b"exit\r")
            except OSError:
                pass
            if not wait_for(child_gone, "exit"):
                err = "time-out waiting for the shell to exit"
    if not child_gone():
        try:
            os.kill(pid, signal.SIGKILL)
        except OSError:
            pass
        try:
            os.waitpid(pid, 0)
        except OSError:
            pass
    try:
        os.close(fd)
    except OSError:
        pass
    rows = []
    # a session may name a second history file (`export HISTORY_FILE=$HOME/history2.sqlite`): its rows follow those of the first
    for hf in (hist, os.path.join(home, "history2.sqlite")):
        if hf != hist and not os.path.exists(hf):
            continue
        try:
            con = sqlite3.connect(hf)
            rows += [x[0] for x in con.execute("select inp from cicada_history order by rowid")]
            con.close()
        except sqlite3.Error as e:
            err = err or ("history database: %s" % e)
    recs = []
    if os.path.exists(log):
        lines = open(log).read().split("\n")
        i = 0
        while i < len(lines) and lines[i]:
            n = int(lines[i])
            recs.append(lines[i + 1:i + 1 + n])
            i += n + 2
    return rows, recs, err


def process(tier, rng, cicada):
    """`argv <prefix><TAB><Enter>` in a generated directory: accepted line (history database) and recorded argv"""
    r = rng.fork("c20-p")
    n = 25 if tier == "quick" else 300
    sb = proc.Sandbox("c20")
    penv = sb.env()
    cases = []
    plans = []
    fixed = [("u", "sp", "sp ace.txt", False, False), ("s", "di", "dir one", True, False), ("d", "q", 'q"uo te', False, False), ("u", "it", "it's", False, False),
             ("u", "d", "d ir", True, True), ("u", "é", "éa b", False, False),
             # after `cd` only directories are offered: a prefix that matches regular files only completes to nothing
             ("u", "no", "notes.txt", False, True), ("u", "re", "readme one.md", False, True), ("s", "fi", "file x", False, True)]
    for i in range(n):
        if i < len(fixed):
            ctx, prefix, name, is_dir, cd = fixed[i]
            others = ["zz", "other"]
        else:
            ctx = r.choice(CTXS)
            stem = r.choice(["a", "ab", "abc", "x1", "c"])
            name = pty_name(r, stem)
            is_dir = r.chance(1, 3)
            cd = r.chance(1, 2) if is_dir else r.chance(1, 6)
            prefix = stem[:1 + r.below(len(stem))]
            others = [o for o in (pty_name(r, r.choice(["z", "y", "w"])) for _ in range(r.below(5)))]
        entries = [(name, is_dir)]
        for o in others:
            if all(o != e[0] for e in entries):
                entries.append((o, r.chance(1, 3)))
        if is_dir and r.chance(1, 2):
            entries.append((name + "/inner", False))
        cmdw = "cd" if cd else "argv"
        line = cmdw + " " + typed(ctx, prefix)
        after = {"s": "'", "d": '"'}.get(ctx, "") if is_dir else ""
        env = gens.env_field(exported={k: v for k, v in penv.items() if k in ("HOME", "USER", "PATH", "LANG", "TERM")})
        c = Case("tab", [env, tree_field(entries), hx(line), hx(after), hx(name), "d" if is_dir else "f", ctx, hx(prefix)],
                 {"gen": "p", "ctx": ctx, "n": name, "line": line, "after": after})
        c.id = "t%d" % i
        cases.append(c)
        plans.append((entries, line + "\t" + after))
    # HOME differs per session: the model is told the session's own value below
    pred = {}
    for i, c in enumerate(cases):
        home = os.path.join(sb.dir, "s%d" % i, "home")
        e = dict(penv)
        e["HOME"] = home
        c.fields[0] = gens.env_field(exported={k: v for k, v in e.items() if k in ("HOME", "USER", "PATH", "LANG", "TERM")})
    pred = core.run_model(cases, "C20tabpre")
    driven, impl = [], {}
    skipped = 0

    def one(ic):
        i, c = ic
        m = pred.get(c.id)
        if m is None or m[0].startswith(("UNMODELLED", "INCOMPLETE", "PANIC")):
            return c, None, "not driven: model says %s" % (m[0][:40] if m else "nothing")
        rows, recs, err = pty_session(cicada, sb, i, plans[i][0], plans[i][1], {})
        if err:
            return c, None, "pty harness error on %r: %s" % (c.meta["line"], err)
        first = rows[0] if rows else ""
        if first == "argv __done__":
            first = ""
        before = [x for x in recs if x != [hx("argv"), hx("__done__")]]
        a = ";".join(",".join(x) for x in before) if before else "none"
        return c, "L=%s|A=%s" % (hx(first), a), None

    res = proc.pmap(one, list(enumerate(cases)), workers=4 if tier == "quick" else 8)
    for c, o, note in res:
        if o is None:
            NOTES.append(note)
            if note.startswith("not driven"):
                skipped += 1
            continue
        driven.append(c)
        impl[c.id] = o
    NOTES.append("pty stream: %d completions driven through the real binary, %d not driven" % (len(driven), len(cases) - len(driven)))
    sb.cleanup()
    return [("pty", driven, impl)]


def post(rep):
    for n_ in NOTES:
        rep.notes.append(n_)
    errs = [n_ for n_ in NOTES if n_.startswith("pty harness error")]
    if errs:
        core.log("pty harness errors (reported in the evidence notes, not violations): %d, first: %s" % (len(errs), errs[0][:300]))
