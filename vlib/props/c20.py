"""C20 — what TAB inserts for a file name is read back as exactly that file."""
import os, pty, select, signal, sqlite3, time
from .. import core, gens, proc
from ..core import Case, hx, unhx

ID = "C20"
NEEDS_BINARY = True
# the special alphabet of the property + plain letters + two multi-byte letters
SPECIAL = [" ", "'", '"', "\\", "$", "*", "?", "[", "]", "{", "}", ",", "~", "#", "|", "&", ";", "<", ">", "(", ")", "!", "^", "`", "=", "%"]
ALPHA = SPECIAL + ["é", "日", "a", "b"]
PLAIN = ["a", "b", "c", "x", "1", ".", "-", "_", "é", "日"]
CTXS = ["u", "s", "d"]
ESC_CLASS = None
ENV = gens.env_field(exported={"HOME": "/h", "V": "val"})
RULE = ("file and directory names over the property's alphabet (blank ' \" \\ $ * ? [ ] { } , ~ # | & ; < > ( ) ! ^ ` = % é 日 and plain letters): "
        "quick = every name of length <= 2 as the only entry of a directory x {file, directory} x 3 typing contexts (unquoted / open ' / open \") "
        "x {empty prefix, first character typed}, names `a`+s+`b` and longer random names up to 12 characters, tab and newline included; "
        "random directories of 1..12 entries with shared prefixes and one level of sub-directories, typed prefixes of 0..3 characters "
        "(with and without a directory part), `cd` (directories only) vs another command; thorough = length <= 3 and 10x the random part. "
        "Each case: the real complete_path in a directory created for the case, every offered text put after `prog ` and planned by the real "
        "line_to_cmds + CommandLine::from_line in that directory, vs the Lean model, vs the Lean spec (candidates by prefix, argv = [prog, name]). "
        "escaped_word_start on generated lines vs the model. pty stream: the real binary under a pseudo-terminal, `argv <prefix><TAB><Enter>`, "
        "accepted line read back from the history database and argv from the helper's side file, vs the model's prediction. "
        "non-trivial = distinct (context, name) pairs with at least one special character that were offered and planned")


def esc_class():
    """the escape class as the running tree spells it (used only to type prefixes the way TAB itself would)"""
    global ESC_CLASS
    if ESC_CLASS is None:
        import re
        t = open(os.path.join(core.REPO, "src", "tools.rs"), encoding="utf-8").read()
        m = re.search(r'pub fn escape_path\(path: &str\) -> String \{\s*let re = Regex::new\(r##"\(\?P<c>\[(.*?)\]\)"##\)', t, re.S)
        body = m.group(1) if m else ""
        out = set()
        i = 0
        while i < len(body):
            if body[i] == "\\":
                i += 1
            out.add(body[i])
            i += 1
        ESC_CLASS = out
    return ESC_CLASS


def typed(ctx, prefix):
    if ctx == "s":
        return "'" + prefix
    if ctx == "d":
        return '"' + prefix
    cl = esc_class()
    return "".join(("\\" + c) if c in cl else c for c in prefix)


def tree_field(entries):
    """entries: list of (relative path, is_dir)"""
    if not entries:
        return "[]"
    return ",".join(hx(p) + ":" + ("d" if d else "f") for p, d in entries)


def mk(entries, ctx, prefix, for_dir, meta, env=ENV, prog="prog"):
    return Case("cmpl", [env, tree_field(entries), ctx, hx(prefix), hx(typed(ctx, prefix)), "1" if for_dir else "0", hx(prog)], meta)


def valid_name(n):
    return n not in ("", ".", "..") and "/" not in n and "\0" not in n


def single(cases, n, tag):
    """one entry, both kinds, three contexts, empty prefix and first character typed"""
    if not valid_name(n):
        return
    for is_dir in (False, True):
        for ctx in CTXS:
            for k in (0, 1):
                if k > len(n):
                    continue
                cases.append(mk([(n, is_dir)], ctx, n[:k], False, {"gen": tag, "ctx": ctx, "n": n}))


def rand_name(r, lo, hi, special_num=1, special_den=3):
    while True:
        n = "".join(r.choice(ALPHA + ["\t", "\n"]) if r.chance(special_num, special_den) else r.choice(PLAIN) for _ in range(lo + r.below(hi - lo + 1)))
        if valid_name(n):
            return n


def rand_dir(r):
    """1..12 entries with shared prefixes, some sub-directories with children"""
    stems = [r.choice(["a", "ab", "b", "x", "é", "a b", "a$", "c"]) for _ in range(2)]
    names = set()
    k = 1 + r.below(12)
    while len(names) < k:
        if r.chance(2, 3):
            n = r.choice(stems) + rand_name(r, 0, 4) if r.chance(3, 4) else r.choice(stems)
        else:
            n = rand_name(r, 1, 6)
        if valid_name(n):
            names.add(n)
    entries = []
    for n in sorted(names):
        is_dir = r.chance(1, 3)
        entries.append((n, is_dir))
        if is_dir and r.chance(1, 2):
            for _ in range(1 + r.below(3)):
                c = r.choice(stems) + rand_name(r, 0, 3, 1, 4)
                if valid_name(c) and (n + "/" + c, False) not in entries and (n + "/" + c, True) not in entries:
                    entries.append((n + "/" + c, r.chance(1, 4)))
    return entries


def generate(tier, rng):
    cases = []
    # witnesses of the known findings first
    for ctx, n in [("u", "a*b"), ("u", "~a"), ("u", "a$b"), ("u", "{a,b}"), ("u", "a`b`"), ("u", "&"), ("u", "a "), ("u", "a>b"),
                   ("s", "it's"), ("d", 'a"b'), ("d", "a$V"), ("d", "a`b`"), ("d", "a\\b")]:
        single(cases, n, "w")
    kfull = 2 if tier == "quick" else 3
    for n in gens.all_strings(ALPHA, kfull, 1):
        single(cases, n, "e")
    for s in SPECIAL + ["\t", "\n", "é", "日", "**", "$V", "${V}", "$(a)", "{a,b}", "{1..3}", " ~ ", "&&", "||", ">>", "2>", "!!"]:
        for n in ("a" + s + "b", s + "b", "a" + s):
            single(cases, n, "m")
    r = rng.fork("c20")
    nr = 400 if tier == "quick" else 4000
    for _ in range(nr):
        single(cases, rand_name(r, 3, 12), "r")
    nd = 1500 if tier == "quick" else 20000
    for _ in range(nd):
        entries = rand_dir(r)
        tops = [e for e in entries if "/" not in e[0]]
        ctx = r.choice(CTXS)
        for_dir = r.chance(1, 4)
        if r.chance(1, 4):
            subs = [e for e in entries if "/" in e[0]]
            if subs:
                p = r.choice(subs)[0]
                d, f = p.rsplit("/", 1)
                prefix = d + "/" + f[:r.below(min(3, len(f)) + 1)]
            else:
                d = r.choice(tops)[0]
                prefix = d + "/"
        else:
            t = r.choice(tops)[0]
            prefix = t[:r.below(min(3, len(t)) + 1)]
            if r.chance(1, 12):
                prefix = r.choice(["zz", "a|", "$V", "~/", "./", "a//"])
        cases.append(mk(entries, ctx, prefix, for_dir, {"gen": "d"}, prog=r.choice(["prog", "cd", "prog", "./argv", "ls"]) if not for_dir else "cd"))
    # escaped_word_start
    ne = 1500 if tier == "quick" else 20000
    WS = ["ls", "a", "b", " ", " ", "  ", "\\", "\\ ", "'", '"', "é", "日", "中文", "ø", "a\\ b", "'a b", '"x y', "\\'", '\\"', "|", "$", "\U0001F600"]
    for ln in gens.all_strings(["a", " ", "\\", "'", '"', "é"], 4 if tier == "quick" else 5):
        cases.append(Case("ews", [hx(ln)], {"gen": "ews-e"}))
    for _ in range(ne):
        cases.append(Case("ews", [hx("".join(r.choice(WS) for _ in range(1 + r.below(8))))], {"gen": "ews"}))
    for n in ["a b", "it's", 'q"', "é!", "a\\b", "$x", "<>", "sp ace.txt"]:
        cases.append(Case("escpath", [hx(n)], {"gen": "esc"}))
    for _ in range(300 if tier == "quick" else 3000):
        cases.append(Case("escpath", [hx(rand_name(r, 0, 8, 2, 3))], {"gen": "esc"}))
    return cases


def attach(cvh, cases, tag):
    """glob oracle: ask the model which patterns the candidates' lines hand to the glob crate, ask the implementation's
    glob crate what they match in the case's own directory, put the answers into the environment field"""
    q = []
    for c in cases:
        if c.stream == "cmpl" and "2a" in c.fields[1]:          # some entry name holds a `*`
            qc = Case("cmplneeds", list(c.fields))
            qc.id = "n" + c.id
            q.append((c, qc))
    if not q:
        return
    needs = core.run_model([x[1] for x in q], tag + "cn")
    gq = []
    for c, qc in q:
        m = needs.get(qc.id)
        if m and m[0] != "[]":
            x = Case("cmplglob", [c.fields[1], ",".join(sorted(set(m[0].split(","))))])
            x.id = "g" + c.id
            gq.append((c, x))
    if not gq:
        return
    ans = core.run_harness(cvh, [x[1] for x in gq], tag + "cg")
    for c, x in gq:
        a = ans.get(x.id, "")
        if a and ":" in a:
            c.fields[0] = c.fields[0] + ";g=" + a


def _argv_of_plan(p):
    """plan dump -> the observable of the property (same syntax as the spec column)"""
    if not p.startswith("ok|"):
        return p
    parts = p.split("|")
    if len(parts) != 4:
        return p
    cmds = []
    for c in parts[3].split(";"):
        x = c.split("/")
        if len(x) != 3:
            cmds.append(c)
            continue
        toks = x[0]
        if toks != "[]":
            toks = ",".join(t.split(":")[-1] for t in toks.split(","))
        cmds.append("/".join([toks, x[1], x[2]]))
    return "|".join(parts[:3] + [";".join(cmds)])


def project(case, s):
    """candidates with their plans -> sorted list of what the program would receive for each candidate"""
    if case.stream not in ("cmpl", "tab") or s in ("[]", "-") or s.startswith(("UNMODELLED", "PANIC", "HANG", "CRASH", "ERR ", "MISSING", "NOT-RUN")):
        return s
    if case.stream == "tab":
        return s
    out = []
    for cand in s.split("&"):
        f = cand.split("@")
        out.append(_argv_of_plan(f[-1]))
    return "&".join(sorted(out))


def nontrivial(c, M, S, g, cls):
    n = c.meta.get("n")
    if n is not None and M not in ("[]",) and any(ch in n for ch in SPECIAL):
        return (c.meta["ctx"], n)
    return None
