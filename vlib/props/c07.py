"""C07 — the terminal belongs to the foreground job while it runs, else to the shell (process level, through a pty)."""
import json, os, subprocess, sys, tempfile, time
from concurrent.futures import ThreadPoolExecutor
from .. import core
from ..core import Case
from ..pty07 import parse_acts

ID = "C07"
NEEDS_BINARY = True
RULE = ("random interactive sessions of 5..25 actions drawn from {foreground / background pipeline of 1..3 stages (stages that run until "
        "signalled, end by themselves with status 0 / non-zero, or are not found), Ctrl-Z, Ctrl-C, fg [id], bg [id], SIGKILL / SIGSTOP / "
        "SIGCONT sent to one member from outside, jobs, empty line}, at most 3 jobs in the table, randomised delays between actions; run "
        "against the plain cicada binary in a pseudo-terminal; after every action, once the observable state has become the one the Lean "
        "model predicts (or has stopped changing), the driver records whether the prompt is back, tcgetpgrp() of the master classified as "
        "shell / group of helper k / other, state (running / stopped / gone) and process group of every helper from /proc, and every job "
        "line, announcement and fg/bg diagnostic printed; compared with the replay of the same action list through Model/Term.lean (every "
        "delivery order of a terminal signal tried; sessions on which the orders disagree are not generated) and with the reference world "
        "of Spec/C07.lean. A session whose observable state settles on something else than the model predicts is run a second time and reported if it differs again (an unreproduced difference is noted in the evidence). non-trivial = distinct sessions containing a foreground wait ended by Ctrl-Z, Ctrl-C or a signal")
TRUSTED = ["vlib/pty07.py (pty driver, /proc parsing, classification of printed job lines) and helpers/sleeper.c",
           "Linux process-group / tty semantics as far as Model/Term.lean states them (tcsetpgrp accepts a live pid of the session; one "
           "unreported status change per child; SIGINT stays pending on a stopped process)"]
ASSUMPTIONS = ["pids are not reused within a session", "the line editor, real signal delivery and the tty driver are not modelled"]

# sessions that run first: the witnesses of the known findings and the scenarios of the design phase
CORPUS = [
    "L:f:S,S;Z;J;B:1;J;F:1;C;J;L:b:S;L:f:N;L:f:X3;E;K:5;E;C;Z;J",
    "L:f:S,S;T:1;K:1",                                # witness of KF-C07-wait-counts-member-twice
    "L:f:S,S;T:1;K:2;J",                              # witness of KF-C07-status-not-reevaluated
    "L:b:S;L:f:S;T:1;U:1;C;T:1;J;J",                  # witness of KF-C07-parked-pair
    "L:f:S,S;T:1;U:1;T:2",                            # witness of KF-C07-fg-continue-dropped
    "L:b:S;K:1;C;E;L:f:S,S;T:2;K:2;J;F:1;C",
    "L:f:S,S;T:1;K:2;J;F:1;C;J",
    "L:b:S;L:f:S;T:1;U:1;C;J;J",
    "L:f:S,S;T:1;U:1;T:2;J;F;C",
    "L:f:S,S,S;Z;B;J;F:1;Z;F;C;E",
    "L:f:X0,S,X1;Z;J;F;C;L:f:S,N;C;L:f:X1;L:f:N;J",
    "L:b:S,S;L:b:S;L:f:S;Z;J;K:1;K:2;E;J;F:2;C;F:3;C;J",
    "F;B;F:7;B:7;L:b:S;F:7;B:7;B:1;F;C",
    # sparse job ids: the lower-numbered job is gone and reaped, then the higher-numbered one is stopped / resumed
    "L:b:S;L:b:S;K:1;E;F:2;Z;J;B:2;J;F:2;C;J",
    # a pipeline run for a command substitution (`export V=$(fgprobe pN)`) owns the terminal while it runs, with and without other jobs around
    "P;E;L:b:S;P;J;L:f:S;Z;P;J;F:2;C;P",
    "L:f:S,S;Z;P;B;P;J",
    "L:b:S;L:b:S,S;K:1;E;E;F:2;Z;J;F:2;C",     # (a background job that ends BY ITSELF right after its launch races with the prompt's poll: killed explicitly instead)
    "L:b:S;L:b:S;L:b:S;K:1;K:2;E;J;F:3;Z;J;B:3;J;K:3;E;J",
]

NOTES = []
STATS = {}
TROUBLE = "M." + "readline trouble".encode().hex()


def project(c, obs):
    """the part of an observation the reference world speaks about: diagnostics of fg / bg are dropped, a `Stopped`
    announcement is dropped when every live member of that pipeline is indeed stopped (the reference world allows but
    does not demand it); an announcement for a pipeline that is not stopped stays and is held against the spec"""
    if not obs or ";" not in obs:
        return obs
    members = c.meta.get("members", {})
    out = []
    for o in obs.split("|"):
        parts = o.split(";")
        probe = []
        if len(parts) == 5 and parts[4].startswith("own="):
            probe = [parts.pop()]                   # the answer of a probing stage is kept as it is
        if len(parts) != 4:
            out.append(o)
            continue
        states = {}
        procs = []
        for p in parts[2].split(","):
            if p:
                i = 0
                while i < len(p) and p[i].isdigit():
                    i += 1
                if p[i:i + 1] == "z":           # ended but not yet reaped by the shell: gone, as far as the world goes
                    p = p[:i] + "g-"
                states[p[:i]] = p[i:i + 1]
                procs.append(p)
        parts[2] = ",".join(procs)
        keep = []
        for it in parts[3].split(","):
            if not it or (it.startswith("M.") and it != TROUBLE):
                continue            # `readline error` stays: the prompt came back while the shell did not own the terminal
            if it.startswith("R") and it.endswith(".Stopped"):
                g = it.split(".")[1]
                live = [states.get(str(m), "g") for m in members.get(g, [])]
                live = [s for s in live if s != "g"]
                if live and all(s == "t" for s in live):
                    continue
            keep.append(it)
        out.append(";".join(parts[:3] + [",".join(keep)] + probe))
    return "|".join(out)


def members_of(acts_text):
    m = {}
    for a in parse_acts(acts_text):
        if a["op"] == "L":
            m["g%d" % a["stages"][0][0]] = [i for i, kd in a["stages"] if kd != "N"]
    return m


def make_case(acts_text, k, origin):
    c = Case("term", [acts_text], {"gen": "pty", "origin": origin, "members": members_of(acts_text)})
    c.id = "p%d" % k
    return c


def generate(tier, rng):
    return []


def sweep(root):
    """safety net: kill whatever still has its working directory under `root` (the shell and the helpers of a
    session run in <session dir>/cwd)"""
    import signal
    n = 0
    for name in os.listdir("/proc"):
        if name.isdigit() and int(name) != os.getpid():
            try:
                if os.readlink("/proc/%s/cwd" % name).startswith(root + "/"):
                    os.kill(int(name), signal.SIGKILL)
                    n += 1
            except OSError:
                pass
    return n


def run_session(cicada, sb_dir, c, expected, seed, retry=True):
    d = tempfile.mkdtemp(prefix=c.id + "-", dir=sb_dir)
    cfg = {"cicada": cicada, "helpers": os.path.join(core.BUILD, "helpers"), "dir": d, "acts": c.fields[0], "expected": expected,
           "delay_seed": seed}
    t0 = time.time()
    try:
        p = subprocess.run([sys.executable, "-m", "vlib.pty07"], input=json.dumps(cfg), capture_output=True, text=True, cwd=core.VERIF,
                           timeout=900, start_new_session=True)
        res = json.loads(p.stdout)
    except subprocess.TimeoutExpired:
        res = {"obs": [], "error": "worker exceeded 900 s", "log": []}
        sweep(d)
    except ValueError:
        res = {"obs": [], "error": "worker produced no result: %s" % (p.stderr or "")[-300:], "log": []}
    res["wall"] = time.time() - t0
    if res.get("aborted_at") is not None and not res.get("error") and retry:
        # the observable state settled on something else than the model predicts: run the session once more, so that a
        # hiccup of the machine or of this driver is not reported as a property of the shell; a difference that shows
        # again is reported with the second observation
        first = res
        _, res = run_session(cicada, sb_dir, c, expected, seed + 1, retry=False)
        res["wall"] += first["wall"]
        if res.get("aborted_at") is None and not res.get("error"):
            res.setdefault("slow", []).append("UNREPRODUCED difference in a first run (second run agrees with the model): %s" % "; ".join(first.get("log", [])))
            res["unreproduced"] = 1
    return c.id, res


def process(tier, rng, cicada, corpus=None, nrandom=None):
    r = rng.fork("c07-p")
    n = (25 if tier == "quick" else 300) if nrandom is None else nrandom
    gens = []
    for k in range(n):
        g = Case("termgen", [str(r.below(1 << 62)), str(5 + r.below(21))])
        g.id = "g%d" % k
        gens.append(g)
    made = core.run_model(gens, "C07gen")
    cases = [make_case(a, k, "corpus") for k, a in enumerate(CORPUS if corpus is None else corpus)]
    for g in gens:
        m = made.get(g.id)
        if m and m[0] and not m[0].startswith("UN"):
            acts = m[0].split(";")
            # one generated session in three: the single-stage foreground launches that end by themselves become probes
            if r.chance(1, 3):
                acts = ["P" if a == "L:f:X0" or (a.startswith("L:f:X") and "," not in a and r.chance(1, 2)) else a for a in acts]
                if "P" not in acts:
                    # a probe first (the session starts at the prompt); the helpers behind it are renumbered
                    acts = ["P"] + [("%s:%d" % (a[0], int(a[2:]) + 1) if a[:2] in ("K:", "T:", "U:") else a) for a in acts]
            cases.append(make_case(";".join(acts), len(cases), "random seed=%s len=%s" % (g.fields[0], g.fields[1])))
    model = core.run_model(cases, "C07pre")
    runnable = []
    for c in cases:
        m = model.get(c.id)
        if m is None or m[0].startswith("UNMODELLED"):
            NOTES.append("session not run (%s): %s" % (m[0] if m else "no model answer", c.fields[0]))
            continue
        runnable.append((c, m[0].split("|")))
    os.makedirs(core.WORK, exist_ok=True)
    sb_dir = tempfile.mkdtemp(prefix="c07-", dir=core.WORK)
    workers = max(2, min(8, core.NCPU // 2))
    t0 = time.time()
    with ThreadPoolExecutor(max_workers=workers) as ex:
        results = list(ex.map(lambda ce: run_session(cicada, sb_dir, ce[0], ce[1], r.fork(ce[0].id).below(1 << 30)), runnable))
    left = sweep(sb_dir)
    if left:
        NOTES.append("%d process(es) of finished sessions had to be killed by the final sweep" % left)
    import shutil
    shutil.rmtree(sb_dir, ignore_errors=True)
    impl, kept = {}, []
    nact = 0
    for (c, exp), (cid, res) in zip(runnable, results):
        if res.get("error"):
            NOTES.append("harness error, session dropped (%s): %s" % (res["error"], c.fields[0]))
            STATS["harness_errors"] = STATS.get("harness_errors", 0) + 1
            continue
        for l in res.get("log", []) + res.get("slow", []):
            NOTES.append("%s: %s" % (c.fields[0], l))
        impl[c.id] = "|".join(res["obs"])
        kept.append(c)
        nact += len(res["obs"])
        STATS["slowest_session_s"] = max(STATS.get("slowest_session_s", 0), round(res["wall"], 2))
        STATS["unreproduced_differences"] = STATS.get("unreproduced_differences", 0) + res.get("unreproduced", 0)
    STATS["sessions_run"] = len(kept)
    STATS["actions_observed"] = nact
    STATS["pty_wall_s"] = round(time.time() - t0, 1)
    STATS["workers"] = workers
    return [("pty", kept, impl)]


def replay_session(r):
    """./check replay <file> for a C07 session: run it again and print implementation, model and reference side by side"""
    lk = core.lock()
    try:
        core.gen_constants()
        core.lake_build(["cicada_model"])
        cicada = core.build_binary()
        core.build_helpers()
    finally:
        lk.close()
    c = make_case(r["fields"][0], 0, "replay")
    m = core.run_model([c], "C07replay").get(c.id)
    if m is None or m[0].startswith("UNMODELLED"):
        print("model:", m)
        return 0
    os.makedirs(core.WORK, exist_ok=True)
    sb_dir = tempfile.mkdtemp(prefix="c07r-", dir=core.WORK)
    _, res = run_session(cicada, sb_dir, c, m[0].split("|"), r.get("seed", 1))
    sweep(sb_dir)
    import shutil
    shutil.rmtree(sb_dir, ignore_errors=True)
    print("replayed now (guard=%s class=%s)%s:" % (m[2], m[3], " harness error: %s" % res["error"] if res.get("error") else ""))
    acts = c.fields[0].split(";")
    ms, ss = m[0].split("|"), m[1].split("|")
    for k, a in enumerate(acts):
        o = res["obs"][k] if k < len(res["obs"]) else "(not run)"
        print("  %-12s impl  %s" % (a, o))
        if k < len(ms) and o != ms[k]:
            print("  %-12s model %s" % ("", ms[k]))
        if k < len(ss) and project(c, o) != project(c, ss[k]):
            print("  %-12s spec  %s" % ("", project(c, ss[k])))
    for l in res.get("log", []):
        print("  log:", l)
    return 0


def nontrivial(c, M, S, g, cls):
    acts = c.fields[0].split(";")
    waiting = False
    hit = False
    for a, o in zip(acts, M.split("|")):
        if waiting and a[0] in "ZCKTU" and o.startswith("P"):
            hit = True
        waiting = o.startswith("W")
    return c.fields[0] if hit else None


def post(rep):
    for k, v in sorted(STATS.items()):
        rep.extra["c07_" + k] = v
    rep.notes.extend(NOTES[:20])
    if STATS.get("harness_errors"):
        print("[check] C07: %d session(s) dropped as harness errors (see evidence notes)" % STATS["harness_errors"], flush=True)
    if STATS.get("unreproduced_differences"):
        print("[check] C07: %d session(s) differed from the model in a first run and agreed in a second (see evidence notes)" % STATS["unreproduced_differences"], flush=True)
    if not STATS.get("sessions_run"):
        print("[check] C07: WARNING no session could be run: this check has observed nothing", flush=True)
