"""C08 — running commands never leaks file descriptors, in the shell or into children."""
import re
from .. import core, fdsess
from ..core import Case

ID = "C08"
NEEDS_BINARY = True
RULE = ("process level only: sessions of 1..30 commands run by ONE cicada process from a script file (pipelines of 1..6 stages, all "
        "redirection spellings, here-strings, builtins with and without redirection alone and inside pipelines, command substitutions of "
        "externals / pipelines / builtins, failing and not-found commands, unopenable targets); every external stage is the helper `fdstage`, "
        "which records the descriptors it was started with (number, access mode, what it points to: inherited 0/1/2, pipe identity, file) "
        "before doing anything else; after every command a sentinel records the shell's own table (/proc/<shell>/fd + fdinfo) and `$?`. "
        "Fault stream: for every RLIMIT_NOFILE value 4..40 (`ulimit -n N` as the first command, `cicada -c`), pipelines of 1..6 stages, "
        "here-strings in every position, captured pipelines and captured builtins, followed by a plain command that must still work. "
        "The Lean model predicts every table number for number (lowest-free allocation, close-on-exec) and the reference semantics says "
        "{0,1,2} / unchanged. non-trivial = distinct session shapes (digits erased)")
TRUSTED = ["the descriptor world of Model/Kernel.lean (lowest-free allocation, fork copies, exec drops close-on-exec entries) is a model of Linux, validated only by this stream",
           "helpers/fdstage.c and the /proc readings it takes"]
ASSUMPTIONS = ["commands are restricted to the helper, three builtins (minfd, alias, ulimit -n) and a missing program; background jobs are not part of the sessions"]


def generate(tier, rng):
    return []


def project(c, x):
    # `$?` is C08's business only in the fault stream ("fails cleanly with a non-zero status")
    y = fdsess.proj("C08", x)
    if c.meta.get("limit") is None:
        y = "|".join(r for r in y.split("|") if not r.startswith("S:"))
    return y


def nontrivial(c, M, S, g, cls):
    if M.startswith("UNMODELLED"):
        return None
    return re.sub(r"\d+", "N", c.meta.get("script", ""))


def limit_cases(r, tier):
    cases = []
    per = 2 if tier == "quick" else 8
    for L in range(4, 41):
        for _ in range(per):
            n = 1 + r.below(6)
            hs = r.below(3) == 0
            k = r.below(6)
            st = []
            for i in range(n):
                ops = ["R"] if i > 0 else []
                s = "fdstage a0x%d %s" % (i, " ".join(ops))
                if hs and i == (k % n):
                    s = "fdstage a0x%d%s <<< hs%d" % (i, " R" if i > 0 or True else "", i)
                st.append(s.strip())
            line = " | ".join(st)
            kind = r.below(5)
            if kind == 0:
                items = [("P", "ulimit -n %d" % L), ("S", "fdstage o0 ", " | ".join("fdstage c0x%d %s" % (i, "Wx0" if i == 0 else "F") for i in range(1 + r.below(3))))]
            elif kind == 1 and r.below(2):
                items = [("P", "ulimit -n %d" % L), ("S", "fdstage o0 S", "minfd")]
            else:
                items = [("P", "ulimit -n %d" % L), ("P", line)]
            items += [("P", "fdstage q0 P S$?"), ("P", "fdstage a1x0 Wok"), ("P", "fdstage q1 P S$?")]
            cases.append(fdsess.make_case(items, mode="c", meta={"limit": L}))
    return cases


def process(tier, rng, cicada):
    r = rng.fork("c08")
    cases = []
    n = 60 if tier == "quick" else 800
    for i in range(n):
        prof = ["long", "mixed", "subst", "redir"][i % 4]
        nitems = 1 + r.below(30) if prof == "long" and i % 8 == 0 else 1 + r.below(8)
        cases.append(fdsess.make_case(fdsess.gen_items(r, prof, nitems, maxst=6)))
    # whole-line builtins with every short redirection list, also ending in a target that cannot be opened (what the earlier
    # redirections opened must be closed again): the shell's own table is compared after every command
    cases += [fdsess.make_case(items, meta={"builtin_lists": True}) for items in fdsess.builtin_redir_sessions(r, tier)]
    cases += fdsess.corpus_cases()
    cases += limit_cases(r, tier)
    for i, c in enumerate(cases):
        c.id = "p%d" % i
    impl = fdsess.run_cases(cicada, cases)
    return [("", cases, impl)]
