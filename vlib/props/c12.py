"""C12 — brace, range, tilde and filename expansion yield exactly the specified words."""
import itertools, os
from .. import core, gens, proc
from ..core import Case, hx, toks

ID = "C12"
NEEDS_BINARY = True
RULE = ("brace terms from a grammar (nesting depth <= 3, <= 4 alternatives, <= 3 groups per word, empty alternatives, one-element groups) "
        "plus every string of length <= 7 (thorough 8) over `{ } , a b` as negatives/unbalanced input; ranges over negative / descending / "
        "stepped / degenerate / i32-boundary bounds, alone and with surrounding text; tilde words; `*` patterns against a fixture directory "
        "(hidden files, names with blanks, sub-directories, no match) through shell::expand_glob with the glob crate's own answers as oracle; "
        "mixed lines through do_expansion next to quoted arguments; a sample through the real binary. "
        "non-trivial = distinct inputs on which the model produces >= 2 words or changes the token")


def render_term(t):
    """t: list of items; item = char | ('g', [alt, alt, ...]) with alt a list of items"""
    out = []
    for x in t:
        if isinstance(x, tuple):
            out.append("{" + ",".join(render_term(a) for a in x[1]) + "}")
        else:
            out.append(x)
    return "".join(out)


def wire_term(t):
    out = []
    for x in t:
        if isinstance(x, tuple):
            out.append("[" + "|".join(wire_term(a) for a in x[1]) + "]")
        else:
            out.append(x)
    return "".join(out)


def rand_term(r, depth, lits):
    n = r.below(4)
    t = []
    groups = 0
    for _ in range(n + 1):
        if depth > 0 and groups < 3 and r.chance(2, 5):
            k = 1 + r.below(4)
            t.append(("g", [rand_term(r, depth - 1, lits) if r.chance(4, 5) else [] for _ in range(k)]))
            groups += 1
        else:
            t.append(r.choice(lits))
    return t


def count_words(t):
    n = 1
    for x in t:
        if isinstance(x, tuple):
            n *= max(1, sum(count_words(a) for a in x[1]))
    return n


def generate(tier, rng):
    cases = []
    r = rng.fork("c12")
    lits = ["a", "b", "x", "1", "-", ".", "/", "é", "=", "$", "~", "*"]
    n = 6000 if tier == "quick" else 80000
    for _ in range(n):
        t = rand_term(r, 3, lits if r.chance(3, 4) else lits + [" ", "'", "\\"])
        text = render_term(t)
        if count_words(t) > 150 or len(text) > 60:
            continue
        cases.append(Case("xbrace", [toks([("", text)]), "c12", hx(wire_term(t))], {"gen": "g", "t": text}))
    k = 7 if tier == "quick" else 8
    for s in gens.all_strings(["{", "}", ",", "a", "b"], k, 1):
        cases.append(Case("xbrace", [toks([("", s)])], {"gen": "e"}))
        cases.append(Case("needbrace", [hx(s)], {"gen": "e"}))
    # ranges
    bounds = [0, 1, -1, 2, 3, 5, 9, 10, -3, -10, 100, 2147483646, 2147483647, -2147483648, -2147483647, 2147483648, 99999999999]
    for m in bounds:
        for nn in bounds:
            if abs(m) < 10**6 and abs(nn) < 10**6 or abs(m - nn) < 20:
                for s in ["-", "1", "2", "3", "0", "7", "2147483647", "99999999999"]:
                    for pre, post in [("", ""), ("a", ""), ("", "b"), ("x", "y")]:
                        if abs(m - nn) > 300:
                            continue
                        body = "{%d..%d%s}" % (m, nn, "" if s == "-" else ".." + s)
                        cases.append(Case("xrange", [toks([("", pre + body + post)]), "c12r", str(m), str(nn), s, hx(pre), hx(post)], {"gen": "r"}))
    # wide spans (the two bounds further apart than an i32 can hold) walked with a step that keeps the sequence short
    wide = [-2147483648, -2147483647, -2000000000, -1, 0, 1, 2000000000, 2147483646, 2147483647]
    for m in wide:
        for nn in wide:
            span = abs(m - nn)
            if span < 10**9:
                continue
            for s in ["1000000000", "2147483647", "2000000000", "715827883"]:
                if span // int(s) > 40:
                    continue
                for pre, post in [("", ""), ("x", "y")]:
                    body = "{%d..%d..%s}" % (m, nn, s)
                    cases.append(Case("xrange", [toks([("", pre + body + post)]), "c12r", str(m), str(nn), s, hx(pre), hx(post)], {"gen": "rw"}))
    for s in gens.all_strings(["{", "}", ".", "1", "-", "a"], 6 if tier == "quick" else 7, 1):
        cases.append(Case("xrange", [toks([("", s)])], {"gen": "e"}))
    # tilde
    for home in ["/h", "/home/u s", "", "/a$b", "/x$tail", "/$$"]:
        env = gens.env_field(exported={"HOME": home})
        for w in ["~", "~/", "~/a b", "~x", "a~", "~~", "~\nb", "'~'"]:
            for sep in ["", '"', "'"]:
                cases.append(Case("xhome", [env, toks([(sep, w)])], {"gen": "h"}))
    # glob in the fixture directory, and whole expansions next to quoted arguments
    pats = ["*", "a*", "*.txt", ".*", "*b*", "s*/*", "sub/*", "sub/.*", "nomatch*", "x*", "*y", "st*", "**", "a*a", "*é", "q*", "'*", "\"*\"", " *", "*/in", "[*", "*id", "*hid", "sub/*2", "sub/*h2", ".h*", "*.", "./*", "../fixture/*d", "s*b/i*"]
    env = gens.env_field(vars={"A": "a*"}, exported={"HOME": "/h"})
    for p in pats:
        for sep in ["", '"', "'"]:
            cases.append(Case("xglob", [env, toks([("", "prog"), (sep, p), ("'", "*")])], {"gen": "gl"}))
        cases.append(Case("xall", [env, toks([("", "prog"), ("", p), ('"', "q *"), ("", "{a,b}" + p)])], {"gen": "gl"}))
    env_blank = gens.env_field(vars={"A": "a*"}, exported={"HOME": "/t/John Doe"})
    # two expansions in one word: tilde + brace / range / glob, also under a $HOME that holds a blank
    for w in ["~/{a,b}", "~/x{1..3}", "~/*", "~/*.txt", "~{a,b}", "~/{a,b}/*", "{~,b}", "{a,b}*", "*{a,b}", "x{1..2}{a,b}", "~/{1..2}*"]:
        for e in (env, env_blank):
            cases.append(Case("xall", [e, toks([("", "prog"), ("", w), ("'", "~/{a,b}")])], {"gen": "mix2"}))
    for _ in range(n // 4):
        ws = [r.choice(["prog", "{a,b}", "x{1..3}", "{1..3}", "~", "~/x", "*", "a*", "'{a,b}'", '"~"', "$A", "{a,{b,c}}d", "{}", "{a}", "'*'", "~/{a,b}", "~/*", "~/x{1..2}"]) for _ in range(1 + r.below(5))]
        ts = []
        for w in ws:
            if w[0] in "'\"" and len(w) > 1:
                ts.append((w[0], w[1:-1]))
            else:
                ts.append(("", w))
        cases.append(Case("xall", [env_blank if r.below(3) == 0 else env, toks(ts)], {"gen": "mix"}))
    return cases


def nontrivial(c, M, S, g, cls):
    if M.count(",") >= 1:
        return (c.stream, tuple(c.fields[:1]))
    return None
