"""C05 — no input crashes or hangs the shell: the sweep is the correspondence of every pure stage."""
from .. import core, gens
from ..core import Case, hx, toks

ID = "C05"
NEEDS_BINARY = True
SPEC_MODE = "nocrash"
RULE = ("every string up to length 5 (thorough 6) over the 14-symbol core alphabet through line_to_cmds, parse_line and the whole planning "
        "pipeline (CommandLine::from_line: tokenizer, seven expansion passes, env draining, pipe splitting, redirections) in-process under "
        "catch_unwind and a fork watchdog; random lines/token lists over a wider alphabet through every single pass; "
        "the interactive highlighter (highlight ranges in bytes) on every string <= 4 (thorough 5) over a 16-symbol alphabet with quotes, escapes, operators, builtin names, multi-byte letters and multi-byte white space, and on random lines; "
        "non-trivial = distinct inputs on which the model takes a non-default outcome (error, panic, hang) or produces >= 2 tokens/commands")


def generate(tier, rng):
    cases = []
    k = 4 if tier == "quick" else 5
    for s in gens.all_strings(gens.C05_CORE, k):
        cases.append(Case("tok", [hx(s)], {"gen": "e"}))
        cases.append(Case("l2c", [hx(s)], {"gen": "e"}))
    kp = 3 if tier == "quick" else 4
    for s in gens.all_strings(gens.C05_CORE, kp, 1):
        cases.append(Case("plan", [gens.EMPTY_ENV, hx(s)], {"gen": "e"}))
    r = rng.fork("c05")
    n = 6000 if tier == "quick" else 100000
    env = gens.env_field(vars={"A": "va", "B": "x y"}, exported={"HOME": "/h", "E": "1"}, aliases={"ls": "ls -l", "ll": "ls | wc"}, status=3)
    for _ in range(n):
        line = gens.rand_line(r)
        cases.append(Case("tok", [hx(line)], {"gen": "g"}))
        cases.append(Case("l2c", [hx(line)], {"gen": "g"}))
    for _ in range(n // 3):
        line = gens.rand_line(r, 5)
        if "`" in line or "$(" in line or "*" in line:
            continue   # substitution and globbing are driven by the C11/C12 streams (scripted outputs / generated directories)
        cases.append(Case("plan", [env, hx(line)], {"gen": "g"}))
    for _ in range(n):
        t = gens.rand_tokens(r)
        ft = toks(t)
        cases.append(Case("redir", [ft], {"gen": "g"}))
        cases.append(Case("ftok", [ft], {"gen": "g"}))
        cases.append(Case("t2l", [ft], {"gen": "g"}))
        cases.append(Case("pipes", [ft], {"gen": "g"}))
        cases.append(Case("drain", [ft], {"gen": "g"}))
        cases.append(Case("xalias", [env, ft], {"gen": "g"}))
        cases.append(Case("xhome", [env, ft], {"gen": "g"}))
        cases.append(Case("xbrace", [ft], {"gen": "g"}))
    for _ in range(n // 3):
        t = gens.rand_tokens(r)
        ft = toks(t)
        cases.append(Case("xrange", [ft], {"gen": "g"}))
        cases.append(Case("xenv", [env, ft], {"gen": "g"}))
    # corpus: inputs that crashed or hung the pinned snapshot (witnesses of fixed / known findings run first)
    corpus = ["> x", "2>&1", "< x", "<<< a", "echo a | > x", ">> y", "99999999999999999999 + 1", "2 ^ 64", "2 ^ -1", "1 / 0",
              "${$", "${HOME", "echo ${?x", "echo \"$HOME\nx\"", "{2147483640..2147483647}", "{-2147483648..-2147483640..3}", "echo {1..3}",
              "(1 + 2", "1 +", "((2))", "2 ^ 3 ^ 2", "-9223372036854775808 / -1", "9223372036854775807 + 1", "1e5 + 1", "1. + 2", "a &", "&", "| a",
              "a | | b", "a ||", "'", "\"", "`", "\\", "a > b > c", "a 3> b", "a > &3", "X=1", "X=1 Y=2", "export PROMPT=$A x", "echo $(echo >)", "echo `a >`"]
    envc = gens.env_field(vars={"A": "va"}, exported={"HOME": "/h"}, cmds={"echo a": "a\n"})
    for s in corpus:
        cases.append(Case("head", [envc, hx(s)], {"gen": "corpus"}))
        cases.append(Case("plan", [envc, hx(s)], {"gen": "corpus"}))
    ar = ["0", "1", "9", " ", "+", "-", "*", "/", "^", "(", ")"]
    ka = 4 if tier == "quick" else 5
    for s in gens.all_strings(ar, ka, 1):
        cases.append(Case("calc", [hx(s)], {"gen": "e"}))
        cases.append(Case("arith", [hx(s)], {"gen": "e"}))
    for s in gens.all_strings(gens.C05_CORE, 3 if tier == "quick" else 4, 1):
        cases.append(Case("head", [gens.EMPTY_ENV, hx(s)], {"gen": "e"}))
    for _ in range(n // 3):
        line = gens.rand_line(r, 5)
        if "`" in line or "$(" in line or "*" in line:
            continue
        cases.append(Case("head", [env, hx(line)], {"gen": "g"}))
    for _ in range(n):
        s = gens.rand_string(r, gens.C05_ALPHA, 0, 8)
        cases.append(Case("arith", [hx(s)], {"gen": "g"}))
        cases.append(Case("envin", [hx(s)], {"gen": "g"}))
        cases.append(Case("needbrace", [hx(s)], {"gen": "g"}))
        cases.append(Case("shoulddollar", [hx(s)], {"gen": "g"}))
        cases.append(Case("unq", [hx(s)], {"gen": "g"}))
        cases.append(Case("oneenv", [env, hx(s)], {"gen": "g"}))
        cases.append(Case("wrap", [hx(r.choice(["", "'", '"', "`"])), hx(s)], {"gen": "g"}))
    # the interactive highlighter (src/highlight.rs): every string <= 4 (thorough 5) over an alphabet with quotes, escapes,
    # operators, builtin names, multi-byte letters and multi-byte white space; plus the random lines
    HL = ["a", "cd", " ", "'", '"', "\\", "|", "&", ";", ">", "<", "$", "é", "日", "\u3000", "="]
    for s_ in gens.all_strings(HL, 4 if tier == "quick" else 5, 1):
        cases.append(Case("hl", [hx(s_)], {"gen": "e"}))
    for _ in range(n):
        cases.append(Case("hl", [hx(gens.rand_line(r))], {"gen": "g"}))
        cases.append(Case("hl", [hx(gens.rand_string(r, gens.C05_ALPHA + ["\u3000", "日本", "cd", "alias"], 0, 10))], {"gen": "g"}))
    for w in ['é"', '日本"語"', "名前='x'", "ü\\>x", 'a"b c"', "echo é", 'echo "é x"', "\u3000\u3000cd x", " \u3000 ls | cd", "cd;alias"]:
        cases.append(Case("hl", [hx(w)], {"gen": "corpus"}))
    return cases


def nontrivial(c, M, S, g, cls):
    if M in ("PANIC", "HANG") or M.startswith("err") or M.count(",") >= 1 or M.count(";") >= 1:
        return (c.stream, tuple(c.fields))
    return None
