"""C05 — no input crashes or hangs the shell: the sweep is the correspondence of every pure stage."""
from .. import core, gens
from ..core import Case, hx, toks

ID = "C05"
NEEDS_BINARY = True
SPEC_MODE = "nocrash"
RULE = ("every string up to length 5 (thorough 6) over the 14-symbol core alphabet through line_to_cmds, parse_line and the whole planning "
        "pipeline (CommandLine::from_line: tokenizer, seven expansion passes, env draining, pipe splitting, redirections) in-process under "
        "catch_unwind and a fork watchdog; random lines/token lists over a wider alphabet through every single pass; "
        "the interactive highlighter (highlight ranges in bytes) on every string <= 4 (thorough 5) over a 16-symbol alphabet with quotes, escapes, operators, builtin names, multi-byte letters and multi-byte white space, and on random lines; "
        "process level: random and mutated lines (also repeated up to a few hundred characters) through `cicada -c` under a 20 s watchdog (exit by panic or signal = crash); key "
        "sequences of printable multi-byte text, editing keys and TAB typed on a pseudo-terminal without being submitted, and submitted lines of harmless words with unbalanced quotes / "
        "dangling operators, each abandoned with Ctrl-C, after which a sentinel command must run; "
        "non-trivial = distinct inputs on which the model takes a non-default outcome (error, panic, hang) or produces >= 2 tokens/commands")


def generate(tier, rng):
    cases = []
    k = 4 if tier == "quick" else 5
    for s in gens.all_strings(gens.C05_CORE, k):
        cases.append(Case("tok", [hx(s)], {"gen": "e"}))
        cases.append(Case("l2c", [hx(s)], {"gen": "e"}))
    kp = 3 if tier == "quick" else 4
    for s in gens.all_strings(gens.C05_CORE, kp, 1):
        cases.append(Case("plan", [gens.EMPTY_ENV, hx(s)], {"gen": "e"}))
    r = rng.fork("c05")
    n = 6000 if tier == "quick" else 100000
    env = gens.env_field(vars={"A": "va", "B": "x y"}, exported={"HOME": "/h", "E": "1"}, aliases={"ls": "ls -l", "ll": "ls | wc", "a": "b", "b": "a x", "foo": "echo | foo"}, status=3)     # incl. aliases that name each other
    for _ in range(n):
        line = gens.rand_line(r)
        cases.append(Case("tok", [hx(line)], {"gen": "g"}))
        cases.append(Case("l2c", [hx(line)], {"gen": "g"}))
    for _ in range(n // 3):
        line = gens.rand_line(r, 5)
        if "`" in line or "$(" in line or "*" in line:
            continue   # substitution and globbing are driven by the C11/C12 streams (scripted outputs / generated directories)
        cases.append(Case("plan", [env, hx(line)], {"gen": "g"}))
    for _ in range(n):
        t = gens.rand_tokens(r)
        ft = toks(t)
        cases.append(Case("redir", [ft], {"gen": "g"}))
        cases.append(Case("ftok", [ft], {"gen": "g"}))
        cases.append(Case("t2l", [ft], {"gen": "g"}))
        cases.append(Case("pipes", [ft], {"gen": "g"}))
        cases.append(Case("drain", [ft], {"gen": "g"}))
        cases.append(Case("xalias", [env, ft], {"gen": "g"}))
        cases.append(Case("xhome", [env, ft], {"gen": "g"}))
        cases.append(Case("xbrace", [ft], {"gen": "g"}))
    for _ in range(n // 3):
        t = gens.rand_tokens(r)
        ft = toks(t)
        cases.append(Case("xrange", [ft], {"gen": "g"}))
        cases.append(Case("xenv", [env, ft], {"gen": "g"}))
    # corpus: inputs that crashed or hung the pinned snapshot (witnesses of fixed / known findings run first)
    corpus = ["> x", "2>&1", "< x", "<<< a", "echo a | > x", ">> y", "99999999999999999999 + 1", "2 ^ 64", "2 ^ -1", "1 / 0",
              "${$", "${HOME", "echo ${?x", "echo \"$HOME\nx\"", "{2147483640..2147483647}", "{-2147483648..-2147483640..3}", "echo {1..3}",
              "echo {-1..2147483647..2147483647}", "{2147483647..-1..2147483647}", "{-2147483648..2147483647..2147483647}", "x{-2000000000..2000000000..2000000000}y",
              "(1 + 2", "1 +", "((2))", "2 ^ 3 ^ 2", "-9223372036854775808 / -1", "9223372036854775807 + 1", "1e5 + 1", "1. + 2", "a &", "&", "| a",
              "a | | b", "a ||", "'", "\"", "`", "\\", "a > b > c", "a 3> b", "a > &3", "X=1", "X=1 Y=2", "export PROMPT=$A x", "echo $(echo >)", "echo `a >`"]
    envc = gens.env_field(vars={"A": "va"}, exported={"HOME": "/h"}, cmds={"echo a": "a\n"})
    for s in corpus:
        cases.append(Case("head", [envc, hx(s)], {"gen": "corpus"}))
        cases.append(Case("plan", [envc, hx(s)], {"gen": "corpus"}))
    ar = ["0", "1", "9", " ", "+", "-", "*", "/", "^", "(", ")"]
    ka = 4 if tier == "quick" else 5
    for s in gens.all_strings(ar, ka, 1):
        cases.append(Case("calc", [hx(s)], {"gen": "e"}))
        cases.append(Case("arith", [hx(s)], {"gen": "e"}))
    for s in gens.all_strings(gens.C05_CORE, 3 if tier == "quick" else 4, 1):
        cases.append(Case("head", [gens.EMPTY_ENV, hx(s)], {"gen": "e"}))
    for _ in range(n // 3):
        line = gens.rand_line(r, 5)
        if "`" in line or "$(" in line or "*" in line:
            continue
        cases.append(Case("head", [env, hx(line)], {"gen": "g"}))
    for _ in range(n):
        s = gens.rand_string(r, gens.C05_ALPHA, 0, 8)
        cases.append(Case("arith", [hx(s)], {"gen": "g"}))
        cases.append(Case("envin", [hx(s)], {"gen": "g"}))
        cases.append(Case("needbrace", [hx(s)], {"gen": "g"}))
        cases.append(Case("shoulddollar", [hx(s)], {"gen": "g"}))
        cases.append(Case("unq", [hx(s)], {"gen": "g"}))
        cases.append(Case("oneenv", [env, hx(s)], {"gen": "g"}))
        cases.append(Case("wrap", [hx(r.choice(["", "'", '"', "`"])), hx(s)], {"gen": "g"}))
    # the interactive highlighter (src/highlight.rs): every string <= 4 (thorough 5) over an alphabet with quotes, escapes,
    # operators, builtin names, multi-byte letters and multi-byte white space; plus the random lines
    HL = ["a", "cd", " ", "'", '"', "\\", "|", "&", ";", ">", "<", "$", "é", "日", "\u3000", "="]
    for s_ in gens.all_strings(HL, 4 if tier == "quick" else 5, 1):
        cases.append(Case("hl", [hx(s_)], {"gen": "e"}))
    for _ in range(n):
        cases.append(Case("hl", [hx(gens.rand_line(r))], {"gen": "g"}))
        cases.append(Case("hl", [hx(gens.rand_string(r, gens.C05_ALPHA + ["\u3000", "日本", "cd", "alias"], 0, 10))], {"gen": "g"}))
    for w in ['é"', '日本"語"', "名前='x'", "ü\\>x", 'a"b c"', "echo é", 'echo "é x"', "\u3000\u3000cd x", " \u3000 ls | cd", "cd;alias"]:
        cases.append(Case("hl", [hx(w)], {"gen": "corpus"}))
    return cases


NOTES = []
KEYS = ["a", "b", "c", "d", " ", " ", "'", '"', "\\", "|", "&", ";", ">", "<", "$", "(", ")", "{", "}", "*", "~", "#", "=", "é", "日", "\u3000", "ü", "😀", "\t", "\t",
        "\x01", "\x05", "\x02", "\x06", "\x0b", "\x15", "\x17", "\x7f", "\x7f", "\x1b[D", "\x1b[C", "\x1b[A", "\x1b[B", "\x1b[H", "\x1b[F", "\x1bb", "\x1bf", "\x14", "\x19"]
SAFE_WORDS = ["argv", "argv a", "'x y'", '"q', "'", '"', "\\", "|", "||", "&&", ";", ">", "> f1", ">>", "2>&1", "<", "<<<", "$A", "${A", "$(", ")", "(", "{a,b}", "{1..3}", "*", "~",
              "#", "é", "日本", "a=b", "1 + 2", "2 ^ 70", "cd", "alias", "export A=1", "\u3000", "`", "\\\n", "!!", "'!!'"]


def process(tier, rng, cicada):
    """the real binary under a watchdog: (1) random and mutated lines with -c; (2) key sequences typed on a pseudo-terminal (the line
    editor, the highlighter and the completer run on every keystroke), abandoned with Ctrl-C, then a sentinel command must still run"""
    import os, subprocess
    from .. import proc
    from . import c20
    r = rng.fork("c05-p")
    sb = proc.Sandbox("c05")
    n = 160 if tier == "quick" else 4000
    cases = []
    for i in range(n):
        line = gens.rand_line(r, 6)
        if r.chance(1, 3):                                   # mutation: drop / double / swap characters
            k = r.below(max(1, len(line)))
            m = r.below(3)
            line = line[:k] + (line[k + 1:] if m == 0 else (line[k:k + 1] * 2 + line[k + 1:] if m == 1 else line[k + 1:k + 2] + line[k:k + 1] + line[k + 2:]))
        if r.chance(1, 20):
            line = line * (2 + r.below(20))                  # long lines (up to a few hundred characters)
        if "`" in line or "$(" in line or "\x00" in line or not line.strip():
            continue     # (substitution is driven by C11's streams: a scripted output that spells $(...) loops -- KF-C11-output-rescanned)
        c = Case("alive", [hx(line)], {"gen": "p", "kind": "-c"})
        c.id = "p%d" % i
        cases.append(c)

    def one(c):
        line = core.unhx(c.fields[0])
        d = os.path.join(sb.dir, c.id)
        os.makedirs(d)
        try:
            p = subprocess.run([cicada, "-c", line], cwd=d, env=sb.env({"A": "va"}), stdin=subprocess.DEVNULL, stdout=subprocess.PIPE, stderr=subprocess.PIPE, timeout=20)
        except subprocess.TimeoutExpired:
            return c.id, "HANG (20 s) on -c"
        if p.returncode < 0 or p.returncode in (101, 134, 139) or b"panicked at" in p.stderr:
            return c.id, "PANIC rc=%s %s" % (p.returncode, p.stderr.decode("utf-8", "replace")[-160:].replace("\n", " "))
        return c.id, "returns"

    impl = dict(proc.pmap(one, cases))
    # (2) key sequences
    m = 21 if tier == "quick" else 450
    kcases = []
    # lines that are harmless the first time must be harmless the second time: the same line twice, `!!` while the previous line itself holds `!!`
    fixed = [["argv !!\r", "argv !!\r", "argv !!\r"], ["!!\r", "!!\r"], ["argv '!!'\r", "argv !!\r", "argv \"!!\" !!\r"],
             ["argv a\r", "!!\r", "!! !!\r", "!!\r"], ["'\r", "\x03", "'\r", "\x03", "argv a\r", "argv a\r"],
             # completion probes that must not depend on the random draw: a word that starts with a multi-byte character and ends in
             # something a completer claims (seed C05-5 was once caught by a single random probe and lost when the stream changed)
             ["é$", "\t", " ", "日本$HO", "\t", "\t", " ", "ü=$A", "\t"], ["😀$_", "\t", " ", "é~/", "\t", " ", "日本./", "\t", "\t"],
             ["argv é$", "\t", " ", "'é di", "\t", " ", "é\\ f", "\t"]]
    for i in range(m + len(fixed)):
        if i >= m:
            pieces = fixed[i - m]
        elif i % 3 == 2:
            # completion probes: a word (plain, multi-byte start, open quote, escaped blank) ending in something a completer
            # claims ($NAME, ~/, ./, a path prefix, `..`, a command-name prefix), then TAB once or twice; never submitted
            pieces = []
            for _ in range(1 + r.below(4)):
                pieces.append(r.choice(["", "", "é", "日本", "a", "'x", '"y', "a\\ ", "ü=", "x/", "😀"]) +
                              r.choice(["$", "$HO", "$A", "$_", "~", "~/", "./", "di", "dir/", "dir/i", "f", "f\\ ", "..", "../", "*", "{a,", "ar", "mak", "ssh ", "cd d", "vox e"]))
                pieces += r.choice([["\t"], ["\t", "\t"], ["\t", "\x1b[D", "\t"]])
                pieces.append(" ")
        elif i % 3 == 0:
            pieces = [r.choice(KEYS) for _ in range(5 + r.below(60))]                                # editing only: never submitted
        else:
            pieces = [" ".join(r.choice(SAFE_WORDS) for _ in range(1 + r.below(6))) + "\r" for _ in range(1 + r.below(4))]   # submitted lines of harmless words
            if r.chance(1, 3):
                pieces.append(r.choice(pieces))                                                      # one of them a second time
        keys = "\x00".join(pieces)      # (the pieces are typed one by one: a burst would be read as pasted text and TAB would not complete)
        c = Case("alive", [hx(keys)], {"gen": "p", "kind": "keys"})
        c.id = "k%d" % i
        kcases.append(c)

    def one_keys(ic):
        i, c = ic
        keys = core.unhx(c.fields[0])
        helpers = os.path.join(core.BUILD, "helpers")
        # Ctrl-C abandons whatever is being edited (also a continuation prompt); only the helper directory is on PATH
        rows, recs, err = c20.pty_session(cicada, sb, 5000 + i, [("f one", False), ("dir", True), ("dir/in", False)], keys.split("\x00") + ["\x03"], {"PATH": helpers, "A": "va"})
        if err:
            # a crash of the line editor / completer is deterministic: the session is typed a second time before it is reported
            rows, recs, err2 = c20.pty_session(cicada, sb, 7000 + i, [("f one", False), ("dir", True), ("dir/in", False)], keys.split("\x00") + ["\x03"], {"PATH": helpers, "A": "va"})
            if err2:
                return c.id, "HANG/CRASH " + err2[:200]
            NOTES.append("key session %s failed once (%s) and passed when typed again" % (c.id, err[:80]))
        return c.id, "returns"

    impl.update(dict(proc.pmap(one_keys, list(enumerate(kcases)), workers=8)))
    sb.cleanup()
    return [("alive", cases + kcases, impl)]


def post(rep):
    rep.notes.extend(NOTES[:10])


def nontrivial(c, M, S, g, cls):
    if c.stream == "alive":
        return ("alive", c.meta.get("kind"), tuple(c.fields))
    if M in ("PANIC", "HANG") or M.startswith("err") or M.count(",") >= 1 or M.count(";") >= 1:
        return (c.stream, tuple(c.fields))
    return None
