"""C09 — variables, exported environment and working directory follow scoping rules."""
import os, shutil, subprocess
from .. import core, proc
from ..core import Case, hx

ID = "C09"
NEEDS_BINARY = True
RULE = ("histories of 1..30 operations (assignment, prefixed external command, export, unset, read with here-string and optional IFS prefix, "
        "cd with 0/1/2 arguments) over the names A, B, C_1, HOME, IFS, PWD with values containing blanks, quotes, `=`, `:` and the empty "
        "string, on a generated directory tree with absolute and relative symlinks, a dangling link, a link loop, a non-directory and "
        "missing entries. in-process: every line through execute::run_command_line with the real builtins, observing after each line "
        "the status, the real cwd, previous_dir, and for every name its expansion, its process-environment value and its shell-variable "
        "value, plus the per-command environment handed to a prefixed command; process level: the same histories as a script run by the "
        "plain binary, observing `$?` and `\"$NAME\"` expansions by echo, and the environment and cwd of a real child (helper envcwd) "
        "whose output is delivered through a relative redirection (the directory where the file lands is compared with the model's cwd). "
        "non-trivial = distinct (operation kind, outcome) pairs and histories")

NAMES = ["A", "B", "C_1", "HOME", "IFS", "PWD"]
VALUES = ["", "v", "x y", " lead", "trail ", "a=b", "=", "p:q", "/bin:/usr/bin", "it's", 'say "hi"', "a  b", "1", "é", "-n", "d1", "w", "0"]
IFSV = [":", ",", "", " :", "x"]
READ_LINES = ["1 2 3", "one", "", "a b", "1  2", " 1 2 ", "a:b:c", "a,b c", "1 2 3 4 5", "x\ty", "a   b   c", "é ü", "a: b", "p:q r:s", "x"]
CD_ARGS = ["d1", "d1/d2", "..", ".", "l1", "lrel", "lrel/d2", "d1/f", "nope", "dangling", "loop", "-", "sp ace", "d1/../l1", "", "d2", "home",
           "d1//d2/", "./d1/.", "l1/..", "lrel/../sp ace", "d1/f/", "d1/f/..", "@R", "@R/d1", "@R/l1", "@R/nope", "@R/d1/d2/../..", "../R"]


def tree_entries(R):
    """(path, kind, target) under the canonical root R, plus R's ancestors as directories"""
    ent = []
    p = R
    anc = []
    while p != "/":
        anc.append(p)
        p = os.path.dirname(p)
    for a in reversed(anc):
        ent.append((a, "d", None))
    for d in ["home", "d1", "d1/d2", "sp ace"]:
        ent.append((R + "/" + d, "d", None))
    ent.append((R + "/d1/f", "f", None))
    ent.append((R + "/l1", "l", R + "/d1/d2"))
    ent.append((R + "/lrel", "l", "d1"))
    ent.append((R + "/dangling", "l", "nowhere"))
    ent.append((R + "/loop", "l", "loop"))
    ent.append((R + "/d1/up", "l", ".."))
    return ent


def make_tree(R):
    if os.path.lexists(R):
        shutil.rmtree(R)
    os.makedirs(R)
    for p, k, t in tree_entries(R):
        if not p.startswith(R + "/"):
            continue
        if k == "d":
            os.makedirs(p, exist_ok=True)
        elif k == "f":
            open(p, "w").write("x")
        else:
            os.symlink(t, p)


def tree_field(R):
    return ",".join(hx(p) + ":" + k + ((":" + hx(t)) if k == "l" else "") for p, k, t in tree_entries(R))


def quote(r, v, allow_bare=True):
    if "'" in v:
        return '"' + v + '"'
    if '"' in v or v == "" or not allow_bare or any(c in v for c in " \t"):
        return "'" + v + "'" if ('"' in v or r.below(2)) else '"' + v + '"'
    return r.choice([v, v, "'" + v + "'", '"' + v + '"'])


def gen_ops(r, maxlen, fn=False):
    """abstract operations; directory arguments use @R for the root (substituted per tree)"""
    ops = []
    n = 1 + r.below(maxlen)
    ups = 0
    for _ in range(n):
        k = r.choice("aaapxxurrccccff" if fn else "aaapxxurrcccc")
        name = r.choice(["A", "A", "B", "B", "C_1", "HOME", "IFS", "PWD"]) if r.below(4) else r.choice(["A", "B"])
        if name == "HOME":
            val = r.choice(["@R/home", "@R/d1", "@R/nope", "", "@R/l1", "d1"])
        elif name == "IFS":
            val = r.choice(IFSV)
        else:
            val = r.choice(VALUES)
        if k in "apxf":
            ops.append((k, name, val))
        elif k == "u":
            ops.append(("u", r.choice(["A", "B", "C_1", "HOME", "IFS", "PWD", "A", "B", "a-b", "1x", "A=1"])))
        elif k == "r":
            names = [r.choice(["A", "B", "C_1", "IFS"]) for _ in range(1 + r.below(3))]
            pre = r.choice(IFSV) if r.below(4) == 0 else None
            ops.append(("r", pre, names, r.choice(READ_LINES)))
        else:
            a = r.choice(CD_ARGS)
            if ".." in a:
                ups += 1
                if ups > 2:
                    a = "d1"
            m = r.below(12)
            ops.append(("c", [] if m == 0 else ([a, "x"] if m == 1 else [a])))
    return ops


def render(r, op, R):
    sub = lambda s: s.replace("@R", R)
    k = op[0]
    if k == "a":
        return "%s=%s" % (op[1], quote(r, sub(op[2])))
    if k == "p":
        return "%s=%s envcwd" % (op[1], quote(r, sub(op[2])))
    if k == "f":
        return "%s=%s fnop" % (op[1], quote(r, sub(op[2])))       # the prefix in front of a shell function (defined at the top of the script)
    if k == "x":
        return "export %s=%s" % (op[1], quote(r, sub(op[2])))
    if k == "u":
        return "unset %s" % op[1]
    if k == "r":
        pre = "" if op[1] is None else "IFS=%s " % quote(r, op[1], allow_bare=False)
        return "%sread %s <<< %s" % (pre, " ".join(op[2]), quote(r, op[3], allow_bare=False))
    return "cd" + "".join(" " + quote(r, sub(a)) for a in op[1])


def enc_ops(ops, R):
    sub = lambda s: s.replace("@R", R)
    out = []
    for op in ops:
        k = op[0]
        if k in "apxf":
            out.append("%s:%s:%s" % (k, hx(op[1]), hx(sub(op[2]))))
        elif k == "u":
            out.append("u:%s" % hx(op[1]))
        elif k == "r":
            out.append("r:%s:%s:%s" % ("~" if op[1] is None else hx("IFS") + "=" + hx(op[1]), ".".join(hx(n) for n in op[2]), hx(op[3])))
        else:
            out.append("c:%s" % ("~" if not op[1] else ".".join(hx(sub(a)) for a in op[1])))
    return ";".join(out)


def init_env(r, R):
    e = [("HOME", R + "/home")]
    if r.below(2):
        e.append(("A", r.choice(VALUES)))
    if r.below(4) == 0:
        e.append(("PWD", R))
    if r.below(8) == 0:
        e.append(("IFS", r.choice(IFSV)))
    return e


def root():
    return os.path.realpath(os.path.join(core.WORK, "cdroot", "p1", "p2", "R"))


def generate(tier, rng):
    r = rng.fork("c09")
    R = root()
    os.makedirs(os.path.dirname(R), exist_ok=True)
    make_tree(R)
    tf = tree_field(R)
    cases = []
    n = 2500 if tier == "quick" else 40000
    for i in range(n):
        ops = gen_ops(r, 30 if i % 4 else 6)
        # the prefixed command is not run in-process (scripted pipeline): the line is still planned and its envs recorded
        lines = [render(r, op, R) for op in ops]
        env = init_env(r, R)
        cases.append(Case("envseq", [",".join(hx(k) + ":" + hx(v) for k, v in env), ",".join(hx(x) for x in NAMES),
                                     ",".join(hx(l) for l in lines), hx(R), enc_ops(ops, R), tf],
                          {"gen": "g", "ops": [(o[0],) for o in ops]}))
    return cases


TALLY = {}


def nontrivial(c, M, S, g, cls):
    if c.stream not in ("envseq", "envproc"):
        return None
    outs = M.split("|")
    ks = c.meta.get("ops", [])
    for k, o in zip(ks, outs):
        key = "%s:op-%s:status-%s" % (c.stream, k[0], o.split(";")[0])
        TALLY[key] = TALLY.get(key, 0) + 1
    return (c.stream, tuple((k[0], o.split(";")[0]) for k, o in zip(ks, outs))[:6], len(outs))


def process(tier, rng, cicada):
    r = rng.fork("c09-p")
    sb = proc.Sandbox("c09")
    n = 150 if tier == "quick" else 2500
    jobs = []
    for i in range(n):
        R = os.path.realpath(os.path.join(sb.dir, "t%d" % i, "p1", "p2", "R"))
        ops = gen_ops(r, 30 if i % 3 else 8, fn=True)
        env = init_env(r, R)
        lines = [render(r, op, R) for op in ops]
        c = Case("envproc", [",".join(hx(k) + ":" + hx(v) for k, v in env), ",".join(hx(x) for x in NAMES), ",".join(hx(l) for l in lines),
                             hx(R), enc_ops(ops, R), tree_field(R)], {"gen": "p", "ops": [(o[0],) for o in ops]})
        c.id = "p%d" % i
        jobs.append((c, R, ops, env, lines))

    def one(job):
        c, R, ops, env, lines = job
        os.makedirs(os.path.dirname(R), exist_ok=True)
        make_tree(R)
        script = ["function fnop() {", "    true", "}"]
        for k, (op, line) in enumerate(zip(ops, lines)):
            if op[0] == "p":
                script.append("%s %s > out.%d" % (line, " ".join(NAMES), k))
                script.append('echo "S|%d|$?|%s"' % (k, "|".join('$%s' % n for n in NAMES)))
            else:
                script.append(line)
                script.append('echo "S|%d|$?|%s"' % (k, "|".join('$%s' % n for n in NAMES)))
                script.append("envcwd %s > out.%d" % (" ".join(NAMES), k))
        spath = os.path.join(os.path.dirname(R), "..", "..", "script.sh")
        open(spath, "w").write("\n".join(script) + "\n")
        e = sb.env(dict(env))
        for k in ("HOME",):
            if k not in dict(env):
                e.pop(k, None)
        try:
            p = subprocess.run([cicada, os.path.realpath(spath)], cwd=R, env=e, stdin=subprocess.DEVNULL, stdout=subprocess.PIPE,
                               stderr=subprocess.PIPE, timeout=60)
            out = p.stdout.decode("utf-8", "replace")
        except subprocess.TimeoutExpired:
            return c.id, "HANG"
        echo = {}
        for l in out.split("\n"):
            if l.startswith("S|"):
                parts = l.split("|")
                echo[int(parts[1])] = (parts[2], parts[3:])
        where = {}
        top = os.path.realpath(os.path.join(os.path.dirname(R), "..", ".."))
        for dp, dn, fn in os.walk(top):
            for f in fn:
                if f.startswith("out."):
                    where[int(f[4:])] = (os.path.realpath(dp), open(os.path.join(dp, f)).read().strip())
        obs = []
        for k in range(len(ops)):
            st, exps = echo.get(k, ("?", []))
            d, rec = where.get(k, ("?", "?;?"))
            ccwd, cenv = (rec.split(";") + ["?"])[:2]
            obs.append("%s;%s;%s;%s;%s" % (st, hx(d), ccwd, ",".join(hx(x) for x in exps), cenv))
        shutil.rmtree(top, ignore_errors=True)
        return c.id, "|".join(obs)

    impl = dict(proc.pmap(one, jobs))
    sb.cleanup()
    return [("script", [j[0] for j in jobs], impl)]


def post(rep):
    for k, n in sorted(TALLY.items()):
        rep.count(k, n)
