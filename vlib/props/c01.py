"""C01 — quoted and escaped arguments reach the program verbatim."""
import itertools, os
from .. import core, gens, proc
from ..core import Case, hx

ID = "C01"
NEEDS_BINARY = True
ALPHA = gens.META + [" ", "\t", "a", "é"]
STY = {"s": "'%s'", "d": '"%s"'}
SPECIAL = set("|&;<>()$`\\\"'*?[]{},~#!=%^ \t")
CTX = {"a": "", "p": " | q", "s": " ; q", "n": " && q", "o": " || q"}
RULE = ("argument texts over the 29-symbol alphabet of the property (25 metacharacters, blank, tab, a letter, a multi-byte letter): "
        "quick = every text of length <= 2 x 3 styles x {first, middle, last} x 5 contexts (operators written with blanks; as last argument also "
        "WITHOUT blanks: `prog 'x' a\\>b|q`) and every text of length 3 as last argument; "
        "thorough = length <= 3 everywhere, length 4 as last argument; random lists of 0..6 arguments with empty strings; a sample through "
        "the real binary (`cicada -c`, argv-recording helper). Each case: line_to_cmds + CommandLine::from_line in-process vs the Lean model, "
        "and both vs the expected argv of the Lean spec. non-trivial = distinct (style, argument text) pairs containing at least one metacharacter")


def render_arg(style, a):
    if style == "s":
        return "'" + a + "'"
    if style == "d":
        return '"' + a + '"'
    return "".join(("\\" + c) if c in SPECIAL else c for c in a)


TIGHT = {"a": "", "p": "|q", "s": ";q", "n": "&&q", "o": "||q"}


FEATURE = {"i": ("", " < inp"), "o": ("", " > out"), "d": ("", " 2>&1"), "e": ("X=1 ", "")}


def mk(env, p, args, ctx, meta, tight=False, feature=None):
    if feature:
        pre, post = FEATURE[feature]
        line = pre + p + "".join(" " + render_arg(s, a) for s, a in args) + post
        af = ",".join(s + ":" + hx(a) for s, a in args) or "[]"
        return Case("plan1", [env, hx(line), "c01", hx(p), af, "a", feature], meta)
    line = p + "".join(" " + render_arg(s, a) for s, a in args) + (TIGHT if tight else CTX)[ctx]
    af = ",".join(s + ":" + hx(a) for s, a in args) or "[]"
    return Case("plan1", [env, hx(line), "c01", hx(p), af, ctx] + (["t"] if tight else []), meta)


ENV = gens.env_field(vars={"A": "va", "x": "1"}, exported={"HOME": "/h"}, aliases={"ls": "ls -l"}, status=0)


def positions(style, a):
    yield [(style, a), ("s", "x"), ("d", "y")]
    yield [("s", "x"), (style, a), ("d", "y")]
    yield [("s", "x"), ("d", "y"), (style, a)]


def generate(tier, rng):
    cases = []
    kfull = 2 if tier == "quick" else 3
    for a in gens.all_strings(ALPHA, kfull):
        for style in "sde":
            for args in positions(style, a):
                for ctx in CTX:
                    cases.append(mk(ENV, "prog", args, ctx, {"gen": "e", "style": style, "a": a}))
            # the argument under test next to ANOTHER feature of the line: a real input / output redirection, a dup, an assignment prefix
            if len(a) <= 1 or tier != "quick":
                for feat in "iode":
                    for args in positions(style, a):
                        cases.append(mk(ENV, "prog", args, "a", {"gen": "ef", "style": style, "a": a}, feature=feat))
            # the argument under test directly BEFORE a word that names an alias of the session (`prog '|' ls`): the word is an argument,
            # whatever the argument before it spells
            for ctx in "ap":
                for nxt in "es":
                    cases.append(mk(ENV, "prog", [(style, a), (nxt, "ls")], ctx, {"gen": "ea", "style": style, "a": a}))
                cases.append(mk(ENV, "prog", [("s", "x"), (style, a), ("e", "ls"), ("d", "y")], ctx, {"gen": "ea", "style": style, "a": a}))
            # the operator written without blanks, directly after the argument under test
            for ctx in "psno":
                cases.append(mk(ENV, "prog", [("s", "x"), (style, a)], ctx, {"gen": "et", "style": style, "a": a}, tight=True))
    klast = 3 if tier == "quick" else 4
    for a in gens.all_strings(ALPHA, klast, klast):
        for style in "sde":
            cases.append(mk(ENV, "prog", [("s", "x"), (style, a)], "a", {"gen": "e3", "style": style, "a": a}))
    r = rng.fork("c01")
    n = 2000 if tier == "quick" else 20000
    for _ in range(n):
        k = r.below(7)
        args = []
        for _ in range(k):
            style = r.choice("sde")
            a = gens.rand_string(r, ALPHA + ["b", "1", "-", ".", "/", "日本"], 0, 6)
            if r.chance(1, 12):
                a = "ls"                                   # the name of an alias of the session, as an argument
            args.append((style, a))
        p = r.choice(["prog", "./argv", "a-b_c.d", "prog", "/bin/x1"])
        if r.chance(1, 4):
            cases.append(mk(ENV, p, args, "a", {"gen": "g"}, feature=r.choice("iode")))
        else:
            cases.append(mk(ENV, p, args, r.choice("apsno"), {"gen": "g"}, tight=r.chance(1, 3)))
    return cases


def project(case, s):
    """plan dump -> observable of the property (argv per stage, redirections, stdin source, bg, envs)"""
    if not s.startswith("ok|"):
        return s
    parts = s.split("|")
    if len(parts) != 4:
        return s
    cmds = []
    for c in parts[3].split(";"):
        x = c.split("/")
        if len(x) != 3:
            cmds.append(c)
            continue
        toks = x[0]
        if toks != "[]":
            toks = ",".join(t.split(":")[-1] for t in toks.split(","))
        cmds.append("/".join([toks, x[1], x[2]]))
    return "|".join(parts[:3] + [";".join(cmds)])


def nontrivial(c, M, S, g, cls):
    a = c.meta.get("a")
    if a is not None and any(ch in SPECIAL for ch in a):
        return (c.meta["style"], a)
    return None


def process(tier, rng, cicada):
    """a sample through the real binary: argv as received by the helper program"""
    r = rng.fork("c01-p")
    n = 200 if tier == "quick" else 3000
    cases = []
    for i in range(n):
        k = 1 + r.below(5)
        args = []
        for _ in range(k):
            style = r.choice("sd")
            a = gens.rand_string(r, [x for x in ALPHA + ["b", "1"] if x not in ("'", '"', "$", "`", "\\")], 0, 5)
            args.append((style, a))
        c = mk(gens.env_field(exported={"HOME": "/h"}), "argv", args, "a", {"gen": "p", "args": args})
        c.id = "p%d" % i
        cases.append(c)
    sb = proc.Sandbox("c01")

    def one(c):
        log = os.path.join(sb.dir, "argv-" + c.id)
        rc, out, err = proc.run_c(cicada, core.unhx(c.fields[1]), sb, {"ARGV_LOG": log, "HOME": "/h"})
        recs = []
        if os.path.exists(log):
            lines = open(log).read().split("\n")
            os.remove(log)
            i = 0
            while i < len(lines) and lines[i]:
                n = int(lines[i])
                recs.append(lines[i + 1:i + 1 + n])
                i += n + 2
        if len(recs) != 1:
            return c.id, "RAN %d times rc=%s" % (len(recs), rc)
        # same syntax as the spec's observable: one stage, no redirections
        return c.id, "ok|0|[]|%s/[]/none" % ",".join(recs[0])

    impl = dict(proc.pmap(one, cases))
    sb.cleanup()
    return [("-c", cases, impl)]
