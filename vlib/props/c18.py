"""C18 — history stores every submitted line verbatim, durably and injection-free."""
import os, sqlite3, subprocess
from .. import core, gens, proc
from ..core import Case, hx

ID = "C18"
NEEDS_BINARY = True
TEXT = ["'", '"', "%", "_", "\\", ";", "--", ")", "(", "a", "b", "x y", "é", "日", "DROP", "=", "$X", "*", "|"]
DIRS = ["d", "d'q", "per%cent", "under_score", "sp ace", "q\"q", "é", "a;b", "back\\slash", "x--y", "p)q"]
RULE = ("random sequences (<= 12) of add / list-with-pattern / delete operations, each run by its own shell process on one shared database, "
        "with line texts (also rows of 34-64 KB, deleted together with later rows), search patterns and working-directory names over an alphabet with ' \" % _ \\ ; -- ) and multi-byte characters; the "
        "table is read back with an independent SQLite client (python sqlite3) and compared with the Lean model and spec (rows, order, "
        "listing results); `prompt`: sessions of 2-8 lines typed at one interactive prompt on a pseudo-terminal (repeats, repeats separated by a "
        "space-led or blank line, trailing blanks), rows read back with the independent client and compared with the model of the prompt "
        "loop and with `specRecorded`. non-trivial = distinct sequences containing a quote or wildcard character, distinct prompt sessions "
        "with a repeat or a space-led line")


def shell_quote(s):
    if "'" not in s:
        return "'" + s + "'"
    if not any(c in s for c in '"$`\\'):
        return '"' + s + '"'
    return None


def generate(tier, rng):
    return []


SEQS = []


def process(tier, rng, cicada):
    r = rng.fork("c18")
    n = 40 if tier == "quick" else 600
    cases = []
    for i in range(n):
        ops = []
        nrows = 0
        for _ in range(2 + r.below(11)):
            k = r.below(10)
            if (k <= 5 or nrows == 0) and r.chance(1, 12):
                # a row of several database pages (deleting it frees enough pages for a storage engine to want to compact)
                ops.append(("A", r.choice(DIRS), "echo " + "y" * (34000 + r.below(30000))))
                nrows += 1
            elif k <= 5 or nrows == 0:
                while True:
                    line = gens.rand_string(r, TEXT, 1, 5)
                    if r.chance(1, 8):
                        line = r.choice([" ", "  "]) + line + r.choice(["", " "])
                    if shell_quote(line) is not None and not line.lstrip().startswith("-") and line.strip():
                        break
                ops.append(("A", r.choice(DIRS), line))
                nrows += 1
            elif k <= 7:
                while True:
                    pat = gens.rand_string(r, TEXT, 0, 2)
                    if shell_quote(pat) is not None and not pat.startswith("-"):
                        break
                ops.append(("L", pat))
            else:
                ops.append(("D", sorted(set(1 + r.below(nrows + 1) for _ in range(1 + r.below(2))))))
        if i == 0:
            ops = [("A", "d", "echo one"), ("A", "d", "echo " + "y" * 57000), ("A", "d", "echo three"), ("A", "d", "echo four"), ("A", "d", "echo five"),
                   ("D", [2, 4]), ("L", ""), ("A", "d", "echo six"), ("D", [1, 6])]
        enc = ";".join("A:%s:%s" % (hx(o[1]), hx(o[2])) if o[0] == "A" else ("L:%s" % hx(o[1]) if o[0] == "L" else "D:%s" % ".".join(map(str, o[1]))) for o in ops)
        c = Case("hist", [enc], {"gen": "p", "ops": ops})
        c.id = "p%d" % i
        cases.append(c)
    sb = proc.Sandbox("c18")

    def one(c):
        d = os.path.join(sb.dir, c.id)
        os.makedirs(d)
        dbf = os.path.join(d, "hist.sqlite")
        con = sqlite3.connect(dbf)
        con.execute("CREATE TABLE cicada_history (inp TEXT, rtn INTEGER, tsb REAL, tse REAL, sessionid TEXT, out TEXT, info TEXT)")
        con.commit(); con.close()
        env = sb.env({"HISTORY_FILE": dbf})
        outs = []
        ts = 0
        for o in c.meta["ops"]:
            if o[0] == "A":
                wd = os.path.join(d, "w", o[1])
                os.makedirs(wd, exist_ok=True)
                ts += 10
                cmd = "history add -t %d %s" % (ts, shell_quote(o[2]))
                p = subprocess.run([cicada, "-c", cmd], cwd=wd, env=env, stdin=subprocess.DEVNULL, stdout=subprocess.PIPE, stderr=subprocess.PIPE, timeout=20)
                outs.append("ok")
            elif o[0] == "L":
                cmd = "history -n -a -l 1000 %s" % shell_quote(o[1]) if o[1] else "history -n -a -l 1000"
                p = subprocess.run([cicada, "-c", cmd], cwd=d, env=env, stdin=subprocess.DEVNULL, stdout=subprocess.PIPE, stderr=subprocess.PIPE, timeout=20)
                if p.stderr.strip():
                    outs.append("ERR " + p.stderr.decode("utf-8", "replace").strip()[:80])
                else:
                    lines = [x for x in p.stdout.decode("utf-8", "replace").split("\n") if x != ""]
                    outs.append(",".join(hx(x) for x in lines) or "[]")
            else:
                cmd = "history delete " + " ".join(map(str, o[1]))
                subprocess.run([cicada, "-c", cmd], cwd=d, env=env, stdin=subprocess.DEVNULL, stdout=subprocess.PIPE, stderr=subprocess.PIPE, timeout=20)
                outs.append("ok")
        con = sqlite3.connect(dbf)
        rows = con.execute("SELECT rowid, inp, info FROM cicada_history ORDER BY rowid").fetchall()
        con.close()
        base = os.path.join(d, "w") + "/"
        rr = []
        for rid, inp, info in rows:
            dd = info
            if dd.startswith("dir:"):
                dd = dd[4:]
            if dd.endswith("|"):
                dd = dd[:-1]
            if dd.startswith(base):
                dd = dd[len(base):]
            rr.append("%d:%s:%s" % (rid, hx(inp), hx(dd)))
        return c.id, "|".join(outs) + "#" + (",".join(rr) or "[]")

    impl = dict(proc.pmap(one, cases))
    sb.cleanup()
    pcases, pimpl = prompt_sessions(tier, rng, cicada)
    return [("procs", cases, impl), ("prompt", pcases, pimpl)]


# lines typed at one interactive prompt (a pty session): which of them are recorded.  The pool is small so that repeats,
# repeats separated by a hidden (space-led) line, and repeats separated by a blank line are frequent.
POOL = ["argv one", "argv 'x y'", "argv \"q%\" z", "argv é", "true", "argv a;argv b", "argv it\\'s", "argv --"]
FIXED_SESSIONS = [
    ["argv one", " argv hidden", "argv one", "argv two"],          # a hidden line does not reset the repeat filter
    ["argv one", "argv one", "argv two", "argv one"],
    ["argv one", "  ", "argv one"],
    [" argv one", "argv one", " argv one", "argv one"],
    ["argv one", "argv one ", "argv two"],                          # trailing blank: KF-C18-trim
    # the history file named anew in mid-session: the later lines go to the new file (rows are read from both, in this order)
    ["argv one", "export HISTORY_FILE=$HOME/history2.sqlite", "argv two", "argv two", "argv three"],
    ["export HISTORY_FILE=$HOME/history2.sqlite", "argv one", " argv hidden", "argv one"],
]


def prompt_sessions(tier, rng, cicada):
    from . import c20
    r = rng.fork("c18-prompt")
    n = 14 if tier == "quick" else 150
    sessions = list(FIXED_SESSIONS)
    while len(sessions) < n:
        ls = []
        for _ in range(2 + r.below(7)):
            k = r.below(10)
            if k <= 3 and ls:
                base = r.choice(ls).strip() or r.choice(POOL)      # repeat of an earlier line of this session
            else:
                base = r.choice(POOL)
            if r.chance(1, 4):
                base = r.choice([" ", "  "]) + base
            elif r.chance(1, 10):
                base = base + " "
            if r.chance(1, 10):
                base = r.choice([" ", "   "])                       # a blank line: not a submission
            ls.append(base)
        if r.chance(1, 5):
            ls.insert(r.below(len(ls) + 1), "export HISTORY_FILE=$HOME/history2.sqlite")
        sessions.append(ls)
    cases = []
    for i, ls in enumerate(sessions):
        typed = ls + ["argv __done__"]                              # the sentinel pty_session types is a submission too
        c = Case("hprompt", [",".join(hx(x) for x in typed)], {"gen": "p", "lines": ls})
        c.id = "q%d" % i
        cases.append(c)
    sb = proc.Sandbox("c18p")

    def one(ic):
        i, c = ic
        rows, recs, err = c20.pty_session(cicada, sb, 3000 + i, [], "\r".join(c.meta["lines"]), {})
        if err:
            NOTES.append("prompt session %s: %s" % (c.id, err))
            return c.id, "ERR " + err[:120]
        return c.id, (",".join(hx(x) for x in rows) or "[]")

    impl = dict(proc.pmap(one, list(enumerate(cases)), workers=8))
    sb.cleanup()
    return cases, impl


NOTES = []


def post(rep):
    rep.notes.extend(NOTES[:10])


def nontrivial(c, M, S, g, cls):
    if c.stream == "hprompt":
        ls = c.meta["lines"]
        return ("prompt",) + tuple(ls) if len(set(x.strip() for x in ls)) < len(ls) or any(x.startswith(" ") for x in ls) else None
    ops = c.meta["ops"]
    if any(any(ch in str(o[-1]) for ch in "'%_\"") for o in ops):
        return tuple(map(str, ops))
    return None
