"""C10 — parameter expansion substitutes current values, once, and always terminates."""
import itertools, os
from .. import core, gens, proc
from ..core import Case, hx, toks

ID = "C10"
NEEDS_BINARY = True
NAMES = ["A", "AB", "A_1", "B", "HOME", "UNSET", "_x"]
LITS = ["a", "-", "/", ".", " ", "=", "{", "}", "x y", "é", "1", ":", "+", "*", "(", ")", "[", "\\", "?", "^"]
RULE = ("words assembled from literal / $NAME / ${NAME} / $? / $$ segments: every word of <= 3 segments over 7 names (prefixes of one another) "
        "and 6 literals x 3 quotings x 12 environments whose values contain $NAME, ${NAME}, $1, regex-special text, blanks, self and mutual "
        "references (thorough: plus 4..6 segments sampled); in-process shell::expand_env vs the Lean model vs the Lean spec, and a sample "
        "through the real binary (argv helper). non-trivial = distinct (word, quoting, environment) with >= 1 reference whose value contains `$`")

ENVS = [
    {"v": {"A": "va", "AB": "vab", "A_1": "v1", "B": "x y"}, "x": {"HOME": "/h"}},
    {"v": {"A": "$B", "B": "hello"}, "x": {"HOME": "/h"}},
    {"v": {"A": "${B}", "B": "$A"}, "x": {}},
    {"v": {"A": "x$A", "AB": "$AB$AB"}, "x": {}},
    {"v": {"A": "$1", "B": "a$b", "AB": "$"}, "x": {"HOME": "$HOME"}},
    {"v": {"A": ".*+?^()[]{}|\\", "B": "'q' \"d\""}, "x": {}},
    {"v": {"A": "", "B": " "}, "x": {"HOME": ""}},
    {"v": {"A": "$?", "B": "$$", "AB": "${?}"}, "x": {}},
    {"v": {"A": "shell"}, "x": {"A": "exported", "B": "eb"}},
    {"v": {}, "x": {}},
    {"v": {"A": "a\nb", "B": "$(x)", "AB": "`x`"}, "x": {}},
    {"v": {"_x": "u", "A_1": "${A_1}"}, "x": {"HOME": "/root"}},
]


def seg_text(s):
    k = s[0]
    if k == "l":
        return s[1]
    if k == "v":
        return "$" + s[1]
    if k == "b":
        return "${" + s[1] + "}"
    return "$?" if k == "s" else "$$"


def seg_field(w):
    out = []
    for s in w:
        out.append(s[0] if s[0] in "sp" else s[0] + ":" + hx(s[1]))
    return ",".join(out) or "[]"


def mk(envd, w, q, st, meta):
    env = gens.env_field(vars=envd["v"], exported=envd["x"], status=st)
    text = "".join(seg_text(s) for s in w)
    sep = {"n": "", "d": '"', "s": "'"}[q]
    return Case("xenv", [env, toks([(sep, text)]), "c10", seg_field(w), q], meta)


def all_segs():
    segs = [("l", x) for x in ["a", "-", "x y", "=", "{", "1"]]
    segs += [("v", n) for n in NAMES] + [("b", n) for n in NAMES] + [("s",), ("p",)]
    return segs


def generate(tier, rng):
    cases = []
    segs = all_segs()
    r = rng.fork("c10")
    words = [[s] for s in segs] + [[a, b] for a in segs for b in segs]
    if tier == "thorough":
        words += [[a, b, c] for a in segs for b in segs for c in segs]
    else:
        for _ in range(3000):
            words.append([r.choice(segs) for _ in range(3)])
    for w in words:
        for ei in ([r.below(len(ENVS)), r.below(len(ENVS))] if tier == "quick" and len(w) > 1 else range(len(ENVS))):
            for q in "nds":
                cases.append(mk(ENVS[ei], w, q, 7, {"gen": "e", "env": ei, "w": tuple(w), "q": q}))
    n = 3000 if tier == "quick" else 60000
    for _ in range(n):
        k = 1 + r.below(6)
        w = []
        for _ in range(k):
            kind = r.choice("lvvbbsp")
            if kind == "l":
                w.append(("l", gens.rand_string(r, LITS, 1, 3)))
            elif kind in "vb":
                w.append((kind, r.choice(NAMES)))
            else:
                w.append((kind,))
        ei = r.below(len(ENVS))
        cases.append(mk(ENVS[ei], w, r.choice("nds"), r.choice([0, 1, 127, 255]), {"gen": "g", "env": ei, "w": tuple(w)}))
    # raw token texts over a `$`-heavy alphabet through the single-token function (no spec: correspondence only)
    al = ["$", "{", "}", "A", "B", "?", "a", "1", "_", "=", "'", "`", "(", ")", " ", "\n"]
    for _ in range(n * 3):
        s = gens.rand_string(r, al, 0, 9)
        ei = r.below(len(ENVS))
        env = gens.env_field(vars=ENVS[ei]["v"], exported=ENVS[ei]["x"], status=3)
        cases.append(Case("oneenv", [env, hx(s)], {"gen": "m"}))
        cases.append(Case("envin", [hx(s)], {"gen": "m"}))
        cases.append(Case("xenv", [env, toks([(r.choice(["", '"', "'", "`", "\\"]), s)])], {"gen": "m"}))
    return cases


def nontrivial(c, M, S, g, cls):
    if "w" in c.meta and any(s[0] in "vb" and "$" in ENVS[c.meta["env"]]["v"].get(s[1], "") for s in c.meta["w"] if len(s) > 1):
        return (c.meta["w"], c.meta.get("q"), c.meta["env"])
    return None


def process(tier, rng, cicada):
    r = rng.fork("c10-p")
    n = 150 if tier == "quick" else 2000
    cases = []
    for i in range(n):
        k = 1 + r.below(4)
        w = []
        for _ in range(k):
            kind = r.choice("lvbvb")
            if kind == "l":
                w.append(("l", gens.rand_string(r, ["a", "-", "/", ".", "=", ":", "+", "1"], 1, 3)))
            else:
                w.append((kind, r.choice(["A", "AB", "B", "UNSET"])))
        ei = r.choice([1, 2, 3, 4, 5, 8])
        q = r.choice("ds")
        c = mk({"v": {}, "x": dict(ENVS[ei]["v"], **ENVS[ei]["x"])}, w, q, 0, {"gen": "p", "env": ei, "w": tuple(w), "q": q})
        c.id = "p%d" % i
        cases.append(c)
    sb = proc.Sandbox("c10")

    def one(c):
        log = os.path.join(sb.dir, "argv-" + c.id)
        (sep, text), = core.untoks(c.fields[1])
        line = "argv " + sep + text + sep
        envd = dict(ENVS[c.meta["env"]]["v"], **ENVS[c.meta["env"]]["x"])
        envd = {k: v for k, v in envd.items() if "\n" not in v}
        ex = {"ARGV_LOG": log}
        ex.update(envd)
        rc, out, err = proc.run_c(cicada, line, sb, ex)
        recs = []
        if os.path.exists(log):
            lines = open(log).read().split("\n")
            os.remove(log)
            if lines and lines[0]:
                n = int(lines[0])
                recs = lines[1:1 + n]
        if len(recs) != 2:
            return c.id, "ARGV %r rc=%s" % (recs, rc)
        return c.id, "%s:%s" % (hx(sep), recs[1])

    impl = dict(proc.pmap(one, cases))
    sb.cleanup()
    return [("-c", cases, impl)]
