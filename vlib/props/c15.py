"""C15 — script arguments, functions, `source` and exit statuses behave as documented."""
import os, subprocess
from .. import core, gens, proc
from ..core import Case, hx

ID = "C15"
NEEDS_BINARY = True
RULE = ("in-process: words assembled from literal / $n / ${n} / $@ segments (1..5 segments, indices 0..6 and out-of-range ones) under "
        "argument lists of 1..6 arguments containing blanks, quotes, `$1`, `$x`, empty strings, through "
        "scripting::expand_args_for_single_token vs the Lean model vs the Lean spec; whole lines through expand_args; process level: generated "
        "scripts with 0..5 arguments, 0..4 functions (names with - and _, both header spellings) called with varying arity, source chains up to "
        "depth 3, and exit / set -e / failing commands at every position, compared with the documented outcome (argv records, marker traces, "
        "`$?` probes, process exit status). non-trivial = distinct words with a reference, or distinct scenarios")

ARGSETS = [["s.sh"], ["s.sh", "a"], ["s.sh", "a b", "c"], ["s.sh", "", "x", "$1", "'q'", "é", "6th"], ["f-1", "$x", "a\"b"]]


def seg_text(s):
    return {"l": lambda: s[1], "p": lambda: "$" + s[1], "b": lambda: "${" + s[1] + "}", "a": lambda: "$@"}[s[0]]()


def generate(tier, rng):
    cases = []
    r = rng.fork("c15")
    n = 8000 if tier == "quick" else 120000
    lits = ["a", "-", "/", " ", "x y", "=", "}", "{", "1", "é", ".", ":"]
    for _ in range(n):
        k = 1 + r.below(5)
        w = []
        for _ in range(k):
            t = r.choice("lppbba")
            if t == "l":
                w.append(("l", gens.rand_string(r, lits, 1, 3)))
            elif t in "pb":
                w.append((t, r.choice(["0", "1", "2", "3", "6", "7", "12", "01", "99999999999999999999"])))
            else:
                w.append(("a",))
        text = "".join(seg_text(s) for s in w)
        args = r.choice(ARGSETS)
        enc = ",".join(s[0] if s[0] == "a" else s[0] + ":" + hx(s[1]) for s in w)
        cases.append(Case("xpargtok", [hx(text), ",".join(hx(x) for x in args), "c15", enc], {"gen": "g", "k": (text, tuple(args))}))
        line = "prog " + text + " '" + text.replace("'", "") + "' \"" + text.replace('"', "") + "\""
        cases.append(Case("xpargs", [hx(line), ",".join(hx(x) for x in args)], {"gen": "g", "k": None}))
    return cases


def nontrivial(c, M, S, g, cls):
    return c.meta.get("k") if c.meta.get("k") and "$" in c.meta["k"][0] else None


SCEN = []


def process(tier, rng, cicada):
    """documented outcomes on the real binary; each scenario: (name, files, argv of cicada, expected dict)"""
    r = rng.fork("c15-p")
    sb = proc.Sandbox("c15")
    scen = []

    def add(name, files, cmd, exp):
        scen.append((name, files, cmd, exp))

    # positional parameters in scripts
    for i in range(8 if tier == "quick" else 60):
        k = r.below(6)
        args = [r.choice(["a", "b c", "", "x'y", "é", "-n", "1 2  3"]) for _ in range(k)]
        exp_argv = ["argv", "s.sh"] + [(args[j] if j < k else "") for j in range(3)] + [" ".join(args)]
        add("args%d" % i, {"s.sh": 'argv "$0" "$1" "${2}" "$3" "$@"\n'}, ["s.sh"] + args, {"argv": [exp_argv]})
    # the same inside a function: the arguments of the CALL, empty strings included (`f a '' c`: $2 is empty, $3 is c)
    for i in range(8 if tier == "quick" else 60):
        k = r.below(6)
        args = [r.choice(["a", "b c", "", "", "é", "-n", "1 2  3", "x"]) for _ in range(k)]
        quoted = " ".join(("'%s'" % a) if r.below(2) else ('"%s"' % a) for a in args)
        exp_argv = ["argv", "f-1"] + [(args[j] if j < k else "") for j in range(3)] + [" ".join(args)]
        add("fargs%d" % i, {"s.sh": 'function f-1() {\n    argv "$0" "$1" "${2}" "$3" "$@"\n}\nf-1 %s\n' % quoted}, ["s.sh"], {"argv": [exp_argv]})
    # functions: both header spellings, names with - and _, arity
    add("func1", {"s.sh": 'function f-1() {\n    argv "$0" "$1" "$2" "$@"\n}\nfunction g_2 {\n    argv g "$1"\n}\nf-1 a "b c"\ng_2 z\nf-1\n'}, ["s.sh"],
        {"argv": [["argv", "f-1", "a", "b c", "a b c"], ["argv", "g", "z"], ["argv", "f-1", "", "", ""]]})
    # status of script = last command; $? after each
    for st in (0, 1, 7, 255):
        add("status%d" % st, {"s.sh": "stage 1 0\nstage 2 %d\n" % st}, ["s.sh"], {"rc": st, "trace": ["1:0", "2:%d" % st]})
    add("exit7", {"s.sh": "stage 1 0\nexit 7\nstage 2 0\n"}, ["s.sh"], {"rc": 7, "trace": ["1:0"]})
    add("sete", {"s.sh": "set -e\nstage 1 0\nstage 2 3\nstage 3 0\n"}, ["s.sh"], {"rc": 3, "trace": ["1:0", "2:3"]})
    add("funcstatus", {"s.sh": "function f() {\n    stage 1 4\n}\nf\nstage 2 $?\n"}, ["s.sh"], {"rc": 4, "trace": ["1:4", "2:4"]})
    add("funcor", {"s.sh": "function f() {\n    stage 1 1\n}\nf || stage 2 0\nf && stage 3 0\n"}, ["s.sh"], {"trace": ["1:1", "2:0", "1:1"]})
    # source: variables, aliases, functions and cwd persist; chain depth 3; status of source = last command
    add("source", {"s.sh": "source a.sh\nargv $V1 $V2\nfa\nstage 9 $?\n", "a.sh": "V1=one\nsource b.sh\nfunction fa() {\n    stage 1 5\n}\n",
                   "b.sh": "V2=two\nsource c.sh\n", "c.sh": "stage 3 0\n"}, ["s.sh"],
        {"argv": [["argv", "one", "two"]], "trace": ["3:0", "1:5", "9:5"], "rc": 5})
    add("sourcestatus", {"s.sh": "source a.sh\nstage 2 $?\n", "a.sh": "stage 1 6\n"}, ["s.sh"], {"trace": ["1:6", "2:6"], "rc": 6})

    # a function called while an earlier call of it is still active: direct recursion, and f -> g -> f (every call finds the function defined,
    # gets the arguments of ITS call, and the callers go on after it returns)
    add("recursion", {"s.sh": 'function f() {\n    stage 1$1 0\n    if test -n "$1"\n        f $2 $3\n    fi\n    stage 9$1 0\n}\nf a b\nstage 5 $?\n'}, ["s.sh"],
        {"trace": ["1a:0", "1b:0", "1:0", "9:0", "9b:0", "9a:0", "5:0"], "rc": 0})
    add("mutual", {"s.sh": 'function f() {\n    stage f$1 0\n    if test -n "$1"\n        g $2\n    fi\n}\nfunction g() {\n    stage g$1 0\n    f $1\n}\nf a b\n'}, ["s.sh"],
        {"trace": ["fa:0", "gb:0", "fb:0", "g:0", "f:0"], "rc": 0})
    add("twice", {"s.sh": 'function f() {\n    stage 1 $1\n}\nf 0\nf 3\nf 0 && f 4\nstage 2 $?\n'}, ["s.sh"], {"trace": ["1:0", "1:3", "1:0", "1:4", "2:4"], "rc": 4})

    res = []

    def one(sc):
        name, files, cmd, exp = sc
        d = os.path.join(sb.dir, name)
        os.makedirs(d)
        for f, t in files.items():
            open(os.path.join(d, f), "w").write(t)
        alog, slog = os.path.join(d, "argv.log"), os.path.join(d, "stage.log")
        try:
            p = subprocess.run([cicada] + cmd, cwd=d, env=sb.env({"ARGV_LOG": alog, "STAGE_LOG": slog}), stdin=subprocess.DEVNULL,
                               stdout=subprocess.PIPE, stderr=subprocess.PIPE, timeout=20)
            rc = p.returncode
        except subprocess.TimeoutExpired:
            rc = "TIMEOUT"
        got = {"rc": rc, "argv": [], "trace": []}
        if os.path.exists(alog):
            lines = open(alog).read().split("\n")
            i = 0
            while i < len(lines) and lines[i]:
                n_ = int(lines[i])
                got["argv"].append([core.unhx(x) for x in lines[i + 1:i + 1 + n_]])
                i += n_ + 2
        if os.path.exists(slog):
            got["trace"] = [x for x in open(slog).read().split("\n") if x]
        bad = {k: (got[k], v) for k, v in exp.items() if got[k] != v}
        return name, cmd, files, bad

    global SCEN
    SCEN = proc.pmap(one, scen)
    # generated scripts with functions / source chains / exit / set -e / failing commands at every position (stream `ssess`)
    scases = gen_sessions(rng.fork("c15-ssess"), 150 if tier == "quick" else 3000)
    simpl = dict(proc.pmap(lambda c: (c.id, run_session(cicada, sb, c)), scases))
    sb.cleanup()
    return [("s", scases, simpl)]


FNAMES = ["f1", "g-2", "h_3", "k4"]


def gen_sessions(r, n):
    """a main script s.sh, a source chain a.sh -> b.sh -> c.sh of random depth, 0..4 functions defined in random files, calling only
    lower-numbered functions (no recursion); `set -e`, `exit N` and failing commands at random positions"""
    cases = []
    for idx in range(n):
        depth = r.below(4)                       # number of sourced files
        fnames = ["s.sh", "a.sh", "b.sh", "c.sh"][:depth + 1]
        nf = r.below(5)
        where = [r.below(depth + 1) for _ in range(nf)]     # file each function is defined in
        marker = [0]

        def stage():
            marker[0] += 1
            st = 0 if r.below(3) else r.choice([1, 2, 3, 7, 255])
            return ("g", marker[0], st)

        def body_stmts(fi, maxn):
            out = []
            for _ in range(1 + r.below(maxn)):
                k = r.below(10)
                if k < 6:
                    out.append(stage())
                elif k < 8 and fi > 0:
                    out.append(("c", FNAMES[r.below(fi)]))
                elif k == 8 and r.below(3) == 0:
                    out.append(("x", r.choice([0, 1, 5, 42, 255])))
                else:
                    out.append(stage())
            return out
        files = {}
        for d, fn in enumerate(fnames):
            stmts = []
            nst = 1 + r.below(5)
            src_at = r.below(nst + 1) if d < depth else -1
            for j in range(nst + 1):
                if j == src_at:
                    stmts.append(("s", fnames[d + 1]))
                if j == nst:
                    break
                k = r.below(12)
                if k < 5:
                    stmts.append(stage())
                elif k < 8 and nf > 0:
                    stmts.append(("c", FNAMES[r.below(nf)]))
                elif k == 8:
                    stmts.append(("e",))
                elif k == 9 and r.below(3) == 0:
                    stmts.append(("x", r.choice([0, 1, 5, 42, 255])))
                else:
                    stmts.append(stage())
            # function definitions of this file, each at a random place (definitions are registered when the file is loaded)
            for fi in range(nf):
                if where[fi] == d:
                    stmts.insert(r.below(len(stmts) + 1), ("d", FNAMES[fi], r.below(2), body_stmts(fi, 3)))
            files[fn] = stmts
        # a function is only callable once the file defining it was loaded: drop calls that could come too early
        # (keep it simple: calls are allowed everywhere, an undefined function is `command not found` = status 127 in model and shell alike)
        cases.append(mk_session(files, "s.sh", idx))
    return cases


def enc_simple(st, sep):
    if st[0] == "g":
        return sep.join(["g", str(st[1]), str(st[2])])
    if st[0] in ("c", "s"):
        return st[0] + sep + hx(st[1])
    if st[0] == "x":
        return "x" + sep + str(st[1])
    return "e"


def mk_session(files, main, idx):
    enc = []
    for fn, stmts in files.items():
        parts = []
        for st in stmts:
            if st[0] == "d":
                parts.append("d." + hx(st[1]) + "." + "+".join(enc_simple(b, ",") for b in st[3]))
            else:
                parts.append(enc_simple(st, "."))
        enc.append(hx(fn) + "=" + ";".join(parts))
    c = Case("ssess", ["|".join(enc), hx(main)], {"gen": "q", "files": files})
    c.id = "s%d" % idx
    return c


def render_stmt(st, indent=""):
    if st[0] == "g":
        return ["%sstage %d %d" % (indent, st[1], st[2])]
    if st[0] == "c":
        return ["%s%s" % (indent, st[1])]
    if st[0] == "s":
        return ["%ssource %s" % (indent, st[1])]
    if st[0] == "x":
        return ["%sexit %d" % (indent, st[1])]
    if st[0] == "e":
        return ["%sset -e" % indent]
    head = "function %s() {" % st[1] if st[2] == 0 else "function %s {" % st[1]
    return [head] + [l for b in st[3] for l in render_stmt(b, "    ")] + ["}"]


def run_session(cicada, sb, c):
    d = os.path.join(sb.dir, c.id)
    os.makedirs(d)
    for fn, stmts in c.meta["files"].items():
        open(os.path.join(d, fn), "w").write("\n".join(l for st in stmts for l in render_stmt(st)) + "\n")
    slog = os.path.join(d, "stage.log")
    try:
        p = subprocess.run([cicada, "s.sh"], cwd=d, env=sb.env({"STAGE_LOG": slog}), stdin=subprocess.DEVNULL,
                           stdout=subprocess.PIPE, stderr=subprocess.PIPE, timeout=30)
        rc = p.returncode
    except subprocess.TimeoutExpired:
        return "HANG"
    tr = [x for x in open(slog).read().split("\n") if x] if os.path.exists(slog) else []
    return "rc=%d|trace=%s" % (rc, ",".join(tr))


def post(rep):
    for name, cmd, files, bad in SCEN:
        rep.evaluations += 1
        rep.nontrivial.add(("scenario", name))
        if bad:
            rep.violation({"property": "C15", "kind": "documented outcome not met on the real binary", "scenario": name, "files": files,
                           "cicada_args": cmd, "got_vs_expected": {k: {"got": g, "expected": e} for k, (g, e) in bad.items()}})
