"""C19 — arithmetic lines evaluate with standard precedence and never crash the shell."""
import itertools
from .. import core, gens
from ..core import Case, hx

ID = "C19"
NEEDS_BINARY = True
PREC = {"+": 1, "-": 1, "*": 2, "/": 2, "^": 3}
BOUND = [0, 1, -1, 2, 3, 7, 10, 2**31, 2**31 - 1, 2**63 - 1, -(2**63), 2**32, 12345678901234567890, 63, 64, 65]
RULE = ("every string of length <= 5 (thorough 6) over `0 1 9 . + - * / ^ ( ) blank` through tools::is_arithmetic and core::run_calculator "
        "in-process (classification rule and crash freedom), random expression trees of depth <= 5 over boundary operands (0, +-1, 2^31, "
        "2^63-1, exponents 0..70) rendered with minimal parentheses, random redundant ones and random spacing, implementation vs Lean model "
        "vs the Lean reference evaluator; the same shapes with decimal literals (also only inside parentheses) for the integer / floating-point "
        "mode decision; lines through the run_pipeline head and the real binary. "
        "non-trivial = distinct trees with >= 2 operators, or strings the classifier accepts")


def rand_tree(r, depth):
    if depth == 0 or r.chance(1, 4):
        if r.chance(1, 3):
            return r.choice(BOUND)
        return r.below(12) - 2
    op = r.choice("+-*/^")
    l = rand_tree(r, depth - 1)
    if op == "^":
        rt = r.choice([0, 1, 2, 3, 5, 31, 32, 62, 63, 64, 70, r.below(70)]) if r.chance(5, 6) else rand_tree(r, depth - 1)
    else:
        rt = rand_tree(r, depth - 1)
    return (op, l, rt)


def exactify(t):
    """the same shape over + - * with small operands (every intermediate value stays exactly representable)"""
    if not isinstance(t, tuple):
        return t if isinstance(t, int) and -100 < t < 100 else 7
    op = {"/": "*", "^": "+"}.get(t[0], t[0])
    return (op, exactify(t[1]), exactify(t[2]))


def floatify(t, r):
    """replace some integer leaves by decimal literals (kept as strings so that render prints them verbatim)"""
    if not isinstance(t, tuple):
        if isinstance(t, int) and r.chance(1, 3):
            return r.choice(["1.5", "0.5", "2.0", "3.", "10.25", ".5"]) if t >= 0 else t
        return t
    return (t[0], floatify(t[1], r), floatify(t[2], r))


def prefix(t):
    if isinstance(t, int):
        return str(t)
    return "%s %s %s" % (t[0], prefix(t[1]), prefix(t[2]))


def render(t, r, parent=None, side=None):
    sp = lambda: " " * r.below(3) if r.chance(1, 2) else ""
    if not isinstance(t, tuple):
        s = str(t)
        if r.chance(1, 10) or (isinstance(t, str) and r.chance(1, 2)):
            s = "(" + sp() + s + sp() + ")"
        return s
    op, l, rt = t
    s = render(l, r, op, "l") + sp() + op + sp() + render(rt, r, op, "r")
    need = False
    if parent is not None:
        if PREC[op] < PREC[parent]:
            need = True
        elif PREC[op] == PREC[parent]:
            right_assoc = parent == "^"
            need = (side == "l" and right_assoc) or (side == "r" and not right_assoc)
    if need or r.chance(1, 8):
        s = "(" + sp() + s + sp() + ")"
    return s


def nops(t):
    return 0 if not isinstance(t, tuple) else 1 + nops(t[1]) + nops(t[2])


def generate(tier, rng):
    cases = []
    al = ["0", "1", "9", ".", "+", "-", "*", "/", "^", "(", ")", " "]
    k = 5 if tier == "quick" else 6
    for s in gens.all_strings(al, k, 1):
        cases.append(Case("arith", [hx(s)], {"gen": "e"}))
        cases.append(Case("calc", [hx(s)], {"gen": "e"}))
    r = rng.fork("c19")
    n = 20000 if tier == "quick" else 200000
    for _ in range(n):
        t = rand_tree(r, 1 + r.below(5))
        text = render(t, r)
        if isinstance(t, int):
            continue
        cases.append(Case("calc", [hx(text), "c19", prefix(t)], {"gen": "g", "ops": nops(t), "t": prefix(t)}))
        if r.chance(1, 5):
            # float mode on the exactly representable class (dyadic literals, + - * only): the printed value is compared, which
            # makes the integer / floating-point MODE decision observable (`(1.5)+1` must print 2.5); decimals also only inside
            # parentheses
            ft = floatify(exactify(t), r)
            ftext = render(ft, r)
            if "." in ftext:
                cases.append(Case("calcf", [hx(ftext)], {"gen": "gf", "ops": nops(t), "t": "float " + ftext}))
        if r.chance(1, 10):
            cases.append(Case("head", [gens.EMPTY_ENV, hx(text)], {"gen": "g"}))
            cases.append(Case("tok", [hx(text)], {"gen": "g"}))
    return cases


def process(tier, rng, cicada):
    """the same trees as LINES OF A SCRIPT FILE run by the plain binary (the script interpreter re-renders every line from its tokens
    before it is run): the printed value and `$?` of every line, compared with the model's `run_calculator` and the reference value"""
    import os, subprocess
    from .. import proc
    r = rng.fork("c19-p")
    nfiles = 12 if tier == "quick" else 150
    per = 25
    sb = proc.Sandbox("c19")
    cases, files = [], []
    for fi in range(nfiles):
        ids = []
        for k in range(per):
            t = rand_tree(r, 1 + r.below(4))
            if isinstance(t, int):
                t = ("*", t, ("+", 3, 4))
            if r.chance(1, 3):
                # a signed literal opens the line, a parenthesised group follows behind a blank
                t = (r.choice("*-+"), r.choice([-2, -1, -7]), ("+", t, 1)) if r.chance(1, 2) else t
            text = render(t, r)
            if r.chance(1, 4) and isinstance(t, tuple):
                text = "%d %s (%s)" % (r.choice([-2, -1, 5]), r.choice("*-+"), text)
                t = None
            if t is None:
                c = Case("calc", [hx(text)], {"gen": "ps", "ops": 2, "t": "script " + text, "text": text})
            else:
                c = Case("calc", [hx(text), "c19", prefix(t)], {"gen": "ps", "ops": nops(t), "t": "script " + prefix(t), "text": text})
            c.id = "s%d_%d" % (fi, k)
            cases.append(c)
            ids.append(c)
        files.append((fi, ids))

    def one(job):
        fi, cs = job
        d = os.path.join(sb.dir, "f%d" % fi)
        os.makedirs(d)
        lines = []
        for k, c in enumerate(cs):
            lines.append(c.meta["text"])
            lines.append('echo "S|%d|$?"' % k)
        open(os.path.join(d, "s.sh"), "w").write("\n".join(lines) + "\n")
        try:
            p = subprocess.run([cicada, os.path.join(d, "s.sh")], cwd=d, env=sb.env(), stdin=subprocess.DEVNULL, stdout=subprocess.PIPE,
                               stderr=subprocess.PIPE, timeout=60)
        except subprocess.TimeoutExpired:
            return [(c.id, "HANG") for c in cs]
        out, res, cur = p.stdout.decode("utf-8", "replace").split("\n"), {}, []
        for l in out:
            if l.startswith("S|"):
                _, k, st = l.split("|")
                res[int(k)] = (st, cur)
                cur = []
            elif l:
                cur.append(l)
        ans = []
        for k, c in enumerate(cs):
            if k not in res:
                ans.append((c.id, "CRASH (the script stopped before this line's marker; exit %s)" % p.returncode))
                continue
            st, printed = res[k]
            if st == "0" and len(printed) == 1:
                ans.append((c.id, "ok|" + hx(printed[0])))
            elif st != "0" and not printed:
                ans.append((c.id, "err"))
            else:
                ans.append((c.id, "status=%s printed=%r" % (st, printed)))
        return ans

    impl = {}
    for part in proc.pmap(one, files):
        impl.update(dict(part))
    sb.cleanup()
    return [("script", cases, impl)]


def nontrivial(c, M, S, g, cls):
    if c.meta.get("ops", 0) >= 2:
        return c.meta["t"]
    if c.stream == "arith" and M == "1":
        return tuple(c.fields)
    return None
