"""C16 — a line means the same at the prompt, with -c, in a script, function or source."""
import os, subprocess
from .. import core, gens, proc
from ..core import Case, hx
from . import c01

ID = "C16"
NEEDS_BINARY = True
RULE = ("in-process: scripting::expand_args on every C01-style command (all argument texts <= 2 over the 29-symbol alphabet, single/double "
        "quoted) and on random lines with list operators, redirections, variables, braces and positional parameters, vs the Lean model; "
        "token-level expand_args_for_single_token on random `$`-heavy texts with 0..5 arguments; process level: each generated line run "
        "through four entry points of the real binary (-c, script file, function body, sourced file) and compared pairwise with -c on argv "
        "helper records, created files and exit status (the interactive prompt entry is exercised by the pty streams of C20/C07 when built). "
        "non-trivial = distinct lines containing a quote, an operator or an expansion")

LINES = ["argv \"a\\\\\\\"b c\" && argv 'done'", "argv \"x\\\\\" y", "argv 'a b' \"c d\"", "argv 'x;y' ; argv z", "argv a && argv 'b && c' || argv d", "argv \"e && f\"", "argv '|' | cat", "argv a > out1 ; argv b >> out1",
         "argv \"$HOME\" '$HOME'", "argv {a,b}c", "argv ~", "argv a\\ b", "argv g\;h", "argv '#' # c", "argv \"a'b\" 'c\"d'", "argv '' \"\"", "false ; argv $?",
         "argv é 'ü ö'", "argv a   b", "argv '  sp  '", "argv \\$HOME", "argv \"x\\\"y\"", "argv 2>&1 > out2", "argv 'a' 'b' 'c' ; argv \"1\" \"2\"",
         # a word that is a backquote substitution is not subject to the script path's positional pass: `$1`, `${2}`, `$@` inside it
         # belong to the inner command (an awk / printf program)
         "argv `printf %s 'a$1b'`", "argv `printf %s 'x${2}y' '$@'` z", "argv w `printf '%s-' '$1' '$2'`"]


def generate(tier, rng):
    cases = []
    r = rng.fork("c16")
    args_sets = [["s.sh"], ["s.sh", "A1"], ["s.sh", "x y", "$1", "'q'", "b"]]
    for a in gens.all_strings(c01.ALPHA, 2 if tier == "quick" else 3):
        for style in "sd":
            line = "prog " + c01.render_arg(style, a) + " 'x'"
            cases.append(Case("xpargs", [hx(line), ",".join(hx(x) for x in args_sets[2]) or "[]"], {"gen": "e", "l": line}))
    n = 5000 if tier == "quick" else 80000
    # double-quoted words with backslashes and escaped quotes, single-quoted words with backslashes
    dqa = ["a", "\\\\", '\\"', " ", "b", "\\", "'", "c d", "\\n", "$"]
    for _ in range(n):
        w1 = '"' + "".join(r.choice(dqa) for _ in range(1 + r.below(5))) + '"'
        w2 = "'" + "".join(r.choice(["a", "\\", '"', " ", "\\\\"]) for _ in range(1 + r.below(4))) + "'"
        line = "prog " + w1 + " " + w2 + r.choice(["", " && q 'z'", " ; q", " | q"])
        cases.append(Case("xpargs", [hx(line), hx("s.sh")], {"gen": "dq", "l": line}))
        cases.append(Case("tok", [hx(line)], {"gen": "dq", "l": line}))
        cases.append(Case("wrap", [hx(r.choice(["", "'", '"', "`"])), hx(gens.rand_string(r, ["a", "\\", '"', "'", " ", "`"], 0, 6))], {"gen": "dq", "l": line}))
    for _ in range(n):
        line = gens.rand_line(r, 6) if r.chance(1, 2) else r.choice(LINES)
        args = r.choice(args_sets)
        cases.append(Case("xpargs", [hx(line), ",".join(hx(x) for x in args) or "[]"], {"gen": "g", "l": line}))
        t = gens.rand_string(r, ["$", "{", "}", "1", "2", "0", "9", "@", "a", "-", " ", "\n", "é"], 0, 9)
        cases.append(Case("xpargtok", [hx(t), ",".join(hx(x) for x in args) or "[]"], {"gen": "m", "l": t}))
        cases.append(Case("argsin", [hx(t)], {"gen": "m", "l": t}))
    return cases


def nontrivial(c, M, S, g, cls):
    l = c.meta.get("l", "")
    if any(ch in l for ch in "'\"$;&|{~\\"):
        return l
    return None


def process(tier, rng, cicada):
    r = rng.fork("c16-p")
    lines = list(LINES)
    for _ in range(20 if tier == "quick" else 400):
        k = 1 + r.below(3)
        parts = []
        for _ in range(k):
            args = [c01.render_arg(r.choice("sd"), gens.rand_string(r, [x for x in c01.ALPHA if x not in "'\"$`\\\t"] + ["b", "1"], 0, 4)) for _ in range(r.below(4))]
            parts.append("argv " + " ".join(args))
        line = parts[0]
        for p in parts[1:]:
            line += r.choice([" ; ", " && ", " || "]) + p
        lines.append(line)
    cases = []
    for i, line in enumerate(lines):
        c = Case("entry", [gens.env_field(exported={"HOME": "/h"}), hx(line), hx("s.sh")], {"gen": "p", "l": line})
        c.id = "p%d" % i
        cases.append(c)
    sb = proc.Sandbox("c16")

    def observe(d, log):
        recs = open(log).read() if os.path.exists(log) else ""
        files = {}
        for f in sorted(os.listdir(d)):
            if f.startswith("out"):
                files[f] = open(os.path.join(d, f)).read()
        return recs, files

    def run_entry(c, mode):
        d = os.path.join(sb.dir, c.id + "-" + mode)
        os.makedirs(d)
        log = os.path.join(d, "argv.log")
        env = sb.env({"ARGV_LOG": log, "HOME": "/h"})
        line = c.meta["l"]
        if mode == "c":
            cmd = [cicada, "-c", line]
        elif mode == "script":
            open(os.path.join(d, "s.sh"), "w").write(line + "\n")
            cmd = [cicada, os.path.join(d, "s.sh")]
        elif mode == "func":
            open(os.path.join(d, "s.sh"), "w").write("function f-1() {\n    " + line + "\n}\nf-1\n")
            cmd = [cicada, os.path.join(d, "s.sh")]
        else:
            open(os.path.join(d, "lib.sh"), "w").write(line + "\n")
            open(os.path.join(d, "s.sh"), "w").write("source " + os.path.join(d, "lib.sh") + "\n")
            cmd = [cicada, os.path.join(d, "s.sh")]
        try:
            p = subprocess.run(cmd, cwd=d, env=env, stdin=subprocess.DEVNULL, stdout=subprocess.PIPE, stderr=subprocess.PIPE, timeout=20)
            rc = p.returncode
        except subprocess.TimeoutExpired:
            rc = "TIMEOUT"
        recs, files = observe(d, log)
        return rc, recs, files

    def one(c):
        base = run_entry(c, "c")
        diffs = []
        for mode in ("script", "func", "source"):
            o = run_entry(c, mode)
            # a function call reports status 0 whatever its body did (that is C15's finding): compare argv and files only there
            if mode == "func":
                if o[1:] != base[1:]:
                    diffs.append(mode)
            elif o != base:
                diffs.append(mode)
        return c.id, "same" if not diffs else "differs"

    impl = dict(proc.pmap(one, cases))
    # the interactive entry: the same line typed at the prompt of a pty session, after an earlier command (so that the
    # `!!` machinery of main.rs has a previous command to work with), against `-c`
    from . import c20
    pl = [l for l in lines if "!!" not in l and "\n" not in l and "\t" not in l]
    extra = ['argv "say \\"hi\\"" done!', "argv 'it is' [ ! -f x ]", 'argv "a\\"b" wow! && argv "x\\"y"', "argv a\\ b !", "argv ! 'q r'", 'argv "x y"!']
    pick = extra + [pl[r.below(len(pl))] for _ in range(10 if tier == "quick" else 120)]
    pcases = []
    for i, line in enumerate(pick):
        c = Case("prompt", [gens.env_field(exported={"HOME": "/h"}), hx(line), hx("argv first")], {"gen": "p", "l": line})
        c.id = "q%d" % i
        pcases.append(c)

    def argv_only(recs):
        return recs

    def one_prompt(ic):
        i, c = ic
        base = run_entry(c, "c")
        rows, recs, err = c20.pty_session(cicada, sb, 1000 + i, [], "argv first\r" + c.meta["l"], {"HOME": "/h"})
        if err:
            NOTES.append("prompt session %s: %s" % (c.id, err))
            return c.id, "same"          # a harness time-out is noted, never reported as a violation
        # the session ran `argv first`, the line, and the sentinel: drop the first and the last record
        got = [[core.unhx(x) for x in rec] for rec in (recs[1:-1] if len(recs) >= 2 else recs)]
        want = parse_log(base[1])
        return c.id, "same" if got == want else "differs"

    pimpl = dict(proc.pmap(one_prompt, list(enumerate(pcases)), workers=8))
    sb.cleanup()
    return [("entries", cases, impl), ("prompt", pcases, pimpl)]


NOTES = []


def parse_log(text):
    lines = text.split("\n")
    out = []
    i = 0
    while i < len(lines) and lines[i]:
        n_ = int(lines[i])
        out.append([core.unhx(x) for x in lines[i + 1:i + 1 + n_]])
        i += n_ + 2
    return out


def post(rep):
    for n in NOTES:
        rep.notes.append(n)
