"""C04 — redirections connect exactly the named descriptors to the named files."""
import re
from .. import core, fdsess

ID = "C04"
NEEDS_BINARY = True
RULE = ("process level: sessions of commands carrying up to 4 redirections drawn from > >> 1> 1>> 2> 2>> 2>&1 1>&2 >&2 < <<< with and "
        "without a blank after the operator and at any position after the program word, on the helper program `fdstage` (writes a marker "
        "line to its stdout and another to its stderr, optionally copies its stdin) and on output-producing builtins (minfd, alias, alias "
        "with a usage error), alone and in first / middle / last pipeline position, against targets that are absent, present with content "
        "(shared with earlier commands of the session) or unopenable (a directory, a missing parent); after every command a sentinel "
        "records `$?`; builtins that are the whole line with EVERY redirection list of length 1-2 (thorough: 1-3) over > >> 1> 2> 2>> 2>&1 1>&2 >&2 plus "
        "random lists of length 3-4. Observed: the table each stage was started with (what 0, 1, 2 point to, access mode incl. append), the final content "
        "of every file in the directory, the stdout / stderr of the whole session, what each stage read from its stdin. In-process: "
        "tokens_to_redirections on rendered redirection lists. non-trivial = distinct session shapes (digits erased)")
TRUSTED = ["the descriptor world of Model/Kernel.lean and the helper semantics of Model/FdSession.lean (who writes which line where) are models of Linux and of helpers/fdstage.c, validated only by this stream"]
ASSUMPTIONS = ["within one pipeline no two stages open the same file and at most one stage prints a diagnostic (their pieces would interleave)"]


def generate(tier, rng):
    """in-process: tokens_to_redirections over rendered redirection lists (the parser half of the property)"""
    r = rng.fork("c04-redir")
    cases = []
    n = 1500 if tier == "quick" else 30000
    for i in range(n):
        words = ["prog"]
        for _ in range(r.below(5)):
            k = r.below(4)
            if k == 0:
                words.append(r.choice(["2>&1", "1>&2", ">&2"]))
            elif k == 1:
                words.append(r.choice(["a", "b1", "-x", "2", "1"]))
            else:
                op = r.choice([">", ">>", "1>", "2>", "2>>", "1>>"])
                t = r.choice(["f", "g.txt", "d/e", "2", "x1"])
                if r.below(2):
                    words.append(op + t)
                else:
                    words.append(op)
                    words.append(("Q", t) if r.below(3) == 0 else t)        # a quoted target word after a spaced operator (`2> "e.txt"`)
        toks = [((r.choice(['"', "'"]), w[1]) if isinstance(w, tuple) else ("", w)) for w in words]
        cases.append(core.Case("redir", [core.toks(toks)], {"gen": "g"}))
    return cases


def project(c, x):
    if c.stream != "fdsess":
        return x
    return fdsess.proj("C04", x)


def nontrivial(c, M, S, g, cls):
    if c.stream == "redir":
        return ("redir", M[:80])
    if M.startswith("UNMODELLED"):
        return None
    return re.sub(r"\d+", "N", c.meta.get("script", ""))


def process(tier, rng, cicada):
    r = rng.fork("c04")
    cases = []
    n = 120 if tier == "quick" else 2500
    for i in range(n):
        prof = "redir" if i % 3 else "mixed"
        cases.append(fdsess.make_case(fdsess.gen_items(r, prof, 1 + r.below(4), maxst=3)))
    # builtins that are the whole line, with every short redirection list (the builtin path has its own left-to-right walk)
    cases += [fdsess.make_case(items, meta={"builtin_lists": True}) for items in fdsess.builtin_redir_sessions(r, tier)]
    cases += fdsess.corpus_cases()
    for i, c in enumerate(cases):
        c.id = "p%d" % i
    impl = fdsess.run_cases(cicada, cases)
    return [("", cases, impl)]
