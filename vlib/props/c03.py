"""C03 — command lists: generators and process-level stream."""
import itertools, os
from .. import core, proc
from ..core import Case, hx

ID = "C03"
NEEDS_BINARY = True
OPS = {"s": ";", "a": "&&", "o": "||"}
RULE = ("in-process: every operator/status program of length 1..6 (3 operators per gap x 2 statuses per pipeline) through "
        "execute::run_command_line with a scripted run_proc, random programs up to length 12 with decoy operators in quotes/escapes, "
        "pipes, statuses 2..255 and a non-zero previous status; malformed lines through line_to_cmds only; process level: "
        "sampled programs through `cicada -c` and as a script with marker-writing stage helpers, also behind a background job that ends while the "
        "first foreground pipeline still runs. "
        "non-trivial = distinct (operator sequence, status-zero pattern, executed-set) triples in which at least one pipeline is skipped "
        "or the program has >= 2 operators")


def prog_fields(segs, ops, statuses, prev=0):
    """segs: raw segment texts (padding included); ops: list of 's','a','o' (len = len(segs)-1)"""
    line = segs[0] + "".join(OPS[o] + s for o, s in zip(ops, segs[1:]))
    script = ",".join(hx(s.strip(" ")) + ":" + str(st) for s, st in zip(segs, statuses))
    prog = ",".join([hx(segs[0])] + [o + ":" + hx(s) for o, s in zip(ops, segs[1:])])
    return [hx(line), script, str(prev), prog]


DECOYS = ["';'", "'&&'", "'||'", "\"a;b\"", "\"x && y\"", "'a || b'", "\;", "\\&\\&", "\\|\\|", "'#'", "\"#c\"", "\\#", "`;`", "'a\"b'",
          "\"it's\"", "| cat", "|cat", "a&b", "'\\'", "\"\\\"\"", "é;'ü'", "'  ;  '"]


def generate(tier, rng):
    cases = []
    # (e) exhaustive operator/status programs
    for n in range(1, 7):
        for ops in itertools.product("sao", repeat=n - 1):
            for sts in itertools.product((0, 1), repeat=n):
                segs = ["c%d" % i if i == 0 else " c%d" % i for i in range(n)]
                segs = [s + (" " if i < n - 1 else "") for i, s in enumerate(segs)]
                cases.append(Case("list", prog_fields(segs, ops, sts), {"gen": "e", "ops": "".join(ops), "sts": sts}))
    # (g) random longer programs with decoys
    nrand = 3000 if tier == "quick" else 40000
    r = rng.fork("c03-g")
    for _ in range(nrand):
        n = 1 + r.below(12)
        ops = [r.choice("sao") for _ in range(n - 1)]
        sts = [r.choice([0, 0, 1, 1, 2, 127, 255, 3 + r.below(250)]) for _ in range(n)]
        segs = []
        for i in range(n):
            words = ["c%d" % i]
            for _ in range(r.below(3)):
                words.append(r.choice(DECOYS))
            pad_l = " " * r.below(3) if i > 0 else ""
            pad_r = " " * r.below(3)
            segs.append(pad_l + " ".join(words) + pad_r)
        cases.append(Case("list", prog_fields(segs, ops, sts, prev=r.choice([0, 0, 1, 7])), {"gen": "g", "ops": "".join(ops), "sts": tuple(sts)}))
    # (m) malformed lines: correspondence of line_to_cmds and of the loop only (no program structure given)
    alpha = ["a", "b", " ", ";", "&", "|", "'", '"', "`", "\\", "#", "é"]
    r = rng.fork("c03-m")
    nm = 20000 if tier == "quick" else 300000
    for _ in range(nm):
        ln = 1 + r.below(10)
        s = "".join(r.choice(alpha) for _ in range(ln))
        cases.append(Case("l2c", [hx(s)], {"gen": "m"}))
    for _ in range(nm // 10):
        ln = 1 + r.below(12)
        s = "".join(r.choice(alpha) for _ in range(ln))
        cases.append(Case("list", [hx(s), "[]", str(r.choice([0, 1])), "-"], {"gen": "m"}))
    # short strings exhaustively through line_to_cmds
    k = 5 if tier == "quick" else 6
    al2 = ["a", " ", ";", "&", "|", "'", "\\", "#"]
    for ln in range(0, k + 1):
        for t in itertools.product(al2, repeat=ln):
            cases.append(Case("l2c", [hx("".join(t))], {"gen": "e2"}))
    return cases


def project(c, x):
    """for the function-body stream only the executed trace matters here (what text the substitution yields is C11's matter)"""
    if c.stream == "fcap" and "#" in x:
        return x.split("#")[0]
    return x


def nontrivial(c, M, S, g, cls):
    if c.stream == "fcap":
        return ("fcap", c.meta.get("k"))
    if c.stream != "list" or "ops" not in c.meta:
        return None
    ran = M.split("|")[0]
    nran = 0 if ran == "[]" else ran.count(",") + 1
    n = len(c.meta["sts"])
    if nran < n or len(c.meta["ops"]) >= 2:
        return (c.meta["ops"], tuple(1 if s else 0 for s in c.meta["sts"]), nran)
    return None


def process_cases(tier, rng, escapes=True):
    """programs to run through the real binary; fields as for `list` plus the stage ids"""
    r = rng.fork("c03-p")
    cases = []
    progs = []
    # stratified: all programs of length <= 3, then random up to 8
    for n in range(1, 4):
        for ops in itertools.product("sao", repeat=n - 1):
            for sts in itertools.product((0, 1), repeat=n):
                progs.append((list(ops), list(sts)))
    nr = 150 if tier == "quick" else 3000
    for _ in range(nr):
        n = 2 + r.below(7)
        progs.append(([r.choice("sao") for _ in range(n - 1)], [r.choice([0, 0, 1, 2, 42, 255, 143, 137, 130]) for _ in range(n)]))
    # a pipeline ended by a signal reports 128 + signal: every operator after it decides on that status
    for ops in itertools.product("sao", repeat=2):
        for k in (143, 137):
            progs.append((list(ops), [k, 0, 1]))
            progs.append((list(ops), [0, k, 0]))
    safe_decoys = ["';'", "'&&'", "'||'", "\"a;b\"", "\"x && y\"", "'#'", "\"#c\"", "'a || b'"]
    if escapes:
        # backslash-escaped operators only through -c: the script path re-renders tokens and loses
        # the escape (that is C16's finding KF-C16-unquoted-escape, not a list-evaluation matter)
        safe_decoys.append("\\;")
    for ops, sts in progs:
        segs = []
        for i, st in enumerate(sts):
            w = ["stage", str(i), {143: "sig15", 137: "sig9", 130: "sig2"}.get(st, str(st))]
            for _ in range(r.below(3)):
                w.append(r.choice(safe_decoys))
            segs.append((" " if i > 0 else "") + " ".join(w) + (" " if i < len(sts) - 1 else ""))
        f = prog_fields(segs, ops, sts)
        cases.append(Case("list", f, {"gen": "p", "ops": "".join(ops), "sts": tuple(sts), "segs": segs}))
    cases += bg_cases(tier, progs)
    cases += sete_cases(tier, progs)
    return cases


def sete_cases(tier, progs):
    """`set -e` switched on earlier on the line: inside a line the operators go on deciding on the status of the pipeline just run
    (`set -e; false && echo A || echo B` prints B; `set -e; false; echo x` prints x -- exit-on-error acts between the lines of a script)"""
    cases = []
    ns = 40 if tier == "quick" else 400
    for j, (ops, sts) in enumerate(progs[3:3 + ns]):
        segs = ["set -e "]
        for i, st in enumerate(sts):
            segs.append(" stage %d %d%s" % (i, st, " " if i < len(sts) - 1 else ""))
        ops2, sts2 = ["s"] + list(ops), [0] + list(sts)
        f = prog_fields(segs, ops2, sts2)
        cases.append(Case("list", f, {"gen": "p", "ops": "".join(ops2), "sts": tuple(sts2), "segs": segs, "bg": True, "sete": True}))
    return cases


BG_KINDS = ["0", "3", "sig15", "sig9", "0", "sig2"]


def bg_cases(tier, progs):
    """a background job started first on the same line ends -- by exit or by a signal -- while the first foreground pipeline still
    runs: the list must neither resume early nor take the background child's status (`stage - sig15 d40 & ; stage 0 3 d160 && ...`)"""
    cases = []
    nb = 24 if tier == "quick" else 300
    for j, (ops, sts) in enumerate(progs[:nb]):
        segs = ["stage - %s d40 & " % BG_KINDS[j % len(BG_KINDS)]]
        for i, st in enumerate(sts):
            segs.append(" stage %d %d%s%s" % (i, st, " d160" if i == 0 else "", " " if i < len(sts) - 1 else ""))
        ops2, sts2 = ["s"] + list(ops), [0] + list(sts)
        f = prog_fields(segs, ops2, sts2)
        cases.append(Case("list", f, {"gen": "p", "ops": "".join(ops2), "sts": tuple(sts2), "segs": segs, "bg": True}))
    return cases


def run_process(cicada, cases, mode):
    """mode: 'c' (cicada -c) or 'script'. Observation in the same syntax as the model's `list` answer."""
    sb = proc.Sandbox("c03")

    def one(ic):
        i, c = ic
        log = os.path.join(sb.dir, "log%d" % i)
        line = core.unhx(c.fields[0])
        if mode == "c":
            rc, out, err = proc.run_c(cicada, line, sb, {"STAGE_LOG": log})
        else:
            rc, out, err = proc.run_script(cicada, line + "\n", sb, extra_env={"STAGE_LOG": log}, name="s%d.sh" % i)
        ids = []
        if os.path.exists(log):
            ids = [x.split(":")[0] for x in open(log).read().split("\n") if x]
            os.remove(log)
        segs = c.meta["segs"]
        sts = c.meta["sts"]
        off = 1 if c.meta.get("bg") else 0          # the background job writes no marker: it is the first item, always launched
        try:
            tr = ",".join(([hx(segs[0].strip(" ")) + ":0"] if off else []) +
                          [hx(segs[int(k) + off].strip(" ")) + ":" + str(sts[int(k) + off]) for k in ids]) or "[]"
        except Exception:
            tr = "BAD-LOG " + ",".join(ids)
        return c.id, "%s|%s" % (tr, rc)

    res = dict(proc.pmap(one, list(enumerate(cases))))
    sb.cleanup()
    return res


def process(tier, rng, cicada):
    pc = process_cases(tier, rng)
    for i, c in enumerate(pc):
        c.id = "p%d" % i
    out = [("-c", pc, run_process(cicada, pc, "c"))]
    allc = process_cases(tier, rng.fork("script"), escapes=False)
    nsc = 60 if tier == "quick" else 1000
    sc = allc[:nsc] + [c for c in allc[nsc:] if c.meta.get("sete")][: (20 if tier == "quick" else 200)]
    for i, c in enumerate(sc):
        c.id = "s%d" % i
    out.append(("script", sc, run_process(cicada, sc, "script")))
    # lists as lines of a function body that is called inside a command substitution (C11's `fcap` stream: `cond 7 L && stage 3 0 p`):
    # the operators must decide on the status of the pipeline just run there too
    from . import c11
    fc, fi = c11.funcap(tier, rng.fork("c03-fcap"), cicada)
    out.append(("fcap", fc, fi))
    return out
