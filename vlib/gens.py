"""Shared generators: lines, token lists, environments (all choices from one SplitMix64)."""
import itertools
from .core import hx, toks

META = ["|", "&", ";", "<", ">", "(", ")", "$", "`", "\\", '"', "'", "*", "?", "[", "]", "{", "}", ",", "~", "#", "!", "=", "%", "^"]
C05_ALPHA = ["a", "1", "=", " ", "'", '"', "\\", "|", "&", ";", "<", ">", "$", "(", "`", ")", "{", "}", ",", "*", "~", "#", ".", "-", "+", "é", "\n"]
C05_CORE = ["a", "1", "=", " ", "'", '"', "\\", "|", "&", ";", "<", ">", "$", "("]


def env_field(vars=None, exported=None, aliases=None, status=0, cmds=None):
    def ps(d):
        if not d:
            return "[]"
        items = d.items() if isinstance(d, dict) else d
        return ",".join(hx(k) + ":" + hx(v) for k, v in items)
    return "v=%s;x=%s;a=%s;s=%d;c=%s" % (ps(vars), ps(exported), ps(aliases), status, ps(cmds))


EMPTY_ENV = env_field()


def all_strings(alpha, maxlen, minlen=0):
    for n in range(minlen, maxlen + 1):
        for t in itertools.product(alpha, repeat=n):
            yield "".join(t)


def rand_string(r, alpha, lo, hi):
    return "".join(r.choice(alpha) for _ in range(lo + r.below(hi - lo + 1)))


WORDS = ["echo", "a", "b", "foo", "x=1", "A=b", "~", "~/x", "*", "a*", "{a,b}", "{1..3}", "$A", "${A}", "$?", "$$", "$(a)", "`a`", ">", ">>", "2>&1",
         "1>&2", "<", "<<<", "|", "||", "&&", "&", ";", "'q'", '"d q"', "\\ ", "#", "(", ")", "1+2", "2 * 3", "é", "", "export", "PROMPT=x", "xargs", "ls"]


def rand_line(r, maxwords=7):
    n = 1 + r.below(maxwords)
    parts = []
    for _ in range(n):
        w = r.choice(WORDS)
        if r.chance(1, 6):
            w = rand_string(r, C05_ALPHA, 1, 5)
        parts.append(w)
        parts.append(r.choice([" ", " ", " ", "", "  "]))
    return "".join(parts)


SEPS = ["", "", "", "'", '"', "`", "\\"]


def rand_tokens(r, maxn=5):
    n = r.below(maxn + 1)
    out = []
    for _ in range(n):
        sep = r.choice(SEPS)
        w = r.choice(WORDS)
        if r.chance(1, 4):
            w = rand_string(r, C05_ALPHA, 0, 6)
        out.append((sep, w))
    return out
