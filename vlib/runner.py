import importlib, json, os, sys, time
from . import core
from .core import log

TRUSTED = [
    "Lean 4.33 kernel (theorems re-checked by `lake build`; axioms printed by `#print axioms` on every run, accepted set {propext, Classical.choice, Quot.sound})",
    "the hand-written Lean model of the anchored Rust code (lean/Cicada/Model), tied to /repo by the correspondence streams run on every invocation",
    "tools/gen_constants.py (tables extracted from the Rust sources into Cicada/Generated.lean on every run)",
    "the Rust in-process harness (harness/), the Python process-level harness (vlib/), C helpers (helpers/), and their canonicalisation",
    "Lean's code generator/runtime executing the compiled model driver `cicada_model`",
]


def props_list():
    d = os.path.join(core.VERIF, "vlib", "props")
    return sorted(f[:-3].upper() for f in os.listdir(d) if f.startswith("c") and f.endswith(".py"))


def run_property(prop, tier, seed):
    P = importlib.import_module("vlib.props." + prop.lower())
    rep = core.Report(prop, tier, seed)
    for f in os.listdir(os.path.join(core.VERIF, 'replays')) if os.path.isdir(os.path.join(core.VERIF, 'replays')) else []:
        if f.startswith(prop + '-'):
            os.remove(os.path.join(core.VERIF, 'replays', f))
    try:
        os.remove(os.path.join(core.WORK, prop + '.divergences.txt'))
    except OSError:
        pass
    rng = core.SplitMix64(seed)
    known = core.load_known()
    lk = core.lock()
    l1_problems = []
    try:
        rc, out = core.gen_constants()
        if rc != 0:
            l1_problems.append("gen_constants: " + out)
        th = core.load_theorems(prop)
        rc, out = core.lake_build(["cicada_model"])
        if rc != 0:
            l1_problems.append("model driver does not build: " + out[-1500:])
            model_ok = False
        else:
            model_ok = True
        rc, out = core.lake_build([th["module"]])
        if rc != 0:
            errs = [l for l in out.split("\n") if "error" in l][:8]
            l1_problems.append("theorem module %s does not check: %s" % (th["module"], " | ".join(errs)))
        aud = core.audit(prop)
        l1_problems += aud["problems"]
        try:
            cvh = core.build_harness()
            cicada = core.build_binary() if getattr(P, "NEEDS_BINARY", False) else None
            core.build_helpers()
        except core.BuildError as e:
            print("BUILD-ERROR: " + str(e))
            return 2
    finally:
        lk.close()
    if l1_problems:
        log("proof obligations broken: %s" % l1_problems)
        tier_eff = "thorough"
    else:
        tier_eff = tier
    log("lean: %d/%d obligations discharged (%.0fs)" % (aud["discharged"], aud["obligations"], time.time() - rep.t0))
    if model_ok:
        cases = P.generate(tier_eff, rng)
        core.assign_ids(cases)
        t1 = time.time()
        core.attach_glob(cvh, cases, prop)
        if hasattr(P, "attach"):
            P.attach(cvh, cases, prop)
        impl = core.run_harness(cvh, cases, prop)
        t2 = time.time()
        model = core.run_model(cases, prop)
        log("in-process: %d cases, harness %.0fs, model %.0fs" % (len(cases), t2 - t1, time.time() - t2))
        st = core.judge(rep, cases, impl, model, known, getattr(P, "nontrivial", None), spec_mode=getattr(P, "SPEC_MODE", None), project=getattr(P, "project", None))
        if hasattr(P, "process"):
            t3 = time.time()
            for label, pcases, pimpl in P.process(tier_eff, rng, cicada):
                pmodel = core.run_model(pcases, prop + label)
                if hasattr(P, "CLASS_NAMES"):
                    # a stream borrowed from another property names the finding classes in that property's terms
                    pmodel = {k: (v[0], v[1], v[2], P.CLASS_NAMES.get(v[3], v[3])) if len(v) == 4 else v for k, v in pmodel.items()}
                rep.count("process:" + label, len(pcases))
                core.judge(rep, pcases, pimpl, pmodel, known, getattr(P, "nontrivial", None), spec_mode=getattr(P, "SPEC_MODE", None),
                           project=getattr(P, "project", None))
            log("process-level: %.0fs" % (time.time() - t3))
        if hasattr(P, "post"):
            P.post(rep)
    if l1_problems and not rep.violations:
        rep.violation({"property": prop, "kind": "proof obligation no longer checks", "problems": l1_problems,
                       "theorems": th["theorems"], "searched": "sweep at thorough bounds found no input on which the implementation violates the spec"},
                      "no-failing-input-found")
    core.print_known(rep, known)
    checker = "cd /verif/lean && lake build %s cicada_model && lake env lean ../.build/audit_%s.lean   (via ./check %s)" % (th["module"], prop, prop)
    core.write_evidence(rep, aud, checker, getattr(P, "RULE", ""), TRUSTED + getattr(P, "TRUSTED", []), getattr(P, "ASSUMPTIONS", []))
    log("%s %s: %d evaluations, %d distinct non-trivial, %d divergences, %d violations, %.0fs" %
        (prop, tier, rep.evaluations, len(rep.nontrivial), rep.divergences, len(rep.violations), time.time() - rep.t0))
    return 1 if rep.violations else 0


def replay(path):
    with open(path) as f:
        r = json.load(f)
    print(json.dumps(r, indent=1, ensure_ascii=False))
    if "fields" not in r:
        return 0
    if r.get("stream") == "term":       # C07: a pty session, replayed by its own driver
        from .props import c07
        return c07.replay_session(r)
    lk = core.lock()
    try:
        core.gen_constants()
        core.lake_build(["cicada_model"])
        cvh = core.build_harness()
    finally:
        lk.close()
    c = core.Case(r["stream"], r["fields"], r.get("meta"))
    c.id = "r0"
    if r.get("meta", {}).get("gen") == "p":
        print("(process-level case: re-run `./check %s` with seed %s to reproduce)" % (r["property"], r.get("seed")))
    impl = core.run_harness(cvh, [c], "replay")
    model = core.run_model([c], "replay")
    print("replayed now: impl  =", impl.get("r0"))
    print("              model =", model.get("r0"))
    return 0


def setup():
    lk = core.lock()
    try:
        rc, out = core.gen_constants()
        print(out)
        rc, out = core.lake_build([])
        print(out[-2000:])
        if rc != 0:
            return 1
        core.build_harness()
        core.build_binary()
        core.build_helpers()
    finally:
        lk.close()
    return 0


def main(argv):
    core.reset_signals()
    if not argv:
        print(__doc__)
        return 2
    if argv[0] == "setup":
        return setup()
    if argv[0] == "replay":
        return replay(argv[1])
    prop = argv[0].upper()
    tier = os.environ.get("VERIF_TIER", "quick")
    seed = int(os.environ.get("VERIF_SEED", "20260929"))
    i = 1
    while i < len(argv):
        if argv[i] == "--tier":
            tier = argv[i + 1]; i += 2
        elif argv[i] == "--seed":
            seed = int(argv[i + 1]); i += 2
        else:
            i += 1
    if tier not in ("quick", "thorough"):
        tier = "quick"
    return run_property(prop, tier, seed)
