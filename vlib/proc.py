"""Process-level harness: run the plain cicada binary in a sandbox directory."""
import os, shutil, subprocess, tempfile
from concurrent.futures import ThreadPoolExecutor
from . import core


class Sandbox:
    def __init__(self, tag):
        os.makedirs(core.WORK, exist_ok=True)
        self.dir = tempfile.mkdtemp(prefix=tag + "-", dir=core.WORK)
        self.home = os.path.join(self.dir, "home")
        os.makedirs(self.home)
        self.cwd = os.path.join(self.dir, "cwd")
        os.makedirs(self.cwd)

    def env(self, extra=None):
        helpers = os.path.join(core.BUILD, "helpers")
        e = {
            "HOME": self.home,
            "PATH": helpers + ":/usr/bin:/bin",
            "TERM": "xterm",
            "PROMPT": "$ ",
            "HISTORY_FILE": os.path.join(self.home, "history.sqlite"),
            "XDG_CONFIG_HOME": os.path.join(self.home, ".config"),
            "LANG": "C.UTF-8",
            "USER": "verif",
        }
        if extra:
            e.update(extra)
        return e

    def cleanup(self):
        shutil.rmtree(self.dir, ignore_errors=True)


def run_c(cicada, line, sb, extra_env=None, timeout=20, stdin=None):
    """cicada -c <line>; returns (rc or 'TIMEOUT', stdout, stderr)"""
    try:
        p = subprocess.run([cicada, "-c", line], cwd=sb.cwd, env=sb.env(extra_env), stdin=subprocess.DEVNULL if stdin is None else None,
                           input=stdin, stdout=subprocess.PIPE, stderr=subprocess.PIPE, timeout=timeout)
        return p.returncode, p.stdout.decode("utf-8", "replace"), p.stderr.decode("utf-8", "replace")
    except subprocess.TimeoutExpired:
        return "TIMEOUT", "", ""


def run_script(cicada, text, sb, args=(), extra_env=None, timeout=20, name="script.sh"):
    path = os.path.join(sb.cwd, name)
    with open(path, "w") as f:
        f.write(text)
    try:
        p = subprocess.run([cicada, path] + list(args), cwd=sb.cwd, env=sb.env(extra_env), stdin=subprocess.DEVNULL,
                           stdout=subprocess.PIPE, stderr=subprocess.PIPE, timeout=timeout)
        return p.returncode, p.stdout.decode("utf-8", "replace"), p.stderr.decode("utf-8", "replace")
    except subprocess.TimeoutExpired:
        return "TIMEOUT", "", ""


def pmap(fn, items, workers=None):
    with ThreadPoolExecutor(max_workers=workers or core.NCPU) as ex:
        return list(ex.map(fn, items))
