"""Core of the check driver: builds, audit, case protocol, comparison, verdict, evidence."""
import fcntl, hashlib, json, os, re, shutil, subprocess, sys, time

VERIF = os.path.dirname(os.path.dirname(os.path.abspath(__file__)))
REPO = os.environ.get("CICADA_REPO", "/repo")
BUILD = os.path.join(VERIF, ".build")
LEAN = os.path.join(VERIF, "lean")
WORK = os.path.join(VERIF, ".work")
NCPU = min(16, os.cpu_count() or 4)
ALLOWED_AXIOMS = {"propext", "Classical.choice", "Quot.sound"}
FORBIDDEN = re.compile(r"\bsorry\b|\badmit\b|^axiom\s|native_decide|bv_decide|implemented_by|\bunsafe\s|maxHeartbeats\s+0|\bpartial\s+def\b")

def reset_signals():
    """dispositions are inherited through fork and exec: a check started as a background job of a shell without job
    control (`./check C07 &`) inherits SIGINT and SIGQUIT IGNORED, hands that to the shell under test and to its jobs,
    and Ctrl-C typed on the pty then kills nothing.  Every check starts from the default dispositions."""
    import signal
    for name in ("SIGINT", "SIGQUIT", "SIGTSTP", "SIGTTIN", "SIGTTOU", "SIGHUP", "SIGPIPE", "SIGCHLD", "SIGTERM", "SIGCONT", "SIGUSR1", "SIGUSR2"):
        sig = getattr(signal, name)
        try:
            if signal.getsignal(sig) == signal.SIG_IGN and name != "SIGPIPE":
                signal.signal(sig, signal.SIG_DFL)
        except (OSError, ValueError):
            pass
    try:
        signal.pthread_sigmask(signal.SIG_SETMASK, [])
    except (OSError, ValueError, AttributeError):
        pass


def child_signals():
    """in a forked child just before exec (pty.fork does not do what subprocess's restore_signals does)"""
    import signal
    for name in ("SIGINT", "SIGQUIT", "SIGTSTP", "SIGTTIN", "SIGTTOU", "SIGHUP", "SIGPIPE", "SIGCHLD", "SIGTERM", "SIGXFSZ"):
        try:
            signal.signal(getattr(signal, name), signal.SIG_DFL)
        except (OSError, ValueError, AttributeError):
            pass


ENV = dict(os.environ)
ENV["CARGO_NET_OFFLINE"] = "true"


def log(msg):
    print("[check] " + msg, flush=True)


# ----------------------------------------------------------------------------- wire format

def hx(s):
    if s == "":
        return "-"
    return s.encode("utf-8").hex()


def unhx(s):
    if s == "-":
        return ""
    return bytes.fromhex(s).decode("utf-8", errors="replace")


def toks(ts):
    if not ts:
        return "[]"
    return ",".join(hx(a) + ":" + hx(b) for a, b in ts)


def untoks(s):
    if s == "[]":
        return []
    return [tuple(unhx(x) for x in p.split(":")) for p in s.split(",")]


class SplitMix64:
    """the one PRNG every random choice is derived from (replayable from the seed)"""

    def __init__(self, seed):
        self.s = seed & 0xFFFFFFFFFFFFFFFF

    def next(self):
        self.s = (self.s + 0x9E3779B97F4A7C15) & 0xFFFFFFFFFFFFFFFF
        z = self.s
        z = ((z ^ (z >> 30)) * 0xBF58476D1CE4E5B9) & 0xFFFFFFFFFFFFFFFF
        z = ((z ^ (z >> 27)) * 0x94D049BB133111EB) & 0xFFFFFFFFFFFFFFFF
        return z ^ (z >> 31)

    def below(self, n):
        return self.next() % n

    def choice(self, xs):
        return xs[self.below(len(xs))]

    def chance(self, num, den):
        return self.below(den) < num

    def fork(self, tag):
        h = int.from_bytes(hashlib.sha256(("%d/%s" % (self.s, tag)).encode()).digest()[:8], "big")
        return SplitMix64(h)


class Case:
    __slots__ = ("stream", "fields", "meta", "id")

    def __init__(self, stream, fields, meta=None):
        self.stream = stream
        self.fields = fields
        self.meta = meta or {}
        self.id = None

    def line(self):
        return "\t".join([self.id, self.stream] + list(self.fields))


# ----------------------------------------------------------------------------- builds

class BuildError(Exception):
    pass


def lock():
    os.makedirs(BUILD, exist_ok=True)
    f = open(os.path.join(BUILD, "lock"), "w")
    fcntl.flock(f, fcntl.LOCK_EX)
    return f


def run(cmd, cwd=None, timeout=None, env=None, capture=True):
    p = subprocess.run(cmd, cwd=cwd, timeout=timeout, env=env or ENV, stdout=subprocess.PIPE if capture else None,
                       stderr=subprocess.STDOUT if capture else None, text=True)
    return p.returncode, (p.stdout or "")


def gen_constants():
    rc, out = run([sys.executable, os.path.join(VERIF, "tools", "gen_constants.py")])
    return rc, out.strip()


def lake_build(targets):
    rc, out = run(["lake", "build"] + targets, cwd=LEAN, timeout=3000)
    return rc, out


def model_binary():
    return os.path.join(LEAN, ".lake", "build", "bin", "cicada_model")


def _rewrite(path, pattern, repl):
    s = open(path).read()
    t = re.sub(pattern, repl, s)
    if t != s:
        open(path, "w").write(t)


def build_harness():
    h = os.path.join(VERIF, "harness")
    # the harness crate depends on the repository by path and builds into this framework's .build: both follow
    # CICADA_REPO / the location of this checkout (so a snapshot of the framework can run beside the original)
    _rewrite(os.path.join(h, "Cargo.toml"), r'cicada = \{ path = "[^"]*" \}', 'cicada = { path = "%s" }' % REPO)
    _rewrite(os.path.join(h, ".cargo", "config.toml"), r'target-dir = "[^"]*"', 'target-dir = "%s"' % os.path.join(BUILD, "harness-target"))
    shutil.copyfile(os.path.join(REPO, "Cargo.lock"), os.path.join(h, "Cargo.lock"))
    rc, out = run(["cargo", "build", "--offline"], cwd=h, timeout=3000)
    if rc != 0:
        raise BuildError("harness build failed:\n" + out[-4000:])
    return os.path.join(BUILD, "harness-target", "debug", "cvh")


def build_binary():
    rc, out = run(["cargo", "build", "--offline", "--bin", "cicada", "--target-dir", os.path.join(BUILD, "cicada-target")],
                  cwd=REPO, timeout=3000)
    if rc != 0:
        raise BuildError("cicada build failed:\n" + out[-4000:])
    return os.path.join(BUILD, "cicada-target", "debug", "cicada")


def build_helpers():
    hd = os.path.join(VERIF, "helpers")
    outd = os.path.join(BUILD, "helpers")
    os.makedirs(outd, exist_ok=True)
    for f in sorted(os.listdir(hd)):
        if f.endswith(".c"):
            dst = os.path.join(outd, f[:-2])
            src = os.path.join(hd, f)
            if not os.path.exists(dst) or os.path.getmtime(dst) < os.path.getmtime(src):
                flags = []
                m = re.search(r"BUILD:\s*(\S.*)", open(src).read(400))
                if m:
                    flags = m.group(1).split()
                rc, out = run(["cc", "-O1"] + flags + ["-o", dst, src])
                if rc != 0:
                    raise BuildError("helper %s: %s" % (f, out))
    return outd


# ----------------------------------------------------------------------------- Lean audit

def strip_comments(text):
    # remove /- ... -/ (nested) and -- comments; keep string literals intact enough for the grep
    out = []
    i = 0
    depth = 0
    n = len(text)
    in_str = False
    while i < n:
        if depth == 0 and not in_str and text[i] == '"':
            in_str = True
            out.append(text[i]); i += 1; continue
        if in_str:
            if text[i] == "\\" and i + 1 < n:
                out.append("  "); i += 2; continue
            if text[i] == '"':
                in_str = False
            out.append(" " if text[i] != '"' and text[i] != "\n" else text[i]); i += 1; continue
        if text.startswith("/-", i):
            depth += 1; i += 2; continue
        if depth > 0 and text.startswith("-/", i):
            depth -= 1; i += 2; continue
        if depth > 0:
            if text[i] == "\n":
                out.append("\n")
            i += 1; continue
        if text.startswith("--", i):
            while i < n and text[i] != "\n":
                i += 1
            continue
        out.append(text[i]); i += 1
    return "".join(out)


def import_closure(roots):
    """the .lean files a set of root files depends on inside the project (transitive `import Cicada.…`)"""
    seen, todo = set(), list(roots)
    while todo:
        p = todo.pop()
        if p in seen or not os.path.exists(p):
            continue
        seen.add(p)
        for m in re.finditer(r"^import\s+(Cicada(?:\.\w+)+)\s*$", open(p, encoding="utf-8").read(), re.M):
            todo.append(os.path.join(LEAN, m.group(1).replace(".", "/") + ".lean"))
    return sorted(seen)


def forbidden_tokens(module=None):
    """forbidden tokens in every file the property's theorem module and the model driver are built from (files outside
    that closure -- work in progress, scratch files -- are not part of what is claimed)"""
    hits = []
    roots = [os.path.join(LEAN, "Driver.lean")]
    if module:
        roots.append(os.path.join(LEAN, module.replace(".", "/") + ".lean"))
    for p in import_closure(roots):
        txt = strip_comments(open(p, encoding="utf-8").read())
        for ln, line in enumerate(txt.split("\n"), 1):
            if FORBIDDEN.search(line) and not (p.endswith("Driver.lean") and re.search(r"\bpartial def\b", line)):
                hits.append("%s:%d: %s" % (os.path.relpath(p, LEAN), ln, line.strip()[:100]))
    return hits


def load_theorems(prop):
    with open(os.path.join(LEAN, "theorems.json")) as f:
        t = json.load(f)
    return t[prop]


def audit(prop):
    """returns dict: obligations, discharged, per-theorem axioms, problems[]"""
    th = load_theorems(prop)
    names = th["theorems"]
    mod = th["module"]
    os.makedirs(BUILD, exist_ok=True)
    f = os.path.join(BUILD, "audit_%s.lean" % prop)
    with open(f, "w") as fh:
        fh.write("import %s\n" % mod)
        for n in names:
            fh.write("#print axioms %s\n" % n)
    rc, out = run(["lake", "env", "lean", f], cwd=LEAN, timeout=1200)
    res = {}
    problems = []
    # output blocks: 'X' depends on axioms: [a, b]   |  'X' does not depend on any axioms
    flat = re.sub(r"\s+", " ", out)
    for n in names:
        m = re.search(r"'%s' depends on axioms: \[([^\]]*)\]" % re.escape(n), flat)
        if m:
            ax = [a.strip() for a in m.group(1).split(",") if a.strip()]
            res[n] = ax
            bad = [a for a in ax if a not in ALLOWED_AXIOMS]
            if bad:
                problems.append("%s depends on non-accepted axioms %s" % (n, bad))
        elif re.search(r"'%s' does not depend on any axioms" % re.escape(n), flat):
            res[n] = []
        else:
            problems.append("theorem %s not found / not checked" % n)
    if rc != 0 and not problems:
        problems.append("audit file failed: " + out[-500:])
    fb = forbidden_tokens(mod)
    for h in fb:
        problems.append("forbidden token: " + h)
    return {"obligations": len(names), "discharged": len([n for n in names if n in res and all(a in ALLOWED_AXIOMS for a in res[n])]),
            "axioms": res, "problems": problems, "module": mod}


# ----------------------------------------------------------------------------- running cases

def assign_ids(cases):
    for i, c in enumerate(cases):
        c.id = "c%d" % i


FIXTURE_FILES = ["a", "aa", "ab", "b", ".hid", "x y", "é", "st*r", "a.txt", "b.txt", "sub/in", "sub/.h2", "q",
                 # names that spell shell syntax (C13: a file name produced by filename expansion is data)
                 "ops/g>x", "ops/h|y", "ops/i&", "ops/j;k", "ops/k#c", "ops/l<m", "ops/m`id`", "ops/n$(id)", "ops/o{1..2}", "ops/p>>q",
                 "ops/r 2>e", "ops/s=1", "ops/t'u", 'ops/v"w', "ops/w*x", "ops/&", "ops/|", "ops/>z", "ops/<", "ops/y$HOME", "ops/~"]


def make_fixture():
    """a directory with known entries in which the in-process harness runs (glob, completion)"""
    d = os.path.join(WORK, "fixture2")
    if not os.path.isdir(d):
        for f in FIXTURE_FILES:
            p = os.path.join(d, f)
            os.makedirs(os.path.dirname(p), exist_ok=True)
            open(p, "w").close()
    return d


def attach_glob(cvh, cases, tag):
    """ask the model which patterns each case hands to the glob crate, ask the implementation's glob crate
    what they match in the fixture directory, and put the answers into the cases' environment field"""
    kinds = {"plan": "line", "head": "line", "plan1": "line1", "xall": "tokens", "xglob": "tokens"}
    q = []
    for c in cases:
        if c.stream in kinds:
            qc = Case("globneeds", [c.fields[0], c.fields[1], kinds[c.stream]])
            qc.id = "g" + c.id
            q.append((c, qc))
    if not q:
        return
    needs = run_model([x[1] for x in q], tag + "gn")
    pats = set()
    per = {}
    for c, qc in q:
        m = needs.get(qc.id)
        if m and m[0] != "[]":
            per[c.id] = m[0].split(",")
            pats.update(per[c.id])
    pl = sorted(pats)
    qcases = []
    for i, ph in enumerate(pl):
        x = Case("globq", [ph]); x.id = "q%d" % i
        qcases.append(x)
    ans = run_harness(cvh, qcases, tag + "gq", keep_pid=False) if qcases else {}
    table = {ph: ans.get("q%d" % i, "[]") for i, ph in enumerate(pl)}
    for c, qc in q:
        if c.id in per:
            g = ",".join(ph + ":" + table[ph] for ph in sorted(set(per[c.id])))
            c.fields[0] = c.fields[0] + ";g=" + g


STALL = 25.0        # seconds one case may keep a shard busy before it is declared a hang


def _limit_memory():
    import resource
    try:
        resource.setrlimit(resource.RLIMIT_AS, (6 << 30, 6 << 30))     # a runaway loop that allocates must not take the machine down
    except (ValueError, OSError):
        pass


def run_harness(cvh, cases, tag, timeout=1800, shards=None, keep_pid=True):
    """run the in-process harness over the cases, sharded; returns {id: observation}.
    A shard that dies or whose current case does not end within STALL seconds yields CRASH / HANG for the case in flight and is
    restarted on the cases it has not run yet (so one endless loop costs STALL seconds, not the whole budget)."""
    os.makedirs(WORK, exist_ok=True)
    shards = shards or NCPU
    n = max(1, min(shards, (len(cases) + 199) // 200))
    res = {}
    serial = [0]

    def launch(ch):
        serial[0] += 1
        k = serial[0]
        inp = os.path.join(WORK, "%s.cases.%d" % (tag, k))
        outp = os.path.join(WORK, "%s.impl.%d" % (tag, k))
        with open(inp, "w") as f:
            for c in ch:
                f.write(c.line() + "\n")
        prog = os.path.join(WORK, "%s.progress.%d" % (tag, k))
        env = dict(ENV)
        env["CVH_PROGRESS"] = prog
        env["CVH_CWD"] = make_fixture()
        p = subprocess.Popen([cvh, inp, outp], env=env, stdout=subprocess.DEVNULL, stderr=subprocess.DEVNULL, preexec_fn=_limit_memory)
        return {"p": p, "inp": inp, "outp": outp, "prog": prog, "ch": ch, "cur": None, "since": time.time()}

    def collect(sh, status):
        got = {}
        if os.path.exists(sh["outp"]):
            with open(sh["outp"]) as f:
                for line in f:
                    line = line.rstrip("\n")
                    if "\t" in line:
                        i_, o = line.split("\t", 1)
                        got[i_] = o
        res.update(got)
        rest = []
        if status != "ok":
            cur = open(sh["prog"]).read().strip() if os.path.exists(sh["prog"]) else None
            for c in sh["ch"]:
                if c.id not in got:
                    if c.id == cur:
                        res[c.id] = status
                    else:
                        rest.append(c)
            if cur is None or all(c.id != cur for c in sh["ch"]):
                # no case was announced: nothing to blame, do not loop
                for c in rest:
                    res[c.id] = "NOT-RUN"
                rest = []
        for x in (sh["inp"], sh["outp"], sh["prog"]):
            try:
                os.remove(x)
            except OSError:
                pass
        return rest

    live = [launch(cases[i::n]) for i in range(n)]
    deadline = time.time() + timeout
    while live:
        time.sleep(0.05)
        now = time.time()
        nxt = []
        for sh in live:
            rc = sh["p"].poll()
            if rc is not None:
                rest = collect(sh, "ok" if rc == 0 else "CRASH rc=%d" % rc)
                if rest:
                    nxt.append(launch(rest))
                continue
            try:
                cur = open(sh["prog"]).read().strip()
            except OSError:
                cur = None
            if cur != sh["cur"]:
                sh["cur"], sh["since"] = cur, now
            if now - sh["since"] > STALL or now > deadline:
                sh["p"].kill()
                sh["p"].wait()
                rest = collect(sh, "HANG")
                if rest and now <= deadline:
                    nxt.append(launch(rest))
                else:
                    for c in rest:
                        res[c.id] = "NOT-RUN"
                continue
            nxt.append(sh)
        live = nxt
    if not keep_pid:
        # auxiliary queries (what does the glob crate match ...): the pid note of `mask_pid` is of no use
        res = {k: v.rsplit("\t@pid=", 1)[0] for k, v in res.items()}
    return res


def run_model(cases, tag, timeout=1800):
    """returns {id: (M, S, guard, cls)}"""
    os.makedirs(WORK, exist_ok=True)
    n = max(1, min(NCPU, (len(cases) + 499) // 500))
    chunks = [cases[i::n] for i in range(n)]
    procs = []
    for k, ch in enumerate(chunks):
        inp = os.path.join(WORK, "%s.mcases.%d" % (tag, k))
        outp = os.path.join(WORK, "%s.model.%d" % (tag, k))
        with open(inp, "w") as f:
            for c in ch:
                f.write(c.line() + "\n")
        fi = open(inp)
        fo = open(outp, "w")
        p = subprocess.Popen([model_binary()], stdin=fi, stdout=fo, stderr=subprocess.DEVNULL)
        procs.append((p, fi, fo, inp, outp))
    res = {}
    for p, fi, fo, inp, outp in procs:
        try:
            p.wait(timeout=timeout)
        except subprocess.TimeoutExpired:
            p.kill()
            p.wait()
        fi.close()
        fo.close()
        with open(outp) as f:
            for line in f:
                parts = line.rstrip("\n").split("\t")
                if len(parts) >= 5:
                    res[parts[0]] = tuple(parts[1:5])
        os.remove(inp)
        os.remove(outp)
    return res


# ----------------------------------------------------------------------------- known findings

def load_known():
    p = os.path.join(VERIF, "known_findings.json")
    with open(p) as f:
        return json.load(f)


# ----------------------------------------------------------------------------- verdict

class Report:
    def __init__(self, prop, tier, seed):
        self.prop = prop
        self.tier = tier
        self.seed = seed
        self.t0 = time.time()
        self.violations = []      # (replay_path, suffix)
        self.known_hit = {}       # id -> count
        self.evaluations = 0
        self.nontrivial = set()
        self.samples = []
        self.dist = {}
        self.divergences = 0
        self.notes = []
        self.exhaustive = None
        self.extra = {}

    def count(self, key, n=1):
        self.dist[key] = self.dist.get(key, 0) + n

    def violation(self, replay_obj, suffix=""):
        os.makedirs(os.path.join(VERIF, "replays"), exist_ok=True)
        blob = json.dumps(replay_obj, sort_keys=True, indent=1, ensure_ascii=False)
        h = hashlib.sha256(blob.encode()).hexdigest()[:10]
        path = os.path.join(VERIF, "replays", "%s-%s.json" % (self.prop, h))
        with open(path, "w") as f:
            f.write(blob + "\n")
        self.violations.append((path, suffix))
        print("VIOLATION property=%s replay=%s%s" % (self.prop, path, (" " + suffix) if suffix else ""), flush=True)


def readable(stream, fields):
    out = []
    for f in fields:
        try:
            if f == "[]" or f == "-":
                out.append(f)
            elif re.fullmatch(r"[0-9a-f]+", f) and len(f) % 2 == 0:
                out.append(unhx(f))
            elif re.fullmatch(r"[0-9a-f:,\-]+", f):
                out.append([[unhx(y) if re.fullmatch(r"[0-9a-f]+", y) and len(y) % 2 == 0 else y for y in x.split(":")] for x in f.split(",")])
            else:
                out.append(f)
        except Exception:
            out.append(f)
    return out


PID_PLACEHOLDER = "4194305"      # one above the largest pid the kernel hands out by default; the model's value of `$$`


def subst_pid(text, pid):
    """replace the hex image of the placeholder, at even offsets inside each run of hex digits, by the hex image of `pid`"""
    ph, rep = hx(PID_PLACEHOLDER), hx(pid)
    if ph not in text:
        return text

    def one(mo):
        run, out, k = mo.group(0), [], 0
        while k < len(run):
            if run.startswith(ph, k):
                out.append(rep)
                k += len(ph)
            else:
                out.append(run[k:k + 2])
                k += 2
        return "".join(out)
    return re.sub(r"[0-9a-f]+", one, text)


def judge(rep, cases, impl, model, known, classify_nontrivial=None, max_report=3, spec_mode=None, project=None):
    """apply the verdict rules of DESIGN 2.3 to in-process / process-level observations."""
    open_k = {k["class"]: k for k in known.get("open", []) if k["property"] == rep.prop}
    diverging = []
    spec_fail_div = []
    spec_fail_agree = {}
    thm_fail = []
    for c in cases:
        rep.evaluations += 1
        rep.count("stream:" + c.stream)
        o = impl.get(c.id, "MISSING")
        if o == "NOT-RUN":
            # the harness ran out of its time budget (an overloaded machine) before this case was reached: nothing was observed,
            # so nothing is concluded -- a case the harness hangs or dies ON is reported as HANG / CRASH, not as NOT-RUN
            rep.count("not-run (harness budget exhausted)")
            if not any("harness budget" in n_ for n_ in rep.notes):
                rep.notes.append("harness budget exhausted before every case was run: the cases not reached are counted under `not-run` and not judged")
            continue
        m = model.get(c.id)
        if m is None:
            rep.notes.append("model produced no answer for %s" % c.id)
            diverging.append((c, o, ("MISSING", "-", "-", "-")))
            continue
        M, S, g, cls = m
        if "\t@pid=" in o:
            # the case mentions `$$`: the harness reports the pid it ran under; it takes the place of the model's placeholder
            o, pid = o.rsplit("\t@pid=", 1)
            M, S = subst_pid(M, pid), subst_pid(S, pid)
            m = (M, S, g, cls)
        if M.startswith("UNMODELLED"):
            rep.count("unmodelled")
            continue
        if spec_mode == "nocrash":
            # C05: the spec is "the stage returns": any outcome other than PANIC / HANG / CRASH meets it
            crashed = o.startswith(("PANIC", "HANG", "CRASH", "NOT-RUN", "MISSING"))
            S = "<returns>"
            if not crashed and o == M:
                S = o
            g = "0" if cls != "-" else "1"
            m = (M, S, g, cls)
        if g != "-":
            rep.count("guard:" + g)
        if classify_nontrivial:
            key = classify_nontrivial(c, M, S, g, cls)
            if key is not None:
                rep.nontrivial.add(key)
        if len(rep.samples) < 6 and (rep.evaluations % 997 == 1 or len(rep.samples) < 2):
            rep.samples.append({"stream": c.stream, "input": readable(c.stream, c.fields), "impl": o, "model": M, "spec": S, "guard": g})
        a_ok = (o == M) or (c.meta.get('gen') == 'p' and project is not None and project(c, o) == project(c, M))
        if not a_ok:
            diverging.append((c, o, m))
        pj = project if project else (lambda st, x: x)
        if g == "1" and S != "-" and pj(c, M) != pj(c, S):
            thm_fail.append((c, o, m))
        if S != "-" and pj(c, o) != pj(c, S):
            if not a_ok:
                spec_fail_div.append((c, o, m))
            else:
                spec_fail_agree.setdefault(cls, []).append((c, o, m))
    rep.divergences += len(diverging)
    if diverging:
        os.makedirs(WORK, exist_ok=True)
        with open(os.path.join(WORK, "%s.divergences.txt" % rep.prop), "a") as f:
            for c, o, m in diverging[:400]:
                f.write("%s\t%s\n    impl  %s\n    model %s\n" % (c.stream, readable(c.stream, c.fields), o, m[0]))

    def replay_obj(kind, c, o, m, extra=None):
        d = {"property": rep.prop, "kind": kind, "stream": c.stream, "fields": list(c.fields),
             "readable": readable(c.stream, c.fields), "impl": o, "model": m[0], "spec": m[1], "guard": m[2], "class": m[3],
             "meta": c.meta, "seed": rep.seed, "tier": rep.tier}
        if extra:
            d.update(extra)
        return d

    for c, o, m in thm_fail[:max_report]:
        rep.violation(replay_obj("theorem-instance-failed (model and spec differ inside the guard: driver/statement bug)", c, o, m),
                      "no-failing-input-found")
    if diverging:
        if spec_fail_div:
            best = sorted(spec_fail_div, key=lambda x: sum(len(f) for f in x[0].fields))[:max_report]
            for c, o, m in best:
                rep.violation(replay_obj("implementation violates the spec and differs from the model", c, o, m))
        else:
            best = sorted(diverging, key=lambda x: sum(len(f) for f in x[0].fields))[:max_report]
            for c, o, m in best:
                rep.violation(replay_obj("correspondence broken: implementation differs from the model (spec still met or not applicable on this case)",
                                         c, o, m, {"correspondence_stream": c.stream}), "no-failing-input-found")
    for cls, lst in sorted(spec_fail_agree.items()):
        k = open_k.get(cls)
        if k is not None:
            rep.known_hit[k["id"]] = rep.known_hit.get(k["id"], 0) + len(lst)
        else:
            best = sorted(lst, key=lambda x: sum(len(f) for f in x[0].fields))[:max_report]
            for c, o, m in best:
                rep.violation(replay_obj("implementation and model agree and both violate the spec; class not a listed known finding", c, o, m))
    return {"diverging": len(diverging), "spec_fail_div": len(spec_fail_div), "thm_fail": len(thm_fail)}


def print_known(rep, known):
    idx = {k["id"]: k for k in known.get("open", [])}
    for kid, n in sorted(rep.known_hit.items()):
        k = idx[kid]
        print("KNOWN-FINDING: property=%s %s %s (%d cases this run)" % (rep.prop, kid, k["what"], n), flush=True)


def write_evidence(rep, aud, checker_cmd, rule, trusted, assumptions, extra=None):
    cov = {
        "obligations": max(1, aud["obligations"]),
        "discharged": aud["discharged"],
        "checker_cmd": checker_cmd,
        "trusted_base": trusted,
        "evaluations": rep.evaluations,
        "distinct_nontrivial": len(rep.nontrivial),
        "rule": rule,
        "samples": rep.samples[:8] if rep.samples else [{"note": "no case produced"}],
        "theorem_axioms": aud["axioms"],
        "audit_problems": aud["problems"],
        "distribution": dict(sorted(rep.dist.items())),
        "divergences_impl_vs_model": rep.divergences,
        "known_findings_hit": rep.known_hit,
        "notes": rep.notes[:20],
    }
    if rep.exhaustive is not None:
        cov["exhaustive"] = rep.exhaustive
    cov.update(rep.extra)
    if extra:
        cov.update(extra)
    ev = {
        "property_id": rep.prop,
        "tier": rep.tier,
        "seed": rep.seed,
        "level": "proof",
        "coverage": cov,
        "assumptions": assumptions,
        "wall_s": round(time.time() - rep.t0, 2),
        "violations": len(rep.violations),
    }
    os.makedirs(os.path.join(VERIF, "evidence"), exist_ok=True)
    with open(os.path.join(VERIF, "evidence", "%s.json" % rep.prop), "w") as f:
        json.dump(ev, f, indent=1, ensure_ascii=False)
        f.write("\n")
