"""One interactive cicada session in a pseudo-terminal (worker process of the C07 check).

stdin : JSON {cicada, helpers, dir, acts: "L:f:S,S;Z;…", expected: [obs…] | null, delay_seed, t_expect, t_stable, t_max}
stdout: JSON {obs: [obs…], error: null | text, aborted_at: k | null, log: [...]}

After every action the driver polls the observable state (terminal mode and prompt text on the master, `tcgetpgrp`
on the master, pid files and /proc/<pid>/stat of every helper, job lines printed since the action) until it equals
the state the Lean model predicts; if that does not happen within t_expect seconds it waits until the state has not
changed for t_stable seconds and reports that state instead (the session ends there).  Nothing ever counts as
quiet because time has passed alone; if the state keeps changing until t_max the session is a harness error.
"""
import json, os, pty, re, select, signal, struct, sys, termios, time, fcntl, shutil

PROMPT = "cic07> "
ANSI = re.compile(rb"\x1b\[[0-9;?]*[A-Za-z]|\x1b[=>]|\x01|\x02")
JOBLINE = re.compile(r"^\[(\d+)\] (\d+)  (\S.*?)   (.*)$")
LAUNCHED = re.compile(r"^\[(\d+)\] (\d+)$")
BGRESUMED = re.compile(r"^\[(\d+)\]  (.*) &$")
DIAG = re.compile(r"^cicada: (fg|bg): (.*)$")


def hx(s):
    return "-" if s == "" else s.encode("utf-8").hex()


def stage_cmd(i, kind):
    if kind == "S":
        return "sleeper p%d" % i
    if kind == "N":
        return "cic07-nosuch-%d" % i
    return "sleeper p%d %s" % (i, kind[1:])


def parse_acts(text):
    acts = []
    n = 0
    for a in text.split(";"):
        parts = a.split(":")
        if parts[0] == "L":
            kinds = parts[2].split(",")
            stages = [(n + k + 1, kd) for k, kd in enumerate(kinds)]
            n += len(kinds)
            acts.append({"op": "L", "bg": parts[1] == "b", "stages": stages})
        elif parts[0] == "P":
            # `export CICV=$(fgprobe pN)`: a one-stage pipeline run for a command substitution; the stage notes whether it owns the terminal
            acts.append({"op": "L", "bg": False, "stages": [(n + 1, "X0")], "probe": True})
            n += 1
        elif parts[0] in ("F", "B"):
            acts.append({"op": parts[0], "arg": parts[1] if len(parts) > 1 else None})
        elif parts[0] in ("K", "T", "U"):
            acts.append({"op": parts[0], "i": int(parts[1])})
        else:
            acts.append({"op": parts[0]})
    return acts


class Session:
    def __init__(self, cfg):
        self.cfg = cfg
        self.dir = cfg["dir"]
        self.side = os.path.join(self.dir, "side")
        self.home = os.path.join(self.dir, "home")
        for d in (self.side, self.home, os.path.join(self.dir, "cwd")):
            os.makedirs(d, exist_ok=True)
        self.out = b""          # everything read from the master
        self.first_of = {}      # helper number -> number of the first stage of its pipeline
        self.helpers = []       # helper numbers in creation order
        self.pids = {}          # helper number -> pid (from its pid file)
        self.log = []
        self.shell = None
        self.fd = None

    # ------------------------------------------------------------------ process control
    def start(self):
        env = {
            "HOME": self.home, "PATH": self.cfg["helpers"] + ":/usr/bin:/bin", "TERM": "xterm", "PROMPT": PROMPT,
            "HISTORY_FILE": os.path.join(self.home, "history.sqlite"), "XDG_CONFIG_HOME": os.path.join(self.home, ".config"),
            "LANG": "C.UTF-8", "USER": "verif", "SLEEPER_DIR": self.side,
        }
        pid, fd = pty.fork()
        if pid == 0:
            try:
                fcntl.ioctl(0, termios.TIOCSWINSZ, struct.pack("HHHH", 50, 250, 0, 0))
                os.chdir(os.path.join(self.dir, "cwd"))
                _child_signals()
                os.execve(self.cfg["cicada"], [self.cfg["cicada"]], env)
            finally:
                os._exit(127)
        self.shell, self.fd = pid, fd

    def pump(self, timeout):
        r, _, _ = select.select([self.fd], [], [], timeout)
        if r:
            try:
                data = os.read(self.fd, 65536)
            except OSError:
                data = b""
            self.out += data
            return len(data)
        return 0

    def cleanup(self):
        victims = set(self.pids.values())
        try:
            for name in os.listdir("/proc"):
                if name.isdigit():
                    try:
                        st = open("/proc/%s/stat" % name).read()
                        rest = st[st.rindex(")") + 2:].split()
                        if int(rest[3]) == self.shell and int(name) != self.shell:      # session id
                            victims.add(int(name))
                    except (OSError, ValueError, IndexError):
                        pass
        except OSError:
            pass
        for p in victims:
            try:
                st = open("/proc/%d/stat" % p).read()
                rest = st[st.rindex(")") + 2:].split()
                if int(rest[3]) == self.shell:
                    os.kill(p, signal.SIGKILL)
            except (OSError, ValueError, IndexError):
                pass
        if self.shell:
            try:
                os.kill(self.shell, signal.SIGKILL)
            except OSError:
                pass
        if self.fd is not None:
            try:
                os.close(self.fd)
            except OSError:
                pass
        if self.shell:
            try:
                os.waitpid(self.shell, 0)
            except OSError:
                pass

    # ------------------------------------------------------------------ observation
    def text(self, start=0):
        return ANSI.sub(b"", self.out[start:]).decode("utf-8", "replace")

    def at_prompt(self):
        try:
            lflag = termios.tcgetattr(self.fd)[3]
        except termios.error:
            return False
        if lflag & termios.ICANON:
            return False
        return self.text(max(0, len(self.out) - 400)).rstrip(" \r\n").endswith(PROMPT.strip())

    def helper_pid(self, i):
        if i in self.pids:
            return self.pids[i]
        try:
            p = int(open(os.path.join(self.side, "p%d.pid" % i)).read().strip())
        except (OSError, ValueError):
            return None
        self.pids[i] = p
        return p

    def proc_state(self, pid):
        """(r|t|z|g, pgrp): running, stopped, zombie (ended, not yet reaped by the shell), gone"""
        try:
            st = open("/proc/%d/stat" % pid).read()
        except OSError:
            return "g", 0
        try:
            comm = st[st.index("(") + 1:st.rindex(")")]
            rest = st[st.rindex(")") + 2:].split()
            state, ppid, pgrp, sid = rest[0], int(rest[1]), int(rest[2]), int(rest[3])
        except (ValueError, IndexError):
            return "g", 0
        if sid != self.shell:            # the pid was recycled by an unrelated process
            return "g", 0
        if state == "Z":
            return "z", 0
        if state in "Xx":
            return "g", 0
        if state in "Tt":
            return "t", pgrp
        return "r", pgrp

    def shell_quiet(self, mode):
        """the shell itself is idle: no child that is neither a helper with a pid file (an unfinished fork/exec, a
        `command not found` child not yet reaped), and, while a foreground job runs, it is blocked in wait4"""
        try:
            kids = open("/proc/%d/task/%d/children" % (self.shell, self.shell)).read().split()
        except OSError:
            kids = []           # no CONFIG_PROC_CHILDREN: look for the parent pid in every stat file
            for name in os.listdir("/proc"):
                if name.isdigit():
                    try:
                        st = open("/proc/%s/stat" % name).read()
                        if int(st[st.rindex(")") + 2:].split()[1]) == self.shell:
                            kids.append(name)
                    except (OSError, ValueError, IndexError):
                        pass
        known = set(self.pids.values())
        if any(int(k) not in known for k in kids):
            return False
        if mode == "W":
            try:
                st = open("/proc/%d/stat" % self.shell).read()
                state = st[st.rindex(")") + 2:].split()[0]
                nr = open("/proc/%d/syscall" % self.shell).read().split()[0]
            except (OSError, IndexError):
                return False
            return state == "S" and nr in ("61", "247", "260", "95")     # wait4 / waitid (x86_64, aarch64)
        return True

    def shell_switches(self):
        try:
            for l in open("/proc/%d/status" % self.shell):
                if l.startswith("voluntary_ctxt_switches"):
                    return int(l.split()[1])
        except (OSError, ValueError):
            pass
        return -1

    def tclass(self):
        try:
            t = os.tcgetpgrp(self.fd)
        except OSError:
            return "none"
        if t == self.shell:
            return "sh"
        for i, p in self.pids.items():
            if p == t:
                return "g%d" % i
        return "other"

    def gname(self, gid):
        for i, p in self.pids.items():
            if p == gid:
                return "g%d" % i
        return "other"

    def outs(self, start, is_jobs):
        items = set()
        lines = [l.strip(" \r") for l in self.text(start).replace("\r\n", "\n").split("\n")]
        prev = "x"
        for l in lines:
            m = LAUNCHED.match(l)
            if m:
                items.add("L%s.%s" % (m.group(1), self.gname(int(m.group(2)))))
            m = JOBLINE.match(l)
            if m:
                jid, gid, status, cmd = m.group(1), int(m.group(2)), m.group(3).strip(), m.group(4).strip()
                word = status.split(":")[0].split(" ")[0]
                if word == "Running" or (word == "Stopped" and is_jobs and prev != ""):
                    amp = cmd.endswith(" &")
                    if amp:
                        cmd = cmd[:-2]
                    items.add("J%s.%s.%s.%d.%s" % (jid, self.gname(gid), word, 1 if amp else 0, hx(cmd)))
                else:
                    items.add("R%s.%s.%s" % (jid, self.gname(gid), "Stopped" if word == "Stopped" else "Fin"))
            elif BGRESUMED.match(l):
                items.add("M." + hx("bg: resumed"))
            m = DIAG.match(l)
            if m:
                msg = m.group(2)
                if "already in background" in msg:
                    msg = "already in background"
                items.add("M." + hx("%s: %s" % (m.group(1), msg)))
            if "readline error" in l or "readline signal" in l:
                items.add("M." + hx("readline trouble"))
            prev = l
        return sorted(items)

    def observe(self, start, is_jobs):
        ps = []
        complete = True
        for i in self.helpers:
            p = self.helper_pid(i)
            if p is None:
                complete = False
                ps.append("%d?" % i)
                continue
            st, pgrp = self.proc_state(p)
            if st in "gz":
                ps.append("%d%s-" % (i, st))
            else:
                fp = self.helper_pid(self.first_of[i])
                ps.append("%d%s%d" % (i, st, 1 if (fp is not None and pgrp == fp) else 0))
        # the terminal's group is classified after the pids are known
        o = "%s;%s;%s;%s" % ("P" if self.at_prompt() else "W", self.tclass(), ",".join(ps), ",".join(self.outs(start, is_jobs)))
        if getattr(self, "cur_probe", None) is not None:
            try:
                o += ";own=" + open(os.path.join(self.side, "p%d.probe" % self.cur_probe)).read().strip()
            except OSError:
                o += ";own=??"
                complete = False
        return o, complete

    # ------------------------------------------------------------------ actions
    def send(self, a):
        op = a["op"]
        self.cur_probe = None
        if op == "L" and a.get("probe"):
            i = a["stages"][0][0]
            self.helpers.append(i)
            self.first_of[i] = i
            self.cur_probe = i
            os.write(self.fd, b"export CICV=$(fgprobe p%d)\r" % i)
            return "line"
        if op == "L":
            for i, kd in a["stages"]:
                if kd != "N":
                    self.helpers.append(i)
                    self.first_of[i] = a["stages"][0][0]
            line = " | ".join(stage_cmd(i, kd) for i, kd in a["stages"]) + (" &" if a["bg"] else "")
            os.write(self.fd, line.encode() + b"\r")
            return "line"
        if op in ("F", "B"):
            line = ("fg" if op == "F" else "bg") + ((" " + a["arg"]) if a["arg"] else "")
            os.write(self.fd, line.encode() + b"\r")
            return "line"
        if op == "J":
            os.write(self.fd, b"jobs\r")
            return "line"
        if op == "E":
            os.write(self.fd, b"\r")
            return "line"
        if op == "Z":
            os.write(self.fd, b"\x1a")
            return "key"
        if op == "C":
            os.write(self.fd, b"\x03")
            return "key"
        sig = {"K": signal.SIGKILL, "T": signal.SIGSTOP, "U": signal.SIGCONT}[op]
        p = self.helper_pid(a["i"])
        st = self.proc_state(p)[0] if p is not None else "g"
        if st in "rt":
            try:
                os.kill(p, sig)
            except OSError:
                pass
        # the shell is certain to get a status change for this child
        return "signal+" if (op == "K" and st in "rt") or (op == "T" and st == "r") or (op == "U" and st == "t") else "signal"

    def wait_for(self, expected, start, is_jobs, need_newline, switches0):
        """returns (observation, status) with status in ok | differs | unstable.
        switches0: the shell was blocked in wait4 when a signal was sent that changes a child's status; it must have
        woken up and blocked again (voluntary context switches grew) before the next action may follow"""
        cfg = self.cfg
        t0 = time.time()
        last, last_change = None, t0
        while True:
            while self.pump(0.004):
                pass
            o, complete = self.observe(start, is_jobs)
            now = time.time()
            accepted = (not need_newline) or (b"\n" in self.out[start:])
            if complete and accepted:
                accepted = self.shell_quiet(o[:1]) and (switches0 is None or o[:1] == "P" or self.shell_switches() > switches0)
            if complete and accepted and expected is not None and o == expected:
                return o, "ok"
            if o != last:
                last, last_change = o, now
            if expected is None:
                if complete and accepted and now - last_change >= cfg["t_stable"] and now - t0 >= cfg["t_stable"]:
                    return o, "ok"
            elif now - t0 >= cfg["t_expect"] and now - last_change >= cfg["t_stable"]:
                return o, "differs"
            if now - t0 >= cfg["t_max"]:
                return o, "unstable"

    def run(self):
        cfg = self.cfg
        acts = parse_acts(cfg["acts"])
        expected = cfg.get("expected")
        res = {"obs": [], "error": None, "aborted_at": None, "log": self.log}
        rnd = cfg.get("delay_seed", 1) & 0xFFFFFFFF
        self.start()
        t0 = time.time()
        while not self.at_prompt():
            self.pump(0.01)
            if time.time() - t0 > cfg["t_max"]:
                res["error"] = "no first prompt within %ss: %r" % (cfg["t_max"], self.text()[-200:])
                return res
        for k, a in enumerate(acts):
            start = len(self.out)
            was_waiting = bool(res["obs"]) and res["obs"][-1].startswith("W")
            sw0 = self.shell_switches() if was_waiting else None
            kind = self.send(a)
            exp = expected[k] if expected is not None and k < len(expected) else None
            ta = time.time()
            o, status = self.wait_for(exp, start, a["op"] == "J", kind == "line", sw0 if kind == "signal+" else None)
            res["obs"].append(o)
            if time.time() - ta > 1.5:
                res.setdefault("slow", []).append("action %d (%s) took %.1fs" % (k, a["op"], time.time() - ta))
            if status == "unstable":
                res["error"] = "action %d (%s): state still changing after %ss; last %s; tail %r" % (k, a["op"], cfg["t_max"], o, self.text(start)[-300:])
                return res
            if status == "differs":
                res["aborted_at"] = k
                self.log.append("action %d (%s): expected %s observed %s; output %r" % (k, a["op"], exp, o, self.text(start)[-400:]))
                return res
            # randomised delay before the next action (the schedule of the session, not a quiescence criterion)
            rnd = (rnd * 1103515245 + 12345) & 0x7FFFFFFF
            d = (rnd >> 8) % 4
            if d:
                time.sleep([0, 0.002, 0.01, 0.03][d])
        return res


def _child_signals():
    """forked child, just before exec: default dispositions (pty.fork does not do what subprocess's restore_signals does;
    a check started as `./check C07 &` from a shell without job control would hand on SIGINT / SIGQUIT ignored)"""
    for name in ("SIGINT", "SIGQUIT", "SIGTSTP", "SIGTTIN", "SIGTTOU", "SIGHUP", "SIGPIPE", "SIGCHLD", "SIGTERM", "SIGXFSZ"):
        try:
            signal.signal(getattr(signal, name), signal.SIG_DFL)
        except (OSError, ValueError, AttributeError):
            pass


def main():
    cfg = json.load(sys.stdin)
    cfg.setdefault("t_expect", 20.0)
    cfg.setdefault("t_stable", 1.0)
    cfg.setdefault("t_max", 60.0)
    s = Session(cfg)
    try:
        res = s.run()
    except Exception as e:      # a broken harness is an error of the harness, never a verdict
        import traceback
        res = {"obs": [], "error": "harness exception: %s" % traceback.format_exc()[-800:], "aborted_at": None, "log": s.log}
    finally:
        s.cleanup()
        shutil.rmtree(cfg["dir"], ignore_errors=True)
    json.dump(res, sys.stdout)


if __name__ == "__main__":
    main()
