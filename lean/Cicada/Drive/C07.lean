import Cicada.Codec
import Cicada.Spec.C07
/-!
Driver side of C07 (linked into `cicada_model`): wire format of sessions, the canonical text of an
observation, the replay through `Model/Term.lean` and through the reference world of `Spec/C07.lean`, the
input-level classes of the known findings, and the generator of random sessions (it has to know which
actions are enabled, so it lives next to the model).

wire: actions separated by `;` — `L:f:S,X0,X3,N` `L:b:S,S` `Z` `C` `F:2` `F` `B:1` `B` `K:5` `T:5` `U:5` `J` `E`
-/
namespace Cicada.DriveC07
open Cicada Cicada.Codec Cicada.Jobs Cicada.Term Cicada.C07

def parseKind (s : String) : Option Kind :=
  if s = "S" then some .sleep
  else if s = "N" then some .notfound
  else if s.startsWith "X" then (s.drop 1).toString.toInt?.map Kind.exit
  else none

def parseAct (s : String) : Option SAct :=
  match s.splitOn ":" with
  | ["L", m, ks] => some (.launch (m = "b") ((ks.splitOn ",").filterMap parseKind))
  | ["Z"] => some .ctrlZ
  | ["C"] => some .ctrlC
  | ["F"] => some (.fg none)
  | ["F", n] => some (.fg n.toNat?)
  | ["B"] => some (.bg none)
  | ["B", n] => some (.bg n.toNat?)
  | ["K", i] => i.toNat?.map SAct.kill
  | ["T", i] => i.toNat?.map SAct.stop
  | ["U", i] => i.toNat?.map SAct.cont
  | ["J"] => some .jobs
  | ["E"] => some .empty
  -- `export V=$(fgprobe pN)`: a one-stage pipeline run for a command substitution.  `run_pipeline` is the same code as for a typed
  -- foreground pipeline (under capture no job is inserted, which for a foreground stage that ends by itself is never printed);
  -- the stage records, while it runs, whether its group owns the terminal (`probeOwns` below)
  | ["P"] => some (.launch false [.exit 0])
  | _ => none

def parseActs (s : String) : List SAct := (s.splitOn ";").filterMap parseAct

def kindOut : Kind → String
  | .sleep => "S"
  | .exit c => s!"X{c}"
  | .notfound => "N"

def actOut : SAct → String
  | .launch bg ks => s!"L:{if bg then "b" else "f"}:{",".intercalate (ks.map kindOut)}"
  | .ctrlZ => "Z"
  | .ctrlC => "C"
  | .fg none => "F"
  | .fg (some n) => s!"F:{n}"
  | .bg none => "B"
  | .bg (some n) => s!"B:{n}"
  | .kill i => s!"K:{i}"
  | .stop i => s!"T:{i}"
  | .cont i => s!"U:{i}"
  | .jobs => "J"
  | .empty => "E"

/-- per launched pipeline: (number of its first stage, kinds) -/
def pipelines (acts : List SAct) : List (Nat × List Kind) :=
  (acts.foldl (fun (acc : Nat × List (Nat × List Kind)) a => match a with
    | .launch _ ks => (acc.1 + ks.length, acc.2 ++ [(acc.1 + 1, ks)])
    | _ => acc) (0, [])).2

/-- creation numbers of the children that are helpers (they leave a pid file; `command not found` does not) -/
def helpers (acts : List SAct) : List Nat :=
  (pipelines acts).flatMap fun (n0, ks) => ((List.range ks.length).zip ks).filterMap fun (k, kd) => if kd = .notfound then none else some (n0 + k)

/-- command text of every pipeline, from the inputs alone -/
def cmdTable (acts : List SAct) : List (Nat × String) :=
  (pipelines acts).map fun (n0, ks) => (n0, " | ".intercalate (((List.range ks.length).zip ks).map fun (k, kd) => stageCmd (n0 + k) kd))

def sortDedup (l : List String) : List String :=
  let a := l.toArray.qsort (· < ·)
  a.toList.foldl (fun acc x => if acc.getLast? = some x then acc else acc ++ [x]) []

def outText (cmdOf : Pid → String) : Out → String
  | .launched id g => s!"L{id}.g{g - pidBase}"
  | .report id g w => s!"R{id}.g{g - pidBase}.{if w = "Stopped" then "Stopped" else "Fin"}"
  | .row id g st amp => s!"J{id}.g{g - pidBase}.{st}.{if amp then 1 else 0}.{hex (cmdOf (g - pidBase)).toList}"
  | .msg m => "M." ++ hex m.toList

def obsText (hs : List Nat) (cmdOf : Pid → String) (o : Obs) : String :=
  let t := if o.tfg = shellPid then "sh" else s!"g{o.tfg - pidBase}"
  let ps := (o.procs.filter fun p => hs.contains (p.1 - pidBase)).map fun (pid, st, grp) =>
    match st with
    | .running => s!"{pid - pidBase}r{if grp then 1 else 0}"
    | .stopped => s!"{pid - pidBase}t{if grp then 1 else 0}"
    | .zombie => s!"{pid - pidBase}z-"
    | .reaped => s!"{pid - pidBase}g-"
  s!"{if o.atPrompt then "P" else "W"};{t};{",".intercalate ps};{",".intercalate (sortDedup (o.outs.map (outText cmdOf)))}"

/-- the part of an observation the reference world speaks about: no `Stopped` announcements, no diagnostics -/
def specOuts (outs : List Out) : List Out := outs.filter fun o => match o with
  | .report _ _ w => w ≠ "Stopped"
  | .msg _ => false
  | _ => true

/-! ### replay through the model, all delivery orders of a terminal signal -/

def perms {α} : List α → List (List α)
  | [] => [[]]
  | x :: xs => (perms xs).flatMap fun p => (List.range (p.length + 1)).map fun i => p.take i ++ [x] ++ p.drop i

def natSort (l : List Nat) : List Nat := (l.toArray.qsort (· < ·)).toList

/-- a state up to the order of sets and of printed lines -/
def stateKey (s : State) : String :=
  let jobs := s.sh.jobs.map fun j => s!"{j.id}/{j.gid}/{j.pids}/{natSort j.stoppedSet}/{j.status}/{j.isBg}"
  let procs := s.procs.map fun p => s!"{p.pid}/{p.pgid}/{repr p.st}/{repr p.note}/{p.pendInt}"
  s!"{jobs}#{natSort (s.sh.reap.map (·.1))}#{natSort (s.sh.kill.map (·.1))}#{natSort s.sh.stop}#{natSort s.sh.cont}#{procs}#{repr s.mode}#{s.tfg}#{sortDedup (s.out.map (outText fun _ => ""))}"

inductive MacroRes
  | ok (s : State)
  | stuck
  | orderSensitive

/-- a session action through the model; for Ctrl-Z / Ctrl-C every order in which the members' status changes
can reach the waiting shell is tried, and the action counts as modelled only if they all end in the same state -/
def macroAll (c : Cfg) (s : State) (a : SAct) : MacroRes :=
  let sensitive := (a = .ctrlZ || a = .ctrlC) && (match s.mode with | .waiting _ => true | _ => false)
  if !sensitive then
    match runMacro c stageCmd [] s a with
    | some s' => .ok s'
    | none => .stuck
  else
    let sg : Sig := if a = .ctrlZ then .tstp else .int
    let after := sigGroup s.procs s.tfg sg
    let affected := ((s.procs.zip after).filter fun (p, q) => p.note ≠ q.note).map (·.1.pid)
    let rs := (perms affected).map fun pref => runMacro c stageCmd pref s a
    match rs with
    | some s1 :: rest => if rest.all (fun r => match r with | some s2 => stateKey s2 = stateKey s1 | none => false) then .ok s1 else .orderSensitive
    | _ => .stuck

structure Replay where
  st : State := init shellPid
  obs : List String := []
  bad : Option String := none

/-- which actions of the wire text are probes (`P`), position by position -/
def probeFlags (s : String) : List Bool := (s.splitOn ";").filterMap fun a => (parseAct a).map fun _ => a = "P"

/-- the model's answer to the probe: the state in which the probing stage runs -- every step of the launch taken, the stage's own
exit not yet -- has the stage's group as the terminal's foreground group, and the stage leads that group -/
def probeOwns (c : Cfg) (s : State) : Bool × Bool :=
  let n0 := s.procs.length
  let pid := pidBase + n0 + 1
  let acts := (launchActs c stageCmd n0 false [.exit 0]).takeWhile fun a => !(a == Act.exit pid 0 || a == Act.launched)
  match run c s acts with
  | some s' => (s'.tfg == pid, s'.procs.any fun p => p.pid == pid && p.pgid == pid)
  | none => (false, false)

def probeText (b : Bool × Bool) : String := s!";own={if b.1 then 1 else 0}{if b.2 then 1 else 0}"

def replayModel (c : Cfg) (acts : List SAct) (probes : List Bool := []) : Replay :=
  let hs := helpers acts
  acts.foldl (fun (r : Replay) a =>
    if r.bad.isSome then r else
    match macroAll c r.st a with
    | .ok s' =>
      let cmdOf := fun g => ((s'.cmds.find? (·.1 = pidBase + g)).map (·.2)).getD "?"
      let pr := if probes.getD r.obs.length false then probeText (probeOwns c r.st) else ""
      { st := s', obs := r.obs ++ [obsText hs cmdOf (observe r.st s') ++ pr] }
    | .stuck => { r with bad := some s!"stuck at action {r.obs.length}" }
    | .orderSensitive => { r with bad := some s!"order-sensitive at action {r.obs.length}" }) {}

def replaySpec (acts : List SAct) (probes : List Bool := []) : List String :=
  let hs := helpers acts
  let tbl := cmdTable acts
  let cmdOf := fun g => ((tbl.find? (·.1 = g)).map (·.2)).getD "?"
  (acts.foldl (fun (acc : World × List String) a =>
    let (w', outs) := specStep acc.1 a
    -- the statement: while it runs, the foreground pipeline's group -- led by its first stage -- owns the terminal
    let pr := if probes.getD acc.2.length false then probeText (true, true) else ""
    (w', acc.2 ++ [obsText hs cmdOf (specObs w' outs) ++ pr])) ({}, [])).2

/-! ### random sessions -/

structure Rng where
  s : UInt64

def Rng.next (r : Rng) : Rng × UInt64 :=
  let s := r.s + 0x9E3779B97F4A7C15
  let z := (s ^^^ (s >>> 30)) * 0xBF58476D1CE4E5B9
  let z := (z ^^^ (z >>> 27)) * 0x94D049BB133111EB
  ({ s := s }, z ^^^ (z >>> 31))

def Rng.below (r : Rng) (n : Nat) : Rng × Nat :=
  let (r', z) := r.next
  (r', if n = 0 then 0 else z.toNat % n)

def pickFrom {α} [Inhabited α] (r : Rng) (l : List α) : Rng × α :=
  let (r', i) := r.below l.length
  (r', l.getD i default)

def weighted (r : Rng) (l : List (Nat × String)) : Rng × String :=
  let total := (l.map (·.1)).foldl (· + ·) 0
  let (r', x) := r.below total
  let rec go : List (Nat × String) → Nat → String
    | [], _ => "E"
    | (w, t) :: rest, x => if x < w then t else go rest (x - w)
  (r', go l x)

def genKinds (r : Rng) (bg : Bool) : Rng × List Kind :=
  let (r, n) := r.below 3
  let n := n + 1
  (List.range n).foldl (fun (acc : Rng × List Kind) k =>
    let (r, x) := acc.1.below 20
    let kd : Kind :=
      if bg || x < 12 then .sleep
      else if x < 15 then .exit 0
      else if x < 17 then .exit 1
      else if x < 18 then .exit 3
      else if k > 0 || n = 1 then .notfound else .sleep
    (r, acc.2 ++ [kd])) (r, [])

/-- one random action enabled in model state `s` (`hs` = the helpers so far) -/
def genAct (r : Rng) (s : State) (hs : List Nat) : Rng × SAct :=
  let aliveH := (s.procs.filter fun p => p.alive && hs.contains (p.pid - pidBase)).map (·.pid - pidBase)
  let runH := (s.procs.filter fun p => p.st = .running && hs.contains (p.pid - pidBase)).map (·.pid - pidBase)
  let stopH := (s.procs.filter fun p => p.st = .stopped && hs.contains (p.pid - pidBase)).map (·.pid - pidBase)
  let ids := s.sh.jobs.map (·.id)
  let w1 := fun (c : Bool) (w : Nat) => if c then w else 0
  match s.mode with
  | .waiting w =>
    let (r, cat) := weighted r [(4, "Z"), (3, "C"), (w1 (!aliveH.isEmpty) 3, "K"), (w1 (!runH.isEmpty) 2, "T"), (w1 (!stopH.isEmpty) 2, "U")]
    let mine := aliveH.filter fun p => w.pids.contains (pidBase + p)
    if cat = "Z" then (r, .ctrlZ) else if cat = "C" then (r, .ctrlC)
    else if cat = "K" then
      let (r, x) := r.below 3
      let (r, i) := pickFrom r (if x < 2 && !mine.isEmpty then mine else aliveH)
      (r, .kill i)
    else if cat = "T" then let (r, i) := pickFrom r runH; (r, .stop i)
    else let (r, i) := pickFrom r stopH; (r, .cont i)
  | _ =>
    let room := ids.length < 3
    let (r, cat) := weighted r [(w1 room 5, "Lf"), (w1 room 4, "Lb"), (if ids.isEmpty then 1 else 4, "F"), (if ids.isEmpty then 1 else 3, "B"),
      (4, "J"), (2, "E"), (w1 (!aliveH.isEmpty) 2, "K"), (w1 (!runH.isEmpty) 2, "T"), (w1 (!stopH.isEmpty) 2, "U"), (1, "C"), (1, "Z")]
    if cat = "Lf" then let (r, ks) := genKinds r false; (r, .launch false ks)
    else if cat = "Lb" then let (r, ks) := genKinds r true; (r, .launch true ks)
    else if cat = "F" || cat = "B" then
      let (r, x) := r.below 12
      let (r, id) := pickFrom r (if ids.isEmpty then [1] else ids)
      let arg : Option Nat := if x = 0 then some 7 else if ids.length = 1 && x < 6 then none else some id
      (r, if cat = "F" then .fg arg else .bg arg)
    else if cat = "J" then (r, .jobs)
    else if cat = "K" then let (r, i) := pickFrom r aliveH; (r, .kill i)
    else if cat = "T" then let (r, i) := pickFrom r runH; (r, .stop i)
    else if cat = "U" then let (r, i) := pickFrom r stopH; (r, .cont i)
    else if cat = "C" then (r, .ctrlC)
    else if cat = "Z" then (r, .ctrlZ)
    else (r, .empty)

/-- a random session of `n` actions; an action the model cannot answer deterministically is drawn again -/
def genSession (seed : UInt64) (n : Nat) : List SAct :=
  let c : Cfg := {}
  ((List.range n).foldl (fun (acc : Rng × State × List SAct) _ =>
    let (r, s, acts) := acc
    let rec try_ : Nat → Rng → Rng × State × List SAct
      | 0, r => (r, s, acts)
      | f + 1, r =>
        let (r, a) := genAct r s (helpers acts)
        match macroAll c s a with
        | .ok s' => (r, s', acts ++ [a])
        | _ => try_ f r
    try_ 6 r) ({ s := seed }, init shellPid, [])).2.2

end Cicada.DriveC07
