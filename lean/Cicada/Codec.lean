import Cicada.Basic
/-! Wire format of the correspondence protocol (hex-encoded UTF-8, `-` = empty string). -/
namespace Cicada.Codec

def hexDigit (n : Nat) : Char := if n < 10 then Char.ofNat (48 + n) else Char.ofNat (87 + n)

def hexOfBytes (b : ByteArray) : String :=
  String.ofList (b.toList.flatMap (fun x => [hexDigit (x.toNat / 16), hexDigit (x.toNat % 16)]))

def hex (s : Str) : String :=
  if s.isEmpty then "-" else hexOfBytes (String.ofList s).toUTF8

def hexVal (c : Char) : Nat :=
  if '0' ≤ c ∧ c ≤ '9' then c.toNat - 48 else if 'a' ≤ c ∧ c ≤ 'f' then c.toNat - 87 else 0

def bytesOfHex : List Char → List UInt8
  | a :: b :: rest => UInt8.ofNat (hexVal a * 16 + hexVal b) :: bytesOfHex rest
  | _ => []

def unhex (s : String) : Str :=
  if s = "-" then [] else
  match String.fromUTF8? (ByteArray.mk (bytesOfHex s.toList).toArray) with
  | some t => t.toList
  | none => []

def hexList (l : List Str) : String :=
  if l.isEmpty then "[]" else ",".intercalate (l.map hex)

def toksOut (l : List Tok) : String :=
  if l.isEmpty then "[]" else ",".intercalate (l.map (fun (a, b) => hex a ++ ":" ++ hex b))

def toksIn (s : String) : List Tok :=
  if s = "[]" then [] else
  (s.splitOn ",").map (fun p => match p.splitOn ":" with
    | [a, b] => (unhex a, unhex b)
    | _ => ([], []))

end Cicada.Codec
