/-!
# Basic text vocabulary shared by all models

Text is `List Char` everywhere (Rust `char` = Lean `Char` = Unicode scalar value).
No imports beyond core: everything here must link into the `cicada_model` executable.
-/
namespace Cicada

abbrev Str := List Char

/-- `(sep, text)` — `types::Token` -/
abbrev Tok := Str × Str

/-- Rust `char::is_whitespace` (Unicode `White_Space`). Used by `str::trim`. -/
def isWs (c : Char) : Bool :=
  let n := c.toNat
  (9 ≤ n && n ≤ 13) || n = 32 || n = 0x85 || n = 0xA0 || n = 0x1680 ||
  (0x2000 ≤ n && n ≤ 0x200A) || n = 0x2028 || n = 0x2029 || n = 0x202F || n = 0x205F || n = 0x3000

def trimL : Str → Str
  | [] => []
  | c :: cs => if isWs c then trimL cs else c :: cs

def trimR (l : Str) : Str := (trimL l.reverse).reverse

/-- Rust `str::trim` -/
def trim (l : Str) : Str := trimR (trimL l)

/-- ASCII `[0-9]` -/
def isDigitA (c : Char) : Bool := '0' ≤ c && c ≤ '9'
/-- ASCII `[a-zA-Z]` -/
def isAlphaA (c : Char) : Bool := ('a' ≤ c && c ≤ 'z') || ('A' ≤ c && c ≤ 'Z')
/-- `[a-zA-Z0-9_]` -/
def isNameChar (c : Char) : Bool := isAlphaA c || isDigitA c || c = '_'
/-- `[a-zA-Z_]` -/
def isNameStart (c : Char) : Bool := isAlphaA c || c = '_'

def startsWith : Str → Str → Bool
  | _, [] => true
  | [], _ :: _ => false
  | c :: cs, p :: ps => c = p && startsWith cs ps

/-- does `pat` occur in `s` as a contiguous substring -/
def containsSub : Str → Str → Bool
  | [], pat => pat.isEmpty
  | c :: cs, pat => startsWith (c :: cs) pat || containsSub cs pat

def joinWith (sep : Str) : List Str → Str
  | [] => []
  | [x] => x
  | x :: y :: rest => x ++ sep ++ joinWith sep (y :: rest)

/-- split on a single char, Rust `str::split(char)` semantics (always ≥ 1 piece) -/
def splitOnChar (d : Char) : Str → List Str
  | [] => [[]]
  | c :: cs =>
    match splitOnChar d cs with
    | [] => [[]]   -- unreachable
    | p :: ps => if c = d then [] :: p :: ps else (c :: p) :: ps

/-- decimal rendering of an integer (Rust `format!("{}", n)`) -/
def showInt (z : Int) : Str := (toString z).toList
def showNat (n : Nat) : Str := (toString n).toList

/-- explicit outcome of a modelled Rust computation -/
inductive Outcome (α : Type) where
  | ok (a : α)
  | err (kind : String)
  | panic (site : String)
  | diverge (site : String)
  deriving Repr, DecidableEq

namespace Outcome
def bind {α β} (o : Outcome α) (f : α → Outcome β) : Outcome β :=
  match o with
  | ok a => f a
  | err k => err k
  | panic s => panic s
  | diverge s => diverge s
def map {α β} (f : α → β) (o : Outcome α) : Outcome β := o.bind (fun a => ok (f a))
def isPanic {α} : Outcome α → Bool
  | panic _ => true
  | _ => false
def isDiverge {α} : Outcome α → Bool
  | diverge _ => true
  | _ => false
end Outcome

end Cicada
