import Cicada.Lemmas.TermWait
/-!
# C07 — the terminal belongs to the foreground job while it runs, else to the shell

Model: `Model/Term.lean`, a step system in which the parent's steps of `run_pipeline` (fork, its `setpgid`,
`give_terminal_to`, `insert_job`), each child's own `setpgid`, the kernel's events (exit, a signal to one process,
Ctrl-C / Ctrl-Z to the terminal's foreground group), `wait_fg_job` taking one status change at a time, the
hand-back of the terminal and the prompt-time poll are separate actions; `Reachable` therefore quantifies over
every interleaving of them.  Reference: `Spec/C07.lean` (clauses over states; a world of pipelines for sessions).

Proved for every reachable state (every interleaving):
* `C07_prompt_owns`  — at the prompt the terminal's foreground group is the shell's;
* `C07_owner`        — at any time it is the shell's or that of the job the shell's control is running in the foreground;
* `C07_fg_owns`      — while the shell waits for a foreground job (launched or resumed by `fg`) that job's group owns the terminal;
* `C07_bg_never_owns`— no other job of the table ever does;
* `C07_one_group`    — every stage of every pipeline is in the group led by its first stage from the parent's `setpgid` on
                       (this is what `fix:` 59a1f03 established; `C07_before_fix_race` is the interleaving that broke it);
* `C07_report_once`  — no job incarnation is announced as finished twice, and an announced one is absent from the table;
* `C07_wait_complete_partial` — when the wait for a single process ends, that process is stopped or gone (guard: one process);
* `C07_signal_whole`, `C07_ctrlZ_stops_pipeline` — a signal to the job's group (Ctrl-Z, Ctrl-C, the SIGCONT of `fg` / `bg`)
  reaches every member of the pipeline.
Findings (model = implementation ≠ reference; classes in known_findings.json): the foreground wait counts one member
twice and returns while another still runs (`C07_finding_wait_counts_twice`, also at the state level
`C07_wait_returns_early`), the Running / Stopped column of `jobs` is not re-evaluated
(`C07_finding_status_not_reevaluated`), a stop and a continue parked together are applied in the wrong order
(`C07_finding_parked_pair`), a continue of a foreground member is dropped (`C07_finding_fg_continue_dropped`).
-/
namespace Cicada.C07
open Cicada.Jobs Cicada.Term

/-- the setting of the property: an interactive session, the code as it is since `fix:` 59a1f03 -/
def cfg : Cfg := { parentSetpgid := true, interactive := true }

/-- the code before that commit: only the children call `setpgid` -/
def cfgBefore : Cfg := { parentSetpgid := false, interactive := true }

/-- the clauses about a single state -/
def StateClauses (s : State) : Prop := PromptOwns s ∧ FgOwns s ∧ BgNeverOwns s ∧ OneGroup s ∧ ReportedOnce s ∧ WaitComplete s

/-- **the property at full strength**: the clauses in every reachable state of an interactive session, for every
interleaving of the shell's steps, the children's steps and the kernel's events; and every session of the property's
alphabet shows what the reference world prescribes (prompt, owner of the terminal, state and group of every
process, the lines of `jobs`, each finished background job announced exactly once) -/
def C07_full : Prop :=
  (∀ s, Reachable cfg s → StateClauses s) ∧ (∀ acts, SessionHolds cfg acts = true)

theorem C07_prompt_owns {c : Cfg} {s : State} (h : Reachable c s) : PromptOwns s := by
  intro hm
  have := (ctlInv_reachable h).1
  simpa [fgGid, hm] using this

theorem C07_owner {c : Cfg} {s : State} (h : Reachable c s) : s.tfg = s.shell ∨ fgGid s.mode = some s.tfg := by
  have := (ctlInv_reachable h).1
  cases hf : fgGid s.mode with
  | none => left; simpa [hf] using this
  | some g => right; simp [hf] at this; rw [this]

theorem C07_fg_owns {s : State} (h : Reachable cfg s) : FgOwns s := by
  intro w hm
  have hc := (ctlInv_reachable h).1
  have hp := procInv_reachable (c := cfg) rfl h
  rw [hm] at hc
  cases ho : w.origin with
  | fgBuiltin => simpa [fgGid, ho] using hc
  | launch tg =>
    have : tg = true := hp.waitGiven w tg hm ho rfl
    subst this
    simpa [fgGid, ho] using hc

theorem C07_bg_never_owns {c : Cfg} {s : State} (h : Reachable c s) : BgNeverOwns s := by
  intro j hj hne
  have hc := (ctlInv_reachable h).1
  have hg := (gidInv_reachable h).1 j hj
  cases hf : fgGid s.mode with
  | none => rw [hf] at hc; simp at hc; rw [hc]; exact fun e => hg e.symm
  | some g =>
    rw [hf] at hc hne
    simp at hc
    rw [hc]
    intro e; exact hne (by rw [e])

theorem C07_one_group {s : State} (h : Reachable cfg s) : OneGroup s := by
  intro p hp hw
  rcases (procInv_reachable (c := cfg) rfl h).grouped p hp with hg | ⟨l, hl, hph⟩
  · exact hg
  · simp [inSetpgidWindow, hl, hph] at hw

/-- a finished job is announced at most once (per incarnation: id and group id) and is gone from the table from
then on; together with the fresh group id of every launch it can never be announced again -/
theorem C07_report_once {c : Cfg} {s : State} (h : Reachable c s) : ReportedOnce s :=
  ⟨(repInv_reachable h).ok.once, (repInv_reachable h).ok.absent⟩

/-- what is proved of the state clauses: all but `WaitComplete` -/
theorem C07_partial {s : State} (h : Reachable cfg s) : PromptOwns s ∧ FgOwns s ∧ BgNeverOwns s ∧ OneGroup s ∧ ReportedOnce s :=
  ⟨C07_prompt_owns h, C07_fg_owns h, C07_bg_never_owns h, C07_one_group h, C07_report_once h⟩

/-- outside a launch, a signal sent to a job's process group reaches every process of that pipeline -/
theorem C07_signal_whole {s : State} (h : Reachable cfg s) (hm : ∀ l, s.mode ≠ .launching l) (g : Pid) (sg : Sig) :
    ∀ p ∈ s.procs, p.first = g → sigProc p sg ∈ sigGroup s.procs g sg := by
  intro p hp hf
  have hg : p.pgid = p.first := by
    apply C07_one_group h p hp
    unfold inSetpgidWindow
    split
    · rename_i l hl; exact absurd hl (hm l)
    · rfl
  rw [sigGroup_eq, List.mem_map]
  exact ⟨p, hp, by simp [hg, hf]⟩

/-- Ctrl-Z while the shell waits for a job stops every running process of that pipeline -/
theorem C07_ctrlZ_stops_pipeline {s s' : State} (h : Reachable cfg s) (w : Wait) (hm : s.mode = .waiting w)
    (hs : Term.step cfg s .ctrlZ = some s') : ∀ p ∈ s.procs, p.first = w.gid → p.st = .running → ∃ p' ∈ s'.procs, p'.pid = p.pid ∧ p'.st = .stopped := by
  intro p hp hf hr
  have ht : s.tfg = w.gid := C07_fg_owns h w hm
  simp only [Term.step, Option.some.injEq] at hs
  subst hs
  refine ⟨sigProc p .tstp, ?_, ?_, ?_⟩
  · rw [ht]; exact C07_signal_whole h (by intro l hl; rw [hm] at hl; simp at hl) w.gid .tstp p hp hf
  · simp [sigProc, hr]
  · simp [sigProc, hr]

/-- **the wait clause on its guard domain** (`w.pids.length = 1`: the shell waits for a single process — every
one-stage foreground command, every `fg` of a one-process job): when `wait_fg_job` stops waiting, that process is
stopped or gone.  For longer pipelines the clause fails: `C07_wait_returns_early`. -/
theorem C07_wait_complete_partial {s s' : State} (h : Reachable cfg s) (w : Wait) (hm : s.mode = .waiting w)
    (hguard : w.pids.length = 1) (pid : Pid) (hs : Term.step cfg s (.waitGet pid) = some s')
    (hret : ∀ w', s'.mode ≠ .waiting w') : ∀ q ∈ s'.procs, q.pid ∈ w.pids → q.st ≠ .running := by
  have hw := waitInv_reachable h
  have hu := (procInv_reachable (c := cfg) rfl h).uniq
  have h0 : w.waited = 0 := by have := hw.counter w hm; omega
  simp only [Term.step, hm] at hs
  unfold stepWaitGet at hs
  split at hs
  · simp at hs
  · rename_i p hfp
    obtain ⟨hpm, hpp⟩ := mem_of_findProc hfp
    split at hs
    · simp at hs
    · rename_i e he
      obtain ⟨hepid, hest⟩ := hw.notes p hpm e he
      simp only [Option.some.injEq] at hs
      subst hs
      -- the wait is over: the loop did not go round and the counter reached 1
      have hleft : ((waitEv s.sh w e).2.2.2 = false ∧ (waitEv s.sh w e).2.2.1 ≥ w.pids.length) := by
        by_cases hc : (!(waitEv s.sh w e).2.2.2 && decide ((waitEv s.sh w e).2.2.1 ≥ w.pids.length)) = true
        · simpa using hc
        · exfalso
          refine hret { w with waited := (waitEv s.sh w e).2.2.1 } ?_
          simp only
          rw [if_neg hc]
      -- so the notification was a stop or an end of a process the shell waits for
      have hfg : w.pids.contains e.pid = true ∧ ∀ x, e ≠ .continued x := by
        obtain ⟨h1, h2⟩ := hleft
        rw [hguard] at h2
        cases e with
        | continued x => simp [waitEv] at h1
        | exited x c =>
          refine ⟨?_, by intro y hy; cases hy⟩
          by_cases hc : w.pids.contains (Ev.exited x c).pid = true
          · exact hc
          · simp only [waitEv, hc] at h2; simp [h0] at h2
        | killed x c =>
          refine ⟨?_, by intro y hy; cases hy⟩
          by_cases hc : w.pids.contains (Ev.killed x c).pid = true
          · exact hc
          · simp only [waitEv, hc] at h2; simp [h0] at h2
        | stopped x c =>
          refine ⟨?_, by intro y hy; cases hy⟩
          by_cases hc : w.pids.contains (Ev.stopped x c).pid = true
          · exact hc
          · simp only [waitEv, hc] at h2; simp [h0] at h2
      intro q hq hqw
      simp only at hq
      rw [updProc_eq, List.mem_map] at hq
      obtain ⟨q0, hq0, rfl⟩ := hq
      -- the one process waited for is the one whose notification was taken
      have hone : ∀ a ∈ w.pids, ∀ b ∈ w.pids, a = b := by
        intro a ha b hb
        match hwp : w.pids, hguard with
        | [x], _ => rw [hwp] at ha hb; simp at ha hb; rw [ha, hb]
      have hepid' : e.pid = pid := by rw [hepid, hpp]
      have hpidw : pid ∈ w.pids := by
        have := hfg.1; rw [hepid'] at this; simpa using this
      by_cases hqp : q0.pid = pid
      · have : q0 = p := hu q0 hq0 p hpm (by rw [hqp, hpp])
        subst this
        simp only [hqp, ↓reduceIte, consume]
        cases e with
        | continued x => exact absurd rfl (hfg.2 x)
        | exited x c => simp only at hest; simp [hest]
        | killed x c => simp only at hest; simp [hest]
        | stopped x c => simp only at hest; simp [hest]
      · exfalso
        simp only [hqp, ↓reduceIte] at hqw
        exact hqp (hone _ hqw _ hpidw)

/-! ### the interleaving the repaired code excludes -/

theorem reachable_run {c : Cfg} {s : State} (h : Reachable c s) : ∀ {acts : List Act} {s' : State}, run c s acts = some s' → Reachable c s' := by
  intro acts
  induction acts generalizing s with
  | nil => intro s' hs; simp only [run, Option.some.injEq] at hs; subst hs; exact h
  | cons a rest ih =>
    intro s' hs
    simp only [run] at hs
    split at hs
    · rename_i s1 h1; exact ih (Reachable.step a h h1) hs
    · simp at hs

/-- two stages; the second child reaches its `setpgid(0, 11)` before the first has made itself leader of group 11 -/
def raceActs : List Act :=
  [.launch false ["a", "b"], .fork 11, .give, .insert, .fork 12, .insert, .csetpgid 12, .csetpgid 11, .launched, .ctrlZ]

def raceState : State := (run cfgBefore (init 9) raceActs).get (by decide)

/-- before `fix:` 59a1f03: a reachable state in which the second stage sits in the shell's own process group; the
Ctrl-Z that stops the first stage leaves it running, and the shell goes on waiting -/
theorem C07_before_fix_race : Reachable cfgBefore raceState ∧ ¬ OneGroup raceState ∧
    (∃ p ∈ raceState.procs, p.pid = 12 ∧ p.st = .running ∧ p.pgid = 9) ∧ (∃ p ∈ raceState.procs, p.pid = 11 ∧ p.st = .stopped) := by
  refine ⟨reachable_run (acts := raceActs) (Reachable.init 9 (by decide)) (by simp [raceState]), by decide, by decide, by decide⟩

/-! ### findings -/

/-- a foreground pipeline of two; the first member is stopped from outside, then killed: counted twice -/
def earlyActs : List Act :=
  [.launch false ["a", "b"], .fork 11, .psetpgid, .give, .insert, .fork 12, .psetpgid, .insert, .launched,
   .signal 11 .stop, .waitGet 11, .signal 11 .kill, .waitGet 11]

def earlyState : State := (run cfg (init 9) earlyActs).get (by decide)

/-- KF-C07-wait-counts-member-twice at the state level: `wait_fg_job` has returned, the second member still runs -/
theorem C07_wait_returns_early : Reachable cfg earlyState ∧ ¬ WaitComplete earlyState := by
  refine ⟨reachable_run (acts := earlyActs) (Reachable.init 9 (by decide)) (by simp [earlyState]), by decide⟩

def wCountedTwice : List SAct := [.launch false [.sleep, .sleep], .stop 1, .kill 1]
/-- KF-C07-wait-counts-member-twice: the prompt returns while the second stage still runs in the foreground group -/
theorem C07_finding_wait_counts_twice :
    SessionHolds cfg wCountedTwice = false ∧ classOf (flagsOf wCountedTwice) = "wait-counts-member-twice" := by decide

def wStatus : List SAct := [.launch false [.sleep, .sleep], .stop 1, .kill 2, .jobs]
/-- KF-C07-status-not-reevaluated: the only live process is stopped, `jobs` says Running -/
theorem C07_finding_status_not_reevaluated :
    SessionHolds cfg wStatus = false ∧ classOf (flagsOf wStatus) = "member-signalled-alone" := by decide

def wParked : List SAct := [.launch true [.sleep], .launch false [.sleep], .stop 1, .cont 1, .ctrlC, .stop 1, .jobs, .jobs]
/-- KF-C07-parked-pair: stop and continue parked during a foreground wait are applied stop first, the continue at the
next poll: after a later real stop the job is shown Running while its process is stopped -/
theorem C07_finding_parked_pair :
    SessionHolds cfg wParked = false ∧ classOf (flagsOf wParked) = "stop-cont-parked-together" := by decide

def wFgCont : List SAct := [.launch false [.sleep, .sleep], .stop 1, .cont 1, .stop 2]
/-- KF-C07-fg-continue-dropped: the first member runs again, the table still has it as stopped: stopping the second
member ends the wait and the job is filed as Stopped -/
theorem C07_finding_fg_continue_dropped :
    SessionHolds cfg wFgCont = false ∧ classOf (flagsOf wFgCont) = "foreground-member-continued" := by decide

theorem C07_full_false : ¬ C07_full := by
  intro h
  have := h.2 wCountedTwice
  rw [C07_finding_wait_counts_twice.1] at this
  exact absurd this (by decide)

/-- non-vacuity: a session inside the guard with a foreground pipeline of three, Ctrl-Z, `bg`, `fg`, Ctrl-C, failing and
missing commands and a background job killed from outside, on which the model shows what the reference world prescribes -/
example : guard [.launch false [.sleep, .exit 1, .sleep], .ctrlZ, .jobs, .bg none, .fg (some 1), .ctrlC, .launch false [.notfound],
      .launch true [.sleep, .sleep], .kill 5, .kill 6, .empty, .jobs] = true ∧
    SessionHolds cfg [.launch false [.sleep, .exit 1, .sleep], .ctrlZ, .jobs, .bg none, .fg (some 1), .ctrlC, .launch false [.notfound],
      .launch true [.sleep, .sleep], .kill 5, .kill 6, .empty, .jobs] = true := by decide

end Cicada.C07
