import Cicada.Lemmas.Kernel
import Cicada.Lemmas.KernelChild
/-!
# C08 — running commands never leaks file descriptors, in the shell or into children

Model: `Model/Kernel.lean` (descriptor tables, lowest-free allocation, close-on-exec), `Model/Pipeline.lean`
(`run_pipeline` / `run_single_program` as the exact sequence of descriptor operations of parent and children).

The full statement has two halves:
* the shell: running any pipeline leaves the shell's table exactly as it was — `C08_shell_restored`, proved for EVERY
  non-empty list of commands (any number of stages, any redirections, here-strings, builtin or external, found or not),
  with or without capture, foreground or background, EVERY descriptor limit and EVERY starting table; this covers all
  failure paths (a pipe between stages, a capture pipe or a here-string pipe that cannot be created);
* the children: every stage that reaches `execve` holds, from descriptor 3 on, nothing but what the shell's own table
  passes on at exec — no end of any pipe of the pipeline, no capture pipe, no here-string pipe, no redirection target
  (`C08_child_clean`, for every position, every list of redirections, `<`, `<<<`, capture on or off, every limit);
  with a shell table whose extra descriptors are close-on-exec that is exactly {0, 1, 2} (`C08_child_012`).
Over command sequences the statement follows by induction, since each step restores the table (`C08_seq`).
-/
namespace Cicada.C08
open Cicada.Kernel Cicada.Kernel.Table Cicada.Pipeline

/-- the `for i in 0..length` loop releases everything: if the table before stage `i` is the original one plus
(the read end of the previous pipe, the pipes from `i` on, the capture pipes), the table after the loop is the original one -/
theorem parentLoop_restores (cfg : Cfg) (cap : Cap) (capture bg : Bool) (t0 : Table) :
    ∀ (cmds : List Command) (prev : Option Fds) (rest : List Fds) (i : Nat) (s : PState),
      cmds ≠ [] → rest.length + 1 = cmds.length →
      Restores t0 s.shell (prevFds prev ++ fdsOf rest ++ capFds cap) →
      (parentLoop cfg cap capture bg prev rest cmds i s).shell = t0 := by
  intro cmds
  induction cmds with
  | nil => intro _ _ _ _ h; exact absurd rfl h
  | cons c cs ih =>
    intro prev rest i s _ hlen hR
    unfold parentLoop
    cases cs with
    | nil =>
      -- the last stage: no pipe to the right, the capture pipes are released
      have hrest : rest = [] := by
        cases rest with
        | nil => rfl
        | cons _ _ => simp at hlen
      subst hrest
      unfold parentLoop
      simp only [List.head?_nil, List.tail_nil]
      rw [parentStage_shell]
      apply restores_nil
      apply restores_shrink hR
      · intro x hx; simp at hx
      · intro x hx _
        rw [release_apply]
        simp only [fdsOf, List.flatMap_nil, List.append_nil, List.mem_append] at hx
        rcases hx with hx | hx
        · cases prev with
          | none => simp [prevFds] at hx
          | some p => simp [prevFds] at hx; simp [hx]
        · simp [hx]
      · intro x hx
        rw [release_apply]
        simp only [fdsOf, List.flatMap_nil, List.append_nil, List.mem_append, not_or] at hx
        have h1 : ¬ ∃ p, prev = some p ∧ x = p.1 := by
          rintro ⟨p, rfl, rfl⟩; exact hx.1 (by simp [prevFds])
        simp [h1, hx.2]
    | cons c' cs' =>
      cases rest with
      | nil => simp at hlen
      | cons p rest' =>
        simp only [List.head?_cons, List.tail_cons]
        apply ih
        · simp
        · simp at hlen ⊢; omega
        · rw [parentStage_shell]
          apply restores_shrink hR
          · intro x hx
            simp only [prevFds, List.mem_append, List.mem_cons, List.not_mem_nil, or_false] at hx
            simp only [List.mem_append]
            rcases hx with (rfl | hx) | hx
            · left; right; exact mem_fdsOf.mpr ⟨p, List.mem_cons_self, Or.inl rfl⟩
            · left; right
              obtain ⟨q, hq, hxq⟩ := mem_fdsOf.mp hx
              exact mem_fdsOf.mpr ⟨q, List.mem_cons_of_mem _ hq, hxq⟩
            · right; exact hx
          · intro x hx hnot
            rw [release_apply]
            simp only [prevFds, List.mem_append, List.mem_cons, List.not_mem_nil, or_false, not_or] at hnot
            simp only [List.mem_append] at hx
            rcases hx with (hx | hx) | hx
            · cases prev with
              | none => simp [prevFds] at hx
              | some q => simp [prevFds] at hx; simp [hx]
            · obtain ⟨q, hq, hxq⟩ := mem_fdsOf.mp hx
              rcases List.mem_cons.mp hq with rfl | hq
              · rcases hxq with rfl | rfl
                · exact absurd rfl hnot.1.1
                · simp
              · exact absurd (mem_fdsOf.mpr ⟨q, hq, hxq⟩) hnot.1.2
            · exact absurd hx hnot.2
          · intro x hx
            rw [release_apply]
            simp only [List.mem_append, not_or] at hx
            have h1 : ¬ ∃ q, prev = some q ∧ x = q.1 := by
              rintro ⟨q, rfl, rfl⟩; exact hx.1.1 (by simp [prevFds])
            have h2 : x ≠ p.2 := by
              rintro rfl; exact hx.1.2 (mem_fdsOf.mpr ⟨p, List.mem_cons_self, Or.inr rfl⟩)
            simp [h1, h2]

/-- **the shell's table is restored** by `run_pipeline`, whatever the commands, the capture mode, the background
flag, the descriptor limit and the table it starts from — including every path on which a `pipe` call fails -/
theorem C08_shell_restored (cfg : Cfg) (cmds : List Command) (capture bg : Bool) (t0 : Table) (np : Nat)
    (hne : cmds ≠ []) : (runPipeline cfg cmds capture bg t0 np).shell = t0 := by
  unfold runPipeline
  by_cases hbc : bg = true ∧ capture = true
  · simp [hbc]
  · simp only [hbc, ↓reduceIte]
    have hR := mkPipes_restores cfg.lim t0 (cmds.length - 1) t0 np [] (by simpa [fdsOf] using restores_refl t0)
    have hL := mkPipes_length cfg.lim (cmds.length - 1) t0 np []
    generalize mkPipes cfg.lim (cmds.length - 1) t0 np [] = r at hR hL
    obtain ⟨t1, np1, pipes, ok⟩ := r
    simp only at hR hL ⊢
    have hlen : cmds.length ≥ 1 := by
      cases cmds with
      | nil => exact absurd rfl hne
      | cons _ _ => simp
    cases ok with
    | false => simpa using release_restores hR
    | true =>
      have hL' : pipes.length + 1 = cmds.length := by
        have := hL rfl; simp at this; omega
      simp only [Bool.not_true, Bool.false_eq_true, ↓reduceIte]
      cases capture with
      | false =>
        simp only [Bool.not_false, ↓reduceIte]
        apply parentLoop_restores _ _ _ _ _ _ _ _ _ _ hne hL'
        simpa [prevFds, capFds] using hR
      | true =>
        simp only [Bool.not_true, Bool.false_eq_true, ↓reduceIte]
        cases hp1 : t1.pipe cfg.lim np1 with
        | none => simpa using release_restores hR
        | some q1 =>
          obtain ⟨t2, r, w⟩ := q1
          simp only
          cases hp2 : t2.pipe cfg.lim (np1 + 1) with
          | none =>
            simp only [closePair_pipe hp1]
            exact release_restores hR
          | some q2 =>
            obtain ⟨t3, r', w'⟩ := q2
            simp only
            apply parentLoop_restores _ _ _ _ _ _ _ _ _ _ hne hL'
            have h3 := restores_pipe (restores_pipe hR hp1) hp2
            refine ⟨fun x hx => h3.1 x ?_, fun x hx => h3.2 x ?_⟩
            · simp only [prevFds, capFds, List.nil_append, List.mem_append, List.mem_cons, List.not_mem_nil, or_false] at hx ⊢
              grind
            · simp only [prevFds, capFds, List.nil_append, List.mem_append, List.mem_cons, List.not_mem_nil, or_false] at hx ⊢
              grind

/-- **sequences**: running any list of pipelines one after the other leaves the table as it was -/
theorem C08_seq (cfg : Cfg) (t0 : Table) : ∀ (plans : List (List Command × Bool × Bool)) (np : Nat),
    (∀ p ∈ plans, p.1 ≠ []) →
    (plans.foldl (fun (st : Table × Nat) p => let r := runPipeline cfg p.1 p.2.1 p.2.2 st.1 st.2; (r.shell, r.np)) (t0, np)).1 = t0 := by
  intro plans
  induction plans with
  | nil => intro np _; rfl
  | cons p ps ih =>
    intro np h
    simp only [List.foldl_cons]
    rw [C08_shell_restored cfg p.1 p.2.1 p.2.2 t0 np (h p List.mem_cons_self)]
    exact ih _ (fun q hq => h q (List.mem_cons_of_mem _ hq))

/-- a table that agrees with `t0` outside descriptors that are free in `t0`, with 0, 1, 2 open in `t0`, is clean up to them -/
theorem cleanUpTo_of_restores {t0 t : Table} {O : List Nat} (h : Restores t0 t O)
    (h0 : (t0 0).isSome) (h1 : (t0 1).isSome) (h2 : (t0 2).isSome) : CleanUpTo t0 t O := by
  have hstd : ∀ x, x < 3 → x ∉ O := by
    intro x hx hO
    have := h.2 x hO
    have : x = 0 ∨ x = 1 ∨ x = 2 := by omega
    rcases this with rfl | rfl | rfl <;> simp_all
  refine ⟨fun x _ hx => atExec_congr (h.1 x hx), ?_, ?_, ?_, ?_⟩
  · intro x hx
    refine ⟨h.2 x hx, ?_⟩
    rcases Nat.lt_or_ge x 3 with hlt | hge
    · exact absurd hx (hstd x hlt)
    · exact hge
  · rw [h.1 0 (hstd 0 (by omega))]; exact h0
  · rw [h.1 1 (hstd 1 (by omega))]; exact h1
  · rw [h.1 2 (hstd 2 (by omega))]; exact h2

/-- **no descriptor leaks into a child**: if the table a stage inherits at `fork` is the shell's original table `t0`
plus (the read end of the previous pipe, the stage's own pipe, the pipes to the right, the capture pipes, the
here-string pipe) — which is what the parent holds at that point — then whatever the stage's redirections are,
the program it execs sees from descriptor 3 on exactly what `t0` itself would pass on at exec. -/
theorem C08_child_clean (cfg : Cfg) (cmd : Command) (prev cur : Option Fds) (right : List Fds) (cap : Cap) (hs : Option Fds)
    (capture : Bool) (t0 tf : Table)
    (h0 : (t0 0).isSome) (h1 : (t0 1).isSome) (h2 : (t0 2).isSome)
    (hR : Restores t0 tf (heldAtFork prev cur right cap hs))
    (hhs : cmd.isHere = false → hs = none) (hcap : capture = false → cap = (none, none))
    (argv : List Str) (tc : Table) (lg : List (Str × Nat))
    (hrun : childRun cfg cmd prev cur right cap hs capture tf = (.exec argv tc, lg)) :
    ∀ x, 3 ≤ x → tc x = t0.atExec x := by
  have hc0 := cleanUpTo_of_restores hR h0 h1 h2
  have hc1 := childPipes_clean prev cur right cap hs hc0
  unfold childRun at hrun
  cases hst : childStdin cfg cmd hs (childPipes prev cur right cap tf) with
  | none => simp [hst] at hrun
  | some t1 =>
    have hc2 := childStdin_clean cfg cmd hs hhs hc1 hst
    simp only [hst] at hrun
    have hc3 := redirLoop_clean (cfg := cfg) (notLast := cur.isSome) (capture := capture) cmd.redirectsTo { t := t1 } hc2
    generalize redirLoop cfg cur.isSome capture { t := t1 } cmd.redirectsTo = rl at hrun hc3
    obtain ⟨s, ok⟩ := rl
    cases ok with
    | false => simp at hrun
    | true =>
      simp only at hrun hc3
      -- after the capture block nothing is left to close
      have hc4 : CleanUpTo t0 (if cur.isNone ∧ capture then capBlock cap s.outRed s.errRed s.t else s.t) [] := by
        by_cases hlast : cur.isNone = true
        · cases capture with
          | true =>
            have : cur.isSome = false := by cases cur <;> simp_all
            simp only [hlast, and_self, ↓reduceIte]
            apply capBlock_clean
            simpa [this] using hc3
          | false =>
            have hcn := hcap rfl
            subst hcn
            have : cur.isSome = false := by cases cur <;> simp_all
            simpa [this, capFds] using hc3
        · have : cur.isSome = true := by cases cur <;> simp_all
          simpa [hlast, this] using hc3
      generalize (if cur.isNone ∧ capture then capBlock cap s.outRed s.errRed s.t else s.t) = tfin at hrun hc4
      split at hrun
      · simp at hrun
      · split at hrun
        · simp only [Prod.mk.injEq, ChildEnd.exec.injEq] at hrun
          obtain ⟨⟨_, rfl⟩, _⟩ := hrun
          intro x hx
          exact hc4.same x hx (by simp)
        · simp at hrun

/-- with a shell table whose descriptors from 3 on are all close-on-exec (the script file, Rust-opened files),
every program starts with exactly 0, 1 and 2 -/
theorem C08_child_012 (cfg : Cfg) (cmd : Command) (prev cur : Option Fds) (right : List Fds) (cap : Cap) (hs : Option Fds)
    (capture : Bool) (t0 tf : Table)
    (h0 : (t0 0).isSome) (h1 : (t0 1).isSome) (h2 : (t0 2).isSome)
    (hcx : ∀ x e, 3 ≤ x → t0 x = some e → e.cx = true)
    (hR : Restores t0 tf (heldAtFork prev cur right cap hs))
    (hhs : cmd.isHere = false → hs = none) (hcap : capture = false → cap = (none, none))
    (argv : List Str) (tc : Table) (lg : List (Str × Nat))
    (hrun : childRun cfg cmd prev cur right cap hs capture tf = (.exec argv tc, lg)) :
    ∀ x, 3 ≤ x → tc x = none := by
  intro x hx
  rw [C08_child_clean cfg cmd prev cur right cap hs capture t0 tf h0 h1 h2 hR hhs hcap argv tc lg hrun x hx, atExec_apply]
  cases he : t0 x with
  | none => rfl
  | some e => simp [hcx x e hx he]

theorem restores_congr {t0 t : Table} {O O' : List Nat} (h : Restores t0 t O) (hm : ∀ x, x ∈ O ↔ x ∈ O') : Restores t0 t O' :=
  ⟨fun x hx => h.1 x (fun hO => hx ((hm x).mp hO)), fun x hx => h.2 x ((hm x).mpr hx)⟩

/-- releasing a stage's ends: from the invariant before stage `i` to the invariant before stage `i + 1` -/
theorem release_restores_next {t0 t : Table} (prev cur : Option Fds) (right : List Fds) (cap : Cap)
    (h : Restores t0 t (prevFds prev ++ fdsOf (cur.toList ++ right) ++ capFds cap)) :
    Restores t0 (release prev cur cap t) (prevFds cur ++ fdsOf right ++ (if cur.isNone then [] else capFds cap)) := by
  apply restores_shrink h
  · intro x hx
    cases cur with
    | none =>
      simp only [prevFds, Option.isNone_none, ↓reduceIte, List.append_nil, List.nil_append] at hx
      simp only [Option.toList_none, List.nil_append, List.mem_append]; left; right; exact hx
    | some p =>
      simp only [prevFds, Option.isNone_some, Bool.false_eq_true, ↓reduceIte, List.mem_append, List.mem_cons, List.not_mem_nil, or_false] at hx
      simp only [Option.toList_some, List.mem_append, mem_fdsOf, List.mem_cons]
      rcases hx with (rfl | hx) | hx
      · left; right; exact ⟨p, by simp, Or.inl rfl⟩
      · left; right
        obtain ⟨q, hq, hxq⟩ := mem_fdsOf.mp hx
        exact ⟨q, Or.inr (by simpa using hq), hxq⟩
      · right; exact hx
  · intro x hx hn
    rw [release_apply]
    cases cur with
    | none =>
      simp only [Option.toList_none, List.nil_append, List.mem_append] at hx
      simp only [prevFds, Option.isNone_none, ↓reduceIte, List.append_nil, List.nil_append] at hn
      rcases hx with (hx | hx) | hx
      · cases prev with
        | none => simp [prevFds] at hx
        | some q => simp [prevFds] at hx; simp [hx]
      · exact absurd hx hn
      · simp [hx]
    | some p =>
      simp only [Option.toList_some, List.mem_append] at hx
      simp only [prevFds, Option.isNone_some, Bool.false_eq_true, ↓reduceIte, List.mem_append, List.mem_cons, List.not_mem_nil, or_false, not_or] at hn
      rcases hx with (hx | hx) | hx
      · cases prev with
        | none => simp [prevFds] at hx
        | some q => simp [prevFds] at hx; simp [hx]
      · obtain ⟨q, hq, hxq⟩ := mem_fdsOf.mp hx
        rcases List.mem_cons.mp hq with rfl | hq
        · rcases hxq with rfl | rfl
          · exact absurd rfl hn.1.1
          · simp
        · exact absurd (mem_fdsOf.mpr ⟨q, hq, hxq⟩) hn.1.2
      · exact absurd hx hn.2
  · intro x hx
    rw [release_apply]
    simp only [List.mem_append, not_or] at hx
    have h1 : ¬ ∃ q, prev = some q ∧ x = q.1 := by
      rintro ⟨q, rfl, rfl⟩; exact hx.1.1 (by simp [prevFds])
    have h2 : ¬ ∃ p, cur = some p ∧ x = p.2 := by
      rintro ⟨p, rfl, rfl⟩; exact hx.1.2 (mem_fdsOf.mpr ⟨p, by simp, Or.inr rfl⟩)
    have h3 : ¬ (cur = none ∧ x ∈ capFds cap) := fun h => hx.2 h.2
    simp [h1, h2, h3]

/-- a recorded child is good when, if it reached `execve`, it holds nothing from 3 on beyond what `t0` passes on -/
def GoodChild (t0 : Table) (c : Nat × ChildEnd × List (Str × Nat)) : Prop :=
  ∀ argv tc, c.2.1 = .exec argv tc → ∀ x, 3 ≤ x → tc x = t0.atExec x

theorem parentStage_child_good (cfg : Cfg) (cmd : Command) (i : Nat) (prev cur : Option Fds) (right : List Fds) (cap : Cap)
    (capture bg : Bool) (s : PState) (t0 : Table)
    (h0 : (t0 0).isSome) (h1 : (t0 1).isSome) (h2 : (t0 2).isSome)
    (hcap : capture = false → cap = (none, none))
    (hR : Restores t0 s.shell (prevFds prev ++ fdsOf (cur.toList ++ right) ++ capFds cap))
    (hgood : ∀ c ∈ s.children, GoodChild t0 c) :
    ∀ c ∈ (parentStage cfg cmd i prev cur right cap capture bg s).children, GoodChild t0 c := by
  have hmem : ∀ hs x, x ∈ prevFds prev ++ fdsOf (cur.toList ++ right) ++ capFds cap ++ optFds hs ↔ x ∈ heldAtFork prev cur right cap hs := by
    intro hs x
    unfold heldAtFork
    cases cur with
    | none => simp [optFds, fdsOf]
    | some p => simp [optFds, fdsOf]; try grind
  unfold parentStage
  by_cases hh : cmd.isHere = true
  · simp only [hh, ↓reduceIte]
    cases hp : s.shell.pipe cfg.lim s.np with
    | none => simpa using hgood
    | some q =>
      obtain ⟨t1, r, w⟩ := q
      simp only
      intro c hc
      simp only [List.mem_append, List.mem_cons, List.not_mem_nil, or_false] at hc
      rcases hc with hc | rfl
      · exact hgood c hc
      · intro argv tc hce x hx
        have hR1 : Restores t0 t1 (heldAtFork prev cur right cap (some (r, w))) :=
          restores_congr (restores_pipe hR hp) (by intro x; rw [← hmem]; simp [optFds])
        generalize hrun : childRun cfg cmd prev cur right cap (some (r, w)) capture t1 = res at hce
        obtain ⟨ce, lg⟩ := res
        simp only at hce
        subst hce
        exact C08_child_clean cfg cmd prev cur right cap (some (r, w)) capture t0 t1 h0 h1 h2 hR1 (by simp [hh]) hcap argv tc lg hrun x hx
  · simp only [hh]
    intro c hc
    simp only [Bool.false_eq_true, ↓reduceIte, List.mem_append, List.mem_cons, List.not_mem_nil, or_false] at hc
    rcases hc with hc | rfl
    · exact hgood c hc
    · intro argv tc hce x hx
      have hR1 : Restores t0 s.shell (heldAtFork prev cur right cap none) :=
        restores_congr hR (by intro x; rw [← hmem]; simp [optFds])
      generalize hrun : childRun cfg cmd prev cur right cap none capture s.shell = res at hce
      obtain ⟨ce, lg⟩ := res
      simp only at hce
      subst hce
      exact C08_child_clean cfg cmd prev cur right cap none capture t0 s.shell h0 h1 h2 hR1 (by simp) hcap argv tc lg hrun x hx

theorem parentLoop_children_good (cfg : Cfg) (cap : Cap) (capture bg : Bool) (t0 : Table)
    (h0 : (t0 0).isSome) (h1 : (t0 1).isSome) (h2 : (t0 2).isSome) (hcap : capture = false → cap = (none, none)) :
    ∀ (cmds : List Command) (prev : Option Fds) (rest : List Fds) (i : Nat) (s : PState),
      Restores t0 s.shell (prevFds prev ++ fdsOf rest ++ capFds cap) →
      (∀ c ∈ s.children, GoodChild t0 c) →
      ∀ c ∈ (parentLoop cfg cap capture bg prev rest cmds i s).children, GoodChild t0 c := by
  intro cmds
  induction cmds with
  | nil => intro _ _ _ s _ hg; simpa [parentLoop] using hg
  | cons c cs ih =>
    intro prev rest i s hR hg
    unfold parentLoop
    have hrest : rest = rest.head?.toList ++ rest.tail := by cases rest <;> simp
    have hR' : Restores t0 s.shell (prevFds prev ++ fdsOf (rest.head?.toList ++ rest.tail) ++ capFds cap) := by
      rw [← hrest]; exact hR
    apply ih
    · rw [parentStage_shell]
      have := release_restores_next prev rest.head? rest.tail cap hR'
      -- the capture pipes are only released by the last stage; afterwards no stage follows that could see them
      refine ⟨fun x hx => this.1 x (fun hm => hx ?_), fun x hx => ?_⟩
      · simp only [List.mem_append] at hm ⊢
        rcases hm with hm | hm
        · exact Or.inl hm
        · right; split at hm
          · simp at hm
          · exact hm
      · simp only [List.mem_append] at hx
        rcases hx with (hx | hx) | hx
        · exact this.2 x (by simp only [List.mem_append]; exact Or.inl (Or.inl hx))
        · exact this.2 x (by simp only [List.mem_append]; exact Or.inl (Or.inr hx))
        · exact hR.2 x (by simp only [List.mem_append]; exact Or.inr hx)
    · exact parentStage_child_good cfg c i prev rest.head? rest.tail cap capture bg s t0 h0 h1 h2 hcap hR' hg

/-- **every program started by `run_pipeline` is clean**: from descriptor 3 on it holds exactly what the shell's own
table passes on at exec — for every list of commands, capture mode, background flag, limit and starting table
with 0, 1, 2 open -/
theorem C08_children_clean (cfg : Cfg) (cmds : List Command) (capture bg : Bool) (t0 : Table) (np : Nat)
    (h0 : (t0 0).isSome) (h1 : (t0 1).isSome) (h2 : (t0 2).isSome) :
    ∀ c ∈ (runPipeline cfg cmds capture bg t0 np).children, GoodChild t0 c := by
  unfold runPipeline
  by_cases hbc : bg = true ∧ capture = true
  · simp [hbc]
  · simp only [hbc, ↓reduceIte]
    have hR := mkPipes_restores cfg.lim t0 (cmds.length - 1) t0 np [] (by simpa [fdsOf] using restores_refl t0)
    generalize mkPipes cfg.lim (cmds.length - 1) t0 np [] = r at hR
    obtain ⟨t1, np1, pipes, ok⟩ := r
    simp only at hR ⊢
    cases ok with
    | false => simp
    | true =>
      simp only [Bool.not_true, Bool.false_eq_true, ↓reduceIte]
      cases capture with
      | false =>
        simp only [Bool.not_false, ↓reduceIte]
        apply parentLoop_children_good cfg _ _ _ t0 h0 h1 h2 (fun _ => rfl)
        · simpa [prevFds, capFds] using hR
        · simp
      | true =>
        simp only [Bool.not_true, Bool.false_eq_true, ↓reduceIte]
        cases hp1 : t1.pipe cfg.lim np1 with
        | none => simp
        | some q1 =>
          obtain ⟨t2, r, w⟩ := q1
          simp only
          cases hp2 : t2.pipe cfg.lim (np1 + 1) with
          | none => simp
          | some q2 =>
            obtain ⟨t3, r', w'⟩ := q2
            simp only
            apply parentLoop_children_good cfg _ _ _ t0 h0 h1 h2 (by simp)
            · have h3 := restores_pipe (restores_pipe hR hp1) hp2
              refine ⟨fun x hx => h3.1 x ?_, fun x hx => h3.2 x ?_⟩
              · simp only [prevFds, capFds, List.nil_append, List.mem_append, List.mem_cons, List.not_mem_nil, or_false] at hx ⊢
                grind
              · simp only [prevFds, capFds, List.nil_append, List.mem_append, List.mem_cons, List.not_mem_nil, or_false] at hx ⊢
                grind
            · simp

/-! ### builtins that are the whole line (`builtins::utils`, after `fix:` e06eb6a) -/

theorem restores_alloc {t0 t t' : Table} {O : List Nat} {lim fd : Nat} {e : Ent} (h : Restores t0 t O)
    (ha : t.alloc lim e = some (t', fd)) : Restores t0 t' (fd :: O) := by
  obtain ⟨hf, rfl⟩ := alloc_spec ha
  constructor
  · intro x hx
    simp only [List.mem_cons, not_or] at hx
    simp [hx.1, h.1 x hx.2]
  · intro x hx
    rcases List.mem_cons.mp hx with rfl | hO
    · by_cases hO : x ∈ O
      · exact h.2 x hO
      · rw [← h.1 x hO]; exact hf
    · exact h.2 x hO

theorem restores_close {t0 t : Table} {O O' : List Nat} {c : Nat} (h : Restores t0 t O) (hc : c ∈ O)
    (hsub : ∀ x ∈ O', x ∈ O) (hgone : ∀ x ∈ O, x ∉ O' → x = c) : Restores t0 (t.close c) O' := by
  apply restores_shrink h hsub
  · intro x hx hn; simp [hgone x hx hn]
  · intro x hx
    have : x ≠ c := fun e => hx (e ▸ hc)
    simp [this]

def optNat : Option Nat → List Nat
  | some n => [n]
  | none => []

/-- the candidate is either nothing (table unchanged) or a freshly allocated descriptor -/
theorem candFd_form (cfg : Cfg) (t : Table) (o e : Option Nat) (lg : List (Str × Nat)) (isOut : Bool) (op to : Str) :
    ((candFd cfg t o e lg isOut op to).1 = t ∧ (candFd cfg t o e lg isOut op to).2.1 = none) ∨
    (∃ lim en fd, t.alloc lim en = some ((candFd cfg t o e lg isOut op to).1, fd) ∧ (candFd cfg t o e lg isOut op to).2.1 = some fd) := by
  unfold candFd
  simp only
  split
  · cases hd : t.dup cfg.lim (e.getD 2) with
    | none => exact Or.inl ⟨rfl, rfl⟩
    | some p =>
      obtain ⟨t2, fd⟩ := p
      unfold Table.dup at hd
      cases hsrc : t (e.getD 2) with
      | none => simp [hsrc] at hd
      | some en => simp only [hsrc] at hd; exact Or.inr ⟨_, _, _, hd, rfl⟩
  · split
    · cases hd : t.dup cfg.lim (o.getD 1) with
      | none => exact Or.inl ⟨rfl, rfl⟩
      | some p =>
        obtain ⟨t2, fd⟩ := p
        unfold Table.dup at hd
        cases hsrc : t (o.getD 1) with
        | none => simp [hsrc] at hd
        | some en => simp only [hsrc] at hd; exact Or.inr ⟨_, _, _, hd, rfl⟩
    · split
      · cases hd : t.openFile cfg.lim to (if op = ">>".toList then 2 else 1) with
        | none => exact Or.inl ⟨rfl, rfl⟩
        | some p =>
          obtain ⟨t2, fd⟩ := p
          exact Or.inr ⟨_, _, _, hd, rfl⟩
      · exact Or.inl ⟨rfl, rfl⟩

/-- the walk over the redirections keeps exactly its two candidate descriptors open beyond the original table -/
theorem getStdFdsGo_restores (cfg : Cfg) (t0 : Table) : ∀ (rs : List Redir) (t : Table) (o e : Option Nat) (lg : List (Str × Nat)),
    Restores t0 t (optNat o ++ optNat e) →
    Restores t0 (getStdFdsGo cfg rs t o e lg).1
      (optNat (getStdFdsGo cfg rs t o e lg).2.1 ++ optNat (getStdFdsGo cfg rs t o e lg).2.2.1) := by
  intro rs
  induction rs with
  | nil => intro t o e lg h; simpa [getStdFdsGo] using h
  | cons r rs ih =>
    intro t o e lg h
    obtain ⟨from_, op, to⟩ := r
    unfold getStdFdsGo
    simp only
    split
    · exact ih t o e lg h
    · have hform := candFd_form cfg t o e lg (decide (from_ = "1".toList)) op to
      generalize candFd cfg t o e lg (decide (from_ = "1".toList)) op to = c at hform
      obtain ⟨t1, cand, lg1⟩ := c
      simp only at hform ⊢
      have hR1 : Restores t0 t1 (optNat cand ++ (optNat o ++ optNat e)) := by
        rcases hform with ⟨rfl, rfl⟩ | ⟨lim, en, fd, ha, rfl⟩
        · simpa [optNat] using h
        · simpa [optNat] using restores_alloc h ha
      split
      · -- stdout slot: the old candidate is closed, the new one takes its place
        apply ih
        cases o with
        | none => simpa [optNat, closeOptFd] using hR1
        | some fd =>
          simp only [closeOptFd]
          apply restores_close hR1 (c := fd) (by simp [optNat])
          · intro x hx; simp only [optNat, List.mem_append, List.mem_cons, List.not_mem_nil, or_false] at hx ⊢; grind
          · intro x hx hn; simp only [optNat, List.mem_append, List.mem_cons, List.not_mem_nil, or_false] at hx hn ⊢; grind
      · apply ih
        cases e with
        | none =>
          simp only [closeOptFd]
          refine restores_congr hR1 ?_
          intro x; simp only [optNat, List.mem_append, List.mem_cons, List.not_mem_nil, or_false]; grind
        | some fd =>
          simp only [closeOptFd]
          apply restores_close hR1 (c := fd) (by simp [optNat])
          · intro x hx; simp only [optNat, List.mem_append, List.mem_cons, List.not_mem_nil, or_false] at hx ⊢; grind
          · intro x hx hn; simp only [optNat, List.mem_append, List.mem_cons, List.not_mem_nil, or_false] at hx hn ⊢; grind

theorem finishPrint_restores (cfg : Cfg) (err : Bool) (t0 t1 : Table) (mine other : Option Nat) (lg : List (Str × Nat))
    (hR : Restores t0 t1 (optNat mine ++ optNat other)) : (finishPrint cfg err t1 mine other lg).t = t0 := by
  unfold finishPrint
  have h2 : Restores t0 (closeOptFd t1 other) (optNat mine) := by
    cases other with
    | none => simpa [optNat, closeOptFd] using hR
    | some fd =>
      simp only [closeOptFd]
      apply restores_close hR (c := fd) (by simp [optNat])
      · intro x hx; simp only [List.mem_append]; exact Or.inl hx
      · intro x hx hn
        simp only [optNat, List.mem_append, List.mem_cons, List.not_mem_nil, or_false] at hx
        rcases hx with hx | hx
        · exact absurd hx hn
        · exact hx
  generalize closeOptFd t1 other = t2 at h2
  simp only
  cases mine with
  | some fd =>
    simp only
    exact restores_nil (restores_close h2 (c := fd) (by simp [optNat]) (by intro x hx; simp at hx) (by intro x hx _; simpa [optNat] using hx))
  | none =>
    simp only
    have h2' : t2 = t0 := restores_nil (by simpa [optNat] using h2)
    cases hd : t2.dup cfg.lim (if err then 2 else 1) with
    | none => simpa using h2'
    | some p =>
      obtain ⟨t3, fd⟩ := p
      simp only
      unfold Table.dup at hd
      cases hsrc : t2 (if err then 2 else 1) with
      | none => simp [hsrc] at hd
      | some en =>
        simp only [hsrc] at hd
        obtain ⟨hf, rfl⟩ := alloc_spec hd
        rw [close_set_free _ hf, h2']

/-- **a builtin that is the whole line leaves the shell's table as it was**, whatever its redirections (any number,
any order, openable or not), whichever stream it prints to, for every limit and every starting table -/
theorem C08_builtin_restored (cfg : Cfg) (rs : List Redir) (err : Bool) (t0 : Table) : (builtinPrint cfg rs err t0).t = t0 := by
  unfold builtinPrint getStdFds
  have h := getStdFdsGo_restores cfg t0 rs t0 none none [] (by simpa [optNat] using restores_refl t0)
  cases err with
  | true =>
    simp only [↓reduceIte]
    exact finishPrint_restores cfg true t0 _ _ _ _ (restores_congr h (by intro x; simp only [List.mem_append]; exact Or.comm))
  | false =>
    simp only [Bool.false_eq_true, ↓reduceIte]
    exact finishPrint_restores cfg false t0 _ _ _ _ h

/-- the script-mode starting table: 0, 1, 2 inherited, the script file at 3 close-on-exec -/
def exT0 : Table := fun fd => if fd < 3 then some { obj := .inh fd } else if fd = 3 then some { obj := .inh 3, cx := true } else none

def exCmd (n : Char) (r : List Redir) (f : Option Tok) : Command := { tokens := [([], [n])], redirectsTo := r, redirectFrom := f }

/-- `a | b 2>&1 <<< w | c > f` -/
def exRes : Result :=
  runPipeline { lim := 16 } [exCmd 'a' [] none, exCmd 'b' [(['2'], ['>'], ['&', '1'])] (some (['<', '<', '<'], ['w'])), exCmd 'c' [(['1'], ['>'], ['f'])] none]
    false false exT0 0

def childView : Option (Nat × ChildEnd × List (Str × Nat)) → Option (List (Nat × Obj))
  | some (_, .exec _ t, _) => some ((t.toList 16).map (fun (fd, e) => (fd, e.obj)))
  | _ => none

/-- non-vacuity: the starting table meets the hypotheses of the theorems, the three-stage pipeline with a here-string
and redirections really forks three children, the middle one holds exactly {0, 1, 2} (the here-string pipe on 0, its
output pipe on 1 and 2), the last one has the file on 1, and the shell's table is back to the start -/
example : (exT0 0).isSome ∧ (exT0 1).isSome ∧ (exT0 2).isSome ∧
    exRes.children.length = 3 ∧
    childView exRes.children[1]? = some [(0, .pipeR 2), (1, .pipeW 1), (2, .pipeW 1)] ∧
    childView exRes.children[2]? = some [(0, .pipeR 1), (1, .file ['f'] 1), (2, .inh 2)] ∧
    (exRes.shell.toList 16).map (·.1) = [0, 1, 2, 3] := by
  decide +kernel

end Cicada.C08
