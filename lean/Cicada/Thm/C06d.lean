import Cicada.Lemmas.C06Multi
import Cicada.Lemmas.C06Wait
/-!
# C06 — stop / continue events on MULTI-process jobs, and the foreground wait exactly

Third class of histories on which the refinement `modelView ~ specView` is a theorem (after the exit-only class and the
single-process class of `Thm/C06c.lean`), and the exact description of the foreground wait.

## (a) `C06_refines_whole_job_stops`

Background jobs with any number of processes; a stop / continue hits the WHOLE job before the next poll (Ctrl-Z,
`kill -STOP -pgid`, `bg`, `kill -CONT -pgid`: the group is signalled).  The guard `WfWholeJobStops` is the decidable check
`wfFromM [] []` of the history followed by the final poll (`Lemmas/C06Multi.lean: okOpM`; ghost state = the never-forgetting
world and `dirty`, the pids notified since the last poll):

* launch: non-empty, pairwise distinct, never used pids under a never used group id (any number of processes, either `bg` flag);
* every notification goes to a process that has had none since the last poll          — refuses **KF-C06-parked-sets**
  (stop and continue of one process parked together: the two sets forget their order);
* exit / kill: of a running process of a job in which no member is stopped, and
  stop: of a running process of a job in which no member's exit is still unapplied     — refuse **KF-C06-status-not-reevaluated**,
  first half (a member leaves the job while a sibling's stop is recorded or about to be: `remove_pid_from_job` does not
  recompute the status.  Note that the ORDER of the two events does not matter: `[exit of B, stop of A]` inside one poll
  interval diverges like `[stop of A, exit of B]`, see `C06_exit_then_stop_diverges`);
* continue: of a stopped process;
* poll: every job is uniform — no stopped member or no running member, i.e. the stops / continues since the last poll have
  hit all live members                                                                — refuses **KF-C06-status-not-reevaluated**,
  second half (only some members continue: `mark_job_member_continued` flips to Running only when the stopped set is empty);
* no `.waitFg`                                                                         — refuses **KF-C06-fg-continue-dropped**
  (which needs a foreground wait that consumes a continue).

Each witness of `Thm/C06.lean` (and the recorded witness of the third class) is refused: `C06_guard_refuses_findings`.
Inside the guard, after the final poll, the table is the reference view up to the order of the jobs: exactly the jobs
with a live process, exactly their live pids, Stopped exactly when all live members are stopped.

Outside the guard (besides the three classes): exits / kills of members of a stopped job (`kill -9` of a stopped job), a
stop or continue delivered to part of a job across a poll, any `.waitFg`, reuse of pids / group ids, a second launch into
an existing group.

## (b) `C06_wait_returns_exactly`

`waitFg gid pids` on a pending queue `pre ++ elast :: post` in which the job's own notifications up to `elast` are exits /
kills, one per member: the result is described completely — consumed prefix, parked notifications of other children, the
table without the job, the status of the last pid.  Guard: no job with group id 0 (`C06_wait_returns_exactly_any_gid`
drops it and describes everything but `stoppedSet` / `status` / `isBg`; `C06_wait_gid0_witness` shows why).
-/
namespace Cicada.C06
open Cicada.Jobs

/-! ### (a) multi-process jobs, whole-job stops -/

/-- the decidable guard of the third class: the history followed by the final poll passes `okOpM` step by step -/
def WfWholeJobStops (ops : List Op) : Prop := wfFromM [] [] (ops ++ [Op.poll]) = true

instance (ops : List Op) : Decidable (WfWholeJobStops ops) := by unfold WfWholeJobStops; infer_instance

theorem wfFromM_append : ∀ (a b : List Op) (gw : List WJob) (d : List Pid),
    wfFromM gw d (a ++ b) = (wfFromM gw d a && wfFromM (a.foldl gStep gw) (a.foldl dirtyStep d) b) := by
  intro a
  induction a with
  | nil => intro b gw d; simp [wfFromM]
  | cons o os ih => intro b gw d; simp [wfFromM, ih, Bool.and_assoc]

/-- the invariant "between polls" holds after every history that passes the guard -/
theorem C06_whole_job_invariant (ops : List Op) (hwf : wfFromM [] [] ops = true) :
    InvM JB (ops.foldl (fun s o => (step s o).1) {}) (ops.foldl (fun s o => (step s o).1) {}).pending (ops.foldl gStep []) :=
  (InvB_run ops {} [] [] InvB_init (fun _ hp => nomatch hp) hwf).1

/-- **C06 — refinement with stop and continue events on multi-process background jobs**: after any history of launches,
exit / kill notifications of members of running jobs, stop / continue notifications that reach every live member of a job
before the next poll (at most one notification per process between two polls, no foreground wait) and polls, followed by
one poll, the table is the reference view up to the order of the jobs: exactly the jobs with a live process, exactly their
live pids, Stopped exactly when all the live members are stopped -/
theorem C06_refines_whole_job_stops (ops : List Op) (hwf : WfWholeJobStops ops) :
    (modelView ((ops ++ [Op.poll]).foldl (fun s o => (step s o).1) {})).Perm (specView ((ops ++ [Op.poll]).foldl worldStep [])) := by
  rw [specView_ghostM _ hwf]
  unfold WfWholeJobStops at hwf
  rw [wfFromM_append] at hwf
  simp only [Bool.and_eq_true, wfFromM, Bool.and_true] at hwf
  obtain ⟨hwf1, hpoll⟩ := hwf
  simp only [List.foldl_append, List.foldl_cons, List.foldl_nil, step, gStep]
  have hU : ∀ wj ∈ ops.foldl gStep [], uniformJ wj = true := by
    simpa only [okOpM, List.all_eq_true] using hpoll
  obtain ⟨h1, h2⟩ := InvB_poll _ _ (C06_whole_job_invariant ops hwf1) hU
  exact viewsM_quiescent _ _ _ h1 h2

/-- both views list every group id once: the permutation is an equality of finite maps gid ↦ (pids, Stopped?) -/
theorem C06_whole_job_views_gids_nodup (ops : List Op) (hwf : wfFromM [] [] ops = true) :
    ((modelView (ops.foldl (fun s o => (step s o).1) {})).map (·.1)).Nodup ∧
    ((specView (ops.foldl worldStep [])).map (·.1)).Nodup := by
  have h := C06_whole_job_invariant ops hwf
  constructor
  · have : (modelView (ops.foldl (fun s o => (step s o).1) {})).map (·.1) =
        (ops.foldl (fun s o => (step s o).1) {}).jobs.map (·.gid) := by
      simp [modelView, List.map_map, Function.comp_def]
    rw [this]; exact h.gids
  · rw [specView_ghostM _ hwf]
    have : (specView (ops.foldl gStep [])).map (·.1) = ((ops.foldl gStep []).filter isLive).map (·.gid) := by
      simp [specView_eq, List.map_map, Function.comp_def]
    rw [this]
    exact h.world.gids.sublist (List.Sublist.map _ List.filter_sublist)

/-- **one poll reaches quiescence** on this class too: after the final poll nothing is pending or parked in any of the
four maps (each process has at most one notification, and the poll applies one per process) -/
theorem C06_whole_job_poll_quiescent (ops : List Op) (hwf : WfWholeJobStops ops) :
    let s := (ops ++ [Op.poll]).foldl (fun s o => (step s o).1) {}
    s.pending = [] ∧ s.reap = [] ∧ s.kill = [] ∧ s.stop = [] ∧ s.cont = [] := by
  unfold WfWholeJobStops at hwf
  rw [wfFromM_append] at hwf
  simp only [Bool.and_eq_true, wfFromM, Bool.and_true] at hwf
  obtain ⟨hwf1, hpoll⟩ := hwf
  simp only [List.foldl_append, List.foldl_cons, List.foldl_nil, step]
  have hU : ∀ wj ∈ ops.foldl gStep [], uniformJ wj = true := by
    simpa only [okOpM, List.all_eq_true] using hpoll
  obtain ⟨_, h2⟩ := InvB_poll _ _ (C06_whole_job_invariant ops hwf1) hU
  simp only [keys1, List.append_eq_nil_iff, List.map_eq_nil_iff] at h2
  exact ⟨h2.1.1.1.1, h2.1.1.1.2, h2.1.1.2, h2.1.2, h2.2⟩

/-! non-vacuity -/

/-- two jobs of three and two processes (pids not ascending) and a third taking a freed id: a member exits while its job
runs, the rest of the job is stopped as a whole (in two different orders against the table), continued as a whole,
stopped again; the other job is stopped, continued and finishes by an exit and a kill -/
def hWhole : List Op :=
  [.launch true 10 [11, 10, 12], .launch false 20 [20, 21], .ev (.exited 11 0), .ev (.stopped 21 20), .ev (.stopped 20 20), .poll,
   .ev (.stopped 12 19), .ev (.stopped 10 19), .ev (.continued 20), .ev (.continued 21), .poll,
   .ev (.continued 10), .ev (.killed 21 9), .ev (.continued 12), .ev (.exited 20 3), .poll,
   .launch true 30 [31, 30], .ev (.stopped 10 19), .ev (.stopped 31 19), .ev (.stopped 12 19), .ev (.stopped 30 19)]

example : WfWholeJobStops hWhole := by decide

example : modelView ((hWhole ++ [Op.poll]).foldl (fun s o => (step s o).1) {}) = [(10, [10, 12], true), (30, [31, 30], true)] ∧
    specView ((hWhole ++ [Op.poll]).foldl worldStep []) = [(10, [10, 12], true), (30, [31, 30], true)] := by decide

example : (modelView ((hWhole ++ [Op.poll]).foldl (fun s o => (step s o).1) {})).Perm
    (specView ((hWhole ++ [Op.poll]).foldl worldStep [])) := C06_refines_whole_job_stops hWhole (by decide)

/-- a job stopped as a whole is Stopped in both views (two processes) -/
example : WfWholeJobStops [Op.launch true 90 [90, 300], .ev (.stopped 300 19), .ev (.stopped 90 19)] ∧
    modelView (([Op.launch true 90 [90, 300], .ev (.stopped 300 19), .ev (.stopped 90 19)] ++ [Op.poll]).foldl (fun s o => (step s o).1) {})
      = [(90, [90, 300], true)] := by decide

/-! the guard refuses the three finding classes -/

/-- the recorded witness of KF-C06-fg-continue-dropped (known_findings.json, stream history `L:0:300:300;P;E:s:300:20;P;E:c:300:0;W:300:300;P;P`) -/
def hFgContinue : List Op :=
  [.launch false 300 [300], .poll, .ev (.stopped 300 20), .poll, .ev (.continued 300), .waitFg 300 [300], .poll, .poll]

/-- **the guard refuses every finding witness**: the two of `Thm/C06.lean` and the recorded one of the third class -/
theorem C06_guard_refuses_findings :
    ¬ WfWholeJobStops hStopThenSiblingExit ∧ ¬ WfWholeJobStops hStopCont ∧ ¬ WfWholeJobStops hFgContinue := by decide

/-- … and it is the clause named in the header that refuses each: the exit of 300 while 90 is stopped; the second
notification of 50 in one interval; the foreground wait -/
example :
    okOpM ([Op.launch true 90 [90, 300], .ev (.stopped 90 19)].foldl gStep []) [90] (.ev (.exited 300 0)) = false ∧
    okOpM ([Op.launch true 50 [50], .ev (.stopped 50 19)].foldl gStep []) [50] (.ev (.continued 50)) = false ∧
    (∀ w d gid pids, okOpM w d (.waitFg gid pids) = false) := by
  refine ⟨by decide, by decide, fun _ _ _ _ => rfl⟩

/-- the order of the two events of KF-C06-status-not-reevaluated does not matter: the sibling's exit BEFORE the stop, in the
same poll interval, diverges as well (the stop is applied first when its pid comes first in the table) — the guard refuses
it through the clause of the stop -/
theorem C06_exit_then_stop_diverges :
    let h : List Op := [.launch true 90 [90, 300], .ev (.exited 300 0), .ev (.stopped 90 19)]
    ¬ WfWholeJobStops h ∧
    modelView ((h ++ [Op.poll]).foldl (fun s o => (step s o).1) {}) = [(90, [90], false)] ∧
    specView ((h ++ [Op.poll]).foldl worldStep []) = [(90, [90], true)] := by decide

/-- only one of two stopped members continues before the poll: the table stays Stopped, the world is Running — refused by
the uniformity check of the poll -/
theorem C06_partial_continue_diverges :
    let h : List Op := [.launch true 90 [90, 300], .ev (.stopped 90 19), .ev (.stopped 300 19), .poll, .ev (.continued 90)]
    ¬ WfWholeJobStops h ∧
    modelView ((h ++ [Op.poll]).foldl (fun s o => (step s o).1) {}) = [(90, [90, 300], true)] ∧
    specView ((h ++ [Op.poll]).foldl worldStep []) = [(90, [90, 300], false)] := by decide

/-! ### (b) the foreground wait, exactly -/

/-- **C06 — the foreground wait returns exactly at the last terminal notification of its own members**: let the table hold
the job `j0` under `gid` with `j0.pids = pids` (no job with group id 0), and let the pending queue be `pre ++ elast :: post`
where `elast` is a notification of a member and the members' notifications in `pre ++ [elast]` are exits / kills, one per
member (any interleaving with notifications of other processes, of any kind; `post` arbitrary).  Then `waitFg`
* consumes exactly `pre ++ [elast]` and leaves `post` pending,
* parks the other processes' notifications of `pre` exactly as the prompt-time parking would (`parkF`),
* removes the job (and nothing else) from the table,
* reports the status carried by the notification of the last pid of `pids` -/
theorem C06_wait_returns_exactly (s : Sh) (gid : Pid) (pids : List Pid) (j0 : Job) (pre post : List Ev) (elast : Ev)
    (hfind : findGid s gid = some j0) (hpids : j0.pids = pids) (hne : pids ≠ [])
    (hz : ∀ j ∈ s.jobs, j.gid ≠ 0)
    (hq : s.pending = pre ++ elast :: post)
    (hlast : C02.isFg pids elast = true)
    (hterm : ∀ e ∈ pre ++ [elast], C02.isFg pids e = true → exitLike e = true)
    (hown : (((pre ++ [elast]).filter (C02.isFg pids)).map Ev.pid).Nodup)
    (hcount : ((pre ++ [elast]).filter (C02.isFg pids)).length = pids.length) :
    (waitFg s gid pids).1 =
      { (pre.filter (fun e => !C02.isFg pids e)).foldl parkF s with
          jobs := s.jobs.filter (fun x => decide (x.id ≠ j0.id)), pending := post } ∧
    ∃ el ∈ pre ++ [elast], some el.pid = pids.getLast? ∧ (waitFg s gid pids).2 = el.status :=
  wait_returns_exactly s gid pids j0 pre post elast hfind hpids hne hz hq hlast hterm hown hcount

/-- the same without the guard "no job has group id 0": the pending queue, the four maps and the ids / group ids / pids of
the table (a stop of another child met on the way is looked up under group id 0 by `wait_fg_job`, so the `stoppedSet` /
`status` of a job with that group id may change: `C06_wait_gid0_witness`) -/
theorem C06_wait_returns_exactly_any_gid (s : Sh) (gid : Pid) (pids : List Pid) (j0 : Job) (pre post : List Ev) (elast : Ev)
    (hfind : findGid s gid = some j0) (hpids : j0.pids = pids) (hne : pids ≠ [])
    (hq : s.pending = pre ++ elast :: post)
    (hlast : C02.isFg pids elast = true)
    (hterm : ∀ e ∈ pre ++ [elast], C02.isFg pids e = true → exitLike e = true)
    (hown : (((pre ++ [elast]).filter (C02.isFg pids)).map Ev.pid).Nodup)
    (hcount : ((pre ++ [elast]).filter (C02.isFg pids)).length = pids.length) :
    (waitFg s gid pids).1.pending = post ∧
    (waitFg s gid pids).1.reap = ((pre.filter (fun e => !C02.isFg pids e)).foldl parkF s).reap ∧
    (waitFg s gid pids).1.kill = ((pre.filter (fun e => !C02.isFg pids e)).foldl parkF s).kill ∧
    (waitFg s gid pids).1.stop = ((pre.filter (fun e => !C02.isFg pids e)).foldl parkF s).stop ∧
    (waitFg s gid pids).1.cont = ((pre.filter (fun e => !C02.isFg pids e)).foldl parkF s).cont ∧
    (waitFg s gid pids).1.jobs.map (fun j => (j.id, j.gid, j.pids)) =
      (s.jobs.filter (fun x => decide (x.id ≠ j0.id))).map (fun j => (j.id, j.gid, j.pids)) :=
  wait_returns_exactly_core s gid pids j0 pre post elast hfind hpids hne hq hlast hterm hown hcount

/-- non-vacuity: three stages 11, 12, 13 finishing in the order 13 (exit 5), 11 (killed by 9), 12 (exit 0), with an exit
and a stop of other children in between and two more notifications behind: status 5, the two stay pending, the exit is in
the reap map, the stop in the stop set, the table keeps only the other job -/
example :
    (waitFg waitExS 11 [11, 12, 13]).1 =
      { (waitExPre.filter (fun e => !C02.isFg [11, 12, 13] e)).foldl parkF waitExS with
          jobs := waitExS.jobs.filter (fun x => decide (x.id ≠ waitExJ1.id)), pending := waitExPost } ∧
    ∃ el ∈ waitExPre ++ [Ev.exited 12 0], some el.pid = [11, 12, 13].getLast? ∧ (waitFg waitExS 11 [11, 12, 13]).2 = el.status :=
  C06_wait_returns_exactly waitExS 11 [11, 12, 13] waitExJ1 waitExPre waitExPost (.exited 12 0)
    (by decide) (by decide) (by decide) (by decide) (by decide) (by decide) (by decide) (by decide) (by decide)

example :
    (waitFg waitExS 11 [11, 12, 13]).2 = 5 ∧
    (waitFg waitExS 11 [11, 12, 13]).1.pending = [.exited 50 7, .continued 50] ∧
    (waitFg waitExS 11 [11, 12, 13]).1.reap = [(50, 1)] ∧
    (waitFg waitExS 11 [11, 12, 13]).1.stop = [77] ∧
    (waitFg waitExS 11 [11, 12, 13]).1.jobs = [waitExJ2] := by decide

/-- the guard `hz` of `C06_wait_returns_exactly` is needed for the equality of the whole state -/
theorem C06_wait_gid0_witness :
    let s : Sh := { jobs := [waitExJ1, { id := 2, gid := 0, pids := [77] }],
                    pending := [.stopped 77 19, .exited 13 5, .killed 11 9, .exited 12 0] }
    (waitFg s 11 [11, 12, 13]).1.jobs = [{ id := 2, gid := 0, pids := [77], stoppedSet := [77], status := "Stopped", isBg := true }] ∧
    (waitFg s 11 [11, 12, 13]).1.stop = [77] ∧ (waitFg s 11 [11, 12, 13]).2 = 5 := by
  decide

end Cicada.C06
