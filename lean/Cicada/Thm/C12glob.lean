import Cicada.Thm.C12
/-!
# C12, filename expansion: the pass refines the reference semantics on whole token lists

`C12_glob_refines` : for EVERY token list and every matcher, when the matcher accepts each pattern it is asked about
(no pattern error) and no unquoted pattern starts with a quote character, `expand_glob` yields exactly `globSpec`: only
unquoted tokens holding `*` are replaced, in place (the relative order of the words of the line is kept), by the matching
non-hidden paths in the matcher's (sorted) order, or kept as they are when nothing visible matches; every produced word
is ONE token.
-/
namespace Cicada.C12
open Cicada

/-- the guard of the theorem, per token -/
def globOk (e : Env) (t : Tok) : Bool :=
  !(t.1 = [] ∧ t.2.contains '*') ||
    ((e.glob t.2).isSome && !((trim t.2).head? = some '\'' ∨ (trim t.2).head? = some '"'))

theorem visible_eq (text p : Str) :
    (!(decide (basename p = ['.', '.']) || decide (basename p = ['.'])) &&
        !(decide ((basename p).head? = some '.') && !startsWith (basename text) ['.', '*'])) = !hiddenFor text p := by
  unfold hiddenFor
  by_cases h1 : basename p = ['.'] <;> by_cases h2 : basename p = ['.', '.'] <;>
    by_cases h3 : (basename p).head? = some '.' <;> cases startsWith (basename text) ['.', '*'] <;> simp_all

theorem globToken_pattern (e : Env) (text : Str) (hc : text.contains '*' = true) (h : globOk e ([], text) = true) :
    globToken e [] text = .items (globWords ((e.glob text).getD []) text) := by
  simp only [globOk, hc, and_self, decide_true, Bool.not_true, Bool.false_or, Bool.and_eq_true,
    Bool.not_eq_true', decide_eq_false_iff_not, not_or] at h
  obtain ⟨hsome, hq1, hq2⟩ := h
  cases hg : e.glob text with
  | none => rw [hg] at hsome; simp at hsome
  | some paths =>
    have hfil : paths.filter (fun p => !(decide (basename p = ['.', '.']) || decide (basename p = ['.'])) &&
        !(decide ((basename p).head? = some '.') && !startsWith (basename text) ['.', '*'])) =
        paths.filter (fun p => !hiddenFor text p) := by
      apply List.filter_congr; intro p _; exact visible_eq text p
    unfold globToken
    simp only [ne_eq, not_true_eq_false, hc, Bool.not_true, Bool.false_eq_true, or_self, ↓reduceIte, hq1, hq2, hg, hfil,
      globWords, Option.getD_some]
    split <;> rfl

theorem globToken_plain (e : Env) (sep text : Str) (h : ¬ (sep = [] ∧ text.contains '*' = true)) :
    globToken e sep text = .unchanged := by
  unfold globToken
  by_cases hs : sep = []
  · have : text.contains '*' = false := by
      cases hc : text.contains '*' with
      | false => rfl
      | true => exact absurd ⟨hs, hc⟩ h
    have hm : ¬ '*' ∈ text := by simpa using this
    simp [hm]
  · simp [hs]

theorem expandGlobGo_spec (e : Env) (ts : List Tok) (h : ts.all (globOk e) = true) :
    expandGlobGo e ts = some (globSpec e.glob ts) := by
  induction ts with
  | nil => rfl
  | cons t rest ih =>
    obtain ⟨sep, text⟩ := t
    simp only [List.all_cons, Bool.and_eq_true] at h
    by_cases hp : sep = [] ∧ text.contains '*' = true
    · obtain ⟨hs, hc⟩ := hp
      subst hs
      have hitem := globToken_pattern e text hc h.1
      have hc' : '*' ∈ text := by simpa using hc
      simp only [expandGlobGo, hitem, ih h.2, Option.map_some, globSpec, List.flatMap_cons]
      simp [hc']
    · have hun := globToken_plain e sep text hp
      have hp' : ¬ (sep = [] ∧ '*' ∈ text) := by simpa using hp
      simp only [expandGlobGo, hun, ih h.2, Option.map_some, globSpec, List.flatMap_cons]
      simp [hp']

/-- **C12 (filename expansion): the pass is the reference semantics** -/
theorem C12_glob_refines (e : Env) (ts : List Tok) (h : ts.all (globOk e) = true) :
    expandGlob e ts = globSpec e.glob ts := by
  simp [expandGlob, expandGlobGo_spec e ts h]

/-- nothing visible matches: the word stays as it is -/
theorem C12_glob_only_hidden (word : Str) (found : List Str) (h : ∀ p ∈ found, hiddenFor word p = true) :
    globWords found word = [word] := by
  have : found.filter (fun p => !hiddenFor word p) = [] := by
    rw [List.filter_eq_nil_iff]; intro p hp; simp [h p hp]
  simp [globWords, this]

/-! ### non-vacuity -/
def wGlob : Str → Option (List Str) := fun p =>
  if p = "*rc".toList then some [".bashrc".toList, ".vimrc".toList]
  else if p = "s*".toList then some ["s p".toList, "sub".toList] else some []
example : [(([] : Str), "prog".toList), ([], "*rc".toList), ([], "s*".toList), (['\''], "*".toList)].all (globOk { glob := wGlob }) = true := by decide
example : globSpec wGlob [([], "prog".toList), ([], "*rc".toList), ([], "s*".toList), (['\''], "*".toList)] =
    [([], "prog".toList), ([], "*rc".toList), (['"'], "s p".toList), ([], "sub".toList), (['\''], "*".toList)] := by decide

end Cicada.C12
