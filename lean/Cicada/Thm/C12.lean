import Cicada.Lemmas.Brace
import Cicada.Lemmas.Passes
/-!
# C12 — brace, range, tilde and filename expansion yield exactly the specified words

* `C12_brace` : for every brace term (any nesting, any number of alternatives per group, empty
  alternatives, one-element groups which keep their braces) whose literals are free of `{ } , \`,
  whatever `brace_getitem` returns on the rendered text is exactly the left-to-right cartesian product
  `denote` — and some fuel does return it (`C12_brace_terminates`).
* `C12_brace_token` : the pass replaces such a token by one token per produced word, in order.
* `C12_home` : `~rest` becomes `$HOME rest`.
* `C12_quoted_untouched`, `C12_order` : expansion is never applied inside quotes and keeps the
  relative order of the words of the line.
* `C12_glob_*` : the filename pass keeps the matches in the matcher's order, drops hidden ones unless
  asked for, and leaves the word alone when nothing matches.
The range sequence against `rangeSpec` (`C12_range_seq`, `C12_range_token`: text around the braces is kept since
`fix:` be1fadb) is in `Thm/C12range.lean`; the filename pass on whole token lists against `globSpec`
(`C12_glob_refines`) in `Thm/C12glob.lean`.
-/
namespace Cicada.C12
open Cicada Cicada.PassLemmas

/-- `brace_getitem` is deterministic in its fuel: two fuels that both answer give the same answer -/
theorem braceItem_det {f g : Nat} {out s d r r'} (h1 : braceItem f out s d = some r) (h2 : braceItem g out s d = some r') :
    r = r' := by
  have a := monoI (Nat.le_max_left f g) h1
  have b := monoI (Nat.le_max_right f g) h2
  rw [a] at b; exact Option.some.inj b

theorem C12_brace_terminates (w : Word) (hok : okW w = true) :
    ∃ g, braceItem g [[]] (render w) 0 = some (denote w, []) := by
  have base : braceItem 1 (prod [[]] (denote w)) [] 0 = some (denote w, []) := by
    simp [braceItem, prod_unit_left]
  obtain ⟨g, hg⟩ := itemW w [[]] [] 0 1 _ hok base
  exact ⟨g, by simpa using hg⟩

/-- **brace expansion**: whatever fuel is used, an answer is the cartesian product of the term -/
theorem C12_brace (w : Word) (hok : okW w = true) (f : Nat) (r : List Str × Str)
    (h : braceItem f [[]] (render w) 0 = some r) : r = (denote w, []) := by
  obtain ⟨g, hg⟩ := C12_brace_terminates w hok
  exact braceItem_det h hg

/-- the pass on one unquoted token -/
theorem C12_brace_token (w : Word) (hok : okW w = true) (hgate : needExpandBrace (render w) = true)
    (items : List Tok) (h : expandBrace [([], render w)] = .ok items) :
    items = (denote w).map tagBlank := by
  simp only [expandBrace, Outcome.bind, hgate] at h
  cases hb : braceItem (2 * (render w).length + 2) [[]] (render w) 0 with
  | none => rw [hb] at h; simp at h
  | some r =>
    rw [hb] at h
    have := C12_brace w hok _ r hb
    subst this
    simp at h
    simpa using h.symm

/-- a token the gate rejects (no `{…,…}`) is left alone -/
theorem C12_brace_gate (t : Str) (h : needExpandBrace t = false) : expandBrace [([], t)] = .ok [([], t)] := by
  simp [expandBrace, Outcome.bind, h]

/-- expansion is never applied inside quotes -/
theorem C12_quoted_untouched (sep text : Str) (h : sep ≠ []) :
    expandBrace [(sep, text)] = .ok [(sep, text)] ∧ expandBraceRange [(sep, text)] = [(sep, text)] ∧
    (∀ e, expandGlob e [(sep, text)] = [(sep, text)]) ∧ (∀ e, expandHome e [(sep, text)] = [(sep, text)]) := by
  refine ⟨?_, ?_, ?_, ?_⟩
  · simp [expandBrace, Outcome.bind, h]
  · simp [expandBraceRange, expandRangeGo, rangeToken, h]
  · intro e; simp [expandGlob, expandGlobGo, globToken, h]
  · intro e; simp [expandHome, h]

/-- the words of the line keep their relative order: the pass distributes over concatenation -/
theorem C12_order (a b : List Tok) :
    expandBrace (a ++ b) = (expandBrace b).bind (fun b' => (expandBrace a).bind (fun a' => .ok (a' ++ b'))) := by
  induction a with
  | nil =>
    simp only [List.nil_append, expandBrace]
    cases expandBrace b <;> simp [Outcome.bind]
  | cons t rest ih =>
    obtain ⟨sep, text⟩ := t
    simp only [List.cons_append, expandBrace, ih]
    cases expandBrace b <;> simp only [Outcome.bind]
    cases expandBrace rest <;> simp only [Outcome.bind]
    split
    · simp
    · split <;> simp

/-! ### tilde -/

theorem expandTemplate_noDollar (caps : Caps) (s : Str) (h : ∀ c ∈ s, c ≠ '$') : ∀ (f : Nat) (rest : Str), s.length < f →
    expandTemplateAux caps f (s ++ rest) = s ++ expandTemplateAux caps (f - s.length) rest := by
  induction s with
  | nil => intro f rest _; simp
  | cons c cs ih =>
    intro f rest hf
    cases f with
    | zero => simp at hf
    | succ f =>
      have hc := h c (by simp)
      simp only [List.cons_append, expandTemplateAux, hc, ne_eq, not_false_eq_true, ↓reduceIte]
      rw [ih (fun x hx => h x (by simp [hx])) f rest (by simp at hf; omega)]
      simp

/-- **tilde**: `~rest` becomes the home directory followed by `rest` (home free of `$`, one-line word) -/
theorem C12_home (home rest : Str) (hh : ∀ c ∈ home, c ≠ '$') (hr : ∀ c ∈ rest, c ≠ '\n') :
    expandHomeText home ('~' :: rest) = home ++ rest := by
  have h12 : ∀ rest : Str, (∀ c ∈ rest, c ≠ '\n') →
      rest.takeWhile (fun x => !decide (x = '\n')) = rest ∧ rest.dropWhile (fun x => !decide (x = '\n')) = [] := by
    intro rest
    induction rest with
    | nil => intro _; exact ⟨rfl, rfl⟩
    | cons c cs ih =>
      intro hr
      have := ih (fun x hx => hr x (by simp [hx]))
      simp [List.takeWhile, List.dropWhile, hr c (by simp), this.1, this.2]
  have h1 : rest.takeWhile (· ≠ '\n') = rest := by simpa using (h12 rest hr).1
  have h2 : rest.dropWhile (· ≠ '\n') = [] := by simpa using (h12 rest hr).2
  simp only [expandHomeText, h1, h2, List.append_nil, expandTemplate]
  rw [expandTemplate_noDollar _ home hh _ _ (by simp; omega)]
  congr 1
  have : home.length + "$tail".toList.length + 1 - home.length = 6 := by
    simp; omega
  simp only [List.length_append, this]
  simp [expandTemplateAux, isCapLetter, isDigitA, isAlphaA, Caps.byRef, parseUsize, List.takeWhile, List.dropWhile]

/-! ### filename expansion -/

/-- the produced words are matches of the pattern, in the matcher's order -/
theorem C12_glob_sublist (e : Env) (text : Str) (paths l : List Str) (h1 : e.glob text = some paths)
    (h2 : globToken e [] text = .items l) (h3 : l ≠ [text]) : l.Sublist paths := by
  unfold globToken at h2
  split at h2
  · simp at h2
  · split at h2
    · simp at h2; exact absurd h2.symm h3
    · rw [h1] at h2
      simp only at h2
      split at h2
      · simp at h2; exact absurd h2.symm h3
      · simp at h2; subst h2; exact List.filter_sublist

/-- no hidden entry is produced unless the pattern's last component starts with `.*` -/
theorem C12_glob_hidden (e : Env) (text : Str) (paths l : List Str) (h1 : e.glob text = some paths)
    (h2 : globToken e [] text = .items l) (h3 : l ≠ [text]) (hs : startsWith (basename text) ['.', '*'] = false) :
    ∀ p ∈ l, (basename p).head? ≠ some '.' := by
  unfold globToken at h2
  split at h2
  · simp at h2
  · split at h2
    · simp at h2; exact absurd h2.symm h3
    · rw [h1] at h2
      simp only at h2
      split at h2
      · simp at h2; exact absurd h2.symm h3
      · simp at h2; subst h2
        intro p hp
        simp only [List.mem_filter, hs] at hp
        have := hp.2
        simp at this
        exact this.2

/-- a word without `*`, or a quoted word, is not a pattern -/
theorem C12_glob_not_pattern (e : Env) (sep text : Str) (h : sep ≠ [] ∨ ¬ ('*' ∈ text)) :
    globToken e sep text = .unchanged := by
  unfold globToken
  rcases h with h | h
  · simp [h]
  · simp [h]

/-- a produced word that contains a blank is tagged as quoted, so it stays one argument -/
theorem C12_blank_one_argument (t : Str) (h : ' ' ∈ t) : (tagBlank t).1 = ['"'] := by
  simp [tagBlank, h]

/-! ### non-vacuity: `a{b,{c,d}}{e}` -/
def wTerm : Word :=
  .cons (.lit 'a') (.cons (.grp (.more (.cons (.lit 'b') .nil) (.one (.cons (.grp (.more (.cons (.lit 'c') .nil) (.one (.cons (.lit 'd') .nil)))) .nil))))
    (.cons (.grp (.one (.cons (.lit 'e') .nil))) .nil))
example : okW wTerm = true := by decide
example : render wTerm = "a{b,{c,d}}{e}".toList := by decide
example : denote wTerm = ["ab{e}".toList, "ac{e}".toList, "ad{e}".toList] := by decide

end Cicada.C12
