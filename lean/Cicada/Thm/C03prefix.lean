import Cicada.Thm.C03more
/-!
# C03 — a successful first segment followed by `;` changes nothing for the rest of the list

The correspondence check also runs every list program behind `set -e ;` (a builtin that succeeds).
The claim proved here: such a prefix is just one more successful segment.  Evaluating
`c0 ; c1 REST` where `c0` returns 0 runs `c0` and then EXACTLY what evaluating `c1 REST` runs from
the state `c0` left: same trace suffix, same final status, same final state.  Exit-on-error acts
between the lines of a script, never inside a line (the state `σ` is opaque here, so whatever flag
`c0` sets in it is simply carried along by the oracle).

* `specRest_trace_prefix` — the reference semantics never inspects the trace: a prefix on it is carried through.
* `C03_success_prefix` — the statement on the reference semantics (`Spec/C03.lean`), no guard on the text.
* `C03_success_prefix_and` — the same for `c0 && c1 REST` (status 0 lets `&&` run).
* `C03_success_prefix_model` — transferred to the model of `run_command_line` through `C03_partial`,
  under the guard of that theorem on the longer program (which implies the guard of the shorter one).
-/
namespace Cicada.C03
open Cicada

/-- a result with `pre` put in front of its trace -/
def Res.pre {σ} (pre : List (Str × Int)) (r : Res σ) : Res σ :=
  { sh := r.sh, status := r.status, trace := pre ++ r.trace }

/-- the reference semantics never looks at the trace: a prefix on it is carried through unchanged -/
theorem specRest_trace_prefix {σ} (run : σ → Str → σ × Int) (pre : List (Str × Int)) (l : List (ListOp × Str)) :
    ∀ r : Res σ, specRest run (r.pre pre) l = (specRest run r l).pre pre := by
  induction l with
  | nil => intro r; rfl
  | cons x xs ih =>
    intro r
    obtain ⟨o, seg⟩ := x
    simp only [specRest_cons]
    have hs : (r.pre pre).status = r.status := rfl
    have hh : (r.pre pre).sh = r.sh := rfl
    rw [hs, hh]
    split
    · rw [← ih]
      simp [Res.pre, List.append_assoc]
    · exact ih r

/-- the guard of `c0 ; c1 REST` implies that of `c1 REST` -/
theorem guard_tail (c0 c1 : Str) (o : ListOp) (rest : List (ListOp × Str))
    (hg : guard { first := c0, rest := (o, c1) :: rest } = true) :
    guard { first := c1, rest := rest } = true := by
  simp only [guard, List.all_cons, Bool.and_eq_true] at hg ⊢
  exact ⟨hg.2.1, hg.2.2⟩

/-- **`c0 ; c1 REST` with `c0` successful** (reference semantics; every oracle, every state, every text):
the result is that of `c1 REST` evaluated from the state `c0` left, with `(c0, 0)` in front of the trace. -/
theorem C03_success_prefix {σ : Type} (run : σ → Str → σ × Int) (sh : σ) (c0 c1 : Str) (rest : List (ListOp × Str))
    (h0 : (run sh (trim c0)).2 = 0) :
    specList run sh { first := c0, rest := (.semi, c1) :: rest } =
      (specList run (run sh (trim c0)).1 { first := c1, rest := rest }).pre [(trim c0, 0)] := by
  simp only [specList, specRest_cons, runsAfter, ↓reduceIte, h0]
  rw [← specRest_trace_prefix]
  rfl

/-- the same behind `&&`: status 0 lets the next segment run -/
theorem C03_success_prefix_and {σ : Type} (run : σ → Str → σ × Int) (sh : σ) (c0 c1 : Str) (rest : List (ListOp × Str))
    (h0 : (run sh (trim c0)).2 = 0) :
    specList run sh { first := c0, rest := (.and, c1) :: rest } =
      (specList run (run sh (trim c0)).1 { first := c1, rest := rest }).pre [(trim c0, 0)] := by
  simp only [specList, specRest_cons, runsAfter, h0, decide_true, ↓reduceIte]
  rw [← specRest_trace_prefix]
  rfl

/-- the three readings of `C03_success_prefix`: trace = `c0` then the trace of `c1 REST`; same status; same state -/
theorem C03_success_prefix_fields {σ : Type} (run : σ → Str → σ × Int) (sh : σ) (c0 c1 : Str) (rest : List (ListOp × Str))
    (h0 : (run sh (trim c0)).2 = 0) :
    (specList run sh { first := c0, rest := (.semi, c1) :: rest }).trace =
        (trim c0, 0) :: (specList run (run sh (trim c0)).1 { first := c1, rest := rest }).trace ∧
    (specList run sh { first := c0, rest := (.semi, c1) :: rest }).status =
        (specList run (run sh (trim c0)).1 { first := c1, rest := rest }).status ∧
    (specList run sh { first := c0, rest := (.semi, c1) :: rest }).sh =
        (specList run (run sh (trim c0)).1 { first := c1, rest := rest }).sh := by
  rw [C03_success_prefix run sh c0 c1 rest h0]
  exact ⟨rfl, rfl, rfl⟩

/-- **the model of `run_command_line`**: on the text `c0;c1 REST` (guard of `C03_partial`), with `c0` successful,
the loop executes `c0` and then exactly what it executes on the text `c1 REST` from the state `c0` left. -/
theorem C03_success_prefix_model {σ : Type} (run : σ → Str → σ × Int) (sh : σ) (c0 c1 : Str) (rest : List (ListOp × Str))
    (hg : guard { first := c0, rest := (.semi, c1) :: rest } = true)
    (h0 : (run sh (trim c0)).2 = 0) :
    ofLoop (runCommandLine run sh (render { first := c0, rest := (.semi, c1) :: rest })) =
      (ofLoop (runCommandLine run (run sh (trim c0)).1 (render { first := c1, rest := rest }))).pre [(trim c0, 0)] := by
  have h1 := C03_partial run sh _ hg
  have h2 := C03_partial run (run sh (trim c0)).1 _ (guard_tail c0 c1 .semi rest hg)
  unfold Holds03 at h1 h2
  rw [h1, h2]
  exact C03_success_prefix run sh c0 c1 rest h0

/-! ### non-vacuity: `set -e ; false && a || b` runs `set -e`, `false`, `b` -/

/-- concrete oracle: `false` fails, everything else (in particular `set -e`) succeeds -/
def pRun : Unit → Str → Unit × Int := fun _ t => ((), if t = "false".toList then 1 else 0)
def pTail : List (ListOp × Str) := [(.and, " a ".toList), (.or, " b".toList)]
def pProg : Prog := { first := "set -e ".toList, rest := (.semi, " false ".toList) :: pTail }

example : (pRun () (trim "set -e ".toList)).2 = 0 := by decide
example : guard pProg = true := by decide
example : render pProg = "set -e ; false && a || b".toList := by decide
example : (specList pRun () pProg).trace = [("set -e".toList, 0), ("false".toList, 1), ("b".toList, 0)] := by decide
example : (specList pRun () { first := " false ".toList, rest := pTail }).trace =
    [("false".toList, 1), ("b".toList, 0)] := by decide
example : (specList pRun () pProg).status = 0 := by decide
/-- the model itself on the rendered text -/
example : (runCommandLine pRun () "set -e ; false && a || b".toList).trace =
    [("set -e".toList, 0), ("false".toList, 1), ("b".toList, 0)] := by decide

#print axioms C03_success_prefix
#print axioms C03_success_prefix_and
#print axioms C03_success_prefix_fields
#print axioms C03_success_prefix_model

end Cicada.C03
