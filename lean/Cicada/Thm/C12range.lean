import Cicada.Thm.C12
import Cicada.Spec.C12
/-!
# C12 (growth) — the range pass `{m..n}` / `{m..n..k}` yields exactly the inclusive arithmetic sequence

* `C12_range_seq` : for every start `s`, every i32 end `e` and every increment `k ≥ 1`, the two `while` loops of
  `expand_brace_range` (`rangeSeq`, run with the model's own fuel `|s-e|/k + 2`) produce the decimal renderings of
  `rangeSpec s e k (rangeCount s e k)` (Spec/C12.lean): `s, s±k, …` toward `e`, inclusive of `e` iff reachable.  The i32
  boundary (`checked_add` / `checked_sub` failing) never cuts the sequence short: the loop stops there only when the next
  element would be beyond `e` anyway (this is inside the proof: cases `n + k ≥ 2^31`, `n - k < -2^31`).
* `rangeSpec_asc`, `rangeSpec_desc`, `rangeCount_asc`, `rangeCount_desc`, `C12_range_seq_asc`, `C12_range_seq_desc` :
  the same in closed form: element `i` is `s + i·k` (resp. `s - i·k`) for `i < count`, and `count` is the number with
  `s + (count-1)·k ≤ e < s + count·k` (resp. mirrored).
* `findRange_plain`, `findRange_incr` : in `pre{m..n}post` / `pre{m..n..k}post` with `pre` free of `{` and `m n` of the
  form `-?[0-9]+`, `k` of the form `[0-9]+`, the regex scan finds exactly that occurrence.
* `C12_range_token`, `C12_range_token_incr` : such a token becomes one word `pre ++ value ++ post` per element of the
  sequence (increment `≤ 1` counts as 1); `C12_range_pass` lifts it to the pass on a one-token line;
  `C12_range_token_abort`, `C12_range_token_incr_abort` : a bound / increment that does not fit an `i32` aborts the pass.
Outside: the bounds are related to the texts through `parseI32 m = some s` (a hypothesis, decidable on the input), not
through an independent decimal reader; the odd regex forms `{1..3..}` and tokens with a second range are not covered.
-/
namespace Cicada.C12
open Cicada

theorem p31 : (2 : Int) ^ 31 = 2147483648 := by decide

/-- ascending loop: `c + 1` elements fit, fuel `c + 2` -/
theorem rangeSeq_asc (start stop k : Int) (h : ¬ start > stop) (hk : 1 ≤ k) (hstop : stop < 2 ^ 31) :
    ∀ (c : Nat) (f : Nat) (n : Int) (acc : List Str), c + 2 ≤ f → n + c * k ≤ stop → stop < n + (c + 1) * k →
      rangeSeq start stop k f n acc = acc ++ (rangeSpec n stop k (c + 1)).map showInt := by
  intro c
  induction c with
  | zero =>
    intro f n acc hf h1 h2
    obtain ⟨f, rfl⟩ : ∃ g, f = g + 2 := ⟨f - 2, by omega⟩
    simp only [Int.natCast_zero, Int.zero_mul, Int.add_zero, Int.zero_add, Int.one_mul] at h1 h2
    simp only [rangeSeq, h, ↓reduceIte, h1, rangeSpec, List.map_cons, List.map_nil]
    split
    · rfl
    · have : ¬ (n + k ≤ stop) := by omega
      simp [this]
  | succ c ih =>
    intro f n acc hf h1 h2
    obtain ⟨f, rfl⟩ : ∃ g, f = g + 1 := ⟨f - 1, by omega⟩
    have e1 : ((c + 1 : Nat) : Int) * k = c * k + k := by rw [Int.natCast_succ, Int.add_mul, Int.one_mul]
    have e2 : ((c + 1 : Nat) + 1 : Int) * k = (c + 1) * k + k := by rw [Int.natCast_succ, Int.add_mul _ 1, Int.one_mul]
    rw [e1] at h1; rw [e2] at h2
    have e3 : ((c : Int) + 1) * k = c * k + k := by rw [Int.add_mul, Int.one_mul]
    rw [e3] at h2
    have hck : 0 ≤ (c : Int) * k := Int.mul_nonneg (by omega) (by omega)
    have hn : n ≤ stop := by omega
    have hb : ¬ (n + k ≥ 2 ^ 31) := by omega
    rw [rangeSeq]
    simp only [h, ↓reduceIte, hn, hb]
    rw [ih f (n + k) _ (by omega) (by omega) (by rw [e3]; omega)]
    rw [rangeSpec.eq_2 n stop k (c + 1)]
    simp [hn]


/-- descending loop -/
theorem rangeSeq_desc (start stop k : Int) (h : start > stop) (hk : 1 ≤ k) (hstop : -(2 ^ 31) ≤ stop) :
    ∀ (c : Nat) (f : Nat) (n : Int) (acc : List Str), c + 2 ≤ f → stop ≤ n - c * k → n - (c + 1) * k < stop →
      rangeSeq start stop k f n acc = acc ++ (rangeSpec n stop k (c + 1)).map showInt := by
  intro c
  induction c with
  | zero =>
    intro f n acc hf h1 h2
    obtain ⟨f, rfl⟩ : ∃ g, f = g + 2 := ⟨f - 2, by omega⟩
    simp only [Int.natCast_zero, Int.zero_mul, Int.sub_zero, Int.zero_add, Int.one_mul] at h1 h2
    have h1' : n ≥ stop := h1
    simp only [rangeSeq, h, ↓reduceIte, h1', rangeSpec, List.map_cons, List.map_nil]
    split
    · rfl
    · have : ¬ (n - k ≥ stop) := by omega
      simp [this]
  | succ c ih =>
    intro f n acc hf h1 h2
    obtain ⟨f, rfl⟩ : ∃ g, f = g + 1 := ⟨f - 1, by omega⟩
    have e1 : ((c + 1 : Nat) : Int) * k = c * k + k := by rw [Int.natCast_succ, Int.add_mul, Int.one_mul]
    have e2 : ((c + 1 : Nat) + 1 : Int) * k = (c + 1) * k + k := by rw [Int.natCast_succ, Int.add_mul _ 1, Int.one_mul]
    rw [e1] at h1; rw [e2] at h2
    have e3 : ((c : Int) + 1) * k = c * k + k := by rw [Int.add_mul, Int.one_mul]
    rw [e3] at h2
    have hck : 0 ≤ (c : Int) * k := Int.mul_nonneg (by omega) (by omega)
    have hn : n ≥ stop := by omega
    have hn' : ¬ (n ≤ stop) := by omega
    have hb : ¬ (n - k < -(2 ^ 31)) := by omega
    rw [rangeSeq]
    simp only [h, ↓reduceIte, hn, hb]
    rw [ih f (n - k) _ (by omega) (by omega) (by rw [e3]; omega)]
    rw [rangeSpec.eq_2 n stop k (c + 1)]
    simp [hn']


theorem div_bounds (d k : Int) (hd : 0 ≤ d) (hk : 1 ≤ k) :
    (((d / k).toNat : Nat) : Int) * k ≤ d ∧ d < (((d / k).toNat : Nat) + 1 : Int) * k := by
  have h0 : 0 ≤ d / k := Int.ediv_nonneg hd (by omega)
  rw [Int.toNat_of_nonneg h0]
  exact ⟨Int.ediv_mul_le d (by omega), Int.lt_ediv_add_one_mul_self d (by omega)⟩

/-- **the range loop yields exactly the inclusive arithmetic sequence** -/
theorem C12_range_seq (s e k : Int) (he : -(2 ^ 31) ≤ e ∧ e < 2 ^ 31) (hk : 1 ≤ k) :
    rangeSeq s e k (((if s > e then s - e else e - s) / k).toNat + 2) s [] =
      (rangeSpec s e k (rangeCount s e k)).map showInt := by
  by_cases h : s > e
  · have hle : ¬ s ≤ e := by omega
    simp only [h, ↓reduceIte, rangeCount, hle]
    obtain ⟨b1, b2⟩ := div_bounds (s - e) k (by omega) hk
    rw [rangeSeq_desc s e k h hk he.1 _ _ s [] (Nat.le_refl _) (by omega) (by omega)]
    rfl
  · have hle : s ≤ e := by omega
    simp only [h, ↓reduceIte, rangeCount, hle]
    obtain ⟨b1, b2⟩ := div_bounds (e - s) k (by omega) hk
    rw [rangeSeq_asc s e k h hk he.2 _ _ s [] (Nat.le_refl _) (by omega) (by omega)]
    rfl

/-! ### what `rangeSpec` is, in closed form -/

theorem rangeSpec_asc (n s : Int) (hs : 1 ≤ s) : ∀ (c : Nat) (m : Int), m + c * s ≤ n + s →
    rangeSpec m n s c = (List.range c).map (fun (i : Nat) => m + (i : Int) * s) := by
  intro c
  induction c with
  | zero => intro m _; rfl
  | succ c ih =>
    intro m h
    have e1 : ((c + 1 : Nat) : Int) * s = c * s + s := by rw [Int.natCast_succ, Int.add_mul, Int.one_mul]
    rw [e1] at h
    have hcs : 0 ≤ (c : Int) * s := Int.mul_nonneg (by omega) (by omega)
    have hm : m ≤ n := by omega
    rw [rangeSpec, List.range_succ_eq_map, List.map_cons, List.map_map, if_pos hm, ih (m + s) (by omega)]
    simp only [Int.natCast_zero, Int.zero_mul, Int.add_zero, List.cons.injEq, true_and]
    apply List.map_congr_left
    intro i _
    simp only [Function.comp, Int.natCast_succ, Int.add_mul, Int.one_mul]
    omega

theorem rangeSpec_desc (n s : Int) (hs : 1 ≤ s) : ∀ (c : Nat) (m : Int), n - s ≤ m - c * s →
    rangeSpec m n s c = (List.range c).map (fun (i : Nat) => m - (i : Int) * s) := by
  intro c
  induction c with
  | zero => intro m _; rfl
  | succ c ih =>
    intro m h
    have e1 : ((c + 1 : Nat) : Int) * s = c * s + s := by rw [Int.natCast_succ, Int.add_mul, Int.one_mul]
    rw [e1] at h
    cases c with
    | zero => simp [rangeSpec]
    | succ c =>
      have e2 : ((c + 1 : Nat) : Int) * s = c * s + s := by rw [Int.natCast_succ, Int.add_mul, Int.one_mul]
      have hcs : 0 ≤ (c : Int) * s := Int.mul_nonneg (by omega) (by omega)
      rw [e2] at h
      have hm : ¬ m ≤ n := by omega
      rw [rangeSpec, List.range_succ_eq_map, List.map_cons, List.map_map, if_neg hm, ih (m - s) (by rw [e2]; omega)]
      simp only [Int.natCast_zero, Int.zero_mul, Int.sub_zero, List.cons.injEq, true_and]
      apply List.map_congr_left
      intro i _
      simp only [Function.comp, Int.natCast_succ, Int.add_mul, Int.one_mul]
      omega

/-! ### the regex scan -/

/-- `[0-9]+` -/
def isDigits (ds : Str) : Bool := !ds.isEmpty && ds.all isDigitA
/-- `-?[0-9]+` -/
def isIntText : Str → Bool
  | '-' :: ds => isDigits ds
  | ds => isDigits ds

/-- the text after a number does not go on with a digit -/
def noDigitHead : Str → Bool
  | [] => true
  | c :: _ => !isDigitA c

theorem span_digits (ds rest : Str) (hd : ds.all isDigitA = true) (hr : noDigitHead rest = true) :
    (ds ++ rest).takeWhile isDigitA = ds ∧ (ds ++ rest).dropWhile isDigitA = rest := by
  induction ds with
  | nil =>
    cases rest with
    | nil => exact ⟨rfl, rfl⟩
    | cons c cs =>
      have : isDigitA c = false := by simpa [noDigitHead] using hr
      simp [this]
  | cons d ds ih =>
    simp only [List.all_cons, Bool.and_eq_true] at hd
    have := ih hd.2
    simp [hd.1, this.1, this.2]

theorem takeInt_text (t rest : Str) (ht : isIntText t = true) (hr : noDigitHead rest = true) :
    takeInt (t ++ rest) = some (t, rest) := by
  cases t with
  | nil => simp [isIntText, isDigits] at ht
  | cons c cs =>
    by_cases hc : c = '-'
    · subst hc
      simp only [isIntText, isDigits, Bool.and_eq_true, Bool.not_eq_true', List.isEmpty_eq_false_iff] at ht
      obtain ⟨h1, h2⟩ := span_digits cs rest ht.2 hr
      simp [takeInt, h1, h2, ht.1]
    · have ht' : isDigits (c :: cs) = true := by
        unfold isIntText at ht
        split at ht
        · rename_i heq; exact absurd (List.cons.inj heq).1 hc
        · exact ht
      simp only [isDigits, Bool.and_eq_true, Bool.not_eq_true', List.isEmpty_eq_false_iff] at ht'
      obtain ⟨h1, h2⟩ := span_digits (c :: cs) rest ht'.2 hr
      unfold takeInt
      split
      rename_i sgn r heq
      split at heq
      · rename_i heq2; exact absurd (List.cons.inj heq2).1 hc
      · cases heq
        simp only [h1, h2]
        simp


theorem rangeAt_plain (m n post : Str) (hm : isIntText m = true) (hn : isIntText n = true) :
    rangeAt (m ++ '.' :: '.' :: (n ++ '}' :: post)) = some (m, n, none, post) := by
  unfold rangeAt
  rw [takeInt_text m _ hm (by rfl)]
  simp only
  rw [takeInt_text n _ hn (by rfl)]
  simp [List.takeWhile, List.dropWhile, isDigitA]

theorem rangeAt_incr (m n k post : Str) (hm : isIntText m = true) (hn : isIntText n = true) (hk : isDigits k = true) :
    rangeAt (m ++ '.' :: '.' :: (n ++ '.' :: '.' :: (k ++ '}' :: post))) = some (m, n, some k, post) := by
  simp only [isDigits, Bool.and_eq_true, Bool.not_eq_true', List.isEmpty_eq_false_iff] at hk
  obtain ⟨h1, h2⟩ := span_digits k ('}' :: post) hk.2 (by rfl)
  unfold rangeAt
  rw [takeInt_text m _ hm (by rfl)]
  simp only
  rw [takeInt_text n _ hn (by rfl)]
  simp only [h1, h2, hk.1, ↓reduceIte]

theorem findRangeGo_pre (pre : Str) (hp : ∀ c ∈ pre, c ≠ '{') (body : Str) (r) (hr : rangeAt body = some r) :
    ∀ acc, findRangeGo acc (pre ++ '{' :: body) = some (acc ++ pre, r.1, r.2.1, r.2.2.1, r.2.2.2) := by
  induction pre with
  | nil =>
    intro acc
    obtain ⟨a, b, i, after⟩ := r
    simp [findRangeGo, hr]
  | cons c cs ih =>
    intro acc
    have hc := hp c (by simp)
    simp only [List.cons_append, findRangeGo, hc, ↓reduceIte]
    rw [ih (fun x hx => hp x (by simp [hx]))]
    simp

/-- the range regex finds exactly the occurrence after a `{`-free prefix -/
theorem findRange_plain (pre m n post : Str) (hp : ∀ c ∈ pre, c ≠ '{') (hm : isIntText m = true) (hn : isIntText n = true) :
    findRange (pre ++ '{' :: (m ++ '.' :: '.' :: (n ++ '}' :: post))) = some (pre, m, n, none, post) := by
  unfold findRange
  rw [findRangeGo_pre pre hp _ _ (rangeAt_plain m n post hm hn)]
  simp

theorem findRange_incr (pre m n k post : Str) (hp : ∀ c ∈ pre, c ≠ '{') (hm : isIntText m = true) (hn : isIntText n = true)
    (hk : isDigits k = true) :
    findRange (pre ++ '{' :: (m ++ '.' :: '.' :: (n ++ '.' :: '.' :: (k ++ '}' :: post)))) = some (pre, m, n, some k, post) := by
  unfold findRange
  rw [findRangeGo_pre pre hp _ _ (rangeAt_incr m n k post hm hn hk)]
  simp


theorem parseI32_range (t : Str) (z : Int) (h : parseI32 t = some z) : -(2 ^ 31) ≤ z ∧ z < 2 ^ 31 := by
  unfold parseI32 at h
  split at h
  simp only at h
  split at h
  · exact absurd h (by simp)
  · split at h <;> split at h
    · rename_i hr; rw [← Option.some.inj h]; exact hr
    · exact absurd h (by simp)
    · rename_i hr; rw [← Option.some.inj h]; exact hr
    · exact absurd h (by simp)

/-- **a range token** `pre{m..n}post` becomes one word per element of the sequence, each between `pre` and `post` -/
theorem C12_range_token (pre m n post : Str) (s e : Int) (hp : ∀ c ∈ pre, c ≠ '{')
    (hm : isIntText m = true) (hn : isIntText n = true) (hs : parseI32 m = some s) (he : parseI32 n = some e) :
    rangeToken [] (pre ++ '{' :: (m ++ '.' :: '.' :: (n ++ '}' :: post))) =
      .items ((rangeSpec s e 1 (rangeCount s e 1)).map (fun z => pre ++ showInt z ++ post)) := by
  unfold rangeToken
  rw [findRange_plain pre m n post hp hm hn]
  simp only [ne_eq, not_true_eq_false, ↓reduceIte, hs, he, Int.le_refl]
  rw [C12_range_seq s e 1 (parseI32_range n e he) (Int.le_refl 1), List.map_map]
  rfl

/-- with an increment: `pre{m..n..k}post`; an increment below 1 counts as 1 -/
theorem C12_range_token_incr (pre m n kt post : Str) (s e k : Int) (hp : ∀ c ∈ pre, c ≠ '{')
    (hm : isIntText m = true) (hn : isIntText n = true) (hkt : isDigits kt = true)
    (hs : parseI32 m = some s) (he : parseI32 n = some e) (hk : parseI32 kt = some k) :
    rangeToken [] (pre ++ '{' :: (m ++ '.' :: '.' :: (n ++ '.' :: '.' :: (kt ++ '}' :: post)))) =
      .items ((rangeSpec s e (if k ≤ 1 then 1 else k) (rangeCount s e (if k ≤ 1 then 1 else k))).map
        (fun z => pre ++ showInt z ++ post)) := by
  unfold rangeToken
  rw [findRange_incr pre m n kt post hp hm hn hkt]
  simp only [ne_eq, not_true_eq_false, ↓reduceIte, hs, he, hk]
  rw [C12_range_seq s e _ (parseI32_range n e he) (by split <;> omega), List.map_map]
  rfl

/-- a bound or an increment that does not fit an `i32` aborts the pass (the code prints a diagnostic and returns) -/
theorem C12_range_token_abort (pre m n post : Str) (hp : ∀ c ∈ pre, c ≠ '{')
    (hm : isIntText m = true) (hn : isIntText n = true) (h : parseI32 m = none ∨ parseI32 n = none) :
    rangeToken [] (pre ++ '{' :: (m ++ '.' :: '.' :: (n ++ '}' :: post))) = .abort := by
  unfold rangeToken
  rw [findRange_plain pre m n post hp hm hn]
  simp only [ne_eq, not_true_eq_false, ↓reduceIte]
  rcases h with h | h
  · rw [h]
  · rw [h]; cases parseI32 m <;> rfl

theorem rangeCount_asc (s e k : Int) (h : s ≤ e) (hk : 1 ≤ k) :
    s + ((rangeCount s e k : Nat) : Int) * k - k ≤ e ∧ e < s + ((rangeCount s e k : Nat) : Int) * k := by
  obtain ⟨b1, b2⟩ := div_bounds (e - s) k (by omega) hk
  simp only [rangeCount, h, ↓reduceIte, Int.natCast_succ, Int.add_mul, Int.one_mul] at b1 b2 ⊢
  omega

theorem rangeCount_desc (s e k : Int) (h : e < s) (hk : 1 ≤ k) :
    e ≤ s - ((rangeCount s e k : Nat) : Int) * k + k ∧ s - ((rangeCount s e k : Nat) : Int) * k < e := by
  obtain ⟨b1, b2⟩ := div_bounds (s - e) k (by omega) hk
  have : ¬ s ≤ e := by omega
  simp only [rangeCount, this, ↓reduceIte, Int.natCast_succ, Int.add_mul, Int.one_mul] at b1 b2 ⊢
  omega

/-- ascending, closed form: `s, s+k, …` as long as `≤ e` -/
theorem C12_range_seq_asc (s e k : Int) (he : -(2 ^ 31) ≤ e ∧ e < 2 ^ 31) (hk : 1 ≤ k) (h : s ≤ e) :
    rangeSeq s e k (((if s > e then s - e else e - s) / k).toNat + 2) s [] =
      (List.range (rangeCount s e k)).map (fun (i : Nat) => showInt (s + (i : Int) * k)) := by
  rw [C12_range_seq s e k he hk, rangeSpec_asc e k hk _ s (by have := rangeCount_asc s e k h hk; omega), List.map_map]
  rfl

/-- descending, closed form: `s, s-k, …` as long as `≥ e` -/
theorem C12_range_seq_desc (s e k : Int) (he : -(2 ^ 31) ≤ e ∧ e < 2 ^ 31) (hk : 1 ≤ k) (h : e < s) :
    rangeSeq s e k (((if s > e then s - e else e - s) / k).toNat + 2) s [] =
      (List.range (rangeCount s e k)).map (fun (i : Nat) => showInt (s - (i : Int) * k)) := by
  rw [C12_range_seq s e k he hk, rangeSpec_desc e k hk _ s (by have := rangeCount_desc s e k h hk; omega), List.map_map]
  rfl

/-- the pass on a one-token line -/
theorem C12_range_pass (pre m n post : Str) (s e : Int) (hp : ∀ c ∈ pre, c ≠ '{')
    (hm : isIntText m = true) (hn : isIntText n = true) (hs : parseI32 m = some s) (he : parseI32 n = some e) :
    expandBraceRange [([], pre ++ '{' :: (m ++ '.' :: '.' :: (n ++ '}' :: post)))] =
      (rangeSpec s e 1 (rangeCount s e 1)).map (fun z => tagBlank (pre ++ showInt z ++ post)) := by
  simp [expandBraceRange, expandRangeGo, C12_range_token pre m n post s e hp hm hn hs he, List.map_map]

theorem C12_range_token_incr_abort (pre m n kt post : Str) (hp : ∀ c ∈ pre, c ≠ '{')
    (hm : isIntText m = true) (hn : isIntText n = true) (hkt : isDigits kt = true)
    (h : parseI32 m = none ∨ parseI32 n = none ∨ parseI32 kt = none) :
    rangeToken [] (pre ++ '{' :: (m ++ '.' :: '.' :: (n ++ '.' :: '.' :: (kt ++ '}' :: post)))) = .abort := by
  unfold rangeToken
  rw [findRange_incr pre m n kt post hp hm hn hkt]
  simp only [ne_eq, not_true_eq_false, ↓reduceIte]
  rcases h with h | h | h
  · rw [h]
  · rw [h]; cases parseI32 m <;> rfl
  · rw [h]; cases parseI32 m <;> cases parseI32 n <;> rfl

/-! ### non-vacuity -/
example : rangeSeq 2147483640 2147483647 5 (((if (2147483640:Int) > 2147483647 then (2147483640:Int) - 2147483647 else 2147483647 - 2147483640) / 5).toNat + 2) 2147483640 []
   = ["2147483640".toList, "2147483645".toList] := by decide +kernel
example : (rangeSpec 2147483640 2147483647 5 (rangeCount 2147483640 2147483647 5)) = [2147483640, 2147483645] := by decide +kernel
example : rangeToken [] "a{1..3}b".toList = .items ["a1b".toList, "a2b".toList, "a3b".toList] := by
  rw [show "a{1..3}b".toList = ['a'] ++ '{' :: (['1'] ++ '.' :: '.' :: (['3'] ++ '}' :: ['b'])) from rfl]
  rw [C12_range_token ['a'] ['1'] ['3'] ['b'] 1 3 (by decide) (by decide) (by decide) (by decide) (by decide)]
  exact congrArg RangeRes.items (by decide +kernel)
example : rangeToken [] "x{5..-4..3}".toList = .items ["x5".toList, "x2".toList, "x-1".toList, "x-4".toList] := by
  rw [show "x{5..-4..3}".toList = ['x'] ++ '{' :: (['5'] ++ '.' :: '.' :: (['-', '4'] ++ '.' :: '.' :: (['3'] ++ '}' :: []))) from rfl]
  rw [C12_range_token_incr ['x'] ['5'] ['-', '4'] ['3'] [] 5 (-4) 3 (by decide) (by decide) (by decide) (by decide) (by decide) (by decide) (by decide)]
  exact congrArg RangeRes.items (by decide +kernel)
example : rangeToken [] "{1..2147483648}".toList = .abort := by
  rw [show "{1..2147483648}".toList = [] ++ '{' :: (['1'] ++ '.' :: '.' :: ("2147483648".toList ++ '}' :: [])) from rfl]
  exact C12_range_token_abort [] ['1'] _ [] (by decide) (by decide) (by decide) (Or.inr (by decide))

end Cicada.C12
