import Cicada.Lemmas.C03
/-!
# C03 — command lists run left to right with correct short-circuit and status

Property theorems only.  `Holds03` is the property on one program; `C03_full` quantifies over
every program whose segments are pipelines, `C03_partial` is what is proved: programs whose
segments are "list-safe" texts (`guard`, `Spec/C03.lean`): arbitrary text — any characters, any
quoting, escapes, single `|` and `&` — in which every `#`, `;`, `&&`, `||` is quoted or
backslash-escaped, quotes balance, and which is not blank.
Not covered by the guard (open, see DESIGN §6/C03): a trailing `&` on a segment, `#` comments.
-/
namespace Cicada.C03
open Cicada

/-- The property on one program: running the program text through the shell's list evaluation
executes exactly the pipelines the reference semantics prescribes, with the same statuses and
the same final state (`previous_status`, i.e. `$?` and the exit status of `-c`). -/
def Holds03 {σ} (run : σ → Str → σ × Int) (sh : σ) (p : Prog) : Prop :=
  ofLoop (runCommandLine run sh (render p)) = specList run sh p

/-- a segment is a pipeline: it holds no list operator or comment outside quotes -/
def WellFormed (p : Prog) : Prop := guard p = true

/-- the property at full strength: every program made of pipelines, every `run_proc`, every state -/
def C03_full : Prop :=
  ∀ (σ : Type) (run : σ → Str → σ × Int) (sh : σ) (p : Prog), WellFormed p → Holds03 run sh p

/-- list splitting: `line_to_cmds` recovers exactly the pipelines and operators of the program -/
theorem C03_split (p : Prog) (hg : guard p = true) :
    lineToCmds (render p) = trim p.first :: itemsRest p.rest :=
  lineToCmds_render p hg

/-- the main theorem (guard = the well-formedness of the full statement, so this *is* `C03_full`) -/
theorem C03_partial {σ : Type} (run : σ → Str → σ × Int) (sh : σ) (p : Prog) (hg : guard p = true) :
    Holds03 run sh p := by
  unfold Holds03 runCommandLine
  rw [lineToCmds_render p hg]
  have hg' := hg
  simp only [guard, Bool.and_eq_true] at hg'
  obtain ⟨hf, hr⟩ := hg'
  simp only [segOk, Bool.and_eq_true, Bool.not_eq_true'] at hf
  obtain ⟨_, hns⟩ := hf
  simp only [items, runItems, hns, Bool.false_eq_true, ↓reduceIte]
  have a1 : ¬ (([] : Str) = ['&', '&']) := by decide
  have a2 : ¬ (([] : Str) = ['|', '|']) := by decide
  simp only [a1, a2, false_and, ↓reduceIte]
  rw [runItems_rest run p.rest _ hr]
  simp [specList, ofLoop]

theorem C03_full_holds : C03_full := fun _ run sh p hg => C03_partial run sh p hg

/-- `$?` / exit status: after the line, `previous_status` is the status of the last pipeline executed -/
theorem C03_status_is_last {σ : Type} (run : σ → Str → σ × Int) (sh : σ) (p : Prog) (hg : guard p = true) :
    (runCommandLine run sh (render p)).status = (specList run sh p).status := by
  have := C03_partial run sh p hg
  unfold Holds03 at this
  rw [← this]; rfl

/-! ### the loop of the pinned snapshot violated the property (repaired by a `fix:` commit) -/

def wProg : Prog := { first := "false ".toList, rest := [(.and, " a ".toList), (.semi, " b".toList)] }
def wRun : Unit → Str → Unit × Int := fun _ t => ((), if t = "false".toList then 1 else 0)

/-- `false && a ; b`: the old loop stops at the short-circuit and never runs `b` -/
theorem C03_snapshot_loop_violates :
    (runItemsBreak wRun { sh := () } (lineToCmds (render wProg))).trace ≠ (specList wRun () wProg).trace := by
  decide

/-! ### non-vacuity: the guard admits programs with decoy operators, pipes, escapes -/

example : guard wProg = true := by decide
example : guard { first := "echo 'a;b' | cat ".toList,
                  rest := [(.or, " x \\; \"&&\" ".toList), (.and, " y & z".toList)] } = true := by decide
example : (specList wRun () wProg).trace = [("false".toList, 1), ("b".toList, 0)] := by decide

end Cicada.C03
