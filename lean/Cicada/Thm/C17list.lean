import Cicada.Thm.C17
import Cicada.Lemmas.C01Esc
/-!
# C17 — the listing round trip (`alias` prints `alias n='v'`; feeding the lines back recreates the table)

What "feeding back" means here is what the driver's `aliasrt` stream computes (`reread` below): the line goes through
`CommandLine::from_line` (`planOf`: `parseLine`, the seven expansion passes, `planOfTokens` with redirection
extraction) with the table built so far, and the `alias` builtin (`aliasBuiltin`) runs on the first command's tokens.
`line_to_cmds` is covered as well (`lineToCmds` returns the printed line as its single item).

* `C17_list_reread_plan`, `C17_list_roundtrip_partial` : for every name `[A-Za-z0-9_.-]+` and every value in
  `valueOk n v`, the printed line defines exactly `n ↦ v` (provided no alias is called `alias`).
  The tokenizer treats the two name classes differently (alias.rs:33-35): for an identifier name the definition stays
  ONE UNTAGGED token `n='v'` (the quotes are text; every expansion pass and the redirection parser look at it), for a
  name with `-` or `.` it becomes the token `n=v` tagged `'` (nothing looks at it, but the builtin unquotes a value
  that starts with `"`).  Hence the two halves of the guard.
* `C17_listing_lines`, `C17_list_all_order`, `C17_list_all` : the listing is one such line per definition in the
  listing order, and re-reading ALL lines into an empty table reproduces the table as a finite map.
* outside the guard (witnesses, `decide`): KF-C17-list-squote, KF-C17-value-gt, and four further classes the model
  shows: a leading `"` under a dashed/dotted name, `$$`/`$?` under an identifier name (expanded when re-read),
  `{a,b}` under an identifier name (brace expansion makes three tokens: syntax error, nothing defined), a backquoted
  command under an identifier name (run when re-read).  `C17_list_roundtrip_unguarded` (the statement without the
  value guard) is refuted.
* what the guard leaves out although the round trip works: `$NAME` forms (protected by the `='...$x...'` rule of
  `env_in_token`), `{` that is no brace/range pattern, a single backquote, `*` when nothing matches - all under
  identifier names only.
-/
namespace Cicada.C17
open Cicada Cicada.PL Cicada.TokLemmas Cicada.PassLemmas

def nameOk (n : Str) : Bool := !n.isEmpty && n.all isAliasNameChar
def plainName (n : Str) : Bool := n.all isNameChar
def badA (c : Char) : Bool := c = '$' || c = '`' || c = '{' || c = '*' || c = '>'

theorem aliasLine_eq (n v : Str) :
    aliasLine n v = 'a' :: 'l' :: 'i' :: 'a' :: 's' :: ' ' :: (n ++ '=' :: '\'' :: (v ++ ['\''])) := by
  have e1 : "alias ".toList = ['a','l','i','a','s',' '] := by rfl
  have e2 : "='".toList = ['=', '\''] := by rfl
  have e3 : "'".toList = ['\''] := by rfl
  unfold aliasLine
  rw [e1, e2, e3]
  simp only [List.append_assoc, List.cons_append, List.nil_append]

theorem aliasName_wordChar (c : Char) (h : isAliasNameChar c = true) : wordChar c = true := by
  simp only [isAliasNameChar, Bool.or_eq_true, decide_eq_true_eq] at h
  simp only [wordChar, Bool.or_eq_true, decide_eq_true_eq]
  rcases h with (((h | h) | h) | h) | h <;> simp [h]

/-- in the second word, after `name='` when the name is a plain identifier: the quote is kept as text -/
def inA (r : List Tok) (t : Str) (mp hd : Bool) : St :=
  { result := r, sepSecond := ['\''], token := t, newRound := false, metParen := mp, hasDollar := hd }

theorem step_inA (r : List Tok) (t : Str) (mp hd : Bool) (c : Char) (n : Option Char)
    (ht : t ≠ []) (h1 : c ≠ '\'') (h2 : c ≠ '$') :
    step (inA r t mp hd) c n = inA r (t ++ [c]) (if c = '(' then true else if c = ')' then false else mp) hd := by
  have h1' : ¬ '\'' = c := fun h => h1 h.symm
  cases mp <;>
  by_cases hp : c = '(' <;> by_cases hq : c = ')' <;> by_cases hb : c = '\\' <;> by_cases hs : c = ' ' <;>
    by_cases hpi : c = '|' <;> by_cases hdq : c = '"' <;> by_cases hbq : c = '`' <;>
    simp_all [step, stepMid, stepTail, inA, isQ]

theorem go_inA (body : Str) : ∀ (r : List Tok) (t : Str) (mp hd : Bool) (rest : Str), t ≠ [] →
    (∀ c ∈ body, c ≠ '\'' ∧ c ≠ '$') →
    ∃ mp', go (inA r t mp hd) (body ++ rest) = go (inA r (t ++ body) mp' hd) rest := by
  induction body with
  | nil => intro r t mp hd rest _ _; exact ⟨mp, by simp⟩
  | cons c cs ih =>
    intro r t mp hd rest ht h
    obtain ⟨h1, h2⟩ := h c (by simp)
    obtain ⟨mp', e⟩ := ih r (t ++ [c]) (if c = '(' then true else if c = ')' then false else mp) hd rest (by simp)
      (fun x hx => h x (by simp [hx]))
    refine ⟨mp', ?_⟩
    simp only [List.cons_append, go]
    rw [step_inA r t mp hd c _ ht h1 h2, e]
    simp [List.append_assoc]

/-- the closing quote in state `inA`: whatever the parenthesis flag, the word that is finally pushed is `t'` -/
theorem finish_close_inA (r : List Tok) (t : Str) (mp hd : Bool) (n : Option Char) (ht : reEnvLoose t = true) :
    finish (step (inA r t mp hd) '\'' n) = r ++ [([], t ++ ['\''])] := by
  cases mp <;> simp [step, stepMid, stepTail, inA, isQ, ht, finish]

theorem step_inW_eq (r : List Tok) (t : Str) (hd : Bool) (n : Option Char) :
    step (inW r t hd) '=' n = inW r (t ++ ['=']) hd := by
  simp [step, stepMid, stepTail, inW, isQ]

/-- the opening quote after `name=` : kept as text if `name=` looks like an assignment, else it opens a quoted word
whose text starts with `name=` -/
theorem step_inW_quote (r : List Tok) (t : Str) (hd : Bool) (n : Option Char) :
    step (inW r t hd) '\'' n = if reEnvLoose t then inA r (t ++ ['\'']) false hd else inQ r '\'' t hd := by
  by_cases h : reEnvLoose t = true <;> simp [step, stepMid, stepTail, inW, inA, inQ, isQ, h]

theorem reEnvLoose_go_append (n rest : Str) (hn : ∀ c ∈ n, c ≠ '=') :
    reEnvLoose.go (n ++ '=' :: rest) = (n.all isNameChar && rest.all (· ≠ '\n')) := by
  induction n with
  | nil => simp [reEnvLoose.go]
  | cons c cs ih =>
    have hc := hn c (by simp)
    simp [reEnvLoose.go, hc, ih (fun x hx => hn x (by simp [hx])), Bool.and_assoc]

theorem aliasName_ne_eq (n : Str) (h : n.all isAliasNameChar = true) : ∀ c ∈ n, c ≠ '=' := by
  intro c hc e; subst e
  have := (List.all_eq_true.mp h) _ hc
  revert this; decide

theorem reEnvLoose_def (n rest : Str) (hne : n ≠ []) (hn : n.all isAliasNameChar = true) :
    reEnvLoose (n ++ '=' :: rest) = (plainName n && rest.all (· ≠ '\n')) := by
  cases n with
  | nil => exact absurd rfl hne
  | cons c cs =>
    have h' := aliasName_ne_eq _ hn
    simp only [List.cons_append, reEnvLoose, plainName, List.all_cons]
    rw [reEnvLoose_go_append cs rest (fun x hx => h' x (by simp [hx]))]
    simp [Bool.and_assoc]

def aliasTok : Tok := ([], ['a', 'l', 'i', 'a', 's'])

theorem go_prefix (n v : Str) (hne : n ≠ []) (hn : n.all isAliasNameChar = true) :
    go {} (aliasLine n v) = go (step (inW [aliasTok] (n ++ ['=']) false) '\'' (v ++ ['\'']).head?) (v ++ ['\'']) := by
  have hw : n.all wordChar = true := by
    rw [List.all_eq_true] at hn ⊢
    exact fun c hc => aliasName_wordChar c (hn c hc)
  obtain ⟨c, cs, rfl⟩ : ∃ c cs, n = c :: cs := by
    cases n with
    | nil => exact absurd rfl hne
    | cons c cs => exact ⟨c, cs, rfl⟩
  simp only [List.all_cons, Bool.and_eq_true] at hw
  have go_cons : ∀ (s : St) (c : Char) (rest : Str), go s (c :: rest) = go (step s c rest.head?) rest := fun _ _ _ => rfl
  have e0 : ({} : St) = clean [] false := rfl
  rw [aliasLine_eq, e0, go_cons, step_clean_word [] false 'a' _ (by decide)]
  show go (inW [] ['a'] false) (['l','i','a','s'] ++ (' ' :: ((c :: cs) ++ '=' :: '\'' :: (v ++ ['\''])))) = _
  rw [go_word _ _ _ _ _ (by decide), go_cons, step_inW_space]
  show go (clean _ false) (c :: (cs ++ '=' :: '\'' :: (v ++ ['\'']))) = _
  rw [go_cons, step_clean_word _ _ c _ hw.1, go_word cs _ _ _ _ hw.2, go_cons, step_inW_eq, go_cons]
  rfl

/-- the second token of the re-read line: `name='value'` untagged for identifier names, `name=value` tagged `'`
for names with `-` or `.` (the comment at alias.rs:33-35) -/
def defTok (n v : Str) : Tok :=
  if plainName n then ([], n ++ '=' :: '\'' :: (v ++ ['\''])) else (['\''], n ++ '=' :: v)

theorem alias_not_arith (n v : Str) : isArithmetic (aliasLine n v) = false := by
  apply any_alpha_not_arith
  rw [aliasLine_eq]
  simp [isAlphaA]

theorem parseLine_aliasLine (n v : Str) (hn : nameOk n = true) (hq : ∀ c ∈ v, c ≠ '\'') (hnl : ∀ c ∈ v, c ≠ '\n')
    (hd : plainName n = true → ∀ c ∈ v, c ≠ '$') :
    parseLine (aliasLine n v) = [aliasTok, defTok n v] := by
  simp only [nameOk, Bool.and_eq_true, Bool.not_eq_true', List.isEmpty_eq_false_iff] at hn
  obtain ⟨hne, hn⟩ := hn
  have hnl' : v.all (· ≠ '\n') = true := by
    simp only [List.all_eq_true, decide_eq_true_eq]; exact hnl
  simp only [parseLine, parseLineInfo, alias_not_arith, Bool.false_eq_true, ↓reduceIte]
  rw [go_prefix n v hne hn, step_inW_quote]
  have e1 : reEnvLoose (n ++ ['=']) = plainName n := by
    rw [reEnvLoose_def n [] hne hn]; simp
  rw [e1]
  by_cases hp : plainName n = true
  · simp only [hp, ↓reduceIte, defTok]
    obtain ⟨mp', e⟩ := go_inA v [aliasTok] (n ++ ['=', '\'']) false false ['\''] (by simp)
      (fun c hc => ⟨hq c hc, hd hp c hc⟩)
    have e2 : n ++ ['='] ++ ['\''] = n ++ ['=', '\''] := by simp
    rw [e2, e]
    show finish (step _ '\'' none) = _
    rw [finish_close_inA]
    · simp
    · have : n ++ ['=', '\''] ++ v = n ++ '=' :: ('\'' :: v) := by simp
      rw [this, reEnvLoose_def n _ hne hn, hp]
      simpa using hnl
  · simp only [hp, Bool.false_eq_true, ↓reduceIte, defTok]
    rw [go_sq_body v _ _ _ _ hq]
    show finish (step _ '\'' none) = _
    rw [step_close _ _ _ '\'' _ (Or.inl rfl)]
    simp [finish, doneQ]

/-! ### the expansion passes and planning leave the two tokens alone -/

theorem aliasName_not_bad (c : Char) (h : isAliasNameChar c = true) :
    badA c = false ∧ c ≠ '~' ∧ c ≠ '<' ∧ c ≠ '|' ∧ c ≠ '&' := by
  refine ⟨?_, ?_, ?_, ?_, ?_⟩
  · cases hb : badA c with
    | false => rfl
    | true =>
      simp only [badA, Bool.or_eq_true, decide_eq_true_eq] at hb
      rcases hb with (((hb | hb) | hb) | hb) | hb <;> (subst hb; revert h; decide)
  all_goals (intro e; subst e; revert h; decide)

theorem defText_not_bad (n v : Str) (hn : n.all isAliasNameChar = true) (hv : ∀ c ∈ v, badA c = false) :
    ∀ c ∈ n ++ '=' :: '\'' :: (v ++ ['\'']), badA c = false := by
  intro c hc
  simp only [List.mem_append, List.mem_cons, List.mem_nil_iff, or_false] at hc
  rcases hc with hc | rfl | rfl | hc | rfl
  · exact (aliasName_not_bad c ((List.all_eq_true.mp hn) c hc)).1
  · decide
  · decide
  · exact hv c hc
  · decide

theorem not_bad_facts {c : Char} (h : badA c = false) : c ≠ '$' ∧ c ≠ '`' ∧ c ≠ '{' ∧ c ≠ '*' ∧ c ≠ '>' := by
  refine ⟨?_, ?_, ?_, ?_, ?_⟩ <;> (intro e; subst e; revert h; decide)

theorem defTok_quiet (n v : Str) (hne : n ≠ []) (hn : n.all isAliasNameChar = true)
    (hv : plainName n = true → ∀ c ∈ v, badA c = false) : C01.Quiet (defTok n v) := by
  by_cases hp : plainName n = true
  · have hb := defText_not_bad n v hn (hv hp)
    simp only [defTok, hp, ↓reduceIte]
    refine Or.inr ⟨fun c hc => ⟨(not_bad_facts (hb c hc)).1, (not_bad_facts (hb c hc)).2.1⟩,
      Or.inr (Or.inr ⟨rfl, fun c hc => ⟨(not_bad_facts (hb c hc)).2.2.1, (not_bad_facts (hb c hc)).2.2.2.1⟩, ?_⟩)⟩
    cases n with
    | nil => exact absurd rfl hne
    | cons c cs =>
      simp only [List.all_cons, Bool.and_eq_true] at hn
      have := (aliasName_not_bad c hn.1).2.1
      simpa using this
  · simp only [defTok, hp, Bool.false_eq_true, ↓reduceIte]
    exact Or.inl rfl

theorem defTok_argTok (n v : Str) (hne : n ≠ []) (hn : n.all isAliasNameChar = true)
    (hv : plainName n = true → ∀ c ∈ v, badA c = false) : ArgTok (defTok n v) := by
  by_cases hp : plainName n = true
  · have hb := defText_not_bad n v hn (hv hp)
    simp only [defTok, hp, ↓reduceIte]
    cases n with
    | nil => exact absurd rfl hne
    | cons c cs =>
      simp only [List.all_cons, Bool.and_eq_true] at hn
      obtain ⟨_, _, h3, h4, h5⟩ := aliasName_not_bad c hn.1
      refine Or.inr ⟨?_, ?_, ?_, fun x hx => (not_bad_facts (hb x hx)).2.2.2.2⟩
      · simp
      · simpa using h3
      · simp
  · simp only [defTok, hp, Bool.false_eq_true, ↓reduceIte]
    exact Or.inl (by simp)

theorem argTok_facts (t : Tok) (h : ArgTok t) : ¬ (t.1 = [] ∧ t.2 = ['|']) ∧ t ≠ ([], ['&']) := by
  obtain ⟨sep, text⟩ := t
  rcases h with h | ⟨h1, _, h2, _⟩
  · exact ⟨fun ⟨a, _⟩ => h a, fun e => h (by simp at e; exact e.1)⟩
  · exact ⟨fun ⟨_, a⟩ => h1 a, fun e => h2 (by simp at e; exact e.2)⟩

def aliasCmd (n v : Str) : Command := { tokens := [aliasTok, defTok n v], redirectsTo := [], redirectFrom := none }

theorem planOf_aliasLine (se : SubstEnv) (n v : Str) (hn : nameOk n = true) (hq : ∀ c ∈ v, c ≠ '\'')
    (hnl : ∀ c ∈ v, c ≠ '\n') (hv : plainName n = true → ∀ c ∈ v, badA c = false)
    (ha : lookup se.env.aliases "alias".toList = none) :
    planOf se (planFuel (aliasLine n v)) (aliasLine n v) =
      .ok (.ok { commands := [aliasCmd n v], envs := [], background := false }) := by
  have hpl := parseLine_aliasLine n v hn hq hnl (fun hp c hc => (not_bad_facts (hv hp c hc)).1)
  simp only [nameOk, Bool.and_eq_true, Bool.not_eq_true', List.isEmpty_eq_false_iff] at hn
  obtain ⟨hne, hn⟩ := hn
  have hf : planFuel (aliasLine n v) = (8 * (aliasLine n v).length + 63) + 1 := rfl
  rw [hf, planOf, hpl]
  have hq1 : ∀ t ∈ [defTok n v], C01.Quiet t := by
    intro t ht; simp at ht; subst ht; exact defTok_quiet n v hne hn hv
  have hat := defTok_argTok n v hne hn hv
  have ha' : lookup se.env.aliases ['a', 'l', 'i', 'a', 's'] = none := ha
  have hal : expandAliasGo se.env false [defTok n v] = [defTok n v] := by
    have hnp := (argTok_facts _ hat).1
    rw [show defTok n v = ((defTok n v).1, (defTok n v).2) from rfl]
    simp only [expandAliasGo, hnp, ↓reduceIte]
    simp
  rw [show aliasTok = (([] : Str), ['a', 'l', 'i', 'a', 's']) from rfl,
    C01.doExpansion_quiet se ['a', 'l', 'i', 'a', 's'] [defTok n v] _ (by decide) (by decide) hq1 ha' (by decide) hal (by simp)]
  simp only [Outcome.map, Outcome.bind]
  rw [planOfTokens_args _ [defTok n v] (by decide) (Or.inr ⟨by decide, by decide, by decide, by decide⟩)
    (by intro t ht; simp at ht; subst ht; exact defTok_argTok n v hne hn hv)]
  · rfl
  · intro _
    simp only [List.getLast?_cons_cons, List.getLast?_singleton, ne_eq, Option.some.injEq]
    exact (argTok_facts _ hat).2

/-! ### the `alias` builtin on the re-read tokens -/

theorem takeWhile_name (n rest : Str) (hn : n.all isAliasNameChar = true) :
    (n ++ '=' :: rest).takeWhile isAliasNameChar = n ∧ (n ++ '=' :: rest).dropWhile isAliasNameChar = '=' :: rest := by
  induction n with
  | nil =>
    have : isAliasNameChar '=' = false := by decide
    simp [this]
  | cons c cs ih =>
    simp only [List.all_cons, Bool.and_eq_true] at hn
    simp [hn.1, ih hn.2]

theorem not_all_name (n rest : Str) : (n ++ '=' :: rest).all isAliasNameChar = false := by
  rw [List.all_eq_false]
  exact ⟨'=', by simp, by decide⟩

theorem splitOnChar_none (d : Char) (s : Str) (h : ∀ c ∈ s, c ≠ d) : splitOnChar d s = [s] := by
  induction s with
  | nil => rfl
  | cons c cs ih =>
    have hc := h c (by simp)
    simp [splitOnChar, ih (fun x hx => h x (by simp [hx])), hc]

/-- `tools::unquote` of an alias name is the name (whether or not it looks like arithmetic, e.g. `1-2`) -/
theorem toolsUnquote_name (n : Str) (hne : n ≠ []) (hn : n.all isAliasNameChar = true) : toolsUnquote n = n := by
  have hw : n.all wordChar = true := by
    rw [List.all_eq_true] at hn ⊢
    exact fun c hc => aliasName_wordChar c (hn c hc)
  unfold toolsUnquote parseLine parseLineInfo
  by_cases har : isArithmetic n = true
  · have hsp : ∀ c ∈ n, c ≠ ' ' := by
      intro c hc e; subst e
      have := (List.all_eq_true.mp hn) _ hc
      revert this; decide
    simp [har, splitOnChar_none ' ' n hsp]
  · obtain ⟨c, cs, rfl⟩ : ∃ c cs, n = c :: cs := by
      cases n with
      | nil => exact absurd rfl hne
      | cons c cs => exact ⟨c, cs, rfl⟩
    simp only [List.all_cons, Bool.and_eq_true] at hw
    have e0 : ({} : St) = clean [] false := rfl
    have hgo : go {} (c :: cs) = inW [] (c :: cs) false := by
      rw [e0]
      show go (step (clean [] false) c cs.head?) cs = _
      rw [step_clean_word _ _ c _ hw.1]
      have := go_word cs [] [c] false [] hw.2
      simp only [List.append_nil] at this
      rw [this]; rfl
    simp only [har, Bool.false_eq_true, ↓reduceIte, hgo]
    simp [finish, inW]

theorem not_arith_quoted (v : Str) : isArithmetic ('\'' :: (v ++ ['\''])) = false := by
  have : reArithShape ('\'' :: (v ++ ['\''])) = false := by
    have e : '\'' :: (v ++ ['\'']) = ('\'' :: v) ++ ['\''] := by simp
    unfold reArithShape
    rw [e, List.getLast?_concat, List.dropLast_concat]
    simp [arithBody, isDigitA]
  simp [isArithmetic, this]

/-- `tools::unquote` of `'v'` is `v` when `v` holds no `'` -/
theorem toolsUnquote_quoted (v : Str) (hq : ∀ c ∈ v, c ≠ '\'') : toolsUnquote ('\'' :: (v ++ ['\''])) = v := by
  unfold toolsUnquote parseLine parseLineInfo
  have e0 : ({} : St) = clean [] false := rfl
  have hgo : go {} ('\'' :: (v ++ ['\''])) = doneQ [] '\'' v (false || v.any (· = '$')) := by
    rw [e0]
    show go (step (clean [] false) '\'' _) (v ++ ['\'']) = _
    rw [step_clean_quote _ _ '\'' _ (Or.inl rfl), go_sq_body v _ _ _ _ hq]
    show step (inQ [] '\'' ([] ++ v) _) '\'' none = _
    rw [step_close _ _ _ '\'' _ (Or.inl rfl)]; rfl
  simp only [not_arith_quoted, Bool.false_eq_true, ↓reduceIte, hgo]
  simp [finish, doneQ]

theorem aliasBuiltin_defTok (A sorted : List (Str × Str)) (t0 : Tok) (n v : Str) (hn : nameOk n = true)
    (hq : ∀ c ∈ v, c ≠ '\'') (hnl : ∀ c ∈ v, c ≠ '\n') (hdq : plainName n = false → v.head? ≠ some '"') :
    aliasBuiltin A [t0, defTok n v] sorted = (aliasInsert A n v, {}) := by
  simp only [nameOk, Bool.and_eq_true, Bool.not_eq_true', List.isEmpty_eq_false_iff] at hn
  obtain ⟨hne, hn⟩ := hn
  by_cases hp : plainName n = true
  · obtain ⟨e1, e2⟩ := takeWhile_name n ('\'' :: (v ++ ['\''])) hn
    have hnl' : noNl ('\'' :: (v ++ ['\''])) = true := by
      simp only [noNl, List.all_cons, List.all_append, List.all_nil, Bool.and_true, Bool.and_eq_true,
        List.all_eq_true, decide_eq_true_eq]
      exact ⟨by decide, hnl, by decide⟩
    simp only [defTok, hp, ↓reduceIte, aliasBuiltin, not_all_name, e1, e2, hnl', toolsUnquote_name n hne hn,
      toolsUnquote_quoted v hq]
    simp [hne]
  · have hp' : plainName n = false := by simpa using hp
    obtain ⟨e1, e2⟩ := takeWhile_name n v hn
    have hnl' : noNl v = true := by
      simp only [noNl, List.all_eq_true, decide_eq_true_eq]; exact hnl
    have h1 : v.head? ≠ some '\'' := by
      intro e; exact hq '\'' (List.mem_of_mem_head? e) rfl
    simp only [defTok, hp, Bool.false_eq_true, ↓reduceIte, aliasBuiltin, not_all_name, e1, e2, hnl',
      toolsUnquote_name n hne hn]
    simp [hne, h1, hdq hp']

/-! ### list splitting (`line_to_cmds`) hands the printed line over in one piece -/

theorem lineToCmds_aliasLine (n v : Str) (hn : n.all isAliasNameChar = true) (hq : ∀ c ∈ v, c ≠ '\'') :
    lineToCmds (aliasLine n v) = [aliasLine n v] := by
  have hw : n.all wordChar = true := by
    rw [List.all_eq_true] at hn ⊢
    exact fun c hc => aliasName_wordChar c (hn c hc)
  let pr : C03.Prog := { first := aliasLine n v, rest := [] }
  have hr : C03.render pr = aliasLine n v := by simp [C03.render, pr]
  have htrim : trim (aliasLine n v) = aliasLine n v := by
    rw [aliasLine_eq]
    exact C01.trim_id 'a' '\'' _ ('a' :: 'l' :: 'i' :: 'a' :: 's' :: ' ' :: (n ++ '=' :: '\'' :: v)) (by simp)
      (by decide) (by decide)
  have hsafe : C03.safeSeg none false (aliasLine n v) = true := by
    rw [aliasLine_eq]
    simp only [C03.safeSeg]
    simp only [Char.reduceEq, ↓reduceIte, or_self]
    rw [C01.safeSeg_word n _ hw]
    simp only [C03.safeSeg]
    simp only [Char.reduceEq, ↓reduceIte, or_self, or_false]
    rw [C01.safeSeg_sq v [] hq]
    rfl
  have hne : aliasLine n v ≠ [] := by rw [aliasLine_eq]; simp
  have hsep : isListSep (aliasLine n v) = false := by
    rw [aliasLine_eq]; simp [isListSep]
  have hgd : C03.guard pr = true := by
    simp [C03.guard, C03.segOk, pr, hsafe, htrim, hne, hsep]
  have h := C03.lineToCmds_render pr hgd
  rw [hr] at h
  rw [h]
  simp [C03.items, C03.itemsRest, pr, htrim]

/-! ### the round trip -/

/-- guard on the value, given the name (decidable, input only): no `'` and no newline; for identifier names
(`[A-Za-z0-9_]+`, where the definition stays an untagged token) also none of `$`, backquote, `{`, `*`, `>`;
for names with `-` or `.` (where the tokenizer strips the quotes) not a leading `"` -/
def valueOk (n v : Str) : Bool :=
  v.all (fun c => c != '\'' && c != '\n') &&
  (if plainName n then v.all (fun c => !badA c) else v.head? != some '"')

/-- what the shell does with one line fed back, as the driver's `aliasrt` stream computes it: plan the line
(`CommandLine::from_line`) with the current table, run the `alias` builtin on the first command's tokens -/
def reread (se : SubstEnv) (A : List (Str × Str)) (line : Str) : List (Str × Str) :=
  match planOf { se with env := { se.env with aliases := A } } (planFuel line) line with
  | .ok (.ok p) =>
    (match p.commands with
     | c :: _ => (aliasBuiltin A c.tokens []).1
     | [] => A)
  | _ => A

theorem valueOk_facts (n v : Str) (h : valueOk n v = true) :
    (∀ c ∈ v, c ≠ '\'') ∧ (∀ c ∈ v, c ≠ '\n') ∧ (plainName n = true → ∀ c ∈ v, badA c = false) ∧
    (plainName n = false → v.head? ≠ some '"') := by
  simp only [valueOk, Bool.and_eq_true, List.all_eq_true, bne_iff_ne, ne_eq] at h
  obtain ⟨h1, h2⟩ := h
  refine ⟨fun c hc => (h1 c hc).1, fun c hc => (h1 c hc).2, ?_, ?_⟩
  · intro hp c hc
    simp only [hp, ↓reduceIte, List.all_eq_true, Bool.not_eq_true'] at h2
    exact h2 c hc
  · intro hp
    simpa [hp] using h2

/-- **C17 (listing round trip, one line), plan level.**  For every alias name the builtin accepts and every value
in the guard, the printed line `alias n='v'` is one list item, `from_line` plans it as the single command
`alias <definition token>` without redirections, and the `alias` builtin run on these tokens prints nothing, returns
status 0 and stores exactly `n ↦ v`. -/
theorem C17_list_reread_plan (se : SubstEnv) (A sorted : List (Str × Str)) (n v : Str)
    (hn : nameOk n = true) (hv : valueOk n v = true) (ha : lookup se.env.aliases "alias".toList = none) :
    lineToCmds (aliasLine n v) = [aliasLine n v] ∧
    planOf se (planFuel (aliasLine n v)) (aliasLine n v) =
      .ok (.ok { commands := [aliasCmd n v], envs := [], background := false }) ∧
    aliasBuiltin A (aliasCmd n v).tokens sorted = (aliasInsert A n v, {}) := by
  obtain ⟨h1, h2, h3, h4⟩ := valueOk_facts n v hv
  have hn' : n.all isAliasNameChar = true := by
    simp only [nameOk, Bool.and_eq_true] at hn; exact hn.2
  exact ⟨lineToCmds_aliasLine n v hn' h1, planOf_aliasLine se n v hn h1 h2 h3 ha,
    aliasBuiltin_defTok A sorted aliasTok n v hn h1 h2 h4⟩

/-- the round-trip statement for one definition -/
def RoundTrip (se : SubstEnv) (A : List (Str × Str)) (n v : Str) : Prop :=
  reread se A (aliasLine n v) = aliasInsert A n v

/-- **C17 (listing round trip, one line).**  Feeding the printed line back defines exactly `n ↦ v`: the new table
is `aliasInsert A n v`, so `n` maps to `v` and every other name is unaffected. -/
theorem C17_list_roundtrip_partial (se : SubstEnv) (A : List (Str × Str)) (n v : Str)
    (hn : nameOk n = true) (hv : valueOk n v = true) (ha : lookup A "alias".toList = none) :
    RoundTrip se A n v ∧
    lookup (reread se A (aliasLine n v)) n = some v ∧
    ∀ m, m ≠ n → lookup (reread se A (aliasLine n v)) m = lookup A m := by
  have h := C17_list_reread_plan { se with env := { se.env with aliases := A } } A [] n v hn hv ha
  have e : reread se A (aliasLine n v) = aliasInsert A n v := by
    unfold reread
    rw [h.2.1]
    simp only
    exact congrArg Prod.fst h.2.2
  refine ⟨e, ?_, ?_⟩
  · rw [e]; exact lookup_insert_same A n v
  · intro m hm; rw [e]; exact lookup_insert_other A n v m hm

/-- the statement without the guard on the value (refuted below: it is the two known findings and more) -/
def C17_list_roundtrip_unguarded : Prop :=
  ∀ (se : SubstEnv) (A : List (Str × Str)) (n v : Str), nameOk n = true → lookup A "alias".toList = none →
    RoundTrip se A n v

def se0 : SubstEnv := { env := {}, cmdOut := fun _ => [] }

/-- KF-C17-list-squote: `alias q='it's'` re-reads as `its` -/
theorem C17_finding_list_squote :
    reread se0 [] (aliasLine "q".toList "it's".toList) = [("q".toList, "its".toList)] ∧
    valueOk "q".toList "it's".toList = false := by decide +kernel

/-- KF-C17-value-gt: `alias q='a > b'` re-reads as `a ` (the rest is taken as a redirection) -/
theorem C17_finding_value_gt :
    reread se0 [] (aliasLine "q".toList "a > b".toList) = [("q".toList, "a ".toList)] ∧
    valueOk "q".toList "a > b".toList = false := by decide +kernel

theorem C17_list_roundtrip_unguarded_false : ¬ C17_list_roundtrip_unguarded := by
  intro h
  have h1 := h se0 [] "q".toList "it's".toList (by decide) (by decide)
  have h2 := C17_finding_list_squote.1
  unfold RoundTrip at h1
  rw [h2] at h1
  revert h1; decide

/-- new classes outside the guard (model level) -/
theorem C17_finding_list_dquote_dashed :
    reread se0 [] (aliasLine "a-b".toList "\"x y\" z".toList) = [("a-b".toList, "x y".toList)] ∧
    valueOk "a-b".toList "\"x y\" z".toList = false := by decide +kernel

theorem C17_finding_list_dollar :
    reread se0 [] (aliasLine "q".toList "echo $$".toList) = [("q".toList, "echo 1".toList)] ∧
    valueOk "q".toList "echo $$".toList = false := by decide +kernel

theorem C17_finding_list_brace :
    reread se0 [] (aliasLine "q".toList "echo {a,b}".toList) = [] ∧
    valueOk "q".toList "echo {a,b}".toList = false := by decide +kernel

theorem C17_finding_list_backquote :
    reread { env := {}, cmdOut := fun _ => "OUT".toList } [] (aliasLine "q".toList "echo `x`".toList)
      = [("q".toList, "echo OUT".toList)] ∧
    valueOk "q".toList "echo `x`".toList = false := by decide +kernel

/-! ### non-vacuity of the one-line theorem -/
example : nameOk "ll".toList = true ∧ valueOk "ll".toList "ls -l \"a b\" | wc < f; x && y # (z) \\ ~".toList = true := by decide
example : nameOk "a-b.c".toList = true ∧ valueOk "a-b.c".toList "echo $$ {a,b} > f `x` * \"q\"".toList = true := by decide
example : nameOk "1-2".toList = true ∧ valueOk "1-2".toList [] = true := by decide

/-! ### the whole listing -/

def lineOf (p : Str × Str) : Str := aliasLine p.1 p.2

/-- feed lines back one after the other, starting from an empty table -/
def rereadAll (se : SubstEnv) (lines : List Str) : List (Str × Str) := lines.foldl (reread se) []

def entryOk (p : Str × Str) : Bool := nameOk p.1 && valueOk p.1 p.2 && (p.1 != "alias".toList)

theorem foldl_reread (se : SubstEnv) (L : List (Str × Str)) (hok : ∀ p ∈ L, entryOk p = true) :
    ∀ A0, lookup A0 "alias".toList = none →
      (L.map lineOf).foldl (reread se) A0 = L.foldl (fun A p => aliasInsert A p.1 p.2) A0 := by
  induction L with
  | nil => intro A0 _; rfl
  | cons p rest ih =>
    intro A0 h0
    have hp := hok p (by simp)
    simp only [entryOk, Bool.and_eq_true, bne_iff_ne, ne_eq] at hp
    obtain ⟨⟨hp1, hp2⟩, hp3⟩ := hp
    have e := (C17_list_roundtrip_partial se A0 p.1 p.2 hp1 hp2 h0).1
    unfold RoundTrip at e
    simp only [List.map_cons, List.foldl_cons, lineOf]
    rw [e]
    apply ih (fun x hx => hok x (by simp [hx]))
    rw [lookup_insert_other A0 p.1 p.2 _ (fun h => hp3 h.symm)]
    exact h0

theorem lookup_append (L1 L2 : List (Str × Str)) (m : Str) :
    lookup (L1 ++ L2) m = (lookup L1 m).or (lookup L2 m) := by
  simp only [lookup, List.find?_append]
  cases List.find? (fun p => decide (p.1 = m)) L1 <;> simp

theorem lookup_foldl_insert (L : List (Str × Str)) (m : Str) : ∀ A0,
    lookup (L.foldl (fun A p => aliasInsert A p.1 p.2) A0) m = (lookup L.reverse m).or (lookup A0 m) := by
  induction L with
  | nil => intro A0; simp [lookup]
  | cons p rest ih =>
    intro A0
    simp only [List.foldl_cons, List.reverse_cons]
    rw [ih, lookup_append]
    by_cases hm : m = p.1
    · subst hm
      rw [lookup_insert_same]
      cases lookup rest.reverse p.1 <;> simp [lookup]
    · rw [lookup_insert_other _ _ _ _ hm]
      have hm' : ¬ p.1 = m := fun h => hm h.symm
      have : lookup [p] m = none := by
        simp [lookup, List.find?, hm']
      rw [this]
      cases lookup rest.reverse m <;> simp

/-! association lists with distinct keys are determined by their entries -/

def keys (L : List (Str × Str)) : List Str := L.map (·.1)

theorem mem_of_lookup_some (L : List (Str × Str)) (m v : Str) (h : lookup L m = some v) : (m, v) ∈ L := by
  simp only [lookup, Option.map_eq_some_iff] at h
  obtain ⟨p, hp, rfl⟩ := h
  have h1 := List.mem_of_find?_eq_some hp
  have h2 := List.find?_some hp
  simp only [decide_eq_true_eq] at h2
  subst h2
  exact h1

theorem lookup_some_of_mem (L : List (Str × Str)) (m v : Str) (hnd : (keys L).Nodup) (h : (m, v) ∈ L) :
    lookup L m = some v := by
  induction L with
  | nil => simp at h
  | cons p rest ih =>
    simp only [keys, List.map_cons, List.nodup_cons] at hnd
    by_cases hp : p.1 = m
    · rcases List.mem_cons.mp h with h | h
      · subst h; simp [lookup]
      · exact absurd (List.mem_map.mpr ⟨(m, v), h, hp.symm⟩) hnd.1
    · rcases List.mem_cons.mp h with h | h
      · subst h; exact absurd rfl hp
      · have := ih hnd.2 h
        simp only [lookup, List.find?, hp, decide_false] at this ⊢
        exact this

theorem lookup_none_of_not_key (L : List (Str × Str)) (m : Str) (h : ∀ p ∈ L, p.1 ≠ m) : lookup L m = none := by
  simp only [lookup, Option.map_eq_none_iff, List.find?_eq_none, decide_eq_true_eq]
  exact h

theorem lookup_congr (L1 L2 : List (Str × Str)) (h1 : (keys L1).Nodup) (h2 : (keys L2).Nodup)
    (h : ∀ p, p ∈ L1 ↔ p ∈ L2) (m : Str) : lookup L1 m = lookup L2 m := by
  cases hl : lookup L2 m with
  | some v => exact lookup_some_of_mem L1 m v h1 ((h _).mpr (mem_of_lookup_some L2 m v hl))
  | none =>
    apply lookup_none_of_not_key
    intro p hp e
    have := lookup_some_of_mem L2 m p.2 h2 (by rw [← e]; exact (h p).mp hp)
    rw [hl] at this; cases this

theorem lookup_reverse (L : List (Str × Str)) (h : (keys L).Nodup) (m : Str) : lookup L.reverse m = lookup L m := by
  apply lookup_congr _ _ _ h (fun p => List.mem_reverse)
  simp only [keys, List.map_reverse, List.Nodup, List.pairwise_reverse]
  exact List.Pairwise.imp Ne.symm h

/-! lines -/

theorem splitOnChar_ne_nil (d : Char) (s : Str) : splitOnChar d s ≠ [] := by
  cases s with
  | nil => simp [splitOnChar]
  | cons c cs =>
    simp only [splitOnChar]
    split
    · simp
    · split <;> simp

theorem splitOnChar_line (d : Char) (x : Str) (hx : ∀ c ∈ x, c ≠ d) (rest : Str) :
    splitOnChar d (x ++ d :: rest) = x :: splitOnChar d rest := by
  induction x with
  | nil =>
    simp only [List.nil_append, splitOnChar]
    cases h : splitOnChar d rest with
    | nil => exact absurd h (splitOnChar_ne_nil d rest)
    | cons a b => simp
  | cons c cs ih =>
    have hc := hx c (by simp)
    simp [splitOnChar, ih (fun y hy => hx y (by simp [hy])), hc]

theorem splitOnChar_joinWith (d : Char) (ls : List Str) (hne : ls ≠ []) (h : ∀ x ∈ ls, ∀ c ∈ x, c ≠ d) :
    splitOnChar d (joinWith [d] ls) = ls := by
  induction ls with
  | nil => exact absurd rfl hne
  | cons x rest ih =>
    cases rest with
    | nil => simpa [joinWith] using splitOnChar_none d x (h x (by simp))
    | cons y ys =>
      simp only [joinWith, List.append_assoc, List.cons_append, List.nil_append]
      rw [splitOnChar_line d x (h x (by simp)), ih (by simp) (fun z hz => h z (by simp [hz]))]

theorem reread_empty_line (se : SubstEnv) : reread se [] [] = [] := by rfl

theorem lineOf_noNl (p : Str × Str) (h : entryOk p = true) : ∀ c ∈ lineOf p, c ≠ '\n' := by
  simp only [entryOk, Bool.and_eq_true] at h
  obtain ⟨⟨h1, h2⟩, _⟩ := h
  have hv := (valueOk_facts _ _ h2).2.1
  simp only [nameOk, Bool.and_eq_true] at h1
  have hn : ∀ c ∈ p.1, c ≠ '\n' := by
    intro c hc e; subst e
    have := (List.all_eq_true.mp h1.2) _ hc
    revert this; decide
  intro c hc
  rw [lineOf, aliasLine_eq] at hc
  simp only [List.mem_cons, List.mem_append, List.mem_nil_iff, or_false] at hc
  rcases hc with rfl | rfl | rfl | rfl | rfl | rfl | hc | rfl | rfl | hc | rfl
  all_goals first | decide | exact hn c hc | exact hv c hc

/-- the text `alias` (no arguments) prints for the listing order `L` -/
def listingOut (L : List (Str × Str)) : Str := joinWith ['\n'] (L.map lineOf)

/-- **C17 (listing).**  `alias` without arguments leaves the table alone, returns status 0, prints nothing on
stderr, and prints exactly one line `alias n='v'` per definition, in the listing order. -/
theorem C17_listing_lines (A L : List (Str × Str)) (t0 : Tok) :
    (aliasBuiltin A [t0] L).1 = A ∧ (aliasBuiltin A [t0] L).2.status = 0 ∧ (aliasBuiltin A [t0] L).2.err = [] ∧
    (aliasBuiltin A [t0] L).2.out = listingOut L ∧
    (L ≠ [] → (∀ p ∈ L, entryOk p = true) → splitOnChar '\n' (listingOut L) = L.map lineOf) := by
  refine ⟨rfl, rfl, rfl, rfl, ?_⟩
  intro hne hok
  apply splitOnChar_joinWith
  · simpa using hne
  · intro x hx
    obtain ⟨p, hp, rfl⟩ := List.mem_map.mp hx
    exact lineOf_noNl p (hok p hp)

/-- **C17 (listing round trip, all lines; order).**  Re-reading all printed lines into an empty table performs the
definitions in the listing order: the resulting table is the fold of `aliasInsert`, so every name maps to its last
listed value. -/
theorem C17_list_all_order (se : SubstEnv) (L : List (Str × Str)) (hok : ∀ p ∈ L, entryOk p = true) :
    rereadAll se (splitOnChar '\n' (listingOut L)) = L.foldl (fun T p => aliasInsert T p.1 p.2) [] ∧
    ∀ m, lookup (rereadAll se (splitOnChar '\n' (listingOut L))) m = lookup L.reverse m := by
  have key : rereadAll se (splitOnChar '\n' (listingOut L)) = L.foldl (fun T p => aliasInsert T p.1 p.2) [] := by
    by_cases hne : L = []
    · subst hne
      show reread se [] [] = []
      exact reread_empty_line se
    · rw [(C17_listing_lines [] L ([], [])).2.2.2.2 hne hok]
      exact foldl_reread se L hok [] rfl
  refine ⟨key, fun m => ?_⟩
  rw [key, lookup_foldl_insert]
  cases lookup L.reverse m <;> simp [lookup]

/-- **C17 (listing round trip, all lines).**  If the listing order `L` enumerates the table `A` (same entries, names
distinct - it is a map) and every entry is in the guard, then re-reading ALL printed lines into an empty table
reproduces `A` as a finite map. -/
theorem C17_list_all (se : SubstEnv) (A L : List (Str × Str)) (hperm : ∀ p, p ∈ L ↔ p ∈ A)
    (hA : (keys A).Nodup) (hL : (keys L).Nodup) (hok : ∀ p ∈ L, entryOk p = true) :
    ∀ m, lookup (rereadAll se (splitOnChar '\n' (listingOut L))) m = lookup A m := by
  intro m
  rw [(C17_list_all_order se L hok).2 m, lookup_reverse L hL m]
  exact lookup_congr L A hL hA hperm m

/-! non-vacuity: a table with a dashed name, pipes, quotes, a `$` under a dashed name -/
def exTable : List (Str × Str) :=
  [("ll".toList, "ls -l | wc".toList), ("a-b".toList, "echo $$ > f".toList), ("g.x".toList, "grep \"a b\"".toList)]
example : (∀ p ∈ exTable, entryOk p = true) ∧ (keys exTable).Nodup := by decide
example : rereadAll se0 (splitOnChar '\n' (listingOut exTable)) = exTable.reverse := by decide +kernel

end Cicada.C17
