import Cicada.Lemmas.C06Refine
/-!
# C06 — the refinement `modelView ~ specView` proved on the exit-only histories (unbounded length)

`Thm/C06.lean` and `Thm/C06b.lean` prove local facts; the refinement itself (the table the shell shows against the
abstract world of running / stopped / gone processes) was checked by the differential stream only.  Here it is
proved, by an invariant over operation sequences of any length (`Lemmas/C06Refine.lean`), for every history that
passes the decidable check `wfFrom []`:

* a launch brings a non-empty list of pairwise distinct, never used pids under a never used group id
  (in particular: group id = first pid, all pids fresh);
* a child event is `.exited` or `.killed` of a process that is running in the world (so: launched, and at most
  one such event per pid) — no stop, no continue: all three open finding classes need one;
* `.waitFg gid pids` names a launched group and some of its pids (any subset, repeated or not, anywhere in the
  history, the job finished or not, whatever is pending);
* `.poll` anywhere.

Statements
* `C06_refines_exit_only` : after such a history followed by one prompt-time `.poll`, `modelView` is a permutation
  of `specView`: the table contains exactly the jobs that still have a live process, with exactly their live pids in
  launch order, all Running.  Both views have pairwise distinct group ids (`C06_views_gids_nodup`), so the
  permutation is the equality the stream checks (`Driver.viewOut` sorts both views by group id).
* `C06_view_order_differs` : *equality of the lists* is false even on this class — the table is ordered by job id
  (least unused id, so a freed id is taken again), the reference view by launch.  Kernel-checked witness.
* `C06_refines_exit_only_ending_in_poll` : the same for a history whose last operation is the poll.
* `C06_tracks_in_flight` : at ANY point of such a history (no quiescence assumed) the table is the set of jobs that
  have a process that is not gone or whose exit is still in flight (pending in the kernel, or parked in the reap /
  kill map and not applied yet), with exactly those pids, all Running.
* `C06_poll_quiescent` : after a poll nothing is in flight: the pending queue, the reap map and the kill map hold no
  pid at all (one poll suffices on this class: a pid has at most one notification).

* `C06_refines_single_process_stops` : the second class — stop and continue events as well, for SINGLE-process
  background jobs (guard `WfSingleStops`: every launch has exactly one fresh pid under a fresh group id; a notification
  of any of the four kinds goes to a process that is not gone and that has had no notification since the last poll —
  this excludes KF-C06-parked-sets, whose witness `hStopCont` is a single-process job; no `.waitFg` — this excludes
  KF-C06-fg-continue-dropped; KF-C06-status-not-reevaluated needs two members).  After the final poll the table shows
  exactly the live jobs, each Stopped exactly when its process is stopped.

Outside the guards: stop / continue events for jobs with several processes (the three finding classes), two
notifications for one process between two polls, stop / continue together with `.waitFg`, reuse of a pid or of a
group id, a second launch into an existing group, `.waitFg` with a group id that was never launched or with pids of
another job.
-/
namespace Cicada.C06
open Cicada.Jobs

/-- the decidable well-formedness of an exit-only history (a function of the operation list alone) -/
def WfExitOnly (ops : List Op) : Prop := wfFrom [] ops = true

instance (ops : List Op) : Decidable (WfExitOnly ops) := by unfold WfExitOnly; infer_instance

theorem wfFrom_append : ∀ (a b : List Op) (gw : List WJob),
    wfFrom gw (a ++ b) = (wfFrom gw a && wfFrom (a.foldl gStep gw) b) := by
  intro a
  induction a with
  | nil => intro b gw; simp [wfFrom]
  | cons o os ih => intro b gw; simp [wfFrom, ih, Bool.and_assoc]

/-- the invariant holds after every well-formed history -/
theorem C06_invariant (ops : List Op) (hwf : WfExitOnly ops) :
    Inv (ops.foldl (fun s o => (step s o).1) {}) (ops.foldl (fun s o => (step s o).1) {}).pending (ops.foldl gStep []) :=
  Inv_run ops {} [] Inv_init hwf

/-- **C06 — refinement on the exit-only histories**: after any well-formed history of launches, exit / kill
notifications, foreground waits and polls (any length, any interleaving), followed by one prompt-time poll, the table
the shell shows is the reference view of the world up to the order of the jobs: exactly the jobs with a live process,
exactly their live pids, all Running -/
theorem C06_refines_exit_only (ops : List Op) (hwf : WfExitOnly ops) :
    (modelView ((ops ++ [Op.poll]).foldl (fun s o => (step s o).1) {})).Perm (specView ((ops ++ [Op.poll]).foldl worldStep [])) := by
  have hwf' : wfFrom [] (ops ++ [Op.poll]) = true := by
    rw [wfFrom_append]; simp [wfFrom, okOp]; exact hwf
  rw [specView_ghost _ hwf']
  simp only [List.foldl_append, List.foldl_cons, List.foldl_nil, step, gStep]
  obtain ⟨h1, h2⟩ := Inv_poll _ _ (C06_invariant ops hwf)
  exact views_quiescent _ _ _ h1 h2

/-- the same, for a history that ends with the poll -/
theorem C06_refines_exit_only_ending_in_poll (ops : List Op) (hwf : WfExitOnly (ops ++ [Op.poll])) :
    (modelView ((ops ++ [Op.poll]).foldl (fun s o => (step s o).1) {})).Perm (specView ((ops ++ [Op.poll]).foldl worldStep [])) := by
  apply C06_refines_exit_only
  unfold WfExitOnly at hwf ⊢
  rw [wfFrom_append] at hwf
  simp only [Bool.and_eq_true] at hwf
  exact hwf.1

/-- both views list every group id once: the permutation above is an equality of finite maps gid ↦ (pids, status) -/
theorem C06_views_gids_nodup (ops : List Op) (hwf : WfExitOnly ops) :
    ((modelView (ops.foldl (fun s o => (step s o).1) {})).map (·.1)).Nodup ∧
    ((specView (ops.foldl worldStep [])).map (·.1)).Nodup := by
  have h := C06_invariant ops hwf
  constructor
  · have : (modelView (ops.foldl (fun s o => (step s o).1) {})).map (·.1) =
        (ops.foldl (fun s o => (step s o).1) {}).jobs.map (·.gid) := by
      simp [modelView, List.map_map, Function.comp_def]
    rw [this]; exact h.tr.gids
  · rw [specView_ghost _ hwf]
    have : (specView (ops.foldl gStep [])).map (·.1) = ((ops.foldl gStep []).filter isLive).map (·.gid) := by
      simp [specView_eq, List.map_map, Function.comp_def]
    rw [this]
    exact h.world.gids.sublist (List.Sublist.map _ List.filter_sublist)

/-- **one poll reaches quiescence**: after a poll no exit is pending or parked -/
theorem C06_poll_quiescent (ops : List Op) (hwf : WfExitOnly ops) :
    let s := (ops ++ [Op.poll]).foldl (fun s o => (step s o).1) {}
    s.pending = [] ∧ s.reap = [] ∧ s.kill = [] := by
  simp only [List.foldl_append, List.foldl_cons, List.foldl_nil, step]
  obtain ⟨_, h2⟩ := Inv_poll _ _ (C06_invariant ops hwf)
  simp only [infl, List.append_eq_nil_iff, List.map_eq_nil_iff] at h2
  exact ⟨h2.1.1, h2.1.2, h2.2⟩

/-- the reference view with the exits in flight `D` not yet applied -/
def inFlightView (D : List Pid) (gw : List WJob) : List (Pid × List Pid × Bool) :=
  (gw.filter (fun wj => kept D wj ≠ [])).map fun wj => (wj.gid, kept D wj, false)

/-- **at any point** of a well-formed history the table is the set of the jobs with a process that is not gone or
whose exit is in flight, with exactly these pids, all Running (`gStep` is the reference world that keeps the
finished jobs: the reference `worldStep` forgets them at the next launch, the table may not have yet) -/
theorem C06_tracks_in_flight (ops : List Op) (hwf : WfExitOnly ops) :
    let s := ops.foldl (fun s o => (step s o).1) {}
    (modelView s).Perm (inFlightView (infl s s.pending) (ops.foldl gStep [])) := by
  intro s
  have h := C06_invariant ops hwf
  generalize ops.foldl gStep [] = gw at h
  have htr := h.tr
  have hwg := nodup_map_inj (fun (x : WJob) => x.gid) gw h.world.gids
  have nd1 : (modelView s).Nodup := by
    have : (modelView s).map (·.1) = s.jobs.map (·.gid) := by
      simp [modelView, List.map_map, Function.comp_def]
    have hn := htr.gids
    rw [← this] at hn
    exact List.Pairwise.of_map (·.1) (fun a b hab e => hab (by rw [e])) hn
  have nd2 : (inFlightView (infl s s.pending) gw).Nodup := by
    have : (inFlightView (infl s s.pending) gw).map (·.1) = (gw.filter (fun wj => kept (infl s s.pending) wj ≠ [])).map (·.gid) := by
      simp [inFlightView, List.map_map, Function.comp_def]
    have hn : ((gw.filter (fun wj => kept (infl s s.pending) wj ≠ [])).map (·.gid)).Nodup :=
      h.world.gids.sublist (List.Sublist.map _ List.filter_sublist)
    rw [← this] at hn
    exact List.Pairwise.of_map (·.1) (fun a b hab e => hab (by rw [e])) hn
  rw [List.perm_ext_iff_of_nodup nd1 nd2]
  intro x
  simp only [modelView, inFlightView, List.mem_map, List.mem_filter]
  constructor
  · rintro ⟨j, hj, rfl⟩
    obtain ⟨h1, h2, wj, h3, h4, h5⟩ := htr.sound j hj
    refine ⟨wj, ⟨h3, by rw [← h5]; simpa using h2⟩, ?_⟩
    rw [h4, h5, h1]
    rfl
  · rintro ⟨wj, ⟨hwj, hl⟩, rfl⟩
    obtain ⟨j, hj, hg⟩ := htr.complete wj hwj (by simpa using hl)
    obtain ⟨h1, h2, wj', h3, h4, h5⟩ := htr.sound j hj
    have : wj' = wj := hwg wj' h3 wj hwj (by rw [h4, hg])
    subst this
    refine ⟨j, hj, ?_⟩
    rw [hg, h5, h1]
    rfl

/-! ### non-vacuity -/

/-- three concurrent jobs and a fourth taking a freed id, eight processes, exits and kills interleaved with a
foreground wait (which parks the exit of another job's member) and two polls -/
def hExitOnly : List Op :=
  [.launch true 10 [10, 11, 12], .launch false 20 [20, 21], .ev (.exited 11 0), .ev (.killed 21 9),
   .launch true 30 [30], .ev (.exited 20 0), .waitFg 20 [20, 21], .poll, .ev (.exited 10 3),
   .launch true 40 [41, 40], .ev (.exited 30 0)]

example : WfExitOnly hExitOnly := by decide

/-- before the final poll two exits are in flight and the table still shows their pids … -/
example : modelView (hExitOnly.foldl (fun s o => (step s o).1) {}) =
    [(10, [10, 12], false), (40, [41, 40], false), (30, [30], false)] := by decide

/-- … after it the views agree (here even as lists) -/
example : modelView ((hExitOnly ++ [Op.poll]).foldl (fun s o => (step s o).1) {}) = [(10, [12], false), (40, [41, 40], false)] ∧
    specView ((hExitOnly ++ [Op.poll]).foldl worldStep []) = [(10, [12], false), (40, [41, 40], false)] := by decide

example : (modelView ((hExitOnly ++ [Op.poll]).foldl (fun s o => (step s o).1) {})).Perm
    (specView ((hExitOnly ++ [Op.poll]).foldl worldStep [])) := C06_refines_exit_only hExitOnly (by decide)

/-- a freed id is taken again: the table (by id) and the reference view (by launch) list the same jobs in a different order -/
def hOrder : List Op := [.launch true 10 [10], .launch true 20 [20], .ev (.exited 10 0), .poll, .launch true 30 [30], .poll]

theorem C06_view_order_differs : WfExitOnly hOrder ∧
    modelView (hOrder.foldl (fun s o => (step s o).1) {}) = [(30, [30], false), (20, [20], false)] ∧
    specView (hOrder.foldl worldStep []) = [(20, [20], false), (30, [30], false)] := by decide

/-! ### second class: stop / continue events, single-process background jobs -/

/-- the decidable well-formedness of the second class -/
def WfSingleStops (ops : List Op) : Prop := wfFrom1 [] [] ops = true

instance (ops : List Op) : Decidable (WfSingleStops ops) := by unfold WfSingleStops; infer_instance

theorem wfFrom1_append : ∀ (a b : List Op) (gw : List WJob) (d : List Pid),
    wfFrom1 gw d (a ++ b) = (wfFrom1 gw d a && wfFrom1 (a.foldl gStep gw) (a.foldl dirtyStep d) b) := by
  intro a
  induction a with
  | nil => intro b gw d; simp [wfFrom1]
  | cons o os ih => intro b gw d; simp [wfFrom1, ih, Bool.and_assoc]

/-- **C06 — refinement with stop and continue events, single-process background jobs**: after any history of launches of
one-process jobs, exit / kill / stop / continue notifications (at most one per process between two polls) and polls,
followed by one poll, the table is the reference view up to the order of the jobs: exactly the jobs whose process is not
gone, Stopped exactly when the process is stopped -/
theorem C06_refines_single_process_stops (ops : List Op) (hwf : WfSingleStops ops) :
    (modelView ((ops ++ [Op.poll]).foldl (fun s o => (step s o).1) {})).Perm (specView ((ops ++ [Op.poll]).foldl worldStep [])) := by
  have hwf' : wfFrom1 [] [] (ops ++ [Op.poll]) = true := by
    rw [wfFrom1_append]; simp [wfFrom1, okOp1]; exact hwf
  rw [specView_ghost1 _ hwf']
  simp only [List.foldl_append, List.foldl_cons, List.foldl_nil, step, gStep]
  have hinv := Inv1_run ops {} [] [] Inv1_init (fun p hp => nomatch hp) hwf
  obtain ⟨h1, h2⟩ := Inv1_poll _ _ hinv
  exact views_quiescent1 _ _ _ h1 h2

/-- three one-process jobs: stopped, continued, stopped again, killed while stopped, a freed id taken again -/
def hStops : List Op :=
  [.launch true 10 [10], .launch true 20 [20], .ev (.stopped 10 19), .ev (.stopped 20 20), .poll,
   .ev (.continued 10), .launch true 30 [30], .ev (.killed 20 9), .poll, .ev (.stopped 10 19), .ev (.exited 30 0),
   .launch true 40 [41], .poll, .ev (.stopped 41 19)]

example : WfSingleStops hStops := by decide

example : modelView ((hStops ++ [Op.poll]).foldl (fun s o => (step s o).1) {}) = [(10, [10], true), (40, [41], true)] ∧
    specView ((hStops ++ [Op.poll]).foldl worldStep []) = [(10, [10], true), (40, [41], true)] := by decide

example : (modelView ((hStops ++ [Op.poll]).foldl (fun s o => (step s o).1) {})).Perm
    (specView ((hStops ++ [Op.poll]).foldl worldStep [])) := C06_refines_single_process_stops hStops (by decide)

/-- the guard is sharp: the witness of KF-C06-parked-sets (a single-process job) is refused by it -/
example : ¬ WfSingleStops [.launch true 50 [50], .ev (.stopped 50 19), .ev (.continued 50)] := by decide

end Cicada.C06
