import Cicada.Lemmas.C15Sess
import Cicada.Thm.C15word
import Cicada.Thm.C14peg
/-!
# C15 / C14 — functions and `source` in the script-session model; function bodies in the interpreter model

Model facts first.  `Model/ScriptSess.lean` tracks, per session: the function table, the `set -e` flag, the log of markers
and the pending `exit`.  It has NO variables, aliases or working directory, and a call `.call f` carries NO arguments — the
only thing a sourced file can leave behind in it is function definitions (and markers).  Arguments live in the other model
(`Model/ScriptRun.lean`: `runLines sem args …`, `expandArgs args line` before every `run_command_line`), which in turn has
no function table.  So (a), (c) and the status half of (b) are stated on `ScriptSess`, the argument half of (b) and (d) on
`ScriptRun`, and `C15_function_body_sess` puts the two side by side where they overlap (straight-line bodies).
Helper vocabulary (`Lemmas/C15Sess.lean`, namespace `Cicada.C15.Sess`): `step` = what one statement does, `stopped` = the test
that ends a run, `bodyOf st f` = the body bound to `f`, `hoist` / `nondefs` = a file's definitions registered / its other lines.
Every statement carries the model's fuel explicitly (one unit per statement and per nesting level; `runMain` starts with 64).

(a) `source`
* `C15_source_defines` : when `source name` returns, every function defined (top level) in that file is bound to its body —
  whatever the file ran, however it ended, whatever was bound before.  Guard `UniqueBody files fn b` (all definitions of `fn`
  in the session's files have the body `b`, e.g. it is defined once); without it only "is bound" holds
  (`Sess.defined_monotone`), since a file sourced later may rebind the name.
* `C15_visible_persists` / `_file` : a bound function stays bound to that body through any run of statements / any `source`.
* `C15_source_persists_nested`, `C15_source_persists`, `C15_source_then_call` : every nesting depth: if the file reaches the
  definition through a chain of `source` lines (`Reaches`: each preceded, in its file, by succeeding commands only — an
  input-only way to say the line is executed), then after the outermost `source` line the function is bound, the rest of
  the sourcing script runs with it, and a call that follows runs exactly that body.
* `C15_source_status` : the status of `source f` is the status of the run of f's lines (1 if there is no such file).
(b) calls
* `C15_function_call_status` : the status of a call is the status of the run of the body (127 if unbound); `step_call`.
* `C15_status_last_executed` : what "the status of the run" is, for every list, state and fuel: the result of the LAST
  STATEMENT EXECUTED — the list splits into `pre` (all executed, none ended the run), `s` (its result is the run's) and
  `post` (not executed: empty, or `s` ended the run by `exit` / failure under `set -e`, or the fuel ended).
  `C15_status_last_stmt` : the common case.
* arguments (`ScriptRun`): `C15_function_body_flat` : a call `fn a b …` of a function with a straight-line body hands every
  line to `run_command_line` after `expandArgs (fn :: a :: b …)`, in order (`foldLines`; `set -e` included);
  `C15_function_args` : there `$0` = fn, `$1` = a, `$2` = b, `$@` = all, a missing one empty; `C15_function_line` : whole
  lines through `C15_tokens_full`; `C15_function_status_flat` / `C15_function_sete_flat` : the status kept.
(c) `exit`
* `C15_exit_in_function_or_source` (+ `C15_exit_in_function`, `C15_exit_in_source`) : if what a statement starts reaches
  `exit n` at any depth, the list holding the statement ends there with status `n`; nothing after it runs.
  `C15_exit_skips_rest`, `Sess.exit_status` (status `n` at every level), `C15_exit_ends_session` (`runMain` gives `n % 256`).
* `C15_exit_nested` : main → sourced file → function body, arbitrary succeeding prefixes and ARBITRARY statements after each
  of the three points: the session's status and the exact markers logged.
(d) C14
* `C14_function_body_refines` : `run_lines` on `render sm b` with the arguments of a call is no syntax error and ends in the
  state `semBlock b` gives (instance of `C14_script_end_to_end`; guard `okAst (fn :: as) b`: no positional reference in `b`).
* `C14_function_body_flat_args` : straight-line bodies WITH positional references: the run ends, in the state `semBlock`
  gives for the body with the arguments put in.
* `C15_function_body_sess` / `sess_refines_interp` : on straight-line bodies of commands / `set -e` / `exit` the interpreter
  model (under `sessSem`) and the session model compute the same state and status.
Missing for more (would need model changes, not done here): `SStmt.call` has no argument list and `St` no positional
parameters, so "`f a b` runs the body with `$1` = a" cannot be stated in `ScriptSess`; function bodies there are statement
lists, not text, and the model has no `if` / `for` / `while`, so `semBlock` of a structured body has no counterpart in it;
`ScriptRun` has no function table (`Sem.runLine` is opaque), so "a line that is a call runs `runLines` on the body" is not
in that model either; `C14_interpreter_refines` asks `expandArgs args l = l`, so structured bodies with positional
references are covered only when flat.
-/
namespace Cicada.C15
open Cicada.ScriptSess Cicada.C15.Sess

/-- every definition of `fn` standing in a file of the session has the body `b` (input-only; e.g. `fn` is defined once) -/
def UniqueBody (files : List (Str × List SStmt)) (fn : Str) (b : List SStmt) : Prop :=
  ∀ p ∈ files, ∀ b', SStmt.defn fn b' ∈ p.2 → b' = b

/-- a bound name stays bound -/
theorem defined_monotone (cfg : Cfg) (files : List (Str × List SStmt)) (fn : Str) (F : Nat) :
    (∀ l st last, (bodyOf st fn).isSome = true → (bodyOf (runStmts cfg files F l st last).1 fn).isSome = true) ∧
    (∀ name st, (bodyOf st fn).isSome = true → (bodyOf (runFile cfg files F name st).1 fn).isSome = true) := by
  apply run_invariant cfg files (fun st => (bodyOf st fn).isSome = true)
  · intro st x h; exact h
  · intro st b h; exact h
  · intro st n h; exact h
  · intro st g b _ h
    by_cases hg : g = fn
    · subst hg; rw [bodyOf_setFunc_same]; rfl
    · rw [bodyOf_setFunc_other _ _ _ _ hg]; exact h

/-- under `UniqueBody` a name is never bound to another body -/
theorem body_invariant (cfg : Cfg) (files : List (Str × List SStmt)) (fn : Str) (b : List SStmt) (hu : UniqueBody files fn b) (F : Nat) :
    (∀ l st last, (∀ b', bodyOf st fn = some b' → b' = b) → ∀ b', bodyOf (runStmts cfg files F l st last).1 fn = some b' → b' = b) ∧
    (∀ name st, (∀ b', bodyOf st fn = some b' → b' = b) → ∀ b', bodyOf (runFile cfg files F name st).1 fn = some b' → b' = b) := by
  apply run_invariant cfg files (fun st => ∀ b', bodyOf st fn = some b' → b' = b)
  · intro st x h; exact h
  · intro st b h; exact h
  · intro st n h; exact h
  · intro st g b1 hmem h
    by_cases hg : g = fn
    · subst hg
      obtain ⟨p, hp, hd⟩ := hmem
      intro b' hb'
      rw [bodyOf_setFunc_same] at hb'
      simp only [Option.some.injEq] at hb'
      rw [← hb']; exact hu p hp b1 hd
    · intro b' hb'
      rw [bodyOf_setFunc_other _ _ _ _ hg] at hb'
      exact h b' hb'

/-- **a visible function stays visible, with its body**, through any run of statements -/
theorem C15_visible_persists (cfg : Cfg) (files : List (Str × List SStmt)) (fn : Str) (b : List SStmt) (hu : UniqueBody files fn b)
    (F : Nat) (l : List SStmt) (st : St) (last : Nat) (h : bodyOf st fn = some b) :
    bodyOf (runStmts cfg files F l st last).1 fn = some b :=
  isSome_and_unique ((defined_monotone cfg files fn F).1 l st last (by rw [h]; rfl))
    ((body_invariant cfg files fn b hu F).1 l st last (by intro b' hb'; rw [h] at hb'; exact (Option.some.inj hb').symm))

/-- the same through any `source` -/
theorem C15_visible_persists_file (cfg : Cfg) (files : List (Str × List SStmt)) (fn : Str) (b : List SStmt) (hu : UniqueBody files fn b)
    (F : Nat) (name : Str) (st : St) (h : bodyOf st fn = some b) :
    bodyOf (runFile cfg files F name st).1 fn = some b :=
  isSome_and_unique ((defined_monotone cfg files fn F).2 name st (by rw [h]; rfl))
    ((body_invariant cfg files fn b hu F).2 name st (by intro b' hb'; rw [h] at hb'; exact (Option.some.inj hb').symm))

/-- **what a sourced file defines is in the table when the `source` returns** (whatever the file itself ran, sourced or
called in between, whether it ended by `exit`, by `set -e` or at its end; whatever was bound to the name before) -/
theorem C15_source_defines (cfg : Cfg) (files : List (Str × List SStmt)) (fn : Str) (b : List SStmt) (hu : UniqueBody files fn b)
    (F : Nat) (name nm : Str) (stmts : List SStmt) (st : St)
    (hfile : files.find? (·.1 = name) = some (nm, stmts)) (hdef : SStmt.defn fn b ∈ stmts) :
    bodyOf (runFile cfg files (F + 1) name st).1 fn = some b := by
  have hmem : (nm, stmts) ∈ files := List.mem_of_find?_eq_some hfile
  have hl : lastDef fn stmts = some b := by
    have h1 := lastDef_isSome fn b stmts hdef
    cases hld : lastDef fn stmts with
    | none => rw [hld] at h1; simp at h1
    | some b' => rw [hu _ hmem b' (lastDef_mem fn stmts b' hld)]
  have h0 : bodyOf { st with funcs := hoist st.funcs stmts } fn = some b := by rw [bodyOf_hoist, hl]; rfl
  have h1 := C15_visible_persists cfg files fn b hu F (nondefs stmts) _ 0 h0
  rw [runFile_succ, hfile]
  simp only
  split
  · exact h1
  · exact h1


/-! ### (c) `exit` at any depth -/

/-- **nothing after an `exit` runs**: if the run of `xs` ended with the shell exited (the `exit` may stand in `xs` itself, in a
function called from it or in a file sourced from it, at any depth), whatever follows `xs` is not run -/
theorem C15_exit_skips_rest (cfg : Cfg) (files : List (Str × List SStmt)) (F : Nat) (xs ys : List SStmt) (st : St) (last : Nat)
    (h : (runStmts cfg files F xs st last).1.exited.isSome = true) :
    runStmts cfg files F (xs ++ ys) st last = runStmts cfg files F xs st last := by
  by_cases hx : xs = []
  · subst hx
    rw [runStmts_nil] at h
    rw [List.nil_append, runStmts_nil, runStmts_exited _ _ _ _ _ _ h]
  · rw [runStmts_append cfg files xs hx, if_pos (by simp [stopped, h])]

/-- **`exit N` inside a function body or a sourced file ends the whole run with status `N`**: if what the statement `s`
starts (a function body, a sourced file, and whatever these call or source in turn) reaches `exit n`, then the list holding
`s` ends there — nothing of `rest` runs — and its status is `n`.  The statement holds at every level (it is about any `runStmts`),
so the enclosing levels end in the same way (`exit_status`, `C15_exit_ends_session`). -/
theorem C15_exit_in_function_or_source (cfg : Cfg) (files : List (Str × List SStmt)) (F : Nat) (s : SStmt) (rest : List SStmt)
    (st : St) (last n : Nat) (h0 : st.exited = none) (hx : (step cfg files F s st last).1.exited = some n) :
    runStmts cfg files (F + 1) (s :: rest) st last = ((step cfg files F s st last).1, n) := by
  have he : ¬ st.exited.isSome = true := by simp [h0]
  have hs : stopped (step cfg files F s st last) = true := by simp [stopped, hx]
  rw [runStmts_cons, if_neg he, if_pos hs]
  have h1 : (runStmts cfg files (F + 1) [s] st last) = step cfg files F s st last := by
    rw [runStmts_cons, if_neg he, if_pos hs]
  have := (exit_status cfg files n (F + 1)).1 [s] st last h0 (by rw [h1]; exact hx)
  rw [h1] at this
  rw [← this]

/-- a call whose body reaches `exit n` (directly or deeper) -/
theorem C15_exit_in_function (cfg : Cfg) (files : List (Str × List SStmt)) (F : Nat) (fn : Str) (body rest : List SStmt)
    (st : St) (last n : Nat) (h0 : st.exited = none) (hf : bodyOf st fn = some body)
    (hx : (runStmts cfg files F body st 0).1.exited = some n) :
    (runStmts cfg files (F + 1) (.call fn :: rest) st last).2 = n ∧
    (runStmts cfg files (F + 1) (.call fn :: rest) st last).1.exited = some n ∧
    (runStmts cfg files (F + 1) (.call fn :: rest) st last).1.trace = (runStmts cfg files F body st 0).1.trace := by
  have hfind : ∃ g, st.funcs.find? (·.1 = fn) = some (g, body) := by
    simp only [bodyOf] at hf
    cases hh : st.funcs.find? (·.1 = fn) with
    | none => rw [hh] at hf; simp at hf
    | some x => rw [hh] at hf; simp at hf; exact ⟨x.1, by rw [← hf]⟩
  obtain ⟨g, hg⟩ := hfind
  have hstep : (step cfg files F (.call fn) st last).1.exited = some n ∧
      (step cfg files F (.call fn) st last).1.trace = (runStmts cfg files F body st 0).1.trace := by
    simp only [step, hg]
    split <;> exact ⟨hx, rfl⟩
  rw [C15_exit_in_function_or_source cfg files F _ rest st last n h0 hstep.1]
  exact ⟨rfl, hstep.1, hstep.2⟩

/-- a `source` whose file reaches `exit n` (directly or deeper) -/
theorem C15_exit_in_source (cfg : Cfg) (files : List (Str × List SStmt)) (F : Nat) (name : Str) (rest : List SStmt)
    (st : St) (last n : Nat) (h0 : st.exited = none)
    (hx : (runFile cfg files F name st).1.exited = some n) :
    (runStmts cfg files (F + 1) (.source name :: rest) st last).2 = n ∧
    (runStmts cfg files (F + 1) (.source name :: rest) st last).1.exited = some n ∧
    (runStmts cfg files (F + 1) (.source name :: rest) st last).1.trace = (runFile cfg files F name st).1.trace := by
  have hstep : (step cfg files F (.source name) st last).1.exited = some n ∧
      (step cfg files F (.source name) st last).1.trace = (runFile cfg files F name st).1.trace := by
    simp only [step]
    split <;> exact ⟨hx, rfl⟩
  rw [C15_exit_in_function_or_source cfg files F _ rest st last n h0 hstep.1]
  exact ⟨rfl, hstep.1, hstep.2⟩

/-- the session ends with the status given to `exit` (mod 256), whatever the depth it was reached at -/
theorem C15_exit_ends_session (cfg : Cfg) (files : List (Str × List SStmt)) (main : Str) (n : Nat)
    (hx : (runFile cfg files 64 main {}).1.exited = some n) :
    runMain cfg files main = (n % 256, (runFile cfg files 64 main {}).1.trace) := by
  simp only [runMain, hx]


/-! ### `source` at every nesting depth -/

/-- `Reaches files fn b k name`: sourcing `name` certainly gets to a definition of `fn` with body `b`, through a chain of
`source` lines each preceded (in its file) by succeeding commands only; `k` bounds the fuel needed -/
inductive Reaches (files : List (Str × List SStmt)) (fn : Str) (b : List SStmt) : Nat → Str → Prop
  | here (name nm : Str) (stmts : List SStmt) :
      files.find? (·.1 = name) = some (nm, stmts) → SStmt.defn fn b ∈ stmts → Reaches files fn b 1 name
  | via (name nm : Str) (stmts pre : List SStmt) (next : Str) (post : List SStmt) (k : Nat) :
      files.find? (·.1 = name) = some (nm, stmts) → nondefs stmts = pre ++ SStmt.source next :: post →
      pre.all okStage = true → Reaches files fn b k next → Reaches files fn b (k + pre.length + 2) name

/-- **a definition made by a sourced file, at any nesting depth of `source`, is in the table when the outermost `source` returns** -/
theorem C15_source_persists_nested (cfg : Cfg) (files : List (Str × List SStmt)) (fn : Str) (b : List SStmt) (hu : UniqueBody files fn b)
    (k : Nat) (name : Str) (hr : Reaches files fn b k name) :
    ∀ (F : Nat), k ≤ F → ∀ (st : St), st.exited = none → bodyOf (runFile cfg files F name st).1 fn = some b := by
  induction hr with
  | here name nm stmts hfile hdef =>
    intro F hF st _
    obtain ⟨f, rfl⟩ : ∃ f, F = f + 1 := ⟨F - 1, by omega⟩
    exact C15_source_defines cfg files fn b hu f name nm stmts st hfile hdef
  | via name nm stmts pre next post k hfile hsplit hpre _ ih =>
    intro F hF st h0
    obtain ⟨f, rfl⟩ : ∃ f, F = f + 1 := ⟨F - 1, by omega⟩
    have key : bodyOf (runStmts cfg files f (nondefs stmts) { st with funcs := hoist st.funcs stmts } 0).1 fn = some b := by
      rw [hsplit, run_okStages cfg files pre hpre f _ { st with funcs := hoist st.funcs stmts } h0 (by omega)]
      obtain ⟨g, hg⟩ : ∃ g, f - pre.length = g + 1 := ⟨f - pre.length - 1, by omega⟩
      rw [hg, runStmts_cons]
      simp only [h0, Option.isSome_none, Bool.false_eq_true, ↓reduceIte]
      have hstep : bodyOf (step cfg files g (.source next)
          { funcs := hoist st.funcs stmts, sete := st.sete, trace := st.trace ++ markers pre, exited := none } 0).1 fn = some b := by
        have := ih g (by omega) { funcs := hoist st.funcs stmts, sete := st.sete, trace := st.trace ++ markers pre, exited := none } rfl
        simp only [step]
        split
        · exact this
        · exact this
      split
      · exact hstep
      · exact C15_visible_persists cfg files fn b hu g post _ _ hstep
    rw [runFile_succ, hfile]
    simp only
    split
    · exact key
    · exact key

/-! ### statuses -/

/-- **the status of `source f` is the status of the run of the lines of `f`** (1 if there is no such file) -/
theorem C15_source_status (cfg : Cfg) (files : List (Str × List SStmt)) (F : Nat) (name : Str) (st : St) (last : Nat) :
    (step cfg files (F + 1) (.source name) st last).2 =
      match files.find? (·.1 = name) with
      | some (_, stmts) => (runStmts cfg files F (nondefs stmts) { st with funcs := hoist st.funcs stmts } 0).2
      | none => 1 := by
  simp only [step, runFile_succ]
  cases files.find? (·.1 = name) with
  | none => rfl
  | some p => rfl

/-- **the status of a call is the status of the run of the body** (127 if the name is not bound) -/
theorem C15_function_call_status (cfg : Cfg) (files : List (Str × List SStmt)) (F : Nat) (fn : Str) (st : St) (last : Nat) :
    (step cfg files F (.call fn) st last).2 =
      match bodyOf st fn with
      | some body => (runStmts cfg files F body st 0).2
      | none => 127 := by
  simp only [step, bodyOf]
  split
  · rename_i g body h; rw [h]; rfl
  · rename_i h; rw [h]; rfl

/-- what a call does: the body bound to the name, run in the caller's state (the session model has no arguments) -/
theorem step_call (cfg : Cfg) (files : List (Str × List SStmt)) (F : Nat) (fn : Str) (body : List SStmt) (st : St) (last : Nat)
    (h : bodyOf st fn = some body) :
    step cfg files F (.call fn) st last =
      (if cfg.clearAfterCall then { (runStmts cfg files F body st 0).1 with sete := false } else (runStmts cfg files F body st 0).1,
       (runStmts cfg files F body st 0).2) := by
  simp only [bodyOf] at h
  cases hh : st.funcs.find? (·.1 = fn) with
  | none => rw [hh] at h; simp at h
  | some x =>
    rw [hh] at h
    simp only [Option.map_some, Option.some.injEq] at h
    simp only [step, hh, h]

/-- **the status of a run is the status of the last statement executed**: either nothing was executed (empty list, no fuel,
shell already exited) and the status is the one handed in, or the list splits into `pre` (all executed, none of them ended
the run), `s` (executed: its result is the result of the run) and `post` (not executed: there is none, or `s` ended the run by
`exit` / a failure under `set -e`, or the model's fuel ended) -/
theorem C15_status_last_executed (cfg : Cfg) (files : List (Str × List SStmt)) : ∀ (l : List SStmt) (F : Nat) (st : St) (last : Nat),
    ((l = [] ∨ F = 0 ∨ st.exited.isSome = true) ∧ runStmts cfg files F l st last = (st, last)) ∨
    ∃ pre s post stp lp, l = pre ++ s :: post ∧ pre.length < F ∧ runStmts cfg files F pre st last = (stp, lp) ∧ stp.exited = none ∧
      (pre = [] ∨ stopped (stp, lp) = false) ∧
      runStmts cfg files F l st last = step cfg files (F - pre.length - 1) s stp lp ∧
      (post = [] ∨ stopped (step cfg files (F - pre.length - 1) s stp lp) = true ∨ F = pre.length + 1) := by
  intro l
  induction l with
  | nil => intro F st last; exact .inl ⟨.inl rfl, runStmts_nil ..⟩
  | cons x l' ih =>
    intro F st last
    cases F with
    | zero => exact .inl ⟨.inr (.inl rfl), runStmts_zero ..⟩
    | succ f =>
      by_cases he : st.exited.isSome = true
      · exact .inl ⟨.inr (.inr he), runStmts_exited _ _ _ _ _ _ he⟩
      · have h0 : st.exited = none := by simpa using he
        right
        by_cases hs : stopped (step cfg files f x st last) = true
        · refine ⟨[], x, l', st, last, rfl, by simp, runStmts_nil .., h0, .inl rfl, ?_, .inr (.inl (by simpa using hs))⟩
          rw [runStmts_cons, if_neg he, if_pos hs]; simp
        · have hrun : ∀ rest, runStmts cfg files (f + 1) (x :: rest) st last =
              runStmts cfg files f rest (step cfg files f x st last).1 (step cfg files f x st last).2 := by
            intro rest; rw [runStmts_cons, if_neg he, if_neg hs]
          rcases ih f (step cfg files f x st last).1 (step cfg files f x st last).2 with ⟨hc, hr⟩ | ⟨pre, s, post, stp, lp, hl, hlen, hpre, hex, hns, hres, hpost⟩
          · refine ⟨[], x, l', st, last, rfl, by simp, runStmts_nil .., h0, .inl rfl, ?_, ?_⟩
            · rw [hrun, hr]; simp
            · rcases hc with hc | hc | hc
              · exact .inl hc
              · exact .inr (.inr (by simp [hc]))
              · exfalso; apply hs; simp [stopped, hc]
          · refine ⟨x :: pre, s, post, stp, lp, by rw [hl]; rfl, by simp; omega, by rw [hrun, hpre], hex, .inr ?_, ?_, ?_⟩
            · rcases hns with hp | hp
              · subst hp
                rw [runStmts_nil] at hpre
                rw [← hpre]
                simpa using hs
              · exact hp
            · rw [hrun, hres]
              simp [Nat.add_sub_add_right]
            · simp only [List.length_cons, Nat.add_sub_add_right]
              rcases hpost with hp | hp | hp
              · exact .inl hp
              · exact .inr (.inl hp)
              · exact .inr (.inr (by omega))

/-- the last statement of a list whose other statements did not end the run gives the status -/
theorem C15_status_last_stmt (cfg : Cfg) (files : List (Str × List SStmt)) (F : Nat) (xs : List SStmt) (s : SStmt) (st : St) (last : Nat)
    (hF : xs.length < F) (h0 : st.exited = none) (hns : xs = [] ∨ stopped (runStmts cfg files F xs st last) = false) :
    runStmts cfg files F (xs ++ [s]) st last =
      step cfg files (F - xs.length - 1) s (runStmts cfg files F xs st last).1 (runStmts cfg files F xs st last).2 := by
  obtain ⟨g, hg⟩ : ∃ g, F - xs.length = g + 1 := ⟨F - xs.length - 1, by omega⟩
  by_cases hx : xs = []
  · subst hx
    simp only [List.length_nil, Nat.sub_zero] at hg
    rw [List.nil_append, runStmts_nil, hg, runStmts_single _ _ _ _ _ _ h0]; simp
  · have hns' : stopped (runStmts cfg files F xs st last) = false := by
      rcases hns with h | h
      · exact absurd h hx
      · exact h
    rw [runStmts_append cfg files xs hx, hns']
    simp only [Bool.false_eq_true, ↓reduceIte]
    have he : (runStmts cfg files F xs st last).1.exited = none := by
      simp only [stopped, Bool.or_eq_false_iff] at hns'
      simpa using hns'.1
    rw [hg, runStmts_single _ _ _ _ _ _ he]
    simp

/-- **`source`: what the file defined is visible to what follows the `source` line**, whatever the nesting depth of the
`source` that made the definition (`Reaches`); `r` is what the `source` line returned -/
theorem C15_source_persists (cfg : Cfg) (files : List (Str × List SStmt)) (fn : Str) (b : List SStmt) (hu : UniqueBody files fn b)
    (k : Nat) (name : Str) (hr : Reaches files fn b k name) (F : Nat) (hF : k ≤ F) (rest : List SStmt) (st : St) (last : Nat)
    (h0 : st.exited = none) :
    bodyOf (step cfg files F (.source name) st last).1 fn = some b ∧
    runStmts cfg files (F + 1) (.source name :: rest) st last =
      (if stopped (step cfg files F (.source name) st last) then step cfg files F (.source name) st last
       else runStmts cfg files F rest (step cfg files F (.source name) st last).1 (step cfg files F (.source name) st last).2) ∧
    bodyOf (runStmts cfg files (F + 1) (.source name :: rest) st last).1 fn = some b := by
  have h1 : bodyOf (step cfg files F (.source name) st last).1 fn = some b := by
    have := C15_source_persists_nested cfg files fn b hu k name hr F hF st h0
    simp only [step]
    split
    · exact this
    · exact this
  have h2 : runStmts cfg files (F + 1) (.source name :: rest) st last =
      (if stopped (step cfg files F (.source name) st last) then step cfg files F (.source name) st last
       else runStmts cfg files F rest (step cfg files F (.source name) st last).1 (step cfg files F (.source name) st last).2) := by
    rw [runStmts_cons]; simp [h0]
  refine ⟨h1, h2, ?_⟩
  rw [h2]
  split
  · exact h1
  · exact C15_visible_persists cfg files fn b hu F rest _ _ h1

/-- `source name; fn; …`: the call that follows the `source` runs the body the sourced file (or one it sourced) defined -/
theorem C15_source_then_call (cfg : Cfg) (files : List (Str × List SStmt)) (fn : Str) (b : List SStmt) (hu : UniqueBody files fn b)
    (k : Nat) (name : Str) (hr : Reaches files fn b k name) (F : Nat) (hF : k ≤ F + 1) (rest : List SStmt) (st : St) (last : Nat)
    (h0 : st.exited = none) (hns : stopped (step cfg files (F + 1) (.source name) st last) = false) :
    runStmts cfg files (F + 2) (.source name :: .call fn :: rest) st last =
      runStmts cfg files (F + 1) (.call fn :: rest) (step cfg files (F + 1) (.source name) st last).1 (step cfg files (F + 1) (.source name) st last).2 ∧
    step cfg files F (.call fn) (step cfg files (F + 1) (.source name) st last).1 (step cfg files (F + 1) (.source name) st last).2 =
      (if cfg.clearAfterCall then { (runStmts cfg files F b (step cfg files (F + 1) (.source name) st last).1 0).1 with sete := false }
        else (runStmts cfg files F b (step cfg files (F + 1) (.source name) st last).1 0).1,
       (runStmts cfg files F b (step cfg files (F + 1) (.source name) st last).1 0).2) := by
  obtain ⟨h1, h2, _⟩ := C15_source_persists cfg files fn b hu k name hr (F + 1) hF (.call fn :: rest) st last h0
  refine ⟨?_, step_call cfg files F fn b _ _ h1⟩
  rw [h2, hns]; simp

/-! ### `exit` three levels down: main script → sourced file → function body -/

/-- a body `pre…; exit n; post…` with succeeding commands before the `exit` -/
theorem exit_body (cfg : Cfg) (files : List (Str × List SStmt)) (preF postF : List SStmt) (n : Nat) (hF : preF.all okStage = true)
    (F : Nat) (st : St) (h0 : st.exited = none) (hlen : preF.length < F) :
    runStmts cfg files F (preF ++ .exit n :: postF) st 0 = ({ st with trace := st.trace ++ markers preF, exited := some n }, n) := by
  rw [run_okStages cfg files preF hF F _ st h0 (by omega)]
  obtain ⟨g, hg⟩ : ∃ g, F - preF.length = g + 1 := ⟨F - preF.length - 1, by omega⟩
  rw [hg, C15_exit_immediate cfg files g n postF { st with trace := st.trace ++ markers preF } 0 h0]

theorem exit_call (cfg : Cfg) (files : List (Str × List SStmt)) (f : Str) (preA postA preF postF : List SStmt) (n : Nat)
    (hA : preA.all okStage = true) (hF : preF.all okStage = true)
    (F : Nat) (st : St) (h0 : st.exited = none) (hf : bodyOf st f = some (preF ++ .exit n :: postF))
    (hlen : preA.length + preF.length + 1 < F) :
    (runStmts cfg files F (preA ++ .call f :: postA) st 0).2 = n ∧
    (runStmts cfg files F (preA ++ .call f :: postA) st 0).1.exited = some n ∧
    (runStmts cfg files F (preA ++ .call f :: postA) st 0).1.trace = st.trace ++ markers preA ++ markers preF := by
  rw [run_okStages cfg files preA hA F _ st h0 (by omega)]
  obtain ⟨g, hg⟩ : ∃ g, F - preA.length = g + 1 := ⟨F - preA.length - 1, by omega⟩
  rw [hg]
  have hb := exit_body cfg files preF postF n hF g { st with trace := st.trace ++ markers preA } h0 (by omega)
  have := C15_exit_in_function cfg files g f _ postA { st with trace := st.trace ++ markers preA } 0 n h0 hf (by rw [hb])
  rw [hb] at this
  exact this

theorem exit_file (cfg : Cfg) (files : List (Str × List SStmt)) (a nmA f : Str) (stmtsA preA postA preF postF : List SStmt) (n : Nat)
    (hfile : files.find? (·.1 = a) = some (nmA, stmtsA)) (hAs : nondefs stmtsA = preA ++ .call f :: postA)
    (hf : lastDef f stmtsA = some (preF ++ .exit n :: postF))
    (hA : preA.all okStage = true) (hF : preF.all okStage = true)
    (F : Nat) (st : St) (h0 : st.exited = none) (hlen : preA.length + preF.length + 2 < F) :
    (runFile cfg files F a st).2 = n ∧ (runFile cfg files F a st).1.exited = some n ∧
    (runFile cfg files F a st).1.trace = st.trace ++ markers preA ++ markers preF := by
  obtain ⟨g, rfl⟩ : ∃ g, F = g + 1 := ⟨F - 1, by omega⟩
  have hl : bodyOf { st with funcs := hoist st.funcs stmtsA } f = some (preF ++ .exit n :: postF) := by
    rw [bodyOf_hoist, hf]; rfl
  have := exit_call cfg files f preA postA preF postF n hA hF g { st with funcs := hoist st.funcs stmtsA } h0 hl (by omega)
  rw [← hAs] at this
  rw [runFile_succ, hfile]
  simp only
  split <;> exact this

/-- **`exit n` in a function called from a sourced file ends the session**: the main script sources `a` after the succeeding
commands `preM`, `a` calls `f` after `preA`, the body of `f` reaches `exit n` after `preF`.  Nothing of `postF`, `postA`, `postM`
(arbitrary statements) runs; the session's status is `n` (mod 256) -/
theorem C15_exit_nested (cfg : Cfg) (files : List (Str × List SStmt)) (m nmM a nmA f : Str)
    (stmtsM stmtsA preM postM preA postA preF postF : List SStmt) (n : Nat)
    (hM : files.find? (·.1 = m) = some (nmM, stmtsM)) (hMs : nondefs stmtsM = preM ++ .source a :: postM)
    (hA : files.find? (·.1 = a) = some (nmA, stmtsA)) (hAs : nondefs stmtsA = preA ++ .call f :: postA)
    (hf : lastDef f stmtsA = some (preF ++ .exit n :: postF))
    (hpM : preM.all okStage = true) (hpA : preA.all okStage = true) (hpF : preF.all okStage = true)
    (hlen : preM.length + preA.length + preF.length ≤ 59) :
    runMain cfg files m = (n % 256, markers preM ++ markers preA ++ markers preF) := by
  have hrun : (runStmts cfg files 63 (nondefs stmtsM) { funcs := hoist [] stmtsM } 0).1.exited = some n ∧
      (runStmts cfg files 63 (nondefs stmtsM) { funcs := hoist [] stmtsM } 0).1.trace = markers preM ++ markers preA ++ markers preF := by
    rw [hMs, run_okStages cfg files preM hpM 63 _ _ rfl (by omega)]
    obtain ⟨g, hg⟩ : ∃ g, 63 - preM.length = g + 1 := ⟨63 - preM.length - 1, by omega⟩
    rw [hg]
    have hx := exit_file cfg files a nmA f stmtsA preA postA preF postF n hA hAs hf hpA hpF g
      { funcs := hoist [] stmtsM, trace := [] ++ markers preM } rfl (by omega)
    have := C15_exit_in_source cfg files g a postM { funcs := hoist [] stmtsM, trace := [] ++ markers preM } 0 n rfl hx.2.1
    refine ⟨this.2.1, ?_⟩
    rw [this.2.2, hx.2.2]; simp
  have hfile : (runFile cfg files 64 m {}).1.exited = some n ∧
      (runFile cfg files 64 m {}).1.trace = markers preM ++ markers preA ++ markers preF := by
    rw [runFile_succ, hM]
    simp only
    split <;> exact hrun
  rw [C15_exit_ends_session cfg files m n hfile.1, hfile.2]

/-! ### non-vacuity -/

/-- main: `1; source a; f; 9` — a: `2; source b; 3` — b: `function f { 7 (status 4) }` -/
def exFiles : List (Str × List SStmt) :=
  [("m".toList, [.stage 1 0, .source "a".toList, .call "f".toList, .stage 9 0]),
   ("a".toList, [.stage 2 0, .source "b".toList, .stage 3 0]),
   ("b".toList, [.defn "f".toList [.stage 7 4]])]

theorem exFiles_unique : UniqueBody exFiles "f".toList [.stage 7 4] := by
  intro p hp b' hb'
  simp only [exFiles, List.mem_cons, List.mem_nil_iff, or_false] at hp
  rcases hp with rfl | rfl | rfl <;> simp at hb'
  exact hb'

theorem exFiles_reaches : Reaches exFiles "f".toList [.stage 7 4] 4 "a".toList :=
  .via "a".toList "a".toList [.stage 2 0, .source "b".toList, .stage 3 0] [.stage 2 0] "b".toList [.stage 3 0] 1 rfl rfl rfl
    (.here "b".toList "b".toList [.defn "f".toList [.stage 7 4]] rfl (by simp))

/-- the hypotheses of `C15_source_persists` hold for the `source a` line of `m` (the definition is made two levels down) … -/
example (cfg : Cfg) (st : St) (last : Nat) (h0 : st.exited = none) :
    bodyOf (step cfg exFiles 10 (.source "a".toList) st last).1 "f".toList = some [.stage 7 4] :=
  (C15_source_persists cfg exFiles _ _ exFiles_unique 4 _ exFiles_reaches 10 (by omega) [] st last h0).1

/-- … and the session runs the body after the `source`, its status (4) being the status of the call; the last command gives the session's -/
example : runMain {} exFiles "m".toList = (0, [(1, 0), (2, 0), (3, 0), (7, 4), (9, 0)]) := by decide

example : runMain {} [("m".toList, [.source "a".toList]), ("a".toList, [.stage 1 0, .stage 2 5])] "m".toList = (5, [(1, 0), (2, 5)]) := by decide

example : runMain {} [("m".toList, [.defn "f".toList [.stage 1 0, .stage 2 5], .call "f".toList])] "m".toList = (5, [(1, 0), (2, 5)]) := by decide

/-- `C15_exit_nested` on a concrete session: `1; source a; 9` — a: `function f { 3; exit 300; 4 }; 2; f; 8` -/
example : runMain {} [("m".toList, [.stage 1 0, .source "a".toList, .stage 9 0]),
      ("a".toList, [.defn "f".toList [.stage 3 0, .exit 300, .stage 4 0], .stage 2 0, .call "f".toList, .stage 8 0])] "m".toList
    = (44, [(1, 0), (2, 0), (3, 0)]) :=
  C15_exit_nested {} _ "m".toList "m".toList "a".toList "a".toList "f".toList
    [.stage 1 0, .source "a".toList, .stage 9 0]
    [.defn "f".toList [.stage 3 0, .exit 300, .stage 4 0], .stage 2 0, .call "f".toList, .stage 8 0]
    [.stage 1 0] [.stage 9 0] [.stage 2 0] [.stage 8 0] [.stage 3 0] [.stage 4 0] 300
    rfl rfl rfl rfl rfl rfl rfl rfl (by decide)

/-- `C15_status_last_executed`, second alternative: under `set -e` the failing command is the last one executed -/
example : runStmts {} [] 9 [.sete, .stage 1 0, .stage 2 3, .stage 4 0] {} 0 =
    step {} [] 6 (.stage 2 3) (runStmts {} [] 9 [.sete, .stage 1 0] {} 0).1 (runStmts {} [] 9 [.sete, .stage 1 0] {} 0).2 := by rfl

end Cicada.C15

/-! ## (b), (d) function bodies in the interpreter model (`Model/ScriptRun.lean`) -/
namespace Cicada.C15
open Cicada Cicada.Locust Cicada.C14

/-- the argument list `run_lines` gets for a call `fn a b …` (`try_run_func` passes `["cicada", fn, a, b, …]`, and
`run_exp` drops the first entry before `expand_args`): `$0` is the function's name -/
def callArgs (fn : Str) (as : List Str) : List Str := fn :: as

/-- a straight-line body, the way `run_exp` goes through it: every line is handed to `run_command_line` after the
positional parameters have been put in; the status kept is that of the last line that ran something; under `set -e`
(`exit_on_error`) the first failing line is the last one -/
def foldLines {σ} (sem : Sem σ) (args : List Str) : List Str → σ → Option Int → σ × Option Int
  | [], st, last => (st, last)
  | l :: ls, st, last =>
    let r := sem.runLine st (expandArgs args l)
    let last' := match r.2 with
      | some x => some x
      | none => last
    match last' with
    | some s => if s ≠ 0 ∧ sem.exitOnError r.1 then (r.1, last') else foldLines sem args ls r.1 last'
    | none => foldLines sem args ls r.1 last'

/-- a line of a straight-line body: plain (no line break, visible first and last character), not starting like a keyword
of the grammar, not `break` / `continue` -/
def bodyLineOk (l : Str) : Bool := plainB l && notKwB l && (l != "break".toList) && (l != "continue".toList)

theorem runExp_flat {σ} (sem : Sem σ) (args : List Str) : ∀ (ls : List Str), (∀ l ∈ ls, bodyLineOk l = true) →
    ∀ (f : Nat) (inLoop : Bool) (st : σ) (last : Option Int), ls.length < f →
    runExp sem args f (ls.map (fun l => PT.node "CMD" (l ++ ['\n']) [])) inLoop st last =
      .ok { st := (foldLines sem args ls st last).1, last := (foldLines sem args ls st last).2 } := by
  obtain ⟨rl, sv, w, eoe⟩ := sem
  intro ls
  induction ls with
  | nil =>
    intro _ f inLoop st last hf
    obtain ⟨g, rfl⟩ : ∃ g, f = g + 1 := ⟨f - 1, by simp at hf; omega⟩
    simp [runExp, foldLines]
  | cons l ls ih =>
    intro hok f inLoop st last hf
    obtain ⟨g, rfl⟩ : ∃ g, f = g + 1 := ⟨f - 1, by simp at hf; omega⟩
    have hl := hok l (by simp)
    simp only [bodyLineOk, Bool.and_eq_true, bne_iff_ne, ne_eq] at hl
    obtain ⟨⟨⟨hp, _⟩, hb⟩, hc⟩ := hl
    have hplain := plain_of_plainB hp
    have ht : trim (l ++ ['\n']) = l := hplain.trim_line
    have hne : l ≠ [] := hplain.ne_nil
    have ih' := ih (fun x hx => hok x (List.mem_cons_of_mem _ hx)) g inLoop
    simp only [List.map_cons, runExp, PT.text, PT.rule, ht, hne, hb, hc, ↓reduceIte]
    simp only [foldLines]
    have hlen : ls.length < g := by simp at hf; omega
    generalize rl st (expandArgs args l) = r
    obtain ⟨r1, r2⟩ := r
    have fin : ∀ (o : Option Int),
        (match o with
          | some s => if s ≠ 0 ∧ eoe r1 = true then Outcome.ok { st := r1, last := o }
              else runExp { runLine := rl, setVar := sv, words := w, exitOnError := eoe } args g
                (List.map (fun l => PT.node "CMD" (l ++ ['\n']) []) ls) inLoop r1 o
          | none => runExp { runLine := rl, setVar := sv, words := w, exitOnError := eoe } args g
                (List.map (fun l => PT.node "CMD" (l ++ ['\n']) []) ls) inLoop r1 o) =
        Outcome.ok
          { st := (match o with
              | some s => if s ≠ 0 ∧ eoe r1 = true then (r1, o)
                  else foldLines { runLine := rl, setVar := sv, words := w, exitOnError := eoe } args ls r1 o
              | none => foldLines { runLine := rl, setVar := sv, words := w, exitOnError := eoe } args ls r1 o).1,
            last := (match o with
              | some s => if s ≠ 0 ∧ eoe r1 = true then (r1, o)
                  else foldLines { runLine := rl, setVar := sv, words := w, exitOnError := eoe } args ls r1 o
              | none => foldLines { runLine := rl, setVar := sv, words := w, exitOnError := eoe } args ls r1 o).2 } := by
      intro o
      cases o with
      | none => simp only [ih' _ _ hlen]
      | some s =>
        simp only
        split
        · rfl
        · simp only [ih' _ _ hlen]
    cases r2 with
    | none => exact fin last
    | some x => exact fin (some x)

/-- **a call `fn a b …` of a function with a straight-line body** (`run_lines` on the body's text with the argument list
`fn :: a :: b :: …`): the body is no syntax error, and every line is handed to `run_command_line`, in order, after
`expandArgs (fn :: a :: b …)`; the status kept is that of the last line that ran something -/
theorem C15_function_body_flat {σ} (sem : Sem σ) (fn : Str) (as : List Str) (sm : Bool) (ls : List Str)
    (hok : ∀ l ∈ ls, bodyLineOk l = true) (F : Nat) (hF : ls.length < F) (st : σ) :
    runLines sem (callArgs fn as) F (C14.render sm (C14.flat ls)) st =
      .ok (some { st := (foldLines sem (fn :: as) ls st none).1, last := (foldLines sem (fn :: as) ls st none).2 }) := by
  have hp : ∀ l ∈ ls, plainB l = true ∧ notKwB l = true := by
    intro l hl
    have := hok l hl
    simp only [bodyLineOk, Bool.and_eq_true] at this
    exact ⟨this.1.1.1, this.1.1.2⟩
  unfold runLines
  rw [C14_parse_render_flat sm ls hp]
  simp only [PT.kids, callArgs]
  rw [runExp_flat sem (fn :: as) ls hok F false st none hF]
  rfl

/-- **`$0` is the function's name, `$1`, `$2` the first and second argument, `$@` all arguments, a missing one is empty** -/
theorem C15_function_args (fn a b : Str) (rest : List Str) :
    argValue (callArgs fn (a :: b :: rest)) "0".toList = fn ∧
    argValue (callArgs fn (a :: b :: rest)) "1".toList = a ∧
    argValue (callArgs fn (a :: b :: rest)) "2".toList = b ∧
    argValue (callArgs fn (a :: b :: rest)) "@".toList = joinWith [' '] (a :: b :: rest) ∧
    argValue (callArgs fn [a, b]) "3".toList = [] := by
  have h0 : parseUsize "0".toList = some 0 := by decide
  have h1 : parseUsize "1".toList = some 1 := by decide
  have h2 : parseUsize "2".toList = some 2 := by decide
  have h3 : parseUsize "3".toList = some 3 := by decide
  refine ⟨?_, ?_, ?_, ?_, ?_⟩
  · rw [C15_index _ _ 0 h0 (by simp [callArgs]) (by decide)]; rfl
  · rw [C15_index _ _ 1 h1 (by simp [callArgs]) (by decide)]; rfl
  · rw [C15_index _ _ 2 h2 (by simp [callArgs]) (by decide)]; rfl
  · rw [show "@".toList = ['@'] from rfl, C15_all]; rfl
  · exact C15_missing_is_empty _ _ 3 h3 (by simp [callArgs]) (by decide)

/-- a body line whose tokens are well-formed words: what `run_command_line` receives in a call `fn a b …` is the line
re-rendered with every `$n` / `${n}` / `$@` of its unquoted and double-quoted tokens replaced (`C15_tokens_full`) -/
theorem C15_function_line (fn : Str) (as : List Str) (l : Str) (ts : List (Str × List WSeg))
    (hparse : parseLine l = ts.map (fun x => (x.1, wrender x.2))) (hok : ∀ x ∈ ts, wwordOk x.2 = true) :
    expandArgs (callArgs fn as) l = tokensToLine (ts.map (specTok (callArgs fn as))) := by
  unfold expandArgs
  rw [hparse, C15_tokens_full _ ts hok]

example : expandArgs (callArgs "f".toList ["a b".toList, "c".toList]) "echo $1-$2 \"$0\" '$1' ${3}x $@".toList
    = "echo a b-c \"f\" '$1' x a b c".toList := by decide

/-- without `set -e`: the lines one after the other -/
theorem foldLines_cons_noE {σ} (sem : Sem σ) (args : List Str) (hE : ∀ s, sem.exitOnError s = false) (l : Str) (ls : List Str)
    (st : σ) (last : Option Int) :
    foldLines sem args (l :: ls) st last =
      foldLines sem args ls (sem.runLine st (expandArgs args l)).1 ((sem.runLine st (expandArgs args l)).2.or last) := by
  simp only [foldLines, hE]
  cases (sem.runLine st (expandArgs args l)).2 with
  | none => cases last <;> simp
  | some x => simp

/-- **the status of a call is the status of the last line of the body that ran something** (straight-line body, no `set -e`):
after the last line `l` the status is `l`'s if `l` ran a command, else the one before -/
theorem C15_function_status_flat {σ} (sem : Sem σ) (args : List Str) (hE : ∀ s, sem.exitOnError s = false) (ls : List Str) (l : Str) :
    ∀ (st : σ) (last : Option Int),
    foldLines sem args (ls ++ [l]) st last =
      ((sem.runLine (foldLines sem args ls st last).1 (expandArgs args l)).1,
       (sem.runLine (foldLines sem args ls st last).1 (expandArgs args l)).2.or (foldLines sem args ls st last).2) := by
  induction ls with
  | nil => intro st last; rw [List.nil_append, foldLines_cons_noE sem args hE]; rfl
  | cons x xs ih =>
    intro st last
    rw [List.cons_append, foldLines_cons_noE sem args hE, foldLines_cons_noE sem args hE, ih]

/-- under `set -e` the first failing line ends the body, with its status -/
theorem C15_function_sete_flat {σ} (sem : Sem σ) (args : List Str) (l : Str) (ls : List Str) (st : σ) (last : Option Int) (s : Int)
    (hr : (sem.runLine st (expandArgs args l)).2 = some s) (hs : s ≠ 0)
    (hE : sem.exitOnError (sem.runLine st (expandArgs args l)).1 = true) :
    foldLines sem args (l :: ls) st last = ((sem.runLine st (expandArgs args l)).1, some s) := by
  simp [foldLines, hr, hs, hE]

/-- the state a straight-line body leaves is the structured semantics of the body with the arguments put in -/
theorem foldLines_semBlock {σ} (sem : Sem σ) (args : List Str) (hE : ∀ s, sem.exitOnError s = false) : ∀ (ls : List Str) (st : σ) (last : Option Int),
    semBlock sem (ls.length + 1) (C14.flat (ls.map (expandArgs args))) false st = .ok ((foldLines sem args ls st last).1, .normal) := by
  intro ls
  induction ls with
  | nil => intro st last; rfl
  | cons l ls ih =>
    intro st last
    rw [foldLines_cons_noE sem args hE]
    simp only [List.map_cons, C14.flat, List.length_cons, semBlock]
    exact ih _ _

/-! ### non-vacuity -/

/-- a `Sem` for the examples: the state is the log of the lines received; a line starting with `f` fails with 3 -/
def logSem : Sem (List Str) where
  runLine st l := (st ++ [l], some (if l.head? = some 'f' then 3 else 0))
  setVar st _ _ := st
  words _ _ := []
  exitOnError _ := false

example : bodyLineOk "echo $1 $2".toList = true ∧ bodyLineOk "false $0".toList = true ∧ bodyLineOk "fi".toList = false ∧
    bodyLineOk "break".toList = false := by decide

/-- `function f { echo $1 $2 ⏎ false $0 }` called as `f x y`: the lines received and the status -/
example : runLines logSem (callArgs "f".toList ["x".toList, "y".toList]) 5 (C14.render false (C14.flat ["echo $1 $2".toList, "false $0".toList])) [] =
    .ok (some { st := ["echo x y".toList, "false f".toList], last := some 3 }) := by
  rw [C15_function_body_flat logSem _ _ false _ (by decide) 5 (by decide)]
  have : foldLines logSem ["f".toList, "x".toList, "y".toList] ["echo $1 $2".toList, "false $0".toList] [] none =
      (["echo x y".toList, "false f".toList], some 3) := by decide
  rw [this]

end Cicada.C15

namespace Cicada.C14
open Cicada Cicada.Locust

/-- **a function whose body is the canonical text of an AST executes the structured semantics of that AST**: `run_lines`
on `render sm b` with the argument list of a call `fn a b …` is no syntax error and ends in the state `semBlock b` prescribes
(`set -e` off).  `okAst (fn :: as) b` asks the lines and conditions of `b` to hold no positional reference that the call
would change (for straight-line bodies WITH such references: `C14_function_body_flat_args`) -/
theorem C14_function_body_refines {σ} (sem : Sem σ) (fn : Str) (as : List Str) (sm : Bool) (hE : ∀ s, sem.exitOnError s = false)
    (b : Block) (hok : okAst (C15.callArgs fn as) b = true) (F : Nat) (st : σ) :
    runLines sem (C15.callArgs fn as) F (render sm b) st ≠ .ok none ∧
    ∀ r, runLines sem (C15.callArgs fn as) F (render sm b) st = .ok (some r) → ∃ g fl, semBlock sem g b false st = .ok (r.st, fl) :=
  C14_script_end_to_end sem sm (C15.callArgs fn as) hE b hok F st

/-- a straight-line body with positional references, called as `fn a b …`: the run ends, in the state the structured
semantics gives for the body with the arguments put in -/
theorem C14_function_body_flat_args {σ} (sem : Sem σ) (fn : Str) (as : List Str) (sm : Bool) (hE : ∀ s, sem.exitOnError s = false)
    (ls : List Str) (hok : ∀ l ∈ ls, C15.bodyLineOk l = true) (F : Nat) (hF : ls.length < F) (st : σ) :
    ∃ r, runLines sem (C15.callArgs fn as) F (render sm (flat ls)) st = .ok (some r) ∧
      semBlock sem (ls.length + 1) (flat (ls.map (expandArgs (C15.callArgs fn as)))) false st = .ok (r.st, .normal) := by
  refine ⟨_, C15.C15_function_body_flat sem fn as sm ls hok F hF st, ?_⟩
  exact C15.foldLines_semBlock sem _ hE ls st none

example : okAst (C15.callArgs "f".toList ["a".toList]) exSmall = true := by decide

end Cicada.C14

/-! ## the two models side by side: straight-line bodies -/
namespace Cicada.C15
open Cicada Cicada.ScriptSess Cicada.C15.Sess

/-- a statement of the session model that is one plain line for the interpreter: a command, `set -e`, `exit n` -/
def simple : SStmt → Bool
  | .stage _ _ => true
  | .sete => true
  | .exit _ => true
  | _ => false

/-- the session state as a state of the interpreter model: a line is decoded (`dec`) into a statement of the session model and
does what `runStmts` does for it; once the shell has exited nothing runs; `exit_on_error` is the `set -e` flag -/
def sessSem (cfg : Cfg) (files : List (Str × List SStmt)) (dec : Str → Option SStmt) : Sem St where
  runLine st l :=
    if st.exited.isSome then (st, none) else
    match dec l with
    | some s => ((step cfg files 0 s st 0).1, some ((step cfg files 0 s st 0).2 : Int))
    | none => (st, none)
  setVar st _ _ := st
  words _ _ := []
  exitOnError st := st.sete

theorem step_simple (cfg : Cfg) (files : List (Str × List SStmt)) (s : SStmt) (hs : simple s = true) (F : Nat) (st : St) (last : Nat) :
    step cfg files F s st last = step cfg files 0 s st 0 := by
  cases s <;> simp [simple] at hs <;> rfl

theorem foldLines_exited (cfg : Cfg) (files : List (Str × List SStmt)) (dec : Str → Option SStmt) (args : List Str) :
    ∀ (ls : List Str) (st : St) (last : Nat), st.exited.isSome = true →
    foldLines (sessSem cfg files dec) args ls st (some (last : Int)) = (st, some (last : Int)) := by
  intro ls
  induction ls with
  | nil => intro st last _; rfl
  | cons l ls ih =>
    intro st last he
    simp only [foldLines, sessSem, he, ↓reduceIte]
    split
    · rfl
    · exact ih st last he

/-- **the two models agree on straight-line bodies**: a body whose lines (after the positional pass) decode into simple
statements is run by the interpreter model (`foldLines` = `runExp` on the `CMD` pairs, `runExp_flat`) exactly as the session
model runs the statements: same final state, same status — `set -e` and `exit` included -/
theorem sess_refines_interp (cfg : Cfg) (files : List (Str × List SStmt)) (dec : Str → Option SStmt) (args : List Str) :
    ∀ (ps : List (Str × SStmt)), (∀ p ∈ ps, dec (expandArgs args p.1) = some p.2 ∧ simple p.2 = true) →
    ∀ (F : Nat) (st : St) (last : Nat), ps.length ≤ F →
    foldLines (sessSem cfg files dec) args (ps.map (·.1)) st (some (last : Int)) =
      ((runStmts cfg files F (ps.map (·.2)) st last).1, some ((runStmts cfg files F (ps.map (·.2)) st last).2 : Int)) := by
  intro ps
  induction ps with
  | nil => intro _ F st last _; simp only [List.map_nil, runStmts_nil]; rfl
  | cons p ps ih =>
    intro hall F st last hF
    obtain ⟨l, s⟩ := p
    have hd := hall (l, s) (by simp)
    have ih := ih (fun q hq => hall q (List.mem_cons_of_mem _ hq))
    simp only [List.map_cons]
    simp only at hd
    obtain ⟨f, rfl⟩ : ∃ f, F = f + 1 := ⟨F - 1, by simp at hF; omega⟩
    by_cases he : st.exited.isSome = true
    · rw [foldLines_exited cfg files dec args _ st last he, runStmts_exited _ _ _ _ _ _ he]
    · rw [runStmts_cons, if_neg he, step_simple cfg files s hd.2 f st last]
      have hrl : (sessSem cfg files dec).runLine st (expandArgs args l) =
          ((step cfg files 0 s st 0).1, some ((step cfg files 0 s st 0).2 : Int)) := by
        simp only [sessSem, he, hd.1]; rfl
      have ih' := ih f (step cfg files 0 s st 0).1 (step cfg files 0 s st 0).2 (by simp at hF; omega)
      simp only [foldLines, hrl]
      by_cases h1 : (step cfg files 0 s st 0).2 ≠ 0 ∧ (step cfg files 0 s st 0).1.sete = true
      · have hst : stopped (step cfg files 0 s st 0) = true := by simp [stopped, h1.1, h1.2]
        have h1' : ((step cfg files 0 s st 0).2 : Int) ≠ 0 ∧ (sessSem cfg files dec).exitOnError (step cfg files 0 s st 0).1 = true :=
          ⟨by exact_mod_cast h1.1, h1.2⟩
        rw [if_pos h1', if_pos hst]
      · have h1' : ¬ (((step cfg files 0 s st 0).2 : Int) ≠ 0 ∧ (sessSem cfg files dec).exitOnError (step cfg files 0 s st 0).1 = true) := by
          intro hh; exact h1 ⟨by exact_mod_cast hh.1, hh.2⟩
        rw [if_neg h1', ih']
        by_cases hx : (step cfg files 0 s st 0).1.exited.isSome = true
        · have hst : stopped (step cfg files 0 s st 0) = true := by simp [stopped, hx]
          rw [if_pos hst, runStmts_exited _ _ _ _ _ _ hx]
        · have hst : stopped (step cfg files 0 s st 0) = false := by
            simp only [stopped, Bool.or_eq_false_iff]
            refine ⟨by simpa using hx, ?_⟩
            cases hq : (step cfg files 0 s st 0).1.sete
            · simp
            · simp only [hq, and_true, ne_eq, Decidable.not_not] at h1
              simp [h1]
          rw [hst]; simp

/-- **a call in the interpreter model = a call in the session model** (straight-line body of simple statements): `run_lines`
on the body's text under `sessSem` returns the state and the status that `runStmts` gives for the decoded body (which is what
`.call` runs: `step_call`, `C15_function_call_status`) -/
theorem C15_function_body_sess (cfg : Cfg) (files : List (Str × List SStmt)) (dec : Str → Option SStmt) (fn : Str) (as : List Str)
    (sm : Bool) (ps : List (Str × SStmt)) (hne : ps ≠ [])
    (hall : ∀ p ∈ ps, dec (expandArgs (callArgs fn as) p.1) = some p.2 ∧ simple p.2 = true)
    (hok : ∀ p ∈ ps, bodyLineOk p.1 = true) (F : Nat) (hF : ps.length < F) (st : St) (h0 : st.exited = none) :
    runLines (sessSem cfg files dec) (callArgs fn as) F (C14.render sm (C14.flat (ps.map (·.1)))) st =
      .ok (some { st := (runStmts cfg files F (ps.map (·.2)) st 0).1, last := some ((runStmts cfg files F (ps.map (·.2)) st 0).2 : Int) }) := by
  rw [C15_function_body_flat _ fn as sm _ (by simpa using hok) F (by simpa using hF) st]
  have hnone : foldLines (sessSem cfg files dec) (fn :: as) (ps.map (·.1)) st none =
      foldLines (sessSem cfg files dec) (fn :: as) (ps.map (·.1)) st (some ((0 : Nat) : Int)) := by
    cases ps with
    | nil => exact absurd rfl hne
    | cons p ps' =>
      have hd := hall p (by simp)
      have hrl : (sessSem cfg files dec).runLine st (expandArgs (fn :: as) p.1) =
          ((step cfg files 0 p.2 st 0).1, some ((step cfg files 0 p.2 st 0).2 : Int)) := by
        have : dec (expandArgs (fn :: as) p.1) = some p.2 := hd.1
        simp only [sessSem, h0, this]; rfl
      simp only [List.map_cons, foldLines, hrl]
  rw [hnone, sess_refines_interp cfg files dec (fn :: as) ps hall F st 0 (by omega)]

/-- a decoder for the example: `set -e`, `exit 7`, `ok` (marker 1, status 0), `bad` (marker 2, status 3) -/
def exDec (l : Str) : Option SStmt :=
  if l = "set -e".toList then some .sete else if l = "exit 7".toList then some (.exit 7)
  else if l = "ok".toList then some (.stage 1 0) else if l = "bad".toList then some (.stage 2 3) else none

/-- `function f { ok ⏎ set -e ⏎ bad ⏎ ok }`: both models stop at `bad` with status 3 -/
example : runLines (sessSem {} [] exDec) (callArgs "f".toList []) 9
      (C14.render false (C14.flat ["ok".toList, "set -e".toList, "bad".toList, "ok".toList])) {} =
    .ok (some { st := (runStmts {} [] 9 [.stage 1 0, .sete, .stage 2 3, .stage 1 0] {} 0).1, last := some 3 }) :=
  C15_function_body_sess {} [] exDec "f".toList [] false
    [("ok".toList, .stage 1 0), ("set -e".toList, .sete), ("bad".toList, .stage 2 3), ("ok".toList, .stage 1 0)] (by simp)
    (by intro p hp; simp at hp; rcases hp with rfl | rfl | rfl | rfl <;> exact ⟨rfl, rfl⟩)
    (by intro p hp; simp at hp; rcases hp with rfl | rfl | rfl | rfl <;> decide) 9 (by decide) {} rfl

end Cicada.C15
