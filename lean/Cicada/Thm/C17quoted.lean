import Cicada.Thm.C17
/-!
# C17 — a quoted `|` is an argument for the alias pass: the word after it is never alias-expanded

`expand_alias` treats a token as a command word when it is the first one or follows an UNQUOTED `|`
(`sep = ""` and `text = "|"`).  A quoted / escaped `|` (`sep ≠ ""`) is an ordinary word, so the token that
follows it is an argument and must be carried over unchanged.

* `go_after_quoted_pipe`, `C17_after_quoted_pipe` (general, no guard but `q ≠ []`): whatever precedes and
  whatever follows, the output splits at the quoted `|`: the part before it is the expansion of the input
  up to and including the quoted `|`, then comes the token `(s, w)` UNCHANGED, then the expansion of the rest.
* `C17_quoted_pipe_is_argument`: under the input-only guard `stageOk pre`, `pre ≠ []`, head of `pre` not an
  alias name, the output is the input up to `(s, w)`, followed by the argument-mode expansion of `post`.
* `C17_quoted_pipe_identity`: if moreover `post` holds no unquoted `|`, `expandAlias e toks = toks`.
* contrast (`C17_unquoted_pipe_expands`): with `q = []` the word IS expanded.
-/
namespace Cicada.C17
open Cicada

/-- input-only: no token of the list is an unquoted `|` -/
def noBarePipe (s : List Tok) : Bool := s.all (fun t => !(t.1 = [] && t.2 = ['|']))

/-- in argument mode a token is copied; only an unquoted `|` switches back to command mode -/
theorem go_false_cons (e : Env) (s w : Str) (post : List Tok) :
    expandAliasGo e false ((s, w) :: post) = (s, w) :: expandAliasGo e (decide (s = [] ∧ w = ['|'])) post := by
  by_cases hp : s = [] ∧ w = ['|']
  · simp [expandAliasGo, hp]
  · simp [expandAliasGo, hp]

/-- the quoted `|` alone: whatever the mode, the scanner is in argument mode after it -/
theorem go_quoted_pipe_head (e : Env) (q : Str) (hq : q ≠ []) (b : Bool) (rest : List Tok) :
    expandAliasGo e b ((q, ['|']) :: rest) = expandAliasGo e b [(q, ['|'])] ++ expandAliasGo e false rest := by
  have hx : ¬ (['|'] : Str) = ['x', 'a', 'r', 'g', 's'] := by decide
  cases b with
  | false => simp [expandAliasGo, hq]
  | true =>
    cases hl : lookup e.aliases ['|'] with
    | none => simp [expandAliasGo, hq, hl]
    | some v =>
      by_cases hv : v = []
      · simp [expandAliasGo, hq, hl, hv]
      · simp [expandAliasGo, hq, hl, hv]

/-- the output splits at a quoted `|`, and the scanner is in argument mode after it -/
theorem go_split_quoted_pipe (e : Env) (q : Str) (hq : q ≠ []) :
    ∀ (pre : List Tok) (b : Bool) (rest : List Tok),
      expandAliasGo e b (pre ++ (q, ['|']) :: rest) =
        expandAliasGo e b (pre ++ [(q, ['|'])]) ++ expandAliasGo e false rest := by
  intro pre
  induction pre with
  | nil => intro b rest; exact go_quoted_pipe_head e q hq b rest
  | cons t ts ih =>
    intro b rest
    obtain ⟨sep, w⟩ := t
    simp only [List.cons_append, expandAliasGo]
    split
    · rw [ih]; rfl
    · split
      · rw [ih]; rfl
      · split
        · rw [ih]; rfl
        · split
          · rw [ih]; rfl
          · split
            · rw [ih]; rfl
            · rw [ih, List.append_assoc]

/-- **general form** (any mode, any context): the token after a quoted `|` is carried over unchanged. -/
theorem go_after_quoted_pipe (e : Env) (b : Bool) (pre post : List Tok) (q s w : Str) (hq : q ≠ []) :
    expandAliasGo e b (pre ++ [(q, ['|']), (s, w)] ++ post) =
      expandAliasGo e b (pre ++ [(q, ['|'])]) ++ (s, w) :: expandAliasGo e (decide (s = [] ∧ w = ['|'])) post := by
  have : pre ++ [(q, ['|']), (s, w)] ++ post = pre ++ (q, ['|']) :: ((s, w) :: post) := by simp
  rw [this, go_split_quoted_pipe e q hq, go_false_cons]

/-- **C17 (quoted pipe, general).** For every environment, every context `pre`, `post` and every token `(s, w)`:
the expansion of `pre ++ [(q,"|"), (s,w)] ++ post` with `q ≠ ""` is the expansion of `pre ++ [(q,"|")]`, then
`(s, w)` itself, then the expansion of `post` (in command mode only if `(s, w)` is itself an unquoted `|`). -/
theorem C17_after_quoted_pipe (e : Env) (pre post : List Tok) (q s w : Str) (hq : q ≠ []) :
    expandAlias e (pre ++ [(q, "|".toList), (s, w)] ++ post) =
      expandAlias e (pre ++ [(q, "|".toList)]) ++ (s, w) :: expandAliasGo e (decide (s = [] ∧ w = ['|'])) post :=
  go_after_quoted_pipe e true pre post q s w hq

/-- a stage whose command word is not an alias name is left alone, and the scanner ends in argument mode -/
theorem go_true_plain_stage (e : Env) (pre : List Tok) (hne : pre ≠ []) (hok : stageOk pre = true)
    (hna : lookup e.aliases (pre.head hne).2 = none) (rest : List Tok) :
    expandAliasGo e true (pre ++ rest) = pre ++ expandAliasGo e false rest := by
  rw [go_true_stage e pre hok rest]
  cases pre with
  | nil => exact absurd rfl hne
  | cons t ts =>
    obtain ⟨sep, w⟩ := t
    simp only [List.head_cons] at hna
    simp [specStage, hna]

/-- **C17 (quoted pipe is an argument).** Guard (input only): the `|` is quoted (`q ≠ ""`), `pre` is non-empty, holds
no unquoted `|`, does not start with `xargs` (`stageOk`, the known finding KF-C17-xargs) and its first word is
not an alias name.  Then everything up to and including the word after the quoted `|` is unchanged, and `post`
is scanned in argument mode (command mode only if `(s, w)` is itself an unquoted `|`). -/
theorem C17_quoted_pipe_is_argument (e : Env) (pre post : List Tok) (q s w : Str) (hq : q ≠ [])
    (hne : pre ≠ []) (hok : stageOk pre = true) (hna : lookup e.aliases (pre.head hne).2 = none) :
    expandAlias e (pre ++ [(q, "|".toList), (s, w)] ++ post) =
      pre ++ [(q, "|".toList), (s, w)] ++ expandAliasGo e (decide (s = [] ∧ w = ['|'])) post := by
  have h1 : pre ++ [(q, "|".toList), (s, w)] ++ post = pre ++ ((q, ['|']) :: (s, w) :: post) := by simp
  rw [h1]; unfold expandAlias
  rw [go_true_plain_stage e pre hne hok hna, go_false_cons]
  have hd : decide (q = [] ∧ (['|'] : Str) = ['|']) = false := by simp [hq]
  rw [hd, go_false_cons]
  simp

/-- **C17 (quoted pipe, identity).** If moreover `post` holds no unquoted `|` and `(s, w)` is not one either,
nothing at all is rewritten. -/
theorem C17_quoted_pipe_identity (e : Env) (pre post : List Tok) (q s w : Str) (hq : q ≠ [])
    (hne : pre ≠ []) (hok : stageOk pre = true) (hna : lookup e.aliases (pre.head hne).2 = none)
    (hsw : ¬ (s = [] ∧ w = ['|'])) (hpost : noBarePipe post = true) :
    expandAlias e (pre ++ [(q, "|".toList), (s, w)] ++ post) = pre ++ [(q, "|".toList), (s, w)] ++ post := by
  rw [C17_quoted_pipe_is_argument e pre post q s w hq hne hok hna]
  have := go_false_stage e post hpost []
  simp only [List.append_nil] at this
  have hnil : expandAliasGo e false [] = [] := rfl
  simp only [hsw, decide_false, this, hnil, List.append_nil]

/-! ### contrast: an unquoted `|` makes the next word a command word -/

/-- `prog | ls` with `ls ↦ ls -l`: the word after the UNQUOTED `|` is expanded -/
theorem C17_unquoted_pipe_expands :
    expandAlias wEnv [([], "prog".toList), ([], "|".toList), ([], "ls".toList)] =
      [([], "prog".toList), ([], "|".toList), ([], "ls".toList), ([], "-l".toList)] := by
  decide

/-! ### non-vacuity: `prog '|' ls` with the alias table `ls ↦ ls -l` -/

/-- the guards hold on `prog '|' ls` -/
example : (['\''] : Str) ≠ [] ∧ stageOk [([], "prog".toList)] = true ∧
    lookup wEnv.aliases (([([], "prog".toList)] : List Tok).head (by simp)).2 = none ∧
    (lookup wEnv.aliases "ls".toList).isSome = true ∧ noBarePipe [] = true := by decide

/-- the theorem instantiated: `prog '|' ls` is left alone although `ls` is an alias -/
example : expandAlias wEnv [([], "prog".toList), (['\''], "|".toList), ([], "ls".toList)] =
    [([], "prog".toList), (['\''], "|".toList), ([], "ls".toList)] :=
  C17_quoted_pipe_identity wEnv [([], "prog".toList)] [] ['\''] [] "ls".toList (by decide) (by simp) (by decide)
    (by decide) (by decide) (by decide)

/-- the same, by evaluation; and with `"` and `\` as the tag, and with a tail `| ls` that IS expanded -/
example : expandAlias wEnv [([], "prog".toList), (['\''], "|".toList), ([], "ls".toList)] =
    [([], "prog".toList), (['\''], "|".toList), ([], "ls".toList)] := by decide
example : expandAlias wEnv [([], "prog".toList), (['\\'], "|".toList), ([], "ls".toList), ([], "|".toList), ([], "ls".toList)] =
    [([], "prog".toList), (['\\'], "|".toList), ([], "ls".toList), ([], "|".toList), ([], "ls".toList), ([], "-l".toList)] := by
  decide

#print axioms C17_after_quoted_pipe
#print axioms C17_quoted_pipe_is_argument
#print axioms C17_quoted_pipe_identity
#print axioms C17_unquoted_pipe_expands

end Cicada.C17
