import Cicada.Thm.C10
import Cicada.Lemmas.C01Esc
/-!
# C10 at the LINE level: `parse_line` followed by `expand_env` (and by all of `do_expansion`) on `prog W1 … Wn`

`C10_full_holds` speaks about the text of one word, `C10_token_dq` about one token (with the gate `env_in_token`
as a hypothesis).  Here the two are composed with the tokenizer:

* `parseLine_renderLine` : the tokenizer on a line whose words are renderings of segment words - unquoted,
  double-quoted (a version of `go_dq_body` that allows `$` and backquote: `go_dq_body_dollar`) or single-quoted -
  yields the program word and one token per word, tagged with its quote.
* `gate_eq_hasRef` : for a well-formed word the gate is true exactly when the word holds a reference (the three
  "assignment of a substitution" regexes and the `='…$x…'` rule can never fire on a well-formed word), which removes
  the gate hypothesis of `C10_token_dq`.
* `C10_line` : `expandEnv e (parseLine line) = [prog, specToken …]`, for every environment (values arbitrary - the
  pass does not look at them again).
* `C10_line_expansion` : the same for the whole of `doExpansion`, when the EXPANDED tokens are inert for the later
  passes (`inertTok`), the program word is no alias / `export` / `xargs` and no unquoted word starts with `~`.

Guard (`lineGuard`, decidable, input only): `prog` is a plain word with a letter; every word is `wordOk`; the
literals of an unquoted word hold none of blank `"` `'` backquote `\` `|` `(` `)` `#`, and the word is not empty;
the literals of a double-quoted word hold no `"` and no `\`; (`wordOk` already bans `$`, `'`, backquote in
literals).
-/
namespace Cicada.C10
open Cicada Cicada.PL Cicada.TokLemmas

/-! ### guards -/

/-- characters allowed in an unquoted word: anything but blank, the three quotes, `\`, `|`, parentheses and `#` -/
def bareChar (c : Char) : Bool :=
  !(c = ' ' || c = '"' || c = '\\' || c = '|' || c = '(' || c = ')' || c = '#' || c = '\'' || c = '`')
/-- characters allowed between double quotes: anything but `"` and `\` -/
def dqChar (c : Char) : Bool := !(c = '"' || c = '\\')
def sqChar (c : Char) : Bool := !(c = '\'')

def Seg.litAll (p : Char → Bool) : Seg → Bool
  | .lit s => s.all p
  | _ => true

def Quote.charOk : Quote → Char → Bool
  | .none => bareChar
  | .dq => dqChar
  | .sq => sqChar

/-- one argument word: well-formed segments, literals within the character class of the quoting style, an
unquoted word is not empty -/
def argOk (a : Quote × List Seg) : Bool :=
  wordOk a.2 && a.2.all (Seg.litAll a.1.charOk) && (a.1 != .none || !a.2.isEmpty)

def renderArg (a : Quote × List Seg) : Str := a.1.sep ++ render a.2 ++ a.1.sep

def argsText (args : List (Quote × List Seg)) : Str := (args.map (fun a => ' ' :: renderArg a)).flatten

def renderLine (prog : Str) (args : List (Quote × List Seg)) : Str := prog ++ argsText args

def lineGuard (prog : Str) (args : List (Quote × List Seg)) : Bool :=
  prog.all wordChar && prog.any isAlphaA && args.all argOk

/-! ### characters of a rendered word -/

theorem ident_all (p : Char → Bool) (hname : ∀ c, isNameChar c = true → p c = true) (n : Str) (h : isIdent n = true) :
    n.all p = true := by
  cases n with
  | nil => simp [isIdent] at h
  | cons c cs =>
    simp only [isIdent, Bool.and_eq_true, List.all_eq_true] at h
    simp only [List.all_cons, Bool.and_eq_true, List.all_eq_true]
    refine ⟨hname c ?_, fun x hx => hname x (h.2 x hx)⟩
    have := h.1
    simp only [isNameStart, Bool.or_eq_true] at this
    simp only [isNameChar, Bool.or_eq_true]
    rcases this with h | h
    · exact Or.inl (Or.inl h)
    · exact Or.inr h

theorem render_all (p : Char → Bool) (hname : ∀ c, isNameChar c = true → p c = true)
    (h1 : p '$' = true) (h2 : p '{' = true) (h3 : p '}' = true) (h4 : p '?' = true)
    (w : List Seg) (hok : wordOk w = true) (hl : w.all (Seg.litAll p) = true) : (render w).all p = true := by
  induction w with
  | nil => rfl
  | cons s ss ih =>
    simp only [wordOk, Bool.and_eq_true] at hok
    simp only [List.all_cons, Bool.and_eq_true] at hl
    have ih' := ih hok.2 hl.2
    have e : render (s :: ss) = s.render ++ render ss := by simp [render]
    rw [e, List.all_append, ih', Bool.and_true]
    cases s with
    | lit t => exact hl.1
    | var n =>
      have hs := hok.1
      simp only [segOk, Bool.and_eq_true] at hs
      simp [Seg.render, h1, ident_all p hname n hs.1]
    | braced n =>
      have hs := hok.1
      simp only [segOk] at hs
      simp [Seg.render, h1, h2, h3, ident_all p hname n hs]
    | status => simp [Seg.render, h1, h4]
    | pid => simp [Seg.render, h1]

theorem nameChar_classes (c : Char) (h : isNameChar c = true) : bareChar c = true ∧ dqChar c = true ∧ sqChar c = true := by
  have ne : ∀ x : Char, isNameChar x = false → c ≠ x := by
    intro x hx e; subst e; rw [hx] at h; exact Bool.noConfusion h
  have e1 := ne ' ' (by decide); have e2 := ne '"' (by decide); have e3 := ne '\\' (by decide)
  have e4 := ne '|' (by decide); have e5 := ne '(' (by decide); have e6 := ne ')' (by decide)
  have e7 := ne '#' (by decide); have e8 := ne '\'' (by decide); have e9 := ne '`' (by decide)
  simp [bareChar, dqChar, sqChar, e1, e2, e3, e4, e5, e6, e7, e8, e9]

theorem render_charOk (q : Quote) (w : List Seg) (hok : wordOk w = true) (hl : w.all (Seg.litAll q.charOk) = true) :
    (render w).all q.charOk = true := by
  cases q with
  | none => exact render_all _ (fun c h => (nameChar_classes c h).1) (by decide) (by decide) (by decide) (by decide) w hok hl
  | dq => exact render_all _ (fun c h => (nameChar_classes c h).2.1) (by decide) (by decide) (by decide) (by decide) w hok hl
  | sq => exact render_all _ (fun c h => (nameChar_classes c h).2.2) (by decide) (by decide) (by decide) (by decide) w hok hl

/-! ### the tokenizer on words that contain `$` -/

theorem bareChar_facts {c : Char} (h : bareChar c = true) :
    c ≠ ' ' ∧ c ≠ '"' ∧ c ≠ '\\' ∧ c ≠ '|' ∧ c ≠ '(' ∧ c ≠ ')' ∧ c ≠ '#' ∧ c ≠ '\'' ∧ c ≠ '`' := by
  refine ⟨?_, ?_, ?_, ?_, ?_, ?_, ?_, ?_, ?_⟩ <;> (intro e; subst e; revert h; decide)

theorem step_clean_bare (r : List Tok) (hd : Bool) (c : Char) (n : Option Char) (h : bareChar c = true) :
    step (clean r hd) c n = inW r [c] (hd || (c = '$')) := by
  obtain ⟨a1, a2, a3, a4, a5, a6, a7, a8, a9⟩ := bareChar_facts h
  by_cases hdl : c = '$' <;> simp [step, clean, inW, isQ, a1, a2, a3, a4, a5, a6, a7, a8, a9, hdl]

theorem step_inW_bare (r : List Tok) (t : Str) (hd : Bool) (c : Char) (n : Option Char) (h : bareChar c = true) :
    step (inW r t hd) c n = inW r (t ++ [c]) (hd || (c = '$')) := by
  obtain ⟨a1, a2, a3, a4, a5, a6, a7, a8, a9⟩ := bareChar_facts h
  by_cases hdl : c = '$' <;> simp [step, stepMid, stepTail, inW, isQ, a1, a2, a3, a4, a5, a6, a8, a9, hdl]

theorem go_bare (w : Str) : ∀ (r : List Tok) (t : Str) (hd : Bool) (rest : Str), w.all bareChar = true →
    go (inW r t hd) (w ++ rest) = go (inW r (t ++ w) (hd || w.any (· = '$'))) rest := by
  induction w with
  | nil => intro r t hd rest _; simp
  | cons c cs ih =>
    intro r t hd rest h
    simp only [List.all_cons, Bool.and_eq_true] at h
    simp only [List.cons_append, go]
    rw [step_inW_bare r t hd c _ h.1, ih _ _ _ _ h.2]
    simp [List.append_assoc, Bool.or_assoc]

/-- one step inside double quotes, `$` allowed (the version of `step_inDq` the C10 words need) -/
theorem step_inDq_dollar (r : List Tok) (t : Str) (hd : Bool) (c : Char) (n : Option Char)
    (h3 : c ≠ '\\') (h4 : c ≠ '"') :
    step (inQ r '"' t hd) c n = inQ r '"' (t ++ [c]) (hd || (c = '$')) := by
  have h4' : ¬ '"' = c := fun h => h4 h.symm
  by_cases hdl : c = '$' <;> by_cases hp : c = '|' <;> by_cases hs : c = ' ' <;> by_cases hq : c = '\'' <;>
    by_cases hb : c = '`' <;> simp_all [step, stepMid, stepTail, inQ, isQ]

/-- the body of a double-quoted word, `$` (and backquote) allowed: the version of `go_dq_body` for C10 -/
theorem go_dq_body_dollar (body : Str) : ∀ (r : List Tok) (t : Str) (hd : Bool) (rest : Str),
    body.all dqChar = true →
    go (inQ r '"' t hd) (body ++ rest) = go (inQ r '"' (t ++ body) (hd || body.any (· = '$'))) rest := by
  induction body with
  | nil => intro r t hd rest _; simp
  | cons c cs ih =>
    intro r t hd rest h
    simp only [List.all_cons, Bool.and_eq_true] at h
    have h3 : c ≠ '\\' := by intro e; subst e; exact absurd h.1 (by decide)
    have h4 : c ≠ '"' := by intro e; subst e; exact absurd h.1 (by decide)
    simp only [List.cons_append, go]
    rw [step_inDq_dollar r t hd c _ h3 h4, ih _ _ _ _ h.2]
    simp [List.append_assoc, Bool.or_assoc]

theorem render_ne_nil (w : List Seg) (hok : wordOk w = true) (hne : w ≠ []) : render w ≠ [] := by
  cases w with
  | nil => exact absurd rfl hne
  | cons a as =>
    simp only [wordOk, Bool.and_eq_true] at hok
    obtain ⟨d, ds, e⟩ := render_cons_nonempty a as _ hok.1
    rw [e]; simp

/-- reading one argument word from between words -/
theorem go_arg10 (a : Quote × List Seg) (r : List Tok) (hd : Bool) (rest : Str) (hok : argOk a = true) :
    ∃ s hd', go (clean r hd) (renderArg a ++ rest) = go s rest ∧ Done s (r ++ [(a.1.sep, render a.2)]) hd' := by
  obtain ⟨q, w⟩ := a
  simp only [argOk, Bool.and_eq_true, Bool.or_eq_true, bne_iff_ne, ne_eq, Bool.not_eq_true',
    List.isEmpty_eq_false_iff] at hok
  obtain ⟨⟨hw, hl⟩, hne⟩ := hok
  have hch := render_charOk q w hw hl
  cases q with
  | none =>
    have hne' : render w ≠ [] := render_ne_nil w hw (by rcases hne with h | h; exact absurd rfl h; exact h)
    obtain ⟨c, cs, e⟩ : ∃ c cs, render w = c :: cs := by
      cases h : render w with
      | nil => exact absurd h hne'
      | cons c cs => exact ⟨c, cs, rfl⟩
    have hch' : (c :: cs).all bareChar = true := by rw [← e]; exact hch
    simp only [List.all_cons, Bool.and_eq_true] at hch'
    refine ⟨inW r (c :: cs) ((hd || (c = '$')) || cs.any (· = '$')), ((hd || (c = '$')) || cs.any (· = '$')), ?_, ?_⟩
    · simp only [renderArg, Quote.sep, List.nil_append, List.append_nil, e, List.cons_append, go]
      rw [step_clean_bare r hd c _ hch'.1, go_bare cs _ _ _ _ hch'.2]
      rfl
    · simp only [Quote.sep, e]
      exact done_inW r (c :: cs) _ (by simp)
  | dq =>
    refine ⟨doneQ r '"' (render w) (hd || (render w).any (· = '$')), (hd || (render w).any (· = '$')), ?_, ?_⟩
    · simp only [renderArg, Quote.sep, List.cons_append, List.nil_append, List.append_assoc, go]
      rw [step_clean_quote r hd '"' _ (Or.inr rfl), go_dq_body_dollar (render w) r [] hd _ hch]
      simp only [List.nil_append, go]
      rw [step_close _ _ _ '"' _ (Or.inr rfl)]
    · exact done_doneQ r '"' (render w) _ (Or.inr rfl)
  | sq =>
    have hb : ∀ c ∈ render w, c ≠ '\'' := by
      intro c hc e; subst e
      have := (List.all_eq_true.mp hch) _ hc
      revert this; decide
    refine ⟨doneQ r '\'' (render w) (hd || (render w).any (· = '$')), (hd || (render w).any (· = '$')), ?_, ?_⟩
    · simp only [renderArg, Quote.sep, List.cons_append, List.nil_append, List.append_assoc, go]
      rw [step_clean_quote r hd '\'' _ (Or.inl rfl), go_sq_body (render w) r [] hd _ hb]
      simp only [List.nil_append, go]
      rw [step_close _ _ _ '\'' _ (Or.inl rfl)]
    · exact done_doneQ r '\'' (render w) _ (Or.inl rfl)

/-- reading a whole argument list -/
theorem go_args10 (args : List (Quote × List Seg)) : ∀ (s : St) (r' : List Tok) (hd : Bool) (rest : Str),
    Done s r' hd → args.all argOk = true →
    ∃ s' hd', go s (argsText args ++ rest) = go s' rest ∧
      Done s' (r' ++ args.map (fun a => (a.1.sep, render a.2))) hd' := by
  induction args with
  | nil => intro s r' hd rest hD _; exact ⟨s, hd, by simp [argsText], by simpa using hD⟩
  | cons x xs ih =>
    intro s r' hd rest hD hall
    simp only [List.all_cons, Bool.and_eq_true] at hall
    obtain ⟨s1, hd1, hgo, hD1⟩ := go_arg10 x r' hd (argsText xs ++ rest) hall.1
    obtain ⟨s', hd', hgo', hD'⟩ := ih s1 _ hd1 rest hD1 hall.2
    refine ⟨s', hd', ?_, ?_⟩
    · have e : argsText (x :: xs) ++ rest = ' ' :: (renderArg x ++ (argsText xs ++ rest)) := by
        simp [argsText, List.append_assoc]
      rw [e]
      simp only [go]
      rw [hD.space, hgo, hgo']
    · simpa [List.append_assoc] using hD'

/-- **the tokenizer on a C10 line**: the program word, then one token per argument word, tagged with its quote -/
theorem parseLine_renderLine (prog : Str) (args : List (Quote × List Seg)) (hg : lineGuard prog args = true) :
    parseLine (renderLine prog args) = ([], prog) :: args.map (fun a => (a.1.sep, render a.2)) := by
  simp only [lineGuard, Bool.and_eq_true] at hg
  obtain ⟨⟨hw, hl⟩, ha⟩ := hg
  obtain ⟨c, cs, rfl⟩ : ∃ c cs, prog = c :: cs := by
    cases prog with
    | nil => simp at hl
    | cons c cs => exact ⟨c, cs, rfl⟩
  have harith : isArithmetic (renderLine (c :: cs) args) = false := by
    apply any_alpha_not_arith
    simp only [renderLine, List.any_append, hl, Bool.true_or]
  simp only [List.all_cons, Bool.and_eq_true] at hw
  have hD : Done (inW [] (c :: cs) false) ([] ++ [([], c :: cs)]) false := done_inW [] (c :: cs) false (by simp)
  obtain ⟨s', hd', hgo, hD'⟩ := go_args10 args _ _ _ [] hD ha
  have e0 : ({} : St) = clean [] false := rfl
  have hpre : go {} (renderLine (c :: cs) args) = s' := by
    rw [e0]
    show go (step (clean [] false) c _) (cs ++ argsText args) = _
    rw [step_clean_word _ _ c _ hw.1]
    have := go_word cs [] [c] false (argsText args) hw.2
    rw [this]
    have h2 := hgo
    simp only [List.append_nil, go] at h2
    exact h2
  simp only [parseLine, parseLineInfo, harith, Bool.false_eq_true, ↓reduceIte, hpre, hD'.fin]
  simp

/-! ### the gate `env_in_token` accepts exactly the well-formed words that hold a reference -/

def Seg.isSpecial : Seg → Bool
  | .status => true
  | .pid => true
  | _ => false

def Seg.isNamed : Seg → Bool
  | .var _ => true
  | .braced _ => true
  | _ => false

theorem reDollarSpecial_append_right (a b : Str) (h : reDollarSpecial b = true) : reDollarSpecial (a ++ b) = true := by
  induction a with
  | nil => exact h
  | cons c cs ih => simp [reDollarSpecial, ih]

theorem reDollarName_append_right (a b : Str) (h : reDollarName b = true) : reDollarName (a ++ b) = true := by
  induction a with
  | nil => exact h
  | cons c cs ih => simp [reDollarName, ih]

theorem render_cons (s : Seg) (ss : List Seg) : render (s :: ss) = s.render ++ render ss := by simp [render]

theorem special_gate (w : List Seg) (h : w.any Seg.isSpecial = true) : reDollarSpecial (render w) = true := by
  induction w with
  | nil => simp at h
  | cons s ss ih =>
    rw [render_cons]
    cases s with
    | status => simp [Seg.render, reDollarSpecial]
    | pid => simp [Seg.render, reDollarSpecial]
    | lit t => exact reDollarSpecial_append_right _ _ (ih (by simpa [Seg.isSpecial] using h))
    | var n => exact reDollarSpecial_append_right _ _ (ih (by simpa [Seg.isSpecial] using h))
    | braced n => exact reDollarSpecial_append_right _ _ (ih (by simpa [Seg.isSpecial] using h))

theorem named_gate (w : List Seg) (hok : wordOk w = true) (h : w.any Seg.isNamed = true) :
    reDollarName (render w) = true := by
  induction w with
  | nil => simp at h
  | cons s ss ih =>
    simp only [wordOk, Bool.and_eq_true] at hok
    rw [render_cons]
    cases s with
    | var n =>
      have hs := hok.1
      simp only [segOk, Bool.and_eq_true] at hs
      cases n with
      | nil => simp [isIdent] at hs
      | cons c cs =>
        have : isNameStart c = true := by
          have := hs.1; simp only [isIdent, Bool.and_eq_true] at this; exact this.1
        simp [Seg.render, reDollarName, this]
    | braced n =>
      have hs := hok.1
      simp only [segOk] at hs
      cases n with
      | nil => simp [isIdent] at hs
      | cons c cs =>
        have : isNameStart c = true := by
          simp only [isIdent, Bool.and_eq_true] at hs; exact hs.1
        simp [Seg.render, reDollarName, this]
    | lit t => exact reDollarName_append_right _ _ (ih hok.2 (by simpa [Seg.isNamed] using h))
    | status => exact reDollarName_append_right _ _ (ih hok.2 (by simpa [Seg.isNamed] using h))
    | pid => exact reDollarName_append_right _ _ (ih hok.2 (by simpa [Seg.isNamed] using h))

/-- no `$` is directly followed by `(` -/
def ndp : Str → Bool
  | [] => true
  | c :: cs => !(c = '$' && cs.head? = some '(') && ndp cs

theorem ndp_skip (s rest : Str) (h : ∀ c ∈ s, c ≠ '$') : ndp (s ++ rest) = ndp rest := by
  induction s with
  | nil => rfl
  | cons c cs ih =>
    have hc := h c (by simp)
    simp [ndp, hc, ih (fun x hx => h x (by simp [hx]))]

theorem ndp_ref (d : Char) (s rest : Str) (hd : d ≠ '(') (hd2 : d ≠ '$') (h : ∀ c ∈ s, c ≠ '$') :
    ndp ('$' :: d :: (s ++ rest)) = ndp rest := by
  have := ndp_skip (d :: s) rest (by intro c hc; simp at hc; rcases hc with rfl | hc; exact hd2; exact h c hc)
  simp only [List.cons_append] at this
  simp [ndp, hd, ← this]

theorem nameChar_ne (c : Char) (h : isNameChar c = true) : c ≠ '$' ∧ c ≠ '(' ∧ c ≠ '\'' ∧ c ≠ '`' := by
  refine ⟨?_, ?_, ?_, ?_⟩ <;> (intro e; subst e; revert h; decide)

theorem ident_chars (n : Str) (h : isIdent n = true) : ∀ c ∈ n, isNameChar c = true := by
  have := ident_all isNameChar (fun _ h => h) n h
  exact fun c hc => (List.all_eq_true.mp this) c hc

theorem ndp_render (w : List Seg) (hok : wordOk w = true) (hns : w.any Seg.isSpecial = false) :
    ∀ rest, ndp (render w ++ rest) = ndp rest := by
  induction w with
  | nil => intro rest; rfl
  | cons s ss ih =>
    intro rest
    simp only [wordOk, Bool.and_eq_true] at hok
    simp only [List.any_cons, Bool.or_eq_false_iff] at hns
    rw [render_cons, List.append_assoc, ← ih hok.2 hns.2 rest]
    cases s with
    | lit t =>
      have hs := hok.1
      simp only [segOk, litOk, Bool.and_eq_true, List.all_eq_true, decide_eq_true_eq] at hs
      exact ndp_skip t _ (fun c hc => (hs.2 c hc).1.1)
    | var n =>
      have hs := hok.1
      simp only [segOk, Bool.and_eq_true] at hs
      have hc := ident_chars n hs.1
      cases n with
      | nil => simp [isIdent] at hs
      | cons c cs =>
        have h1 := nameChar_ne c (hc c (by simp))
        exact ndp_ref c cs _ h1.2.1 h1.1 (fun x hx => (nameChar_ne x (hc x (by simp [hx]))).1)
    | braced n =>
      have hs := hok.1
      simp only [segOk] at hs
      have hc := ident_chars n hs
      have := ndp_ref '{' (n ++ ['}']) (render ss ++ rest) (by decide) (by decide) (by
        intro x hx
        simp only [List.mem_append, List.mem_cons, List.mem_nil_iff, or_false] at hx
        rcases hx with hx | rfl
        · exact (nameChar_ne x (hc x hx)).1
        · decide)
      simpa [Seg.render, List.append_assoc] using this
    | status => simp [Seg.isSpecial] at hns
    | pid => simp [Seg.isSpecial] at hns

theorem ndp_tail (c : Char) (cs : Str) (h : ndp (c :: cs) = true) : ndp cs = true := by
  simp only [ndp, Bool.and_eq_true] at h; exact h.2

theorem ndp_dropWhile (p : Char → Bool) (t : Str) (h : ndp t = true) : ndp (t.dropWhile p) = true := by
  induction t with
  | nil => exact h
  | cons c cs ih =>
    simp only [List.dropWhile]
    split
    · exact ih (ndp_tail c cs h)
    · exact h

theorem ndp_whole (t : Str) (h : ndp t = true) : reWholeDollarParen t = false := by
  unfold reWholeDollarParen
  split
  · rename_i r; simp [ndp] at h
  · rfl

theorem ndp_assign (t : Str) (h : ndp t = true) : reAssignDollarParen t = false := by
  unfold reAssignDollarParen
  split
  · rename_i r hr
    cases t with
    | nil => simp [stripName] at hr
    | cons c cs =>
      simp only [stripName] at hr
      split at hr
      · simp only [Option.some.injEq] at hr
        have h2 := ndp_dropWhile isNameChar cs (ndp_tail c cs h)
        rw [hr] at h2
        have h3 := ndp_tail _ _ h2
        simp [ndp] at h3
      · cases hr
  · rfl

theorem no_bq_assign (t : Str) (h : ∀ c ∈ t, c ≠ '`') : reAssignBackquote t = false := by
  unfold reAssignBackquote
  split
  · rename_i r hr
    cases t with
    | nil => simp [stripName] at hr
    | cons c cs =>
      simp only [stripName] at hr
      split at hr
      · simp only [Option.some.injEq] at hr
        have hm : '`' ∈ cs.dropWhile isNameChar := by rw [hr]; simp
        have := (List.dropWhile_sublist isNameChar).subset hm
        exact absurd rfl (h '`' (by simp [this]))
      · cases hr
  · rfl

theorem no_sq_quoted (t : Str) (h : ∀ c ∈ t, c ≠ '\'') : reQuotedAssignWithVar t = false := by
  induction t with
  | nil => rfl
  | cons c cs ih =>
    have ih' := ih (fun x hx => h x (by simp [hx]))
    unfold reQuotedAssignWithVar
    rw [ih', Bool.or_false]
    cases cs with
    | nil => simp
    | cons d ds =>
      have : d ≠ '\'' := h d (by simp)
      by_cases hc : c = '='
      · subst hc
        simp only [decide_true, Bool.true_and]
        split
        · rename_i r hr; simp at hr; exact absurd hr.1 this
        · rfl
      · simp [hc]

def Seg.isRef : Seg → Bool
  | .lit _ => false
  | _ => true

theorem hasRef_cons (s : Seg) (ss : List Seg) : hasRef (s :: ss) = (s.isRef || hasRef ss) := by
  cases s <;> rfl

theorem hasRef_split (w : List Seg) : hasRef w = (w.any Seg.isSpecial || w.any Seg.isNamed) := by
  induction w with
  | nil => rfl
  | cons s ss ih =>
    rw [hasRef_cons, ih]
    cases s <;> simp [Seg.isRef, Seg.isSpecial, Seg.isNamed, Bool.or_comm]

theorem render_no_dollar (w : List Seg) (hok : wordOk w = true) (h : hasRef w = false) : ∀ c ∈ render w, c ≠ '$' := by
  induction w with
  | nil => intro c hc; simp [render] at hc
  | cons s ss ih =>
    simp only [wordOk, Bool.and_eq_true] at hok
    have h' : s.isRef = false ∧ hasRef ss = false := by
      rw [hasRef_cons] at h; simpa using h
    rw [render_cons]
    intro c hc
    rcases List.mem_append.mp hc with hc | hc
    · cases s with
      | lit t =>
        have hs := hok.1
        simp only [segOk, litOk, Bool.and_eq_true, List.all_eq_true, decide_eq_true_eq] at hs
        exact (hs.2 c hc).1.1
      | var n => simp [Seg.isRef] at h'
      | braced n => simp [Seg.isRef] at h'
      | status => simp [Seg.isRef] at h'
      | pid => simp [Seg.isRef] at h'
    · exact ih hok.2 h'.2 c hc

def quoteFree (c : Char) : Bool := c ≠ '\'' && c ≠ '`'

theorem lits_quoteFree (w : List Seg) (hok : wordOk w = true) : w.all (Seg.litAll quoteFree) = true := by
  induction w with
  | nil => rfl
  | cons s ss ih =>
    simp only [wordOk, Bool.and_eq_true] at hok
    simp only [List.all_cons, Bool.and_eq_true]
    refine ⟨?_, ih hok.2⟩
    cases s with
    | lit t =>
      have hs := hok.1
      simp only [segOk, litOk, Bool.and_eq_true, List.all_eq_true, decide_eq_true_eq] at hs
      simp only [Seg.litAll, List.all_eq_true, quoteFree, Bool.and_eq_true, decide_eq_true_eq]
      exact fun c hc => ⟨(hs.2 c hc).1.2, (hs.2 c hc).2⟩
    | _ => rfl

/-- **the gate**: for a well-formed word, `env_in_token` is true exactly when the word holds a reference (so the
driver's class `gate-rejects-reference` is empty on well-formed words) -/
theorem gate_eq_hasRef (w : List Seg) (hok : wordOk w = true) : envInToken (render w) = hasRef w := by
  cases href : hasRef w with
  | false => exact PassLemmas.envInToken_false _ (render_no_dollar w hok href)
  | true =>
    rw [hasRef_split] at href
    by_cases hsp : w.any Seg.isSpecial = true
    · simp [envInToken, special_gate w hsp]
    · have hsp' : w.any Seg.isSpecial = false := by simpa using hsp
      have hnm : w.any Seg.isNamed = true := by simpa [hsp'] using href
      have hq : (render w).all quoteFree = true :=
        render_all _ (fun c h => by simp [quoteFree, (nameChar_ne c h).2.2.1, (nameChar_ne c h).2.2.2])
          (by decide) (by decide) (by decide) (by decide) w hok (lits_quoteFree w hok)
      have hq1 : ∀ c ∈ render w, c ≠ '\'' := by
        intro c hc
        have := (List.all_eq_true.mp hq) c hc
        simp only [quoteFree, Bool.and_eq_true, decide_eq_true_eq] at this
        exact this.1
      have hq2 : ∀ c ∈ render w, c ≠ '`' := by
        intro c hc
        have := (List.all_eq_true.mp hq) c hc
        simp only [quoteFree, Bool.and_eq_true, decide_eq_true_eq] at this
        exact this.2
      have hn : ndp (render w) = true := by
        have := ndp_render w hok hsp' []
        simpa [ndp] using this
      simp [envInToken, named_gate w hok hnm, ndp_whole _ hn, ndp_assign _ hn, no_bq_assign _ hq2,
        no_sq_quoted _ hq1]

/-! ### the line level -/

theorem specExpand_noRef (e : Env) (w : List Seg) (h : hasRef w = false) : specExpand e w = render w := by
  induction w with
  | nil => rfl
  | cons s ss ih =>
    rw [hasRef_cons, Bool.or_eq_false_iff] at h
    have e1 : specExpand e (s :: ss) = s.value e ++ specExpand e ss := by simp [specExpand]
    rw [e1, render_cons, ih h.2]
    cases s with
    | lit t => rfl
    | _ => simp [Seg.isRef] at h

/-- **C10 (line level).**  For a command line `prog W1 … Wn` whose words are renderings of segment words -
unquoted, double-quoted or single-quoted - the tokenizer followed by the parameter-expansion pass yields the
program word and, for every argument, exactly the reference token: every `$NAME`, `${NAME}`, `$?`, `$$` of an
unquoted or double-quoted word replaced by its current value (whatever the values are: they are not scanned again),
single-quoted words verbatim, the quote tags kept. -/
theorem C10_line (e : Env) (prog : Str) (args : List (Quote × List Seg)) (hg : lineGuard prog args = true) :
    expandEnv e (parseLine (renderLine prog args)) = ([], prog) :: args.map (fun a => specToken e a.1 a.2) := by
  rw [parseLine_renderLine prog args hg]
  simp only [lineGuard, Bool.and_eq_true] at hg
  obtain ⟨⟨hw, _⟩, ha⟩ := hg
  have hp : envInToken prog = false :=
    PassLemmas.envInToken_false prog (PassLemmas.word_no prog hw '$' (by decide))
  have hargs : ∀ (l : List (Quote × List Seg)), l.all argOk = true →
      expandEnv e (l.map (fun a => (a.1.sep, render a.2))) = l.map (fun a => specToken e a.1 a.2) := by
    intro l
    induction l with
    | nil => intro _; rfl
    | cons a as ih =>
      intro h
      simp only [List.all_cons, Bool.and_eq_true] at h
      have ih' := ih h.2
      obtain ⟨q, w⟩ := a
      have hwok : wordOk w = true := by
        have := h.1; simp only [argOk, Bool.and_eq_true] at this; exact this.1.1
      have hone : expandEnv e [(q.sep, render w)] = [specToken e q w] := by
        by_cases hq : q = .sq
        · subst hq; simp [expandEnv, Quote.sep, specToken]
        · by_cases href : hasRef w = true
          · exact C10_token_dq e q w hq hwok (by rw [gate_eq_hasRef w hwok, href])
          · have href' : hasRef w = false := by simpa using href
            have hgate : envInToken (render w) = false := by rw [gate_eq_hasRef w hwok, href']
            have hs : ¬ (q.sep = ['`'] ∨ q.sep = ['\'']) := by
              cases q <;> simp [Quote.sep] at hq ⊢
            have hsame : specExpand e w = render w := specExpand_noRef e w href'
            simp [expandEnv, hs, hgate, specToken, hq, hsame]
      have : expandEnv e ((q.sep, render w) :: as.map (fun a => (a.1.sep, render a.2))) =
          expandEnv e [(q.sep, render w)] ++ expandEnv e (as.map (fun a => (a.1.sep, render a.2))) := by
        simp [expandEnv]
      simp only [List.map_cons]
      rw [this, hone, ih']
      rfl
  have : expandEnv e (([], prog) :: args.map (fun a => (a.1.sep, render a.2))) =
      ([], prog) :: expandEnv e (args.map (fun a => (a.1.sep, render a.2))) := by
    simp [expandEnv, hp]
  rw [this, hargs args ha]

/-- the token level of `C10_line` -/
theorem expandEnv_tokens (e : Env) (prog : Str) (args : List (Quote × List Seg)) (hg : lineGuard prog args = true) :
    expandEnv e (([], prog) :: args.map (fun a => (a.1.sep, render a.2))) =
      ([], prog) :: args.map (fun a => specToken e a.1 a.2) := by
  have := C10_line e prog args hg
  rw [parseLine_renderLine prog args hg] at this
  exact this

/-! ### the whole of `do_expansion`, when the expanded tokens are inert for the later passes -/

/-- a token no pass after `expand_env` touches (Boolean form of `C01.Quiet` without the `\`-tag): single-quoted; or
free of `$` and backquote and either double-quoted or untagged without `{`, `*` and a leading `~` -/
def inertTok (t : Tok) : Bool :=
  t.1 = ['\''] ||
  (t.2.all (fun c => c ≠ '$' && c ≠ '`') &&
    (t.1 = ['"'] || (t.1 = [] && t.2.all (fun c => c ≠ '{' && c ≠ '*') && t.2.head? ≠ some '~')))

theorem inertTok_quiet (t : Tok) (h : inertTok t = true) : C01.Quiet t := by
  simp only [inertTok, Bool.or_eq_true, Bool.and_eq_true, decide_eq_true_eq, List.all_eq_true] at h
  rcases h with h | ⟨h1, h2⟩
  · exact Or.inl h
  · refine Or.inr ⟨h1, ?_⟩
    rcases h2 with h2 | ⟨⟨h2, h3⟩, h4⟩
    · exact Or.inl h2
    · exact Or.inr (Or.inr ⟨h2, h3, h4⟩)

/-- **C10 (line level, all passes).**  If moreover the program word is no alias and not `export`/`xargs`, no
unquoted word starts with `~`, and the EXPANDED tokens are inert for the later passes (`inertTok`: a condition on
the words and the values of the variables they mention), then the whole of `do_expansion` on the tokenized line
yields exactly the program word and the reference tokens. -/
theorem C10_line_expansion (se : SubstEnv) (prog : Str) (args : List (Quote × List Seg)) (f : Nat)
    (hg : lineGuard prog args = true)
    (hexp : prog ≠ "export".toList) (hx : prog ≠ "xargs".toList) (ha : lookup se.env.aliases prog = none)
    (hhome : ∀ a ∈ args, a.1 = .none → (render a.2).head? ≠ some '~')
    (hin : ∀ a ∈ args, inertTok (specToken se.env a.1 a.2) = true)
    (hf : args.length + 2 < f) :
    doExpansion se f (parseLine (renderLine prog args)) =
      .ok (([], prog) :: args.map (fun a => specToken se.env a.1 a.2)) := by
  have hg0 := hg
  rw [parseLine_renderLine prog args hg]
  simp only [lineGuard, Bool.and_eq_true] at hg
  obtain ⟨⟨hw, hl⟩, hargs⟩ := hg
  cases f with
  | zero => omega
  | succ f =>
    have n1 := PassLemmas.word_no prog hw '|' (by decide)
    have hp1 : prog ≠ ['|'] := by intro e; exact n1 '|' (by simp [e]) rfl
    have harith : isArithmetic (tokensToLine (([], prog) :: args.map (fun a => (a.1.sep, render a.2)))) = false := by
      apply any_alpha_not_arith
      simp only [tokensToLine, List.map_cons]
      apply PassLemmas.joinWith_any_head
      simpa [tokenToText] using hl
    -- alias: the program word is no alias, no argument token is an untagged `|`
    have hnp : ∀ t ∈ args.map (fun a => (a.1.sep, render a.2)), ¬ (t.1 = [] ∧ t.2 = ['|']) := by
      intro t ht ⟨h1, h2⟩
      obtain ⟨a, hma, rfl⟩ := List.mem_map.mp ht
      obtain ⟨q, w⟩ := a
      have hok := (List.all_eq_true.mp hargs) _ hma
      simp only [argOk, Bool.and_eq_true] at hok
      have hch := render_charOk q w hok.1.1 hok.1.2
      cases q with
      | none =>
        simp only at h2
        rw [h2] at hch
        revert hch; decide
      | dq => simp [Quote.sep] at h1
      | sq => simp [Quote.sep] at h1
    have hal : expandAliasGo se.env false (args.map (fun a => (a.1.sep, render a.2))) =
        args.map (fun a => (a.1.sep, render a.2)) := by
      have := C01.expandAliasGo_false_append se.env _ [] hnp
      simpa [expandAliasGo] using this
    have hx' : ¬ prog = ['x', 'a', 'r', 'g', 's'] := hx
    have e1 : expandAlias se.env (([], prog) :: args.map (fun a => (a.1.sep, render a.2))) =
        ([], prog) :: args.map (fun a => (a.1.sep, render a.2)) := by
      simp [expandAlias, expandAliasGo, hp1, hx', ha, hal]
    -- home: no untagged token starts with `~`
    have e2 : expandHome se.env (([], prog) :: args.map (fun a => (a.1.sep, render a.2))) =
        ([], prog) :: args.map (fun a => (a.1.sep, render a.2)) := by
      apply C01.map_fix
      intro t ht
      rcases List.mem_cons.mp ht with rfl | ht
      · have : prog.head? ≠ some '~' := by
          intro e
          exact PassLemmas.word_no prog hw '~' (by decide) '~' (List.mem_of_mem_head? e) rfl
        simp [this]
      · obtain ⟨a, hma, rfl⟩ := List.mem_map.mp ht
        obtain ⟨q, w⟩ := a
        cases q with
        | none => have := hhome _ hma rfl; simp only at this; simp [Quote.sep, this]
        | dq => simp [Quote.sep]
        | sq => simp [Quote.sep]
    have hall : ∀ t ∈ ([], prog) :: args.map (fun a => specToken se.env a.1 a.2), C01.Quiet t := by
      intro t ht
      rcases List.mem_cons.mp ht with rfl | ht
      · exact C01.word_quiet prog hw
      · obtain ⟨a, hma, rfl⟩ := List.mem_map.mp ht
        exact inertTok_quiet _ (hin a hma)
    simp only [doExpansion, harith, Bool.false_eq_true, ↓reduceIte]
    split
    · rename_i h
      exact absurd (by simpa using h.2.1) hexp
    · rw [e1, e2, expandEnv_tokens se.env prog args hg0, C01.expandBrace_quiet _ hall]
      simp only [Outcome.bind]
      rw [C01.expandGlob_quiet _ _ hall, C01.substDotGo_quiet se _ f 0 (by simp; omega) hall]
      simp only [doExpansion.applyUpdates, List.foldl_nil]
      rw [C01.substDollarGo_quiet se _ f 0 (by simp; omega) hall]
      simp only [List.foldl_nil, C01.expandBraceRange_quiet _ hall]

/-! ### non-vacuity, and the guard is needed -/

def exArgs : List (Quote × List Seg) :=
  [(.none, [.lit "a=".toList, .var "V1".toList, .lit "/x*{1,2}>~".toList]),
   (.dq, [.lit "it is ".toList, .braced "SELF".toList, .lit " (ok) | # ; & ".toList, .status, .pid]),
   (.sq, [.var "V1".toList, .lit " ".toList]),
   (.dq, []),
   (.none, [.pid])]

example : lineGuard "echo".toList exArgs = true := by decide

/-- the instance of `C10_line`, computed: `V1`'s value `$V2` and the self-referential value are inserted once -/
example : expandEnv wEnv (parseLine (renderLine "echo".toList exArgs)) =
    [([], "echo".toList), ([], "a=$V2/x*{1,2}>~".toList), (['"'], "it is x$SELF (ok) | # ; & 01".toList),
     (['\''], "$V1 ".toList), (['"'], []), ([], "1".toList)] := by decide +kernel

/-- outside the guard: a backslash inside double quotes (it escapes the closing quote) … -/
example : lineGuard "echo".toList [(.dq, [.lit "a\\".toList])] = false ∧
    parseLine (renderLine "echo".toList [(.dq, [.lit "a\\".toList])]) ≠ [([], "echo".toList), (['"'], "a\\".toList)] := by
  decide
/-- … and a blank in an unquoted literal (two words) -/
example : lineGuard "echo".toList [(.none, [.lit "a b".toList])] = false ∧
    (parseLine (renderLine "echo".toList [(.none, [.lit "a b".toList])])).length = 3 := by decide

/-! non-vacuity of `C10_line_expansion`, and a value outside `inertTok` -/
def exArgs2 : List (Quote × List Seg) :=
  [(.none, [.lit "a=".toList, .var "V2".toList, .lit ".txt".toList]),
   (.dq, [.lit "x ".toList, .braced "V2".toList, .lit " | ".toList, .status]),
   (.sq, [.var "V1".toList])]
def exSe : SubstEnv := { env := wEnv, cmdOut := fun _ => "OUT".toList }

example : lineGuard "echo".toList exArgs2 = true ∧ lookup exSe.env.aliases "echo".toList = none ∧
    (∀ a ∈ exArgs2, a.1 = .none → (render a.2).head? ≠ some '~') ∧
    (∀ a ∈ exArgs2, inertTok (specToken exSe.env a.1 a.2) = true) := by decide

example : doExpansion exSe 8 (parseLine (renderLine "echo".toList exArgs2)) =
    .ok [([], "echo".toList), ([], "a=hello.txt".toList), (['"'], "x hello | 0".toList), (['\''], "$V1".toList)] := by
  decide +kernel

/-- a double-quoted word whose VALUE holds a backquoted command is outside `inertTok`: the substitution pass runs it -/
def bqSe : SubstEnv := { env := { vars := [("V".toList, "`x`".toList)] }, cmdOut := fun _ => "OUT".toList }
example : inertTok (specToken bqSe.env .dq [.var "V".toList]) = false ∧
    doExpansion bqSe 20 (parseLine (renderLine "echo".toList [(.dq, [.var "V".toList])])) =
      .ok [([], "echo".toList), (['"'], "OUT".toList)] := by decide +kernel

end Cicada.C10
