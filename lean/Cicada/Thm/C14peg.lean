import Cicada.Thm.C14
import Cicada.Lemmas.LocustRT
/-!
# C14, the parser half — the PEG round trip

`Thm/C14.lean` proves that the interpreter, run on ANY pair tree that represents an AST (`RBlock`), yields the structured
semantics of that AST.  Here: the pair tree that the grammar model (`Model/Locust.lean`, `parseLines`) builds for the
canonical text of an AST does represent it.

* `render semi b` (`Lemmas/LocustRT.lean`: `rS` / `rB` / `rA`, written with an explicit "rest of the text" argument; equal
  to the plain concatenation of lines `textB semi b` defined below, `render_eq_text`): one statement per line, every line
  ended by `\n`, no indentation; `break`, `continue`; with `semi = false` the heads are `if c` / `else if c` / `else` /
  `fi`, `for v in words` / `done`, `while c` / `done`; with `semi = true` they are spelled `if c; then`,
  `else if c; then`, `for v in words; do`, `while c; do` (the grammar's `DUMMY_THEN` / `DUMMY_DO`).
* `okAst args b` (decidable, input only): command lines are plain (not empty, no `\n` / `\r`, first and last character
  not white space), do not start like a keyword of `KW_LIST` (`if `, `for `, `else if `, `while `; not exactly `fi`,
  `done`, `else`), are not `break` / `continue` and are untouched by positional expansion (`expandArgs args l = l`, as
  `C14_interpreter_refines` needs); conditions and `for` word lists are plain and no suffix of them reads
  `;` blanks `then` / `do` blanks (which, with the newline, the grammar would take for the end of the head — `;` elsewhere
  is allowed); conditions of `if` / `while` are untouched by positional expansion; loop variables are identifiers; no
  body is empty (the grammar's `EXP_BODY` is `+`); an `if` has at least one arm.  Arbitrary nesting.
* `C14_parse_render`: for every such AST and both spellings, `parseLines (render semi b)` succeeds and the children of the
  `EXP` pair represent `b`.  The fuel: `C14_fuel_bound` (`cB b ≤ 2 * |render semi b|`, below `parseFuel`),
  `C14_parse_render_fuel` (every fuel `≥ cB b`).
* `C14_script_end_to_end`: `run_lines` on `render semi b` is no syntax error and yields `semBlock b`.
* stages: `C14_parse_render_flat` (exact tree for a flat list of commands), `C14_parse_render_depth1`.
Outside the guard: indentation, blank lines, trailing blanks, a mix of the two spellings in one script, a last line without
newline, `\r\n` line ends; lines that need positional expansion.
-/
namespace Cicada.C14
open Cicada Cicada.Locust

variable {sm : Bool}

/-- the class of ASTs covered by the round trip (see the header) -/
def okAst (args : List Str) (b : Block) : Bool := okB args b

/-- the parser fuel a block needs is at most twice the length of its text -/
theorem C14_fuel_bound (sm : Bool) (b : Block) : cB b ≤ 2 * (render sm b).length := by
  have := rB_len (sm := sm) b []
  simpa [render] using this

/-- the top rule on the rendered text, with any fuel from `cB b` on: all of the text is consumed and the pairs represent `b` -/
theorem C14_parse_render_fuel (sm : Bool) (args : List Str) (b : Block) (hok : okAst args b = true) (f : Nat) (hf : cB b ≤ f) :
    ∃ ts, pTop f (render sm b) = (ts, []) ∧ RBlock args b ts := by
  obtain ⟨ts, _, h2, h3⟩ := blockRT (sm := sm) args b hok [] f stop_nil hf
  exact ⟨ts, h2, h3⟩

/-- **PEG round trip**: the tree the grammar model builds for the canonical text of `b` represents `b` -/
theorem C14_parse_render (sm : Bool) (args : List Str) (b : Block) (hok : okAst args b = true) :
    ∃ ts, parseLines (render sm b) = some (.node "EXP" (render sm b) ts) ∧ RBlock args b ts := by
  obtain ⟨ts, h1, h2⟩ := C14_parse_render_fuel sm args b hok (parseFuel (render sm b))
    (by have := C14_fuel_bound sm b; simp only [parseFuel]; omega)
  refine ⟨ts, ?_, h2⟩
  simp [parseLines, h1, skip]

/-- **end to end**: running the rendered script is not a syntax error, and whatever `run_lines` returns is what the
structured semantics of the AST prescribes (`set -e` off) -/
theorem C14_script_end_to_end {σ} (sem : Sem σ) (sm : Bool) (args : List Str) (hE : ∀ s, sem.exitOnError s = false)
    (b : Block) (hok : okAst args b = true) (f : Nat) (st : σ) :
    runLines sem args f (render sm b) st ≠ .ok none ∧
    ∀ r, runLines sem args f (render sm b) st = .ok (some r) → ∃ g fl, semBlock sem g b false st = .ok (r.st, fl) := by
  obtain ⟨ts, hp, hR⟩ := C14_parse_render sm args b hok
  constructor
  · unfold runLines
    simp only [hp, Outcome.map]
    cases runExp sem args f (PT.node "EXP" (render sm b) ts).kids false st none <;> simp [Outcome.bind]
  · intro r hrun
    exact C14_script_refines sem args hE b (render sm b) (render sm b) ts hp hR f st r hrun

/-! ### the layout once more, in direct style -/

mutual
/-- the text of a statement (the same layout as `rS`, without the continuation argument) -/
def textS (sm : Bool) : Stmt → Str
  | .cmd l => l ++ ['\n']
  | .brk => "break\n".toList
  | .cont => "continue\n".toList
  | .ite arms els =>
    textA sm "if ".toList arms ++ ((if els.isNil then [] else "else\n".toList ++ textB sm els) ++ "fi\n".toList)
  | .for v init body => "for ".toList ++ (v ++ (" in ".toList ++ (init ++ (hEnd sm "do".toList ++ (textB sm body ++ "done\n".toList)))))
  | .whl t body => "while ".toList ++ (t ++ (hEnd sm "do".toList ++ (textB sm body ++ "done\n".toList)))
def textB (sm : Bool) : Block → Str
  | .nil => []
  | .cons s b => textS sm s ++ textB sm b
def textA (sm : Bool) (kw : Str) : Arms → Str
  | .nil => []
  | .cons t body rest => kw ++ (t ++ (hEnd sm "then".toList ++ (textB sm body ++ textA sm "else if ".toList rest)))
end

theorem textS_ite (arms : Arms) (els : Block) : textS sm (.ite arms els) =
    textA sm "if ".toList arms ++ ((if els.isNil then [] else "else\n".toList ++ textB sm els) ++ "fi\n".toList) := rfl
theorem textS_for (v init : Str) (body : Block) : textS sm (.for v init body) =
    "for ".toList ++ (v ++ (" in ".toList ++ (init ++ (hEnd sm "do".toList ++ (textB sm body ++ "done\n".toList))))) := rfl
theorem textS_whl (t : Str) (body : Block) : textS sm (.whl t body) =
    "while ".toList ++ (t ++ (hEnd sm "do".toList ++ (textB sm body ++ "done\n".toList))) := rfl
theorem textB_cons (s : Stmt) (b : Block) : textB sm (.cons s b) = textS sm s ++ textB sm b := rfl
theorem textA_cons (kw t : Str) (body : Block) (rest : Arms) : textA sm kw (.cons t body rest) =
    kw ++ (t ++ (hEnd sm "then".toList ++ (textB sm body ++ textA sm "else if ".toList rest))) := rfl

theorem text_ite (arms : Arms) (els : Block) (k : Str)
    (hA : ∀ k, rA sm "if ".toList arms k = textA sm "if ".toList arms ++ k) (hB : ∀ k, rB sm els k = textB sm els ++ k) :
    rS sm (.ite arms els) k = textS sm (.ite arms els) ++ k := by
  rw [rS_ite, textS_ite, hA]
  cases els.isNil <;> simp [hB]

theorem text_arm (kw t : Str) (body : Block) (rest : Arms) (k : Str)
    (hA : ∀ k, rA sm "else if ".toList rest k = textA sm "else if ".toList rest ++ k) (hB : ∀ k, rB sm body k = textB sm body ++ k) :
    rA sm kw (.cons t body rest) k = textA sm kw (.cons t body rest) ++ k := by
  rw [rA_cons, textA_cons, hA, hB]; simp

mutual
theorem rS_text : ∀ (s : Stmt) (k : Str), rS sm s k = textS sm s ++ k
  | .cmd l, k => by show l ++ '\n' :: k = (l ++ ['\n']) ++ k; simp
  | .brk, k => rfl
  | .cont, k => rfl
  | .ite arms els, k => text_ite arms els k (fun k => rA_text _ arms k) (fun k => rB_text els k)
  | .for v init body, k => by rw [rS_for, textS_for, rB_text body]; simp
  | .whl t body, k => by rw [rS_whl, textS_whl, rB_text body]; simp
theorem rB_text : ∀ (b : Block) (k : Str), rB sm b k = textB sm b ++ k
  | .nil, k => rfl
  | .cons s b, k => by rw [rB_cons, textB_cons, rS_text s, rB_text b]; simp
theorem rA_text : ∀ (kw : Str) (a : Arms) (k : Str), rA sm kw a k = textA sm kw a ++ k
  | _, .nil, _ => rfl
  | kw, .cons t body rest, k => text_arm kw t body rest k (fun k => rA_text _ rest k) (fun k => rB_text body k)
end

/-- `render` is the plain concatenation of the lines -/
theorem render_eq_text (sm : Bool) (b : Block) : render sm b = textB sm b := by
  simp [render, rB_text]

/-- the round trip, stated on the concatenated lines -/
theorem C14_parse_text (sm : Bool) (args : List Str) (b : Block) (hok : okAst args b = true) :
    ∃ ts, parseLines (textB sm b) = some (.node "EXP" (textB sm b) ts) ∧ RBlock args b ts := by
  rw [← render_eq_text]; exact C14_parse_render sm args b hok

/-! ### non-vacuity -/

/-- `cmd; for (if / else if (while, break) / else); cmd` with `continue`, `break`, `$x` and a `;` inside a line -/
def exAst : Block :=
  .cons (.cmd "echo a; echo b".toList)
  (.cons (.for "x".toList "1 2 3".toList
      (.cons (.ite (.cons "test $x = 2".toList (.cons .cont .nil)
                   (.cons "test $x = 3".toList
                      (.cons (.whl "false".toList (.cons (.cmd "fix it".toList) .nil)) (.cons .brk .nil)) .nil))
                   (.cons (.cmd "echo $x".toList) .nil))
      (.cons (.cmd "done1".toList) .nil)))
  (.cons (.cmd "z".toList) .nil))

set_option maxRecDepth 4000 in
/-- the hypotheses of `C14_parse_render` / `C14_script_end_to_end` hold for `exAst`, whose text is
`echo a; echo b / for x in 1 2 3 / if test $x = 2 / continue / else if test $x = 3 / while false / fix it / done / break /
else / echo $x / fi / done1 / done / z` -/
example : okAst [] exAst = true := by decide

def exSmall : Block :=
  .cons (.whl "t".toList (.cons (.ite (.cons "a".toList (.cons .brk .nil) .nil) (.cons (.cmd "c".toList) .nil)) .nil)) .nil

example : okAst [] exSmall = true := by decide
set_option maxRecDepth 4000 in
example : render false exSmall = "while t\nif a\nbreak\nelse\nc\nfi\ndone\n".toList := by decide
set_option maxRecDepth 4000 in
example : render true exSmall = "while t; do\nif a; then\nbreak\nelse\nc\nfi\ndone\n".toList := by decide
example : cB exSmall = 13 ∧ parseFuel (render false exSmall) = 72 := by decide

/-- the `; then` / `; do` spelling of `exSmall`, parsed: the `TEST` pairs carry the bare conditions -/
example : parseLines (render true exSmall) = some (.node "EXP" (render true exSmall)
    [.node "EXP_WHILE" "while t; do\nif a; then\nbreak\nelse\nc\nfi\ndone\n".toList
      [.node "WHILE_HEAD" "while t; do\n".toList [.node "TEST" "t".toList []],
       .node "EXP_BODY" "if a; then\nbreak\nelse\nc\nfi\n".toList
        [.node "EXP_IF" "if a; then\nbreak\nelse\nc\nfi\n".toList
          [.node "IF_IF_BR" "if a; then\nbreak\n".toList
            [.node "IF_HEAD" "if a; then\n".toList [.node "TEST" "a".toList []],
             .node "EXP_BODY" "break\n".toList [.node "CMD" "break\n".toList []]],
           .node "IF_ELSE_BR" "else\nc\n".toList
            [.node "KW_ELSE" "else\n".toList [], .node "EXP_BODY" "c\n".toList [.node "CMD" "c\n".toList []]]]]]]) := by
  rfl

/-- the guard is not trivially true: a command line that is a keyword, an empty body, a condition ending in `; then` -/
example : okAst [] (.cons (.cmd "fi".toList) .nil) = false ∧
    okAst [] (.cons (.whl "t".toList .nil) .nil) = false ∧
    okAst [] (.cons (.whl "t; then".toList (.cons .brk .nil)) .nil) = false ∧
    okAst [] (.cons (.whl "t; echo then".toList (.cons .brk .nil)) .nil) = true := by decide

/-! ### stage 1: flat scripts, with the exact tree -/

def flat : List Str → Block
  | [] => .nil
  | l :: ls => .cons (.cmd l) (flat ls)

theorem flat_top (ls : List Str) (h : ∀ l ∈ ls, plainB l = true ∧ notKwB l = true) :
    ∀ f, ls.length ≤ f → pTop f (rB sm (flat ls) []) = (ls.map (fun l => .node "CMD" (l ++ ['\n']) []), []) := by
  induction ls with
  | nil => intro f _; exact stop_nil.top f
  | cons l ls ih =>
    intro f hf
    obtain ⟨g, rfl⟩ : ∃ g, f = g + 1 := ⟨f - 1, by simp at hf; omega⟩
    have hl := h l (by simp)
    have hp := plain_of_plainB hl.1
    have ih' := ih (fun l' hl' => h l' (List.mem_cons_of_mem _ hl')) g (by simp at hf; omega)
    have hsk : skip (rB sm (flat ls) []) = rB sm (flat ls) [] := by
      cases ls with
      | nil => rfl
      | cons l' ls' =>
        exact (plain_of_plainB (h l' (by simp)).1).skipApp _
    have hlen : (rB sm (flat ls) []).length < (l ++ '\n' :: rB sm (flat ls) []).length := by simp; omega
    show pTop (g + 1) (l ++ '\n' :: rB sm (flat ls) []) = _
    rw [pTop_succ, (item_line hp hl.2 _ g).2]
    simp only [hlen, ↓reduceIte, hsk, ih']
    cases ls with
    | nil => rfl
    | cons l' ls' => simp

theorem flat_cost (ls : List Str) : cB (flat ls) = ls.length := by
  induction ls with
  | nil => rfl
  | cons l ls ih => show cS (.cmd l) + cB (flat ls) + 1 = _; rw [ih]; simp [cS]

/-- **stage 1**: a flat list of plain lines that do not start like a keyword (`break` / `continue` and lines with
positional parameters included) parses to exactly one `CMD` pair per line, each spanning the line and its newline -/
theorem C14_parse_render_flat (sm : Bool) (ls : List Str) (h : ∀ l ∈ ls, plainB l = true ∧ notKwB l = true) :
    parseLines (render sm (flat ls)) =
      some (.node "EXP" (render sm (flat ls)) (ls.map (fun l => .node "CMD" (l ++ ['\n']) []))) := by
  have hf : ls.length ≤ parseFuel (render sm (flat ls)) := by
    have := C14_fuel_bound sm (flat ls)
    rw [flat_cost] at this
    simp only [parseFuel]; omega
  have := flat_top (sm := sm) ls h _ hf
  simp only [render] at this ⊢
  simp [parseLines, this, skip]

example : parseLines "echo $1\nbreak\nfix x\n".toList =
    some (.node "EXP" "echo $1\nbreak\nfix x\n".toList
      [.node "CMD" "echo $1\n".toList [], .node "CMD" "break\n".toList [], .node "CMD" "fix x\n".toList []]) :=
  C14_parse_render_flat false ["echo $1".toList, "break".toList, "fix x".toList] (by decide)

/-! ### stage 2: one level of blocks with flat bodies (a special case of `C14_parse_render`) -/

def flatB : Block → Bool
  | .nil => true
  | .cons (.cmd _) b => flatB b
  | .cons .brk b => flatB b
  | .cons .cont b => flatB b
  | .cons _ _ => false

def flatA : Arms → Bool
  | .nil => true
  | .cons _ body rest => flatB body && flatA rest

def depth1 : Block → Bool
  | .nil => true
  | .cons (.ite arms els) b => flatA arms && flatB els && depth1 b
  | .cons (.for _ _ body) b => flatB body && depth1 b
  | .cons (.whl _ body) b => flatB body && depth1 b
  | .cons _ b => depth1 b

/-- **stage 2** -/
theorem C14_parse_render_depth1 (sm : Bool) (args : List Str) (b : Block) (hok : okAst args b = true) (_h1 : depth1 b = true) :
    ∃ ts, parseLines (render sm b) = some (.node "EXP" (render sm b) ts) ∧ RBlock args b ts :=
  C14_parse_render sm args b hok

end Cicada.C14
