import Cicada.Spec.C20
namespace Cicada.C20
open Cicada

/-- every character on which `parse_line`, `line_to_cmds` or a pass branches is in the escape class -/
theorem C20_class_covers :
    [' ', '\'', '"', '`', '\\', '$', '(', ')', '<', '>', '|', '#', '&', ';', '{', '}', ',', '*'].all inEscapeClass = true := by
  decide

end Cicada.C20
