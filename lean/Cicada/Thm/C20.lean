import Cicada.Lemmas.C20
/-!
# C20 — what TAB inserts for a file name is read back as exactly that file

Chain modelled: `complete_path` (last token of `parse_line word`, `split_dir_file`, prefix and `for_dir`
filters, `escape_path` / `wrap_sep_string`, sort), then the line it leaves at the prompt through
`line_to_cmds`, `parse_line`, the seven expansion passes and planning (the functions of C01).

* `C20_full` — the property at full strength (refuted: `C20_full_false`).
* `C20_roundtrip_partial` — proved: for every environment, every plain program word and every path text in
  `okName` (unquoted: any characters except `$` `` ` `` `*` `{` `<` `>`, not starting with `~` or `|`, not
  `&`, not ending in white space — blanks, quotes, backslashes, `#`, `;`, `&`, `|`, parentheses, brackets,
  `!`, `^`, `,`, `}`, `?`, `=`, `%`, tabs, newlines and all non-ASCII text included; inside `'`: any text
  without `'`; inside `"`: any text without `$` `` ` `` `\` `"`), files and directories, the completed
  line is exactly one command whose argv is `[prog, name]`.
* `C20_candidates` — proved for all listings: what is offered is exactly (a permutation of) the offers for
  the entries that start with the typed prefix, directories only when asked.
* `C20_wordstart_boundary` — for all lines the word start is a character boundary inside the line.
* `C20_class_covers`, `C20_class_misses_tilde` — over the escape class regenerated from `src/tools.rs`.
* one kernel-checked witness per open finding class.
-/
namespace Cicada.C20
open Cicada Cicada.TokLemmas Cicada.PassLemmas

/-- a file name the file system permits -/
def validName (n : Str) : Prop := n ≠ [] ∧ (∀ c ∈ n, c ≠ '/' ∧ c ≠ '\x00')

/-- the round trip at full strength: every context, every permitted name, files and directories -/
def C20_roundtrip_full : Prop :=
  ∀ (se : SubstEnv) (prog : Str) (ctx : Ctx) (n : Str) (isDir : Bool),
    C01.plainWord prog = true → (lookup se.env.aliases prog).isNone = true → prog ≠ "xargs".toList →
    validName n → ∀ f, 4 < f → Holds20 se f prog ctx n isDir

/-- a directory listing: names are non-empty and hold no `/` -/
def listingOk (fs : Str → Option (List (Str × Bool))) : Prop :=
  ∀ d es, fs d = some es → ∀ e ∈ es, ∀ c ∈ e.1, c ≠ '/'

def lookupDir (pre : Str) : Str := if uptoLast '/' pre = [] then ['.'] else uptoLast '/' pre

/-- what `complete_path` must answer for a typed prefix: the offers for the spec's candidates, in some order -/
def CandidatesHold (fs : Str → Option (List (Str × Bool))) (envVar : Str → Option Str) (ctx : Ctx) (pre : Str) (forDir : Bool) : Prop :=
  ∃ L, completePath fs envVar (typedWord ctx pre) forDir = .ok L ∧
    L.Perm ((candidates ((fs (lookupDir pre)).getD []) (afterLast '/' pre) forDir).map (offer ctx (uptoLast '/' pre)))

def C20_candidates_full : Prop :=
  ∀ fs envVar ctx pre forDir, listingOk fs → prefixExpressible ctx pre = true → CandidatesHold fs envVar ctx pre forDir

/-- **the property at full strength** -/
def C20_full : Prop := C20_roundtrip_full ∧ C20_candidates_full

/-! ### over the generated escape class -/

/-- every character on which `parse_line`, `line_to_cmds` or an expansion pass branches is in the escape class … -/
theorem C20_class_covers :
    [' ', '\'', '"', '`', '\\', '$', '(', ')', '<', '>', '|', '#', '&', ';', '{', '}', ',', '*'].all inEscapeClass = true := by
  decide

/-- … except `~`, on which `expand_home` branches (finding `tilde-first`) -/
theorem C20_class_misses_tilde : inEscapeClass '~' = false := by decide

/-! ### the round trip -/

theorem escapePath_slash (n : Str) : escapePath n ++ ['/'] = escapePath (n ++ ['/']) := by
  rw [escapePath_append]
  have : inEscapeClass '/' = false := by decide
  simp [escapePath, this]

theorem dropLast_wrap (q : Char) (n : Str) : (q :: (n ++ [q])).dropLast = q :: n := by
  rw [← List.cons_append, List.dropLast_concat]

theorem holds_of_plan (se : SubstEnv) (f : Nat) (prog : Str) (ctx : Ctx) (n : Str) (isDir : Bool) (sep : Str)
    (h : planLine se f (lineAfterTab prog ctx n isDir) = .ok (.ok (onePlan prog (received n isDir) sep))) :
    Holds20 se f prog ctx n isDir :=
  ⟨_, h, by simp [C01.obsOfPlan, expectedObs, onePlan]⟩

/-- **C20, round trip (proved part).** -/
theorem C20_roundtrip_partial (se : SubstEnv) (prog : Str) (ctx : Ctx) (n : Str) (isDir : Bool)
    (hp : C01.plainWord prog = true) (ha : (lookup se.env.aliases prog).isNone = true) (hx : prog ≠ "xargs".toList)
    (f : Nat) (hf : 4 < f) (hn : okName ctx (received n isDir) = true) :
    Holds20 se f prog ctx n isDir := by
  have ha' : lookup se.env.aliases prog = none := by
    cases h : lookup se.env.aliases prog with
    | none => rfl
    | some v => rw [h] at ha; simp at ha
  cases ctx with
  | unq =>
    apply holds_of_plan se f prog .unq n isDir []
    have e : lineAfterTab prog .unq n isDir = prog ++ ' ' :: escapePath (received n isDir) := by
      cases isDir <;> simp [lineAfterTab, argAfterTab, insertText, received, escapePath_slash]
    rw [e]
    exact plan_unq se f prog _ hp ha' hx hf hn
  | sq =>
    apply holds_of_plan se f prog .sq n isDir ['\'']
    have hq : ∀ c ∈ received n isDir, c ≠ '\'' := by
      intro c hc e; subst e
      simp [okName] at hn
      exact hn hc
    have hqn : ∀ c ∈ n, c ≠ '\'' := by
      intro c hc; apply hq
      cases isDir <;> simp [received, hc]
    have e : lineAfterTab prog .sq n isDir = C01.renderCmd prog [(.sq, received n isDir)] := by
      cases isDir <;>
        simp [lineAfterTab, argAfterTab, insertText, received, wrapSepString_id '\'' n hqn, C01.renderCmd, C01.renderArg, dropLast_wrap]
    rw [e]
    have hg : C01.guard se.env prog [(.sq, received n isDir)] = true := by
      simp only [C01.guard, hp, ha, Bool.true_and, Bool.and_eq_true, decide_eq_true_eq, List.all_cons, List.all_nil, Bool.and_true]
      exact ⟨hx, hn⟩
    exact plan_quoted se f prog .sq _ hg hf
  | dq =>
    apply holds_of_plan se f prog .dq n isDir ['"']
    have hq : ∀ c ∈ received n isDir, c ≠ '"' := by
      intro c hc e; subst e
      simp [okName] at hn
      exact (hn _ hc).2 rfl
    have hqn : ∀ c ∈ n, c ≠ '"' := by
      intro c hc; apply hq
      cases isDir <;> simp [received, hc]
    have e : lineAfterTab prog .dq n isDir = C01.renderCmd prog [(.dq, received n isDir)] := by
      cases isDir <;>
        simp [lineAfterTab, argAfterTab, insertText, received, wrapSepString_id '"' n hqn, C01.renderCmd, C01.renderArg, dropLast_wrap]
    rw [e]
    have hg : C01.guard se.env prog [(.dq, received n isDir)] = true := by
      simp only [C01.guard, hp, ha, Bool.true_and, Bool.and_eq_true, decide_eq_true_eq, List.all_cons, List.all_nil, Bool.and_true]
      exact ⟨hx, hn⟩
    exact plan_quoted se f prog .dq _ hg hf

/-! ### the candidates -/

/-- **C20, candidates (all listings).** For every directory listing, every environment, and every typed prefix
in `okPrefix`, what `complete_path` offers is exactly the offers for the spec's candidates, in some order. -/
theorem C20_candidates (fs : Str → Option (List (Str × Bool))) (envVar : Str → Option Str) (ctx : Ctx) (pre : Str) (forDir : Bool)
    (hfs : listingOk fs) (h : okPrefix ctx pre = true) : CandidatesHold fs envVar ctx pre forDir := by
  obtain ⟨hp, he, hh, hd, hs⟩ := okPrefix_facts ctx pre h
  unfold CandidatesHold completePath
  simp only [hp, he, hh, expandEnvString_id envVar pre hd, splitPathname, Bool.false_eq_true, ↓reduceIte]
  have hl : (if uptoLast '/' pre = [] then ['.'] else uptoLast '/' pre) = lookupDir pre := rfl
  rw [hl]
  cases hfd : fs (lookupDir pre) with
  | none => exact ⟨[], rfl, by simp [candidates]⟩
  | some entries =>
    refine ⟨_, rfl, ?_⟩
    simp only [Option.getD_some, candidates]
    refine (List.mergeSort_perm _ _).trans ?_
    have hmap : ∀ l : List (Str × Bool), (∀ e ∈ l, ∀ c ∈ e.1, c ≠ '/') →
        l.map (fun x => mkCompletion ctx.sep false (uptoLast '/' pre) x.1 x.2) = l.map (offer ctx (uptoLast '/' pre)) := by
      intro l hl'
      apply List.map_congr_left
      intro e he'
      exact mkCompletion_offer ctx pre e.1 e.2 hs (hl' e he')
    have hfilter : (entries.filter (fun x => (!forDir || x.2) && startsWith x.1 (afterLast '/' pre))) =
        entries.filter (fun e => startsWith e.1 (afterLast '/' pre) && (!forDir || e.2)) := by
      congr 1; funext x; exact Bool.and_comm _ _
    have hsub : ∀ e ∈ entries.filter (fun e => startsWith e.1 (afterLast '/' pre) && (!forDir || e.2)), ∀ c ∈ e.1, c ≠ '/' :=
      fun e he' => hfs _ _ hfd e (List.mem_filter.mp he').1
    rw [hfilter, hmap _ hsub]
    exact ((List.mergeSort_perm _ _).map _).symm

/-! ### the word under the cursor -/

/-- **the word start is a character boundary inside the line**, for every line (the editor's slice cannot panic) -/
theorem C20_wordstart_boundary (line : Str) :
    ∃ k, k ≤ line.length ∧ escapedWordStart line = utf8Len (line.take k) := wordstart_boundary line

theorem C20_wordstart_le (line : Str) : escapedWordStart line ≤ utf8Len line := by
  obtain ⟨k, _, h⟩ := wordstart_boundary line
  rw [h]; exact utf8Len_take_le line k

/-! ### open findings: kernel-checked witnesses (each runs through the real code in every check) -/

/-- the witnesses' world: `$HOME`, a variable `V`, and a directory in which `a*b` also matches `axb` -/
def wEnv : SubstEnv :=
  { env := { exported := [("HOME".toList, "/h".toList), ("V".toList, "val".toList)],
             glob := fun p => if p = "a*b".toList then some ["a*b".toList, "axb".toList] else some [] },
    cmdOut := fun _ => [] }

def planArgs (toks : List Tok) (bg : Bool := false) : Outcome (Except String Plan) :=
  .ok (.ok { commands := [{ tokens := toks, redirectsTo := [], redirectFrom := none }], envs := [], background := bg })

theorem not_holds_of (se : SubstEnv) (f : Nat) (prog : Str) (ctx : Ctx) (n : Str) (isDir : Bool) (toks : List Tok) (bg : Bool)
    (h : planLine se f (lineAfterTab prog ctx n isDir) = planArgs toks bg)
    (hr : ¬ (toks.map (·.2) = [prog, received n isDir] ∧ bg = false)) : ¬ Holds20 se f prog ctx n isDir := by
  intro ⟨plan, h1, h2⟩
  rw [h] at h1
  simp only [planArgs] at h1
  injection h1 with h1; injection h1 with h1
  subst h1
  apply hr
  have e1 := congrArg C01.Obs.stages h2
  have e3 := congrArg C01.Obs.background h2
  simp only [C01.obsOfPlan, expectedObs, List.map_cons, List.map_nil, List.cons.injEq, Prod.mk.injEq, and_true] at e1 e3
  exact ⟨e1, e3⟩

def P : Str := "prog".toList

/-- a name holding `*` is inserted as `\*` and still globbed (KF-C20-esc-glob) -/
theorem C20_finding_esc_glob : ¬ Holds20 wEnv 20 P .unq "a*b".toList false :=
  not_holds_of _ _ _ _ _ _ [([], P), ([], "a*b".toList), ([], "axb".toList)] false (by rfl) (by decide)

/-- a name starting with `~` is inserted as it is and expanded to `$HOME` (KF-C20-tilde-first) -/
theorem C20_finding_tilde_first : ¬ Holds20 wEnv 20 P .unq "~a".toList false :=
  not_holds_of _ _ _ _ _ _ [([], P), ([], "/ha".toList)] false (by rfl) (by decide)

/-- a name holding `$V` is inserted as `\$V` and the variable is still expanded (KF-C20-esc-dollar) -/
theorem C20_finding_esc_dollar : ¬ Holds20 wEnv 20 P .unq "a$V".toList false :=
  not_holds_of _ _ _ _ _ _ [([], P), ([], "aval".toList)] false (by rfl) (by decide)

/-- the name `{a,b}` is inserted as `\{a\,b\}` and still brace-expanded (KF-C20-esc-brace) -/
theorem C20_finding_esc_brace : ¬ Holds20 wEnv 20 P .unq "{a,b}".toList false :=
  not_holds_of _ _ _ _ _ _ [([], P), ([], "a".toList), ([], "b".toList)] false (by rfl) (by decide)

/-- escaped backquotes still delimit a command substitution (KF-C20-esc-backquote) -/
theorem C20_finding_esc_backquote : ¬ Holds20 wEnv 20 P .unq "a`b`".toList false :=
  not_holds_of _ _ _ _ _ _ [([], P), ([], "a".toList)] false (by rfl) (by decide)

/-- the file name `&` puts the command in the background (KF-C20-esc-amp) -/
theorem C20_finding_esc_amp : ¬ Holds20 wEnv 20 P .unq "&".toList false :=
  not_holds_of _ _ _ _ _ _ [([], P)] true (by rfl) (by decide)

/-- a file name ending in a blank loses it (KF-C20-trailing-blank) -/
theorem C20_finding_trailing_blank : ¬ Holds20 wEnv 20 P .unq "a ".toList false :=
  not_holds_of _ _ _ _ _ _ [([], P), ([], "a".toList)] false (by rfl) (by decide)

/-- inside an open single quote, `it's` is inserted as `'it\'s'` and read back as `it\s` (KF-C20-sq-quote) -/
theorem C20_finding_sq_quote : ¬ Holds20 wEnv 20 P .sq "it's".toList false :=
  not_holds_of _ _ _ _ _ _ [([], P), (['\''], "it\\s".toList)] false (by rfl) (by decide)

/-- inside an open double quote a `$V` in the name is expanded (KF-C20-dq-dollar) -/
theorem C20_finding_dq_dollar : ¬ Holds20 wEnv 20 P .dq "a$V".toList false :=
  not_holds_of _ _ _ _ _ _ [([], P), (['"'], "aval".toList)] false (by rfl) (by decide)

/-- inside an open double quote backquotes in the name run a command (KF-C20-dq-backquote) -/
theorem C20_finding_dq_backquote : ¬ Holds20 wEnv 20 P .dq "a`b`".toList false :=
  not_holds_of _ _ _ _ _ _ [([], P), (['"'], "a".toList)] false (by rfl) (by decide)

/-- inside an open double quote a final backslash escapes the closing quote (KF-C20-dq-backslash) -/
theorem C20_finding_dq_backslash : ¬ Holds20 wEnv 20 P .dq "a\\".toList false :=
  not_holds_of _ _ _ _ _ _ [([], P), (['"'], "a\"".toList)] false (by rfl) (by decide)

theorem C20_full_false : ¬ C20_full := by
  intro h
  exact C20_finding_tilde_first (h.1 wEnv P .unq "~a".toList false (by decide) (by rfl) (by decide) ⟨by decide, by decide⟩ 20 (by decide))

/-- an unquoted prefix typed `\\|` is read as a token tagged `\\`: the candidate is wrapped in backslashes and the
program receives `|` instead of `|#` (KF-C20-prefix-pipe-first) -/
theorem C20_finding_prefix_pipe_first :
    completePath (fun _ => some [("|#".toList, false)]) (fun _ => none) (typedWord .unq "|".toList) false
      = .ok [{ completion := "\\|#\\".toList, display := none, dirSuffix := false }] ∧
    planLine wEnv 20 (P ++ ' ' :: "\\|#\\".toList) = planArgs [([], P), (['\\'], "|".toList)] :=
  ⟨by decide +kernel, by rfl⟩

/-- an unquoted prefix typed `\\$` : the same wrapping, and the escaping is switched off
(KF-C20-prefix-dollar) -/
theorem C20_finding_prefix_dollar :
    completePath (fun _ => some [("$a b".toList, false)]) (fun _ => none) (typedWord .unq "$".toList) false
      = .ok [{ completion := "\\$a b\\".toList, display := none, dirSuffix := false }] ∧
    planLine wEnv 20 (P ++ ' ' :: "\\$a b\\".toList) = planArgs [([], P), (['\\'], []), ([], "b".toList)] :=
  ⟨by decide +kernel, by rfl⟩

/-- the candidate theorem does not extend to these prefixes: the offer differs from the spec's -/
theorem C20_candidates_full_false : ¬ C20_candidates_full := by
  intro h
  obtain ⟨L, h1, h2⟩ := h (fun _ => some [("|#".toList, false)]) (fun _ => none) .unq "|".toList false
    (by intro d es e x hx c hc; simp at e; subst e; simp at hx; subst hx; revert c; decide) (by rfl)
  rw [C20_finding_prefix_pipe_first.1] at h1
  injection h1 with h1
  subst h1
  have : (candidates ((some [("|#".toList, false)] : Option (List (Str × Bool))).getD []) (afterLast '/' "|".toList) false).map
      (offer .unq (uptoLast '/' "|".toList)) = [{ completion := "\\|\\#".toList, display := none, dirSuffix := false }] := by
    decide +kernel
  simp only [lookupDir] at h2
  rw [this] at h2
  have := h2.eq_singleton
  revert this
  decide

/-! ### non-vacuity -/
example : okName .unq "sp ace (1) 'q' \"d\" a;b #x &y |z [é] 日本.txt".toList = true := by decide
example : okName .sq "$HOME/*.{a,b} `x` \"q\" ~ \\ ".toList = true ∧ okName .dq "it's * {a,b} ~ | ; & # ".toList = true := by decide
example : okPrefix .unq "sub/ab".toList = true ∧ okPrefix .sq "a b|c".toList = true ∧ okPrefix .dq "it's".toList = true := by decide
example : Holds20 wEnv 20 P .unq "sp ace.txt".toList false :=
  C20_roundtrip_partial wEnv P .unq _ false (by decide) (by rfl) (by decide) 20 (by decide) (by decide)

end Cicada.C20
