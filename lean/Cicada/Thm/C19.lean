import Cicada.Lemmas.Pratt
import Mathlib.Tactic.Ring
/-!
# C19 — arithmetic lines evaluate with standard precedence and never crash the shell

* `C19_pratt` : for every expression tree that standard precedence (`^` > `* /` > `+ -`) and
  associativity (`^` right, the others left) print without parentheses, pest's Pratt loop with the table
  of `calculator/mod.rs` (regenerated into `Generated.prattLevels` on every run; the facts used are
  `decide`d over it) parses the flat form back to exactly that tree, whatever fuel answers, and some fuel
  does.  Parenthesised sub-expressions are atoms of the outer level (pest groups them before the loop).
* `C19_classify` : the classification rule, both directions, for all strings.
* `C19_wrap_hom` : 64-bit integer mode: `+ - *` evaluate to the exact result reduced to the 64-bit
  two's-complement range (a homomorphism: intermediate wrapping does not matter).
* `C19_div` : division truncates toward zero; `/ 0` saturates, `MIN / -1` wraps to `MIN`.
* crash freedom is `C05_calc_no_panic` (Thm/C05.lean), listed for this property too.
Open: `^` against the exact power (`powWrap` is square-and-multiply; correspondence only), the PEG round
trip, float mode (Lean's `Float` is opaque to the kernel).
-/
namespace Cicada.Calc

variable {α : Type}

theorem loop_det {f g : Nat} {lhs : E α} {rbp rest r r'} (h1 : loop f lhs rbp rest = some r) (h2 : loop g lhs rbp rest = some r') :
    r = r' := by
  have a := loop_mono' f (max f g) (Nat.le_max_left f g) _ _ _ _ h1
  have b := loop_mono' g (max f g) (Nat.le_max_right f g) _ _ _ _ h2
  rw [a] at b; exact Option.some.inj b

/-- **precedence and associativity**: the flat form of a parenthesis-free tree parses back to the tree -/
theorem C19_pratt (e : E α) (h : WF e) (f : Nat) (r) (hr : loop f (.atom (hd e)) 0 (tl e) = some r) : r = (e, []) := by
  obtain ⟨g, hg⟩ := pratt_roundtrip e h
  exact loop_det hr hg

theorem C19_pratt_terminates (e : E α) (h : WF e) : ∃ g, loop g (.atom (hd e)) 0 (tl e) = some (e, []) :=
  pratt_roundtrip e h

/-! ### classification -/

theorem reArithShape_iff (s : Str) :
    reArithShape s = true ↔ ∃ init last, s = init ++ [last] ∧ init ≠ [] ∧ init.all arithBody = true ∧ arithLast last = true := by
  constructor
  · intro h
    unfold reArithShape at h
    cases hl : s.getLast? with
    | none => rw [hl] at h; simp at h
    | some last =>
      rw [hl] at h
      have hne : s ≠ [] := by intro e; subst e; simp at hl
      have hsplit : s = s.dropLast ++ [last] := by
        have := List.dropLast_concat_getLast hne
        rw [List.getLast?_eq_some_getLast hne] at hl
        simp at hl; rw [hl] at this; exact this.symm
      simp only [Bool.and_eq_true, Bool.not_eq_true', List.isEmpty_eq_false_iff] at h
      exact ⟨s.dropLast, last, hsplit, h.1.1, h.1.2, h.2⟩
  · intro ⟨init, last, h1, h2, h3, h4⟩
    subst h1
    simp [reArithShape, h2, h3, h4]

/-- **the classification rule**: a line is arithmetic iff it holds a digit and an operator, consists of
digits, `.`, operators, parentheses and blanks only, and ends in a digit, `.`, blank or `)` -/
theorem C19_classify (s : Str) :
    isArithmetic s = true ↔
      (s.any isDigitA = true ∧ s.any arithOp = true ∧
        ∃ init last, s = init ++ [last] ∧ init ≠ [] ∧ init.all arithBody = true ∧ arithLast last = true) := by
  simp only [isArithmetic, Bool.and_eq_true, reArithShape_iff, and_assoc]

/-! ### integer mode -/

/-- exact evaluation over the integers (reference) -/
def evalZ : E Int → Int
  | .atom v => v
  | .bin .add l r => evalZ l + evalZ r
  | .bin .sub l r => evalZ l - evalZ r
  | .bin .mul l r => evalZ l * evalZ r
  | .bin .div l r => Int.tdiv (evalZ l) (evalZ r)
  | .bin .pow l r => evalZ l ^ (evalZ r).toNat

/-- trees built from `+ - *` only -/
def Ring3 : E Int → Prop
  | .atom _ => True
  | .bin o l r => (o = .add ∨ o = .sub ∨ o = .mul) ∧ Ring3 l ∧ Ring3 r

theorem pow63 : (2 : Int) ^ 63 = 9223372036854775808 := by decide
theorem pow64 : (2 : Int) ^ 64 = 18446744073709551616 := by decide

theorem wrap64_def (z : Int) : wrap64 z = (z + 9223372036854775808) % 18446744073709551616 - 9223372036854775808 := by
  simp [wrap64, pow63, pow64]

theorem wrap64_congr (x y : Int) (h : (x - y) % 18446744073709551616 = 0) : wrap64 x = wrap64 y := by
  rw [wrap64_def, wrap64_def]; omega

theorem wrap64_sub_self_mod (x : Int) : ∃ k : Int, wrap64 x = x - 18446744073709551616 * k := by
  refine ⟨(x + 9223372036854775808) / 18446744073709551616, ?_⟩
  rw [wrap64_def]
  have := Int.emod_def (x + 9223372036854775808) 18446744073709551616
  omega

theorem wrap64_idem (x : Int) : wrap64 (wrap64 x) = wrap64 x := by
  rw [wrap64_def, wrap64_def]; omega

theorem wrap64_add (a b : Int) : wrap64 (wrap64 a + wrap64 b) = wrap64 (a + b) := by
  obtain ⟨k, hk⟩ := wrap64_sub_self_mod a
  obtain ⟨l, hl⟩ := wrap64_sub_self_mod b
  apply wrap64_congr
  rw [hk, hl]
  have : a - 18446744073709551616 * k + (b - 18446744073709551616 * l) - (a + b) = 18446744073709551616 * (-(k + l)) := by ring
  rw [this]; exact Int.mul_emod_right _ _

theorem wrap64_sub (a b : Int) : wrap64 (wrap64 a - wrap64 b) = wrap64 (a - b) := by
  obtain ⟨k, hk⟩ := wrap64_sub_self_mod a
  obtain ⟨l, hl⟩ := wrap64_sub_self_mod b
  apply wrap64_congr
  rw [hk, hl]
  have : a - 18446744073709551616 * k - (b - 18446744073709551616 * l) - (a - b) = 18446744073709551616 * (l - k) := by ring
  rw [this]; exact Int.mul_emod_right _ _

theorem wrap64_mul (a b : Int) : wrap64 (wrap64 a * wrap64 b) = wrap64 (a * b) := by
  obtain ⟨k, hk⟩ := wrap64_sub_self_mod a
  obtain ⟨l, hl⟩ := wrap64_sub_self_mod b
  apply wrap64_congr
  rw [hk, hl]
  have : (a - 18446744073709551616 * k) * (b - 18446744073709551616 * l) - a * b =
      18446744073709551616 * (-(a * l) - k * b + 18446744073709551616 * k * l) := by ring
  rw [this]; exact Int.mul_emod_right _ _

/-- **wrapping is exact arithmetic modulo 2^64**: for `+ - *` trees over 64-bit operands the value computed
with wrap-around at every step is the exact integer result reduced to the 64-bit range -/
theorem C19_wrap_hom (t : E Int) (h : Ring3 t) :
    ∃ r, evalTree t = .ok r ∧ wrap64 r = wrap64 (evalZ t) := by
  induction t with
  | atom v => exact ⟨v, rfl, rfl⟩
  | bin o l r ihl ihr =>
    obtain ⟨ho, hl, hr⟩ := h
    obtain ⟨a, ha1, ha2⟩ := ihl hl
    obtain ⟨b, hb1, hb2⟩ := ihr hr
    rcases ho with rfl | rfl | rfl
    · refine ⟨wrap64 (a + b), by simp [evalTree, ha1, hb1, Outcome.bind, applyOp], ?_⟩
      rw [wrap64_idem, evalZ, ← wrap64_add a b, ha2, hb2, wrap64_add]
    · refine ⟨wrap64 (a - b), by simp [evalTree, ha1, hb1, Outcome.bind, applyOp], ?_⟩
      rw [wrap64_idem, evalZ, ← wrap64_sub a b, ha2, hb2, wrap64_sub]
    · refine ⟨wrap64 (a * b), by simp [evalTree, ha1, hb1, Outcome.bind, applyOp], ?_⟩
      rw [wrap64_idem, evalZ, ← wrap64_mul a b, ha2, hb2, wrap64_mul]

/-- **division**: truncation toward zero; by zero saturates by sign; `MIN / -1` wraps to `MIN` -/
theorem C19_div (l r : Int) :
    applyOp .div l r = .ok (if r = 0 then (if l > 0 then i64Max else if l < 0 then i64Min else 0) else wrap64 (Int.tdiv l r)) := by
  simp only [applyOp]; split <;> rfl

theorem C19_div_min : applyOp .div i64Min (-1) = .ok i64Min := by decide

/-! ### non-vacuity: 1 + 2 * 3 ^ 2 ^ 2 - 4 -/
def wTree : E Int := .bin .sub (.bin .add (.atom 1) (.bin .mul (.atom 2) (.bin .pow (.atom 3) (.bin .pow (.atom 2) (.atom 2))))) (.atom 4)
example : WF wTree := by
  obtain ⟨t1, t2, t3, t4, t5, t6, t7, t8, t9, t10⟩ := table_facts
  simp [wTree, WF, rootPrec, t1, t2, t3, t4, t5, t6, t7, t8, t9, t10]
example : tl wTree = [(.add, 2), (.mul, 3), (.pow, 2), (.pow, 2), (.sub, 4)] := by rfl

end Cicada.Calc
