import Cicada.Model.Highlight
import Cicada.Thm.C05
set_option linter.unusedSimpArgs false
/-!
# C05, interactive half: the highlighter's ranges tile the typed line at character boundaries

`lineread` slices the line with every range the highlighter returns (`&line[range]`): a range that ends past the line,
starts before the previous one ended, or falls inside a multi-byte character panics the shell while the user types.
`C05_highlight_tiles`: for EVERY line, whatever the tokenizer returns for it, the ranges are consecutive, start at 0,
end at the line's byte length, and every end point is the byte length of a prefix of the line (a character boundary).
-/
namespace Cicada.Highlight
open Cicada

theorem byteLen_append (a b : Str) : byteLen (a ++ b) = byteLen a + byteLen b := by
  simp [byteLen, List.map_append, List.sum_append]

theorem startsWith_split : ∀ (a p : Str), startsWith a p = true → a = p ++ a.drop p.length := by
  intro a p
  induction p generalizing a with
  | nil => intro _; simp
  | cons x xs ih =>
    intro h
    cases a with
    | nil => simp [startsWith] at h
    | cons c cs =>
      simp only [startsWith, Bool.and_eq_true, decide_eq_true_eq] at h
      obtain ⟨rfl, h2⟩ := h
      simp only [List.length_cons, List.drop_succ_cons, List.cons_append]
      rw [← ih cs h2]

theorem utf8Len_pos (c : Char) : 0 < utf8Len c := by
  unfold utf8Len; exact Char.utf8Size_pos c

theorem dropBytes_append : ∀ (p r : Str), findToken.dropBytes (p ++ r) (byteLen p) = r := by
  intro p
  induction p with
  | nil => intro r; cases r <;> simp [byteLen, findToken.dropBytes]
  | cons c cs ih =>
    intro r
    have hpos := utf8Len_pos c
    have e : byteLen (c :: cs) = utf8Len c + byteLen cs := by simp [byteLen]
    rw [e]
    simp only [List.cons_append]
    cases hn : utf8Len c + byteLen cs with
    | zero => omega
    | succ m =>
      simp only [findToken.dropBytes]
      have : utf8Len c ≤ m + 1 := by omega
      simp only [this, ↓reduceIte]
      have e2 : m + 1 - utf8Len c = byteLen cs := by omega
      rw [e2]; exact ih r

/-- what `find_token_range_heuristic` returns splits the search area into skipped text, token text and the rest -/
theorem findToken_split (area sep word : Str) (skip len : Nat) (rest' : Str)
    (h : findToken area sep word = some (skip, len, rest')) :
    ∃ p q, area = p ++ q ++ rest' ∧ skip = byteLen p ∧ len = byteLen q := by
  unfold findToken at h
  simp only at h
  by_cases hall : (List.takeWhile isWsU area).length = area.length
  · rw [if_pos hall] at h; cases h
  rw [if_neg hall] at h
  generalize hsk : (if byteLen (List.takeWhile isWsU area) < area.length then byteLen (List.takeWhile isWsU area) else 0) = sk at h
  have harea : area = area.take sk ++ area.drop sk := (List.take_append_drop sk area).symm
  generalize area.drop sk = a at h harea
  generalize area.take sk = p at h harea
  have hnil : ∀ x : Str, startsWith x [] = true := by intro x; cases x <;> simp [startsWith]
  by_cases hs : sep ≠ [] ∧ startsWith a sep = true
  · simp only [hs, and_self, ↓reduceIte, ne_eq, not_false_eq_true] at h
    have ea := startsWith_split a sep hs.2
    by_cases hw : startsWith (a.drop sep.length) word = true
    · rw [if_pos hw] at h
      have eb := startsWith_split _ word hw
      generalize (a.drop sep.length).drop word.length = r at eb h
      by_cases ht : startsWith r sep = true
      · simp only [ht, ↓reduceIte, and_self, and_true, and_false, if_true, if_false, Option.some.injEq, Prod.mk.injEq] at h
        obtain ⟨h1, h2, h3⟩ := h
        have er := startsWith_split r sep ht
        have this : a = (sep ++ word ++ sep) ++ r.drop sep.length := by
          rw [ea, eb, er]; simp [List.append_assoc]
        have e3 : byteLen sep + byteLen word + byteLen sep = byteLen (sep ++ word ++ sep) := by
          simp [byteLen_append, Nat.add_assoc]
        refine ⟨p, sep ++ word ++ sep, ?_, h1.symm, ?_⟩
        · rw [← h3, e3]
          conv => rhs; rw [this]
          rw [dropBytes_append, harea, this]; simp [List.append_assoc]
        · rw [← h2]; exact e3
      · simp only [ht, ↓reduceIte, Bool.false_eq_true, and_self, and_true, and_false, if_true, if_false, Nat.add_zero, Option.some.injEq, Prod.mk.injEq] at h
        obtain ⟨h1, h2, h3⟩ := h
        have this : a = (sep ++ word) ++ r := by rw [ea, eb]; simp [List.append_assoc]
        have e3 : byteLen sep + byteLen word = byteLen (sep ++ word) := by simp [byteLen_append]
        refine ⟨p, sep ++ word, ?_, h1.symm, ?_⟩
        · rw [← h3, e3]
          conv => rhs; rw [this]
          rw [dropBytes_append, harea, this]; simp [List.append_assoc]
        · rw [← h2]; exact e3
    · rw [if_neg hw] at h
      have hwne : word ≠ [] := fun e => hw (e ▸ hnil _)
      rw [if_neg (fun hh => hwne hh.1)] at h
      by_cases hw2 : startsWith a word = true
      · rw [if_pos hw2] at h
        simp only [Option.some.injEq, Prod.mk.injEq] at h
        obtain ⟨h1, h2, h3⟩ := h
        have eb := startsWith_split a word hw2
        refine ⟨p, word, ?_, h1.symm, h2.symm⟩
        rw [← h3, harea]
        conv => lhs; rw [eb]
        simp [List.append_assoc]
      · rw [if_neg hw2] at h; cases h
  · simp only [hs, ↓reduceIte] at h
    by_cases hw : startsWith a word = true
    · rw [if_pos hw] at h
      have eb := startsWith_split a word hw
      generalize a.drop word.length = r at eb h
      by_cases ht : sep ≠ [] ∧ startsWith r sep = true
      · simp only [ht, and_self, ↓reduceIte, Nat.zero_add, ne_eq, not_false_eq_true, Option.some.injEq, Prod.mk.injEq] at h
        obtain ⟨h1, h2, h3⟩ := h
        have er := startsWith_split r sep ht.2
        have this : a = (word ++ sep) ++ r.drop sep.length := by rw [eb, er]; simp [List.append_assoc]
        have e3 : byteLen word + byteLen sep = byteLen (word ++ sep) := by simp [byteLen_append]
        refine ⟨p, word ++ sep, ?_, h1.symm, ?_⟩
        · rw [← h3, e3]
          conv => rhs; rw [this]
          rw [dropBytes_append, harea, this]; simp [List.append_assoc]
        · rw [← h2]; exact e3
      · simp only [ht, ↓reduceIte, Nat.zero_add, Nat.add_zero, Option.some.injEq, Prod.mk.injEq] at h
        obtain ⟨h1, h2, h3⟩ := h
        refine ⟨p, word, ?_, h1.symm, h2.symm⟩
        rw [← h3]
        conv => rhs; rw [eb]
        rw [dropBytes_append, harea, eb]; simp [List.append_assoc]
    · rw [if_neg hw] at h
      have hwne : word ≠ [] := fun e => hw (e ▸ hnil _)
      rw [if_neg (fun hh => hwne hh.1)] at h
      rw [if_neg hw] at h; cases h

/-- consecutive ranges from `a` to `b` whose end points all satisfy `B` -/
def Tiles (B : Nat → Prop) : List (Nat × Nat × Bool) → Nat → Nat → Prop
  | [], a, b => a = b
  | (s, e, _) :: rs, a, b => s = a ∧ s ≤ e ∧ B e ∧ Tiles B rs e b

/-- `n` is the byte offset of a character boundary of `line` -/
def Boundary (line : Str) (n : Nat) : Prop := ∃ k, n = byteLen (line.take k)

theorem boundary_prefix (pre rest : Str) : Boundary (pre ++ rest) (byteLen pre) :=
  ⟨pre.length, by simp⟩

theorem tiles_append {B} : ∀ (xs ys : List (Nat × Nat × Bool)) (a m b : Nat), Tiles B xs a m → Tiles B ys m b → Tiles B (xs ++ ys) a b := by
  intro xs
  induction xs with
  | nil => intro ys a m b h1 h2; simp only [Tiles] at h1; subst h1; simpa using h2
  | cons x xs ih =>
    intro ys a m b h1 h2
    obtain ⟨s, e, g⟩ := x
    obtain ⟨h11, h12, h13, h14⟩ := h1
    exact ⟨h11, h12, h13, ih ys e m b h14 h2⟩

theorem ranges_tiles (line : Str) : ∀ (ts : List Tok) (pre rest : Str) (seg : Bool), line = pre ++ rest →
    Tiles (Boundary line) (ranges ts rest (byteLen pre) seg) (byteLen pre) (byteLen line) := by
  intro ts
  induction ts with
  | nil =>
    intro pre rest seg hl
    unfold ranges
    split
    · refine ⟨rfl, ?_, ?_, ?_⟩
      · omega
      · rw [← byteLen_append, ← hl]; exact ⟨line.length, by simp⟩
      · simp [Tiles, hl, byteLen_append]
    · rename_i hr
      simp only [ne_eq, Decidable.not_not] at hr
      subst hr
      simp [Tiles, hl]
  | cons t ts ih =>
    intro pre rest seg hl
    obtain ⟨sep, word⟩ := t
    unfold ranges
    split
    · split
      · refine ⟨rfl, ?_, ?_, ?_⟩
        · omega
        · rw [← byteLen_append, ← hl]; exact ⟨line.length, by simp⟩
        · simp [Tiles, hl, byteLen_append]
      · rename_i hr
        simp only [ne_eq, Decidable.not_not] at hr
        subst hr
        simp [Tiles, hl]
    · rename_i skip len rest' hf
      obtain ⟨p, q, hpq, rfl, rfl⟩ := findToken_split _ _ _ _ _ _ hf
      simp only
      have hl2 : line = (pre ++ p ++ q) ++ rest' := by rw [hl, hpq]; simp [List.append_assoc]
      have hl1 : line = (pre ++ p) ++ (q ++ rest') := by rw [hl, hpq]; simp [List.append_assoc]
      have e1 : byteLen pre + byteLen p = byteLen (pre ++ p) := by simp [byteLen_append]
      have e2 : byteLen pre + byteLen p + byteLen q = byteLen (pre ++ p ++ q) := by simp [byteLen_append, Nat.add_assoc]
      apply tiles_append _ _ _ (byteLen pre + byteLen p + byteLen q)
      · apply tiles_append _ _ _ (byteLen pre + byteLen p)
        · split
          · refine ⟨rfl, by omega, ?_, rfl⟩
            rw [e1, hl1]; exact boundary_prefix _ _
          · rename_i h0
            have : byteLen p = 0 := by omega
            simp [Tiles, this]
        · refine ⟨rfl, by omega, ?_, rfl⟩
          rw [e2, hl2]; exact boundary_prefix _ _
      · rw [e2]; exact ih (pre ++ p ++ q) rest' _ hl2

/-- **C05 (interactive half)** — for every line the highlighter's ranges are consecutive from byte 0 to the end of
the line and every range ends at a character boundary: no slice `&line[range]` taken by the line editor can panic -/
theorem C05_highlight_tiles (line : Str) : Tiles (Boundary line) (highlight line) 0 (byteLen line) := by
  unfold highlight
  split
  · rename_i h; subst h; simp [Tiles, byteLen]
  · simp only
    split
    · exact ⟨rfl, by omega, ⟨line.length, by simp⟩, rfl⟩
    · have := ranges_tiles line (parseLine line) [] line true (by simp)
      simpa [byteLen] using this

/-- the statement is not vacuous: a line with a multi-byte character, a quoted token, a pipe and a builtin -/
example : highlight "é \"a b\" | cd".toList = [(0, 2, false), (2, 3, false), (3, 8, false), (8, 9, false), (9, 10, false), (10, 11, false), (11, 13, true)] := by
  decide +kernel

end Cicada.Highlight
