import Cicada.Thm.C12glob
/-!
# C12, filename expansion: every glob word of a line has its OWN "nothing matched, keep the pattern" fallback

`C12_glob_flatMap` : under the hypothesis of `C12_glob_refines`, the model's `expandGlob` is the concatenation, over the
tokens of the line, of each token's own expansion `ownGlob` (a function of that token and the matcher ONLY): whether one
glob word matched has no influence on any other word, for any number of glob words in any order.

`C12_each_glob_own_fallback` : the line `[p, ("", pat1), ("", pat2)]` where `pat1` has a visible match and `pat2` has
none yields `p`, the visible matches of `pat1`, then `pat2` itself (it does not vanish because `pat1` matched).
`C12_each_glob_own_fallback'` : the same with the two glob words swapped.
-/
namespace Cicada.C12
open Cicada

/-- the expansion of ONE token: depends on that token and the matcher only -/
def ownGlob (glob : Str → Option (List Str)) (t : Tok) : List Tok :=
  if t.1 = [] ∧ t.2.contains '*' then (globWords ((glob t.2).getD []) t.2).map tagBlank else [t]

/-- the visible answers of the matcher for a pattern -/
def visibleOf (glob : Str → Option (List Str)) (pat : Str) : List Str :=
  ((glob pat).getD []).filter (fun p => !hiddenFor pat p)

/-- (local abbreviation used in the proofs below) -/
private abbrev e_filter (glob : Str → Option (List Str)) (pat : Str) : List Str :=
  ((glob pat).getD []).filter (fun p => !hiddenFor pat p)

theorem globSpec_eq_flatMap (glob : Str → Option (List Str)) (ts : List Tok) :
    globSpec glob ts = ts.flatMap (ownGlob glob) := rfl

/-- **C12: the filename pass is tokenwise** — the concatenation of each token's own expansion -/
theorem C12_glob_flatMap (e : Env) (ts : List Tok) (h : ts.all (globOk e) = true) :
    expandGlob e ts = ts.flatMap (ownGlob e.glob) := by
  rw [C12_glob_refines e ts h]; rfl

/-- consequence: the pass distributes over concatenation of lines -/
theorem C12_glob_append (e : Env) (ts us : List Tok) (h : (ts ++ us).all (globOk e) = true) :
    expandGlob e (ts ++ us) = expandGlob e ts ++ expandGlob e us := by
  have h' := h
  simp only [List.all_append, Bool.and_eq_true] at h'
  rw [C12_glob_flatMap e _ h, C12_glob_flatMap e _ h'.1, C12_glob_flatMap e _ h'.2, List.flatMap_append]

theorem ownGlob_plain (glob : Str → Option (List Str)) (t : Tok) (h : ¬ (t.1 = [] ∧ t.2.contains '*' = true)) :
    ownGlob glob t = [t] := by
  unfold ownGlob; rw [if_neg h]

theorem ownGlob_match (glob : Str → Option (List Str)) (pat : Str) (hc : pat.contains '*' = true)
    (hv : visibleOf glob pat ≠ []) : ownGlob glob ([], pat) = (visibleOf glob pat).map tagBlank := by
  have hv' : ¬ ((e_filter glob pat) = []) := hv
  unfold ownGlob globWords
  rw [if_pos ⟨rfl, hc⟩]
  show List.map tagBlank (if e_filter glob pat = [] then [pat] else e_filter glob pat) = _
  rw [if_neg hv']; rfl

theorem ownGlob_nomatch (glob : Str → Option (List Str)) (pat : Str) (hc : pat.contains '*' = true)
    (hv : visibleOf glob pat = []) (hb : pat.contains ' ' = false) : ownGlob glob ([], pat) = [([], pat)] := by
  have hv' : e_filter glob pat = [] := hv
  unfold ownGlob globWords
  rw [if_pos ⟨rfl, hc⟩]
  show List.map tagBlank (if e_filter glob pat = [] then [pat] else e_filter glob pat) = _
  rw [if_pos hv']
  have hm : ¬ ' ' ∈ pat := by simpa using hb
  simp [tagBlank, hm]

/-- **C12: each glob word has its own fallback** — a first glob word that matched does not make a second, unmatched
one vanish -/
theorem C12_each_glob_own_fallback (e : Env) (p : Tok) (pat1 pat2 : Str)
    (hok : [p, ([], pat1), ([], pat2)].all (globOk e) = true)
    (hp : ¬ (p.1 = [] ∧ p.2.contains '*' = true))
    (h1 : pat1.contains '*' = true) (h2 : pat2.contains '*' = true) (hb2 : pat2.contains ' ' = false)
    (hv1 : visibleOf e.glob pat1 ≠ []) (hv2 : visibleOf e.glob pat2 = []) :
    expandGlob e [p, ([], pat1), ([], pat2)] = p :: ((visibleOf e.glob pat1).map tagBlank ++ [([], pat2)]) := by
  rw [C12_glob_flatMap e _ hok]
  simp only [List.flatMap_cons, List.flatMap_nil, ownGlob_plain _ p hp, ownGlob_match _ pat1 h1 hv1,
    ownGlob_nomatch _ pat2 h2 hv2 hb2, List.append_nil, List.cons_append, List.nil_append]

/-- the same in the other order: an unmatched glob word before a matched one -/
theorem C12_each_glob_own_fallback' (e : Env) (p : Tok) (pat1 pat2 : Str)
    (hok : [p, ([], pat2), ([], pat1)].all (globOk e) = true)
    (hp : ¬ (p.1 = [] ∧ p.2.contains '*' = true))
    (h1 : pat1.contains '*' = true) (h2 : pat2.contains '*' = true) (hb2 : pat2.contains ' ' = false)
    (hv1 : visibleOf e.glob pat1 ≠ []) (hv2 : visibleOf e.glob pat2 = []) :
    expandGlob e [p, ([], pat2), ([], pat1)] = p :: ([], pat2) :: (visibleOf e.glob pat1).map tagBlank := by
  rw [C12_glob_flatMap e _ hok]
  simp only [List.flatMap_cons, List.flatMap_nil, ownGlob_plain _ p hp, ownGlob_match _ pat1 h1 hv1,
    ownGlob_nomatch _ pat2 h2 hv2 hb2, List.append_nil, List.cons_append, List.nil_append]

/-! ### non-vacuity: `prog *.txt *.zzz` with `*.txt ↦ [a.txt]`, `*.zzz ↦ []` -/
def twoGlob : Str → Option (List Str) := fun p =>
  if p = "*.txt".toList then some ["a.txt".toList] else if p = "*.zzz".toList then some [] else none

def twoLine : List Tok := [([], "prog".toList), ([], "*.txt".toList), ([], "*.zzz".toList)]

example : twoLine.all (globOk { glob := twoGlob }) = true := by decide
example : ¬ ((([], "prog".toList) : Tok).1 = [] ∧ (([], "prog".toList) : Tok).2.contains '*' = true) := by decide
example : "*.txt".toList.contains '*' = true ∧ "*.zzz".toList.contains '*' = true ∧
    "*.zzz".toList.contains ' ' = false := by decide
example : visibleOf twoGlob "*.txt".toList ≠ [] ∧ visibleOf twoGlob "*.zzz".toList = [] := by decide
/-- the model itself, run on the line: the second word is kept -/
example : expandGlob { glob := twoGlob } twoLine =
    [([], "prog".toList), ([], "a.txt".toList), ([], "*.zzz".toList)] := by decide
example : expandGlob { glob := twoGlob } [([], "prog".toList), ([], "*.zzz".toList), ([], "*.txt".toList)] =
    [([], "prog".toList), ([], "*.zzz".toList), ([], "a.txt".toList)] := by decide

end Cicada.C12

#print axioms Cicada.C12.C12_glob_flatMap
#print axioms Cicada.C12.C12_glob_append
#print axioms Cicada.C12.C12_each_glob_own_fallback
#print axioms Cicada.C12.C12_each_glob_own_fallback'
