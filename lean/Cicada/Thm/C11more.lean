import Cicada.Lemmas.SubstRT
/-!
# C11, continued — the backquote form at full generality, the `$(…)` form at the pass level, the greedy finding

Vocabulary (all from `Cicada/Lemmas/SubstRT.lean`):
* `dotLoopLog`, `dotGoLog`, `dollarLoopLog`, `dollarGoLog` are the model's `substDotLoop`, `substDotGo`,
  `substDollarLoop`, `substDollarGo` with the list of texts handed to `runInner` returned beside the result;
  `C11_log_erasure` states that their first components ARE the model functions, for all inputs.  "Exactly once, left
  to right" is the statement that this list equals the list of the commands written in the word.
* `Answers se F run cmds` : the oracle hypothesis — every listed inner command, at every fuel `≥ F`, is answered
  `run cmd` (`some` trimmed output / `none` when the text cannot be planned).  `C11_backquote_plain` instantiates
  it (`F = 5`, `run c = some (trim (cmdOut c))`) for plain program words; note the model trims BOTH ends
  (KF-C11-trim-both-ends) — the theorems say what the model does.
* `bqWord lit [(c₁,l₁),…,(cₙ,lₙ)]` = lit `c₁` l₁ … `cₙ` lₙ ; `bqResult run` the same with the answers in place.

Theorems
* `C11_backquote_loop`, `C11_backquote_word`, `C11_backquote_pass` : (a) of the brief.  No guard at all on the
  outputs: the loop goes on with the *tail*, the outputs go into the accumulated item and are never re-scanned by
  this pass (`C11_backquote_output_literal` is the witness with an output that spells a backquote command).
* `C11_finding_backquote_newline_tail` : outside the guard — a newline anywhere after the first closing backquote
  makes the matcher fail (`(.*)$` does not cross a newline), and the whole word is left as it is.
* `C11_dollar_single_exact`, `C11_dollar_pass` : (b).
* `C11_finding_greedy`, `C11_finding_greedy_loop`, `C11_dollar_word_exact` : (c).
* `C11_backquote_expansion` : all of `doExpansion` on `prog inert… "piece word" inert…`;
  `C11_finding_output_rerun` : the same line when the spliced text spells `p$(d)q` — the following `$(…)` pass runs `d`
  (KF-C11-output-rescanned, as a theorem over all inputs of the guard).
Outside what is proved here: an unquoted piece word through the whole of `doExpansion` (brace / glob / range passes
see it), a piece word that holds `$`, nested substitutions, commands other than plain words for the discharged
oracle (`Answers` is a hypothesis there), and the tokenizer's side (a word that STARTS with a backquote becomes a
whole-token substitution, KF-C11-backquote-suffix; `C11_backquote_pass` covers that token shape as `DotTok.whole`).
-/
namespace Cicada.C11
open Cicada Cicada.PassLemmas Cicada.TokLemmas Cicada.SubstRT

/-- the instrumented copies are the model functions (first component), for all inputs -/
theorem C11_log_erasure (se : SubstEnv) :
    (∀ f item tok, (dotLoopLog se f item tok).1 = substDotLoop se f item tok) ∧
    (∀ f idx ts, (dotGoLog se f idx ts).1 = substDotGo se f idx ts) ∧
    (∀ f line, (dollarLoopLog se f line).1 = substDollarLoop se f line) ∧
    (∀ f idx ts, (dollarGoLog se f idx ts).1 = substDollarGo se f idx ts) :=
  ⟨dotLoopLog_fst se, dotGoLog_fst se, dollarLoopLog_fst se, dollarGoLog_fst se⟩

/-! ## (a) the backquote form -/

/-- **the embedded-backquote loop** on lit₀ `c₁` lit₁ … `cₙ` litₙ : every literal kept, every command replaced
by the oracle's answer (nothing when rejected), the commands queried once each, left to right; outputs arbitrary.
Guard `bqGuard`: literals free of backquotes; commands non-empty and free of backquotes; everything after the
closing backquote of the first command free of newlines (lit₀ and c₁ may contain newlines). Fuel `≥ n + F + 1`. -/
theorem C11_backquote_loop (se : SubstEnv) (F : Nat) (run : Str → Option Str) (lit : Str) (ps : List (Str × Str))
    (f : Nat) (hg : bqGuard lit ps = true) (ha : Answers se F run (ps.map (·.1))) (hf : ps.length + F + 1 ≤ f) :
    substDotLoop se f [] (bqWord lit ps) = .ok (bqResult run lit ps) ∧
    (dotLoopLog se f [] (bqWord lit ps)).2 = ps.map (·.1) := by
  simp only [bqGuard, Bool.and_eq_true] at hg
  have h := dotLoopLog_pieces se F run ps lit [] f hg.1.1 hg.1.2 hg.2 ha hf
  rw [← dotLoopLog_fst, h]
  simp

/-- **the backquote pass, one word**: a double-quoted (`dq = true`) or unquoted token whose text is a piece word
with at least one command, among tokens neither pass touches: exactly one update — that token, with
`bqResult` — and the query log is the word's commands in order. -/
theorem C11_backquote_word (se : SubstEnv) (F : Nat) (run : Str → Option Str) (pre post : List Tok) (dq : Bool)
    (lit : Str) (ps : List (Str × Str)) (f idx : Nat)
    (hpre : ∀ t ∈ pre, NoSubst t) (hpost : ∀ t ∈ post, NoSubst t)
    (hne : ps ≠ []) (hg : bqGuard lit ps = true) (ha : Answers se F run (ps.map (·.1)))
    (hf : pre.length + post.length + ps.length + F + 3 ≤ f) :
    substDotGo se f idx (pre ++ (if dq then ['"'] else [], bqWord lit ps) :: post)
      = .ok [(idx + pre.length, bqResult run lit ps)] ∧
    (dotGoLog se f idx (pre ++ (if dq then ['"'] else [], bqWord lit ps) :: post)).2 = ps.map (·.1) := by
  have h := dotGoLog_toks se F run (pre.map .skip ++ DotTok.word dq lit ps :: post.map .skip) f idx
    (by
      intro t ht
      simp only [List.mem_append, List.mem_map, List.mem_cons] at ht
      rcases ht with ⟨x, hx, rfl⟩ | rfl | ⟨x, hx, rfl⟩
      · exact noSubst_dotSkip x (hpre x hx)
      · exact ⟨hne, hg⟩
      · exact noSubst_dotSkip x (hpost x hx))
    (by
      simpa [List.flatMap_append, dot_queries_skip, DotTok.queries] using ha)
    (by
      simp [List.flatMap_append, dot_queries_skip, DotTok.queries]
      omega)
  simp only [List.map_append, List.map_cons, dot_render_skip, DotTok.render, List.flatMap_append,
    List.flatMap_cons, dot_queries_skip, DotTok.queries, List.nil_append, List.append_nil,
    dotUpdates_skip_append, dotUpdates, dotUpdates_skips] at h
  rw [← dotGoLog_fst, h]
  simp

/-- the token list after the pass: that token's text replaced, separator kept, every other token untouched -/
theorem C11_backquote_word_applied (pre post : List Tok) (sep w r : Str) :
    doExpansion.applyUpdates (pre ++ (sep, w) :: post) [(0 + pre.length, r)] = pre ++ (sep, r) :: post := by
  simpa using applyUpdates_single pre post sep w r

/-- **the whole backquote pass**, any number of substitution tokens of the three shapes (`DotTok`: skipped token,
piece word in double quotes or unquoted, whole-token substitution): updates are exactly `dotUpdates`, and every
command of the line is queried exactly once, in reading order. -/
theorem C11_backquote_pass (se : SubstEnv) (F : Nat) (run : Str → Option Str) (ts : List DotTok) (f idx : Nat)
    (hok : ∀ t ∈ ts, t.Ok) (ha : Answers se F run (ts.flatMap DotTok.queries))
    (hf : ts.length + (ts.flatMap DotTok.queries).length + F + 2 ≤ f) :
    substDotGo se f idx (ts.map DotTok.render) = .ok (dotUpdates run idx ts) ∧
    (dotGoLog se f idx (ts.map DotTok.render)).2 = ts.flatMap DotTok.queries := by
  have h := dotGoLog_toks se F run ts f idx hok ha hf
  rw [← dotGoLog_fst, h]
  simp

/-- (a) with the oracle discharged: the commands are plain program words (not aliases, not `xargs`); each is
replaced by `trim (cmdOut c)` — trimmed on BOTH ends, KF-C11-trim-both-ends — whatever the outputs are. -/
theorem C11_backquote_plain (se : SubstEnv) (lit : Str) (ps : List (Str × Str)) (f : Nat)
    (hg : bqGuard lit ps = true) (hc : ∀ c ∈ ps.map (·.1), PlainCmd se c) (hf : ps.length + 6 ≤ f) :
    substDotLoop se f [] (bqWord lit ps) = .ok (bqResult (fun c => some (trim (se.cmdOut c))) lit ps) ∧
    (dotLoopLog se f [] (bqWord lit ps)).2 = ps.map (·.1) :=
  C11_backquote_loop se 5 _ lit ps f hg (answers_plain se _ hc) (by omega)

/-- outside the guard (finding): a newline after the first closing backquote — in a later literal or command —
makes the anchored matcher fail, so the word is not touched at all and no command runs -/
theorem C11_finding_backquote_newline_tail (lit c tl : Str) (hl : noBq lit = true) (hc : noBq c = true)
    (hn : noNl tl = false) :
    matchBackquote (lit ++ '`' :: (c ++ '`' :: tl)) = none := by
  have tw : ∀ (s r : Str), (∀ x ∈ s, x ≠ '`') →
      (s ++ '`' :: r).takeWhile (fun x => !decide (x = '`')) = s ∧
      (s ++ '`' :: r).dropWhile (fun x => !decide (x = '`')) = '`' :: r := by
    intro s r
    induction s with
    | nil => intro _; simp
    | cons y ys ih =>
      intro h
      have := ih (fun x hx => h x (by simp [hx]))
      simp [h y (by simp), this.1, this.2]
  obtain ⟨_, a2⟩ := tw lit (c ++ '`' :: tl) (noBq_mem hl)
  obtain ⟨_, b2⟩ := tw c tl (noBq_mem hc)
  simp only [matchBackquote, ne_eq, decide_not]
  rw [a2]
  simp only
  rw [b2]
  simp [hn]

/-! ## (b) the `$(…)` form at the pass level -/

/-- **one `$(…)` word among untouched tokens**: the token `p$(cmd)q` (any separator but `'` and `\`) is replaced
by `p ++ answer ++ q`, no other token is updated, and the oracle is queried exactly once, with `cmd`.
Guards: `dolGuard` on the word; on the answer only that the rewritten word does not call for another
substitution (`shouldDoDollar … = false` — the loop's own exit test; without it the loop goes on,
KF-C11-output-rescanned). -/
theorem C11_dollar_single_exact (se : SubstEnv) (F : Nat) (run : Str → Option Str) (pre post : List Tok)
    (sep p cmd q : Str) (f idx : Nat)
    (hpre : ∀ t ∈ pre, NoSubst t) (hpost : ∀ t ∈ post, NoSubst t)
    (hs1 : sep ≠ ['\'']) (hs2 : sep ≠ ['\\']) (hg : dolGuard p cmd q = true)
    (ha : Answers se F run [cmd])
    (hstop : shouldDoDollar (p ++ (run cmd).getD [] ++ q) = false)
    (hf : pre.length + post.length + F + 4 ≤ f) :
    substDollarGo se f idx (pre ++ (sep, dolWord p cmd q) :: post)
      = .ok (some [(idx + pre.length, p ++ (run cmd).getD [] ++ q)]) ∧
    (dollarGoLog se f idx (pre ++ (sep, dolWord p cmd q) :: post)).2 = [cmd] := by
  have h := dollarGoLog_toks se F run (pre.map .skip ++ DolTok.word sep p cmd q :: post.map .skip) f idx
    (by
      intro t ht
      simp only [List.mem_append, List.mem_map, List.mem_cons] at ht
      rcases ht with ⟨x, hx, rfl⟩ | rfl | ⟨x, hx, rfl⟩
      · exact noSubst_dolSkip x (hpre x hx)
      · exact ⟨hs1, hs2, hg, hstop⟩
      · exact noSubst_dolSkip x (hpost x hx))
    (by
      simpa [List.flatMap_append, dol_queries_skip, DolTok.queries] using ha)
    (by simp; omega)
  simp only [List.map_append, List.map_cons, dol_render_skip, DolTok.render, List.flatMap_append,
    List.flatMap_cons, dol_queries_skip, DolTok.queries, List.nil_append, List.append_nil,
    dolUpdates_skip_append, dolUpdates, dolUpdates_skips] at h
  rw [← dollarGoLog_fst, h]
  simp

/-- sufficient, input-only form of the exit test: no `$` in the answer nor in `q` (`p` has none by `dolGuard`) -/
theorem C11_dollar_stop_of_no_dollar (p out q : Str) (hp : ∀ c ∈ p, c ≠ '$') (ho : ∀ c ∈ out, c ≠ '$')
    (hq : ∀ c ∈ q, c ≠ '$') : shouldDoDollar (p ++ out ++ q) = false := by
  apply shouldDoDollar_false
  intro c hc
  simp only [List.mem_append] at hc
  rcases hc with (hc | hc) | hc
  · exact hp c hc
  · exact ho c hc
  · exact hq c hc

/-- **the whole `$(…)` pass** over any number of one-substitution words and skipped tokens -/
theorem C11_dollar_pass (se : SubstEnv) (F : Nat) (run : Str → Option Str) (ts : List DolTok) (f idx : Nat)
    (hok : ∀ t ∈ ts, t.Ok run) (ha : Answers se F run (ts.flatMap DolTok.queries))
    (hf : ts.length + F + 3 ≤ f) :
    substDollarGo se f idx (ts.map DolTok.render) = .ok (some (dolUpdates run idx ts)) ∧
    (dollarGoLog se f idx (ts.map DolTok.render)).2 = ts.flatMap DolTok.queries := by
  have h := dollarGoLog_toks se F run ts f idx hok ha hf
  rw [← dollarGoLog_fst, h]
  simp

/-! ## (c) the greedy reading of two substitutions in one word -/

/-- the rewrite loop on a word with one `$(`…`)` pair (`q` free of `)`): exact, one query -/
theorem C11_dollar_word_exact (se : SubstEnv) (F : Nat) (run : Str → Option Str) (p cmd q : Str) (f : Nat)
    (hg : dolGuard p cmd q = true) (ha : Answers se F run [cmd])
    (hstop : shouldDoDollar (p ++ (run cmd).getD [] ++ q) = false) (hf : F + 2 ≤ f) :
    substDollarLoop se f (dolWord p cmd q) = .ok (some (p ++ (run cmd).getD [] ++ q)) ∧
    (dollarLoopLog se f (dolWord p cmd q)).2 = [cmd] := by
  have h := dollarLoopLog_word se F run p cmd q f hg ha hstop hf
  rw [← dollarLoopLog_fst, h]
  simp

/-- the text the greedy search takes for the command of `pre$(a)mid$(b)post` -/
def greedyCmd (a mid b : Str) : Str := a ++ ')' :: (mid ++ '$' :: '(' :: b)

theorem greedy_word (pre a mid b post : Str) :
    pre ++ '$' :: '(' :: (a ++ ')' :: (mid ++ '$' :: '(' :: (b ++ ')' :: post))) = dolWord pre (greedyCmd a mid b) post := by
  simp [dolWord, greedyCmd, List.append_assoc]

/-- **KF-C11-greedy, search level**: in `pre$(a)mid$(b)post` the search `\$\((.+)\)` takes ONE command
`a)mid$(b` — for all texts on one line with `pre` free of `$` and `post` free of `)` -/
theorem C11_finding_greedy (pre a mid b post : Str) (hpre : ∀ c ∈ pre, c ≠ '$')
    (ha : noNl a = true) (hm : noNl mid = true) (hb : noNl b = true) (hpn : noNl post = true)
    (hp : ∀ c ∈ post, c ≠ ')') :
    findDollarGroup [] (pre ++ '$' :: '(' :: (a ++ ')' :: (mid ++ '$' :: '(' :: (b ++ ')' :: post))))
      = some (pre, greedyCmd a mid b, post) := by
  rw [greedy_word]
  have hcn : noNl (greedyCmd a mid b) = true := by
    simp only [noNl, greedyCmd, List.all_append, List.all_cons, Bool.and_eq_true, decide_eq_true_eq] at ha hm hb ⊢
    exact ⟨ha, by decide, hm, by decide, by decide, hb⟩
  exact C11_find pre (greedyCmd a mid b) post hpre (by simp [greedyCmd]) hcn hpn hp

/-- **KF-C11-greedy, loop level**: the loop asks the oracle ONCE, for `a)mid$(b`, and splices that answer between
`pre` and `post`: neither `a` nor `b` is run, `mid` is lost -/
theorem C11_finding_greedy_loop (se : SubstEnv) (F : Nat) (run : Str → Option Str) (pre a mid b post : Str) (f : Nat)
    (hg : dolGuard pre (greedyCmd a mid b) post = true) (ha : Answers se F run [greedyCmd a mid b])
    (hstop : shouldDoDollar (pre ++ (run (greedyCmd a mid b)).getD [] ++ post) = false) (hf : F + 2 ≤ f) :
    substDollarLoop se f (pre ++ '$' :: '(' :: (a ++ ')' :: (mid ++ '$' :: '(' :: (b ++ ')' :: post))))
      = .ok (some (pre ++ (run (greedyCmd a mid b)).getD [] ++ post)) ∧
    (dollarLoopLog se f (pre ++ '$' :: '(' :: (a ++ ')' :: (mid ++ '$' :: '(' :: (b ++ ')' :: post))))).2
      = [greedyCmd a mid b] := by
  rw [greedy_word]
  exact C11_dollar_word_exact se F run pre (greedyCmd a mid b) post f hg ha hstop hf

/-! ## the whole of `do_expansion` on a line with one double-quoted backquote word -/

/-- a plain program word is touched by neither substitution pass -/
theorem noSubst_prog (prog : Str) (hw : prog.all wordChar = true) : NoSubst ([], prog) :=
  Or.inr ⟨Or.inr rfl, matchBackquote_none _ (word_no prog hw '`' (by decide)),
    shouldDoDollar_false _ (word_no prog hw '$' (by decide))⟩

theorem sep_ne (pre post : List Tok) (w : Str) (hpre : ∀ t ∈ pre, Inert t) (hpost : ∀ t ∈ post, Inert t) :
    ∀ t ∈ pre ++ (['"'], w) :: post, t.1 ≠ [] := by
  intro t ht
  simp only [List.mem_append, List.mem_cons] at ht
  rcases ht with ht | rfl | ht
  · exact inert_sep_ne t (hpre t ht)
  · simp
  · exact inert_sep_ne t (hpost t ht)

/-- **pass level, all of `doExpansion`**: the line is a plain program word (not an alias, not `xargs`, not `export`),
then inert quoted tokens, one double-quoted piece word, more inert tokens.  Every expansion pass before and after
the two substitution passes leaves the line alone, the backquote pass rewrites the one token, the `$(…)` pass then
finds nothing: the expanded line is the same line with `bqResult` in that token.
Extra guards, both needed: the word holds no `$` (else `expand_env` rewrites the inner command text before it runs,
KF-C11-inner-preexpanded); the rewritten token does not call for a `$(…)` substitution (else the later pass runs the
output, KF-C11-output-rescanned). -/
theorem C11_backquote_expansion (se : SubstEnv) (F : Nat) (run : Str → Option Str) (prog : Str) (pre post : List Tok)
    (lit : Str) (ps : List (Str × Str)) (f : Nat)
    (hw : prog.all wordChar = true) (hl : prog.any isAlphaA = true) (hal : lookup se.env.aliases prog = none)
    (hx : prog ≠ "xargs".toList) (hex : prog ≠ "export".toList)
    (hpre : ∀ t ∈ pre, Inert t) (hpost : ∀ t ∈ post, Inert t)
    (hne : ps ≠ []) (hg : bqGuard lit ps = true) (hnd : ∀ c ∈ bqWord lit ps, c ≠ '$')
    (ha : Answers se F run (ps.map (·.1)))
    (hstop : shouldDoDollar (bqResult run lit ps) = false)
    (hf : pre.length + post.length + ps.length + F + 6 ≤ f) :
    doExpansion se f (([], prog) :: (pre ++ (['"'], bqWord lit ps) :: post))
      = .ok (([], prog) :: (pre ++ (['"'], bqResult run lit ps) :: post)) := by
  obtain ⟨f, rfl⟩ : ∃ k, f = k + 1 := ⟨f - 1, by omega⟩
  have hprog := noSubst_prog prog hw
  have hpre' : ∀ t ∈ ([], prog) :: pre, NoSubst t := by
    intro t ht; simp only [List.mem_cons] at ht
    rcases ht with rfl | ht
    · exact hprog
    · exact inert_noSubst t (hpre t ht)
  have hpost' : ∀ t ∈ post, NoSubst t := fun t ht => inert_noSubst t (hpost t ht)
  -- the backquote pass
  have hdot := (C11_backquote_word se F run (([], prog) :: pre) post true lit ps f 0 hpre' hpost' hne hg ha
    (by simp only [List.length_cons]; omega)).1
  simp only [if_true, List.cons_append, List.length_cons, Nat.zero_add] at hdot
  -- the `$(…)` pass on the rewritten line: every token is skipped
  have hdol : substDollarGo se f 0 (([], prog) :: (pre ++ (['"'], bqResult run lit ps) :: post)) = .ok (some []) := by
    have h := (C11_dollar_pass se F run
      ((([], prog) :: (pre ++ (['"'], bqResult run lit ps) :: post)).map DolTok.skip) f 0
      (by
        intro t ht
        simp only [List.mem_map, List.mem_cons, List.mem_append] at ht
        obtain ⟨x, hx, rfl⟩ := ht
        rcases hx with rfl | hx | rfl | hx
        · exact noSubst_dolSkip _ hprog
        · exact noSubst_dolSkip _ (inert_noSubst x (hpre x hx))
        · exact Or.inr (Or.inr hstop)
        · exact noSubst_dolSkip _ (hpost' x hx))
      (by rw [dol_queries_skip]; intro c hc; simp at hc)
      (by simp; omega)).1
    rw [dol_render_skip, dolUpdates_skips] at h
    exact h
  rw [doExpansion_one_dq se prog pre post _ _ _ f hw hl hal hx hex hpre hpost hnd hdot hdol]
  simp only [Option.map_some, Option.getD_some, doExpansion.applyUpdates, List.foldl_nil]
  rw [expandBraceRange_id prog _ (sep_ne pre post _ hpre hpost) (word_no prog hw '{' (by decide))]

/-- **finding (KF-C11-output-rescanned), for all inputs in the guard**: if what the backquote pass produced spells
`p$(d)q`, the `$(…)` pass that follows runs `d` — the output of a command is executed.  Same line shape as
`C11_backquote_expansion`; the expanded token is `p ++ answer(d) ++ q`, not the spliced text. -/
theorem C11_finding_output_rerun (se : SubstEnv) (F : Nat) (run : Str → Option Str) (prog : Str) (pre post : List Tok)
    (lit : Str) (ps : List (Str × Str)) (p d q : Str) (f : Nat)
    (hw : prog.all wordChar = true) (hl : prog.any isAlphaA = true) (hal : lookup se.env.aliases prog = none)
    (hx : prog ≠ "xargs".toList) (hex : prog ≠ "export".toList)
    (hpre : ∀ t ∈ pre, Inert t) (hpost : ∀ t ∈ post, Inert t)
    (hne : ps ≠ []) (hg : bqGuard lit ps = true) (hnd : ∀ c ∈ bqWord lit ps, c ≠ '$')
    (ha : Answers se F run (d :: ps.map (·.1)))
    (hspell : bqResult run lit ps = dolWord p d q) (hdg : dolGuard p d q = true)
    (hstop : shouldDoDollar (p ++ (run d).getD [] ++ q) = false)
    (hf : pre.length + post.length + ps.length + F + 6 ≤ f) :
    doExpansion se f (([], prog) :: (pre ++ (['"'], bqWord lit ps) :: post))
      = .ok (([], prog) :: (pre ++ (['"'], p ++ (run d).getD [] ++ q) :: post)) := by
  obtain ⟨f, rfl⟩ : ∃ k, f = k + 1 := ⟨f - 1, by omega⟩
  have hprog := noSubst_prog prog hw
  have hpre' : ∀ t ∈ ([], prog) :: pre, NoSubst t := by
    intro t ht; simp only [List.mem_cons] at ht
    rcases ht with rfl | ht
    · exact hprog
    · exact inert_noSubst t (hpre t ht)
  have hpost' : ∀ t ∈ post, NoSubst t := fun t ht => inert_noSubst t (hpost t ht)
  have hdot := (C11_backquote_word se F run (([], prog) :: pre) post true lit ps f 0 hpre' hpost' hne hg
    (ha.mono (by intro x hx; exact List.mem_cons_of_mem _ hx))
    (by simp only [List.length_cons]; omega)).1
  simp only [if_true, List.cons_append, List.length_cons, Nat.zero_add] at hdot
  have hdol := (C11_dollar_single_exact se F run (([], prog) :: pre) post ['"'] p d q f 0 hpre' hpost'
    (by decide) (by decide) hdg (ha.mono (by intro x hx; simp at hx; subst hx; simp)) hstop
    (by simp only [List.length_cons]; omega)).1
  simp only [List.cons_append, List.length_cons, Nat.zero_add] at hdol
  rw [← hspell] at hdol
  rw [doExpansion_one_dq se prog pre post _ _ _ f hw hl hal hx hex hpre hpost hnd hdot hdol]
  have happ := applyUpdates_single (([], prog) :: pre) post ['"'] (bqResult run lit ps) (p ++ (run d).getD [] ++ q)
  simp only [List.cons_append, List.length_cons] at happ
  simp only [Option.map_some, Option.getD_some]
  rw [happ, expandBraceRange_id prog _ (sep_ne pre post _ hpre hpost) (word_no prog hw '{' (by decide))]

/-! ## non-vacuity and witnesses -/

/-- an environment whose commands print blanks, a backquote command, a `$(…)` text: outputs are as hostile as can be -/
def seW : SubstEnv := { env := {}, cmdOut := fun k => "  `".toList ++ k ++ "` $(x) \n".toList }

theorem plain_pwd : PlainCmd seW "pwd".toList := ⟨by decide, by decide, rfl, by decide⟩
theorem plain_ls : PlainCmd seW "ls".toList := ⟨by decide, by decide, rfl, by decide⟩

-- guards are satisfiable; the first literal and the first command may even hold newlines
example : bqGuard "x\ny ".toList [("pw\nd".toList, " b".toList), ("ls".toList, [])] = true := by decide
example : bqGuard "a".toList [("pwd".toList, "b".toList), ("ls".toList, "c".toList)] = true := by decide
example : bqWord "a".toList [("pwd".toList, "b".toList), ("ls".toList, "c".toList)] = "a`pwd`b`ls`c".toList := by decide

/-- witness: outputs that spell a backquote command (and `$(x)`, and blanks) go in literally — trimmed on both ends —
and are not re-scanned by the backquote loop; each command is queried once, in order -/
theorem C11_backquote_output_literal :
    substDotLoop seW 8 [] "a`pwd`b`ls`c".toList = .ok "a`pwd` $(x)b`ls` $(x)c".toList ∧
    (dotLoopLog seW 8 [] "a`pwd`b`ls`c".toList).2 = ["pwd".toList, "ls".toList] := by
  have h := C11_backquote_plain seW "a".toList [("pwd".toList, "b".toList), ("ls".toList, "c".toList)] 8 (by decide)
    (by intro c hc; simp at hc; rcases hc with rfl | rfl; exact plain_pwd; exact plain_ls) (by decide)
  have e1 : bqWord "a".toList [("pwd".toList, "b".toList), ("ls".toList, "c".toList)] = "a`pwd`b`ls`c".toList := by decide
  have e2 : bqResult (fun c => some (trim (seW.cmdOut c))) "a".toList [("pwd".toList, "b".toList), ("ls".toList, "c".toList)]
      = "a`pwd` $(x)b`ls` $(x)c".toList := by decide
  rw [e1, e2] at h
  exact h

/-- the same word as a double-quoted token after a program word: one update, the other token untouched -/
example : substDotGo seW 12 0 [([], "echo".toList), (['"'], "a`pwd`b`ls`c".toList)]
    = .ok [(1, "a`pwd` $(x)b`ls` $(x)c".toList)] := by
  have h := (C11_backquote_word seW 5 (fun c => some (trim (seW.cmdOut c))) [([], "echo".toList)] [] true "a".toList
    [("pwd".toList, "b".toList), ("ls".toList, "c".toList)] 12 0
    (by intro t ht; simp at ht; subst ht
        exact Or.inr ⟨Or.inr rfl, by decide, by decide⟩)
    (by simp) (by simp) (by decide)
    (answers_plain seW _ (by intro c hc; simp at hc; rcases hc with rfl | rfl; exact plain_pwd; exact plain_ls))
    (by decide)).1
  have e2 : bqResult (fun c => some (trim (seW.cmdOut c))) "a".toList [("pwd".toList, "b".toList), ("ls".toList, "c".toList)]
      = "a`pwd` $(x)b`ls` $(x)c".toList := by decide
  rw [e2] at h
  exact h

-- the newline finding: `"a`pwd`b\n"` is not a match
example : matchBackquote "a`pwd`b\n".toList = none :=
  C11_finding_backquote_newline_tail "a".toList "pwd".toList "b\n".toList (by decide) (by decide) (by decide)

-- `$(…)` side
example : dolGuard "a=".toList "pwd".toList "b".toList = true := by decide
example : dolWord "a=".toList "pwd".toList "b".toList = "a=$(pwd)b".toList := by decide
/-- an environment with harmless outputs for the `$(…)` examples -/
def seV : SubstEnv := { env := {}, cmdOut := fun k => " <".toList ++ k ++ "> \n".toList }
example : substDollarGo seV 11 0 [([], "echo".toList), (['"'], "a=$(pwd)b".toList), (['\''], "$(ls)".toList)]
    = .ok (some [(1, "a=<pwd>b".toList)]) := by
  have h := (C11_dollar_single_exact seV 5 (fun c => some (trim (seV.cmdOut c))) [([], "echo".toList)]
    [(['\''], "$(ls)".toList)] ['"'] "a=".toList "pwd".toList "b".toList 11 0
    (by intro t ht; simp at ht; subst ht
        exact Or.inr ⟨Or.inr rfl, by decide, by decide⟩)
    (by intro t ht; simp at ht; subst ht; exact Or.inl rfl)
    (by decide) (by decide) (by decide)
    (answers_plain seV _ (by intro c hc; simp at hc; subst hc; exact ⟨by decide, by decide, rfl, by decide⟩))
    (by decide) (by decide)).1
  exact h

-- the greedy finding on `x$(echo a)-$(echo b)y`
example : findDollarGroup [] "x$(echo a)-$(echo b)y".toList = some ("x".toList, "echo a)-$(echo b".toList, "y".toList) :=
  C11_finding_greedy "x".toList "echo a".toList "-".toList "echo b".toList "y".toList (by decide) (by decide) (by decide)
    (by decide) (by decide) (by decide)
example : dolGuard "x".toList (greedyCmd "echo a".toList "-".toList "echo b".toList) "y".toList = true := by decide

-- the whole expansion of `echo 'x' "a`pwd`b`ls`c"` (outputs `<pwd>`, `<ls>` after the trim)
example : doExpansion seV 20 [([], "echo".toList), (['\''], "x".toList), (['"'], "a`pwd`b`ls`c".toList)]
    = .ok [([], "echo".toList), (['\''], "x".toList), (['"'], "a<pwd>b<ls>c".toList)] := by
  have h := C11_backquote_expansion seV 5 (fun c => some (trim (seV.cmdOut c))) "echo".toList
    [(['\''], "x".toList)] [] "a".toList [("pwd".toList, "b".toList), ("ls".toList, "c".toList)] 20
    (by decide) (by decide) rfl (by decide) (by decide)
    (by intro t ht; simp at ht; subst ht; exact Or.inl rfl) (by simp) (by simp) (by decide) (by decide)
    (answers_plain seV _ (by
      intro c hc; simp at hc
      rcases hc with rfl | rfl
      · exact ⟨by decide, by decide, rfl, by decide⟩
      · exact ⟨by decide, by decide, rfl, by decide⟩))
    (by decide) (by decide)
  have e2 : bqResult (fun c => some (trim (seV.cmdOut c))) "a".toList [("pwd".toList, "b".toList), ("ls".toList, "c".toList)]
      = "a<pwd>b<ls>c".toList := by decide
  rw [e2] at h
  exact h

/-- an environment where `pwd` prints the text `$(ls)` -/
def seR : SubstEnv := { env := {}, cmdOut := fun k => if k = "pwd".toList then " $(ls)\n".toList else "<".toList ++ k ++ ">".toList }

-- the output-rerun finding on `echo "a`pwd`b"`: the printed `$(ls)` is run
example : doExpansion seR 20 [([], "echo".toList), (['"'], "a`pwd`b".toList)]
    = .ok [([], "echo".toList), (['"'], "a<ls>b".toList)] := by
  have h := C11_finding_output_rerun seR 5 (fun c => some (trim (seR.cmdOut c))) "echo".toList
    [] [] "a".toList [("pwd".toList, "b".toList)] "a".toList "ls".toList "b".toList 20
    (by decide) (by decide) rfl (by decide) (by decide) (by simp) (by simp) (by simp) (by decide) (by decide)
    (answers_plain seR _ (by
      intro c hc; simp at hc
      rcases hc with rfl | rfl
      · exact ⟨by decide, by decide, rfl, by decide⟩
      · exact ⟨by decide, by decide, rfl, by decide⟩))
    (by decide) (by decide) (by decide) (by decide)
  have e2 : "a".toList ++ (Option.getD ((fun c => some (trim (seR.cmdOut c))) "ls".toList) []) ++ "b".toList = "a<ls>b".toList := by decide
  rw [e2] at h
  exact h

end Cicada.C11
