import Cicada.Thm.C04
import Cicada.Thm.C08
/-!
# C04, builtins: the text of a builtin that is the whole line goes where the reference semantics says

`builtinPrint` (the model of `builtins::utils` after `fix:` e06eb6a) walks the redirection list once, keeping one
candidate descriptor per stream.  `C04_builtin_target`: for EVERY redirection list, as long as every step obtained its
descriptor (no target refused, no descriptor exhaustion — `AllCand`), the object the text is finally written to is the one
the left-to-right reference semantics (`specPrint`) assigns to that stream, or nothing is written at all (the final
`dup` failed).  The excluded case "a target cannot be opened" is the open finding `KF-C04-builtin-unopenable`.
-/
namespace Cicada.C04
open Cicada.Kernel Cicada.Kernel.Table Cicada.Pipeline Cicada.SpecFd Cicada.C08

/-- every step of the walk obtained a candidate descriptor -/
def AllCand (cfg : Cfg) : List Redir → Table → Option Nat → Option Nat → List (Str × Nat) → Prop
  | [], _, _, _, _ => True
  | (from_, op, to) :: rest, t, o, e, lg =>
    let isOut := from_ = "1".toList
    if !isOut ∧ from_ ≠ "2".toList then AllCand cfg rest t o e lg
    else
      let c := candFd cfg t o e lg isOut op to
      c.2.1.isSome ∧
      (if isOut then AllCand cfg rest (closeOptFd c.1 o) c.2.1 e c.2.2
       else AllCand cfg rest (closeOptFd c.1 e) o c.2.1 c.2.2)

/-- the object a stream currently goes to: its candidate descriptor if it has one, else the shell's own 1 / 2 -/
def objAt (t : Table) (c : Option Nat) (d : Nat) : Option Obj := (t (c.getD d)).map (·.obj)

/-- the walk's state against the reference slots -/
structure WRel (t : Table) (o e : Option Nat) (sl : Slots) : Prop where
  r1 : objAt t o 1 = sl.s1.map (·.obj)
  r2 : objAt t e 2 = sl.s2.map (·.obj)
  o1 : (t 1).isSome
  o2 : (t 2).isSome
  oOk : ∀ fd, o = some fd → fd ≠ 1 ∧ fd ≠ 2 ∧ (t fd).isSome
  eOk : ∀ fd, e = some fd → fd ≠ 1 ∧ fd ≠ 2 ∧ (t fd).isSome
  ne : ∀ a b, o = some a → e = some b → a ≠ b

theorem closeOptFd_apply (t : Table) (c : Option Nat) (x : Nat) : (closeOptFd t c) x = if c = some x then none else t x := by
  cases c with
  | none => simp [closeOptFd]
  | some fd =>
    simp only [closeOptFd, close_apply, Option.some.injEq]
    by_cases h : x = fd
    · simp [h]
    · have : ¬ fd = x := fun e => h e.symm
      simp [h, this]

/-- a fresh descriptor replaces a stream's candidate -/
theorem wrel_replace_out {t t1 : Table} {o e : Option Nat} {sl : Slots} {lim fd : Nat} {en : Ent} (h : WRel t o e sl)
    (ha : t.alloc lim en = some (t1, fd)) (s1' : Option Ent) (hobj : s1'.map (·.obj) = some en.obj) :
    WRel (closeOptFd t1 o) (some fd) e { sl with s1 := s1' } := by
  obtain ⟨hfree, rfl⟩ := alloc_spec ha
  have hfd1 : fd ≠ 1 := fun e' => by have := h.o1; simp [← e', hfree] at this
  have hfd2 : fd ≠ 2 := fun e' => by have := h.o2; simp [← e', hfree] at this
  have hfo : o ≠ some fd := fun e' => by have := (h.oOk fd e').2.2; simp [hfree] at this
  have hfe : e ≠ some fd := fun e' => by have := (h.eOk fd e').2.2; simp [hfree] at this
  have val : ∀ x, o ≠ some x → (closeOptFd (t.set fd en) o) x = if x = fd then some en else t x := by
    intro x hx; rw [closeOptFd_apply]; simp [hx]
  refine ⟨?_, ?_, ?_, ?_, ?_, ?_, ?_⟩
  · simp only [objAt, Option.getD_some]; rw [val fd hfo]; simpa using hobj.symm
  · simp only [objAt]
    have hne : o ≠ some (e.getD 2) := by
      cases e with
      | none => intro e'; exact (h.oOk 2 e').2.1 rfl
      | some b => intro e'; exact h.ne b b e' rfl rfl
    have hne2 : e.getD 2 ≠ fd := by
      cases e with
      | none => simpa using hfd2.symm
      | some b => simp; exact fun e' => hfe (e' ▸ rfl)
    rw [val _ hne]; simp only [hne2, ↓reduceIte]; exact h.r2
  · have : o ≠ some 1 := fun e' => (h.oOk 1 e').1 rfl
    rw [val 1 this]; simp [Ne.symm hfd1, h.o1]
  · have : o ≠ some 2 := fun e' => (h.oOk 2 e').2.1 rfl
    rw [val 2 this]; simp [Ne.symm hfd2, h.o2]
  · intro x hx
    simp only [Option.some.injEq] at hx; subst hx
    refine ⟨hfd1, hfd2, ?_⟩
    rw [val fd hfo]; simp
  · intro x hx
    refine ⟨(h.eOk x hx).1, (h.eOk x hx).2.1, ?_⟩
    have hne : o ≠ some x := fun e' => h.ne x x e' hx rfl
    have hxf : x ≠ fd := fun e' => hfe (e' ▸ hx)
    rw [val x hne]; simp [hxf, (h.eOk x hx).2.2]
  · intro a b ha hb
    simp only [Option.some.injEq] at ha; subst ha
    exact fun e' => hfe (e' ▸ hb)

theorem wrel_replace_err {t t1 : Table} {o e : Option Nat} {sl : Slots} {lim fd : Nat} {en : Ent} (h : WRel t o e sl)
    (ha : t.alloc lim en = some (t1, fd)) (s2' : Option Ent) (hobj : s2'.map (·.obj) = some en.obj) :
    WRel (closeOptFd t1 e) o (some fd) { sl with s2 := s2' } := by
  obtain ⟨hfree, rfl⟩ := alloc_spec ha
  have hfd1 : fd ≠ 1 := fun e' => by have := h.o1; simp [← e', hfree] at this
  have hfd2 : fd ≠ 2 := fun e' => by have := h.o2; simp [← e', hfree] at this
  have hfo : o ≠ some fd := fun e' => by have := (h.oOk fd e').2.2; simp [hfree] at this
  have hfe : e ≠ some fd := fun e' => by have := (h.eOk fd e').2.2; simp [hfree] at this
  have val : ∀ x, e ≠ some x → (closeOptFd (t.set fd en) e) x = if x = fd then some en else t x := by
    intro x hx; rw [closeOptFd_apply]; simp [hx]
  refine ⟨?_, ?_, ?_, ?_, ?_, ?_, ?_⟩
  · simp only [objAt]
    have hne : e ≠ some (o.getD 1) := by
      cases o with
      | none => intro e'; exact (h.eOk 1 e').1 rfl
      | some a => intro e'; exact h.ne a a rfl e' rfl
    have hne2 : o.getD 1 ≠ fd := by
      cases o with
      | none => simpa using hfd1.symm
      | some a => simp; exact fun e' => hfo (e' ▸ rfl)
    rw [val _ hne]; simp only [hne2, ↓reduceIte]; exact h.r1
  · simp only [objAt, Option.getD_some]; rw [val fd hfe]; simpa using hobj.symm
  · have : e ≠ some 1 := fun e' => (h.eOk 1 e').1 rfl
    rw [val 1 this]; simp [Ne.symm hfd1, h.o1]
  · have : e ≠ some 2 := fun e' => (h.eOk 2 e').2.1 rfl
    rw [val 2 this]; simp [Ne.symm hfd2, h.o2]
  · intro x hx
    refine ⟨(h.oOk x hx).1, (h.oOk x hx).2.1, ?_⟩
    have hne : e ≠ some x := fun e' => h.ne x x hx e' rfl
    have hxf : x ≠ fd := fun e' => hfo (e' ▸ hx)
    rw [val x hne]; simp [hxf, (h.oOk x hx).2.2]
  · intro x hx
    simp only [Option.some.injEq] at hx; subst hx
    refine ⟨hfd1, hfd2, ?_⟩
    rw [val fd hfe]; simp
  · intro a b ha hb
    simp only [Option.some.injEq] at hb; subst hb
    exact fun e' => hfo (e' ▸ ha)

/-- what a successful candidate is: a freshly allocated descriptor holding the object the reference semantics assigns -/
theorem candFd_some (cfg : Cfg) (t : Table) (o e : Option Nat) (lg : List (Str × Nat)) (isOut : Bool) (op to : Str)
    (hs : (candFd cfg t o e lg isOut op to).2.1.isSome) :
    ∃ lim en fd, t.alloc lim en = some ((candFd cfg t o e lg isOut op to).1, fd) ∧
      (candFd cfg t o e lg isOut op to).2.1 = some fd ∧
      (if isOut = true ∧ to = "&2".toList then (t (e.getD 2)).map (·.obj) = some en.obj
       else if isOut = false ∧ to = "&1".toList then (t (o.getD 1)).map (·.obj) = some en.obj
       else cfg.canWrite to = true ∧ en.obj = .file to (if op = ">>".toList then 2 else 1)) := by
  unfold candFd at hs ⊢
  simp only at hs ⊢
  generalize (if op = ">>".toList then 2 else 1) = mode at hs ⊢
  by_cases h1 : isOut = true ∧ to = "&2".toList
  · simp only [h1, and_self, ↓reduceIte] at hs ⊢
    cases hd : t.dup cfg.lim (e.getD 2) with
    | none => simp [hd] at hs
    | some p =>
      obtain ⟨t2, fd⟩ := p
      unfold Table.dup at hd
      cases hsrc : t (e.getD 2) with
      | none => simp [hsrc] at hd
      | some en =>
        simp only [hsrc] at hd
        exact ⟨_, _, fd, hd, rfl, by simp⟩
  · have h1' : ¬ (isOut = true ∧ to = "&2".toList) := h1
    simp only [h1', ↓reduceIte] at hs ⊢
    by_cases h2 : (!isOut) = true ∧ to = "&1".toList
    · have h2' : isOut = false ∧ to = "&1".toList := ⟨by simpa using h2.1, h2.2⟩
      simp only [h2, and_self, ↓reduceIte, h2'] at hs ⊢
      cases hd : t.dup cfg.lim (o.getD 1) with
      | none => simp [hd] at hs
      | some p =>
        obtain ⟨t2, fd⟩ := p
        unfold Table.dup at hd
        cases hsrc : t (o.getD 1) with
        | none => simp [hsrc] at hd
        | some en =>
          simp only [hsrc] at hd
          exact ⟨_, _, fd, hd, rfl, by simp⟩
    · have h2' : ¬ (isOut = false ∧ to = "&1".toList) := fun h => h2 ⟨by simp [h.1], h.2⟩
      simp only [h2, ↓reduceIte, h2'] at hs ⊢
      by_cases hw : cfg.canWrite to = true
      · simp only [hw, ↓reduceIte] at hs ⊢
        cases hd : t.openFile cfg.lim to mode with
        | none => simp [hd] at hs
        | some p =>
          obtain ⟨t2, fd⟩ := p
          unfold Table.openFile at hd
          exact ⟨_, _, fd, hd, rfl, by simp⟩
      · simp [hw] at hs

theorem wrel_opened {t : Table} {o e : Option Nat} {sl : Slots} (h : WRel t o e sl) (lg : List (Str × Nat)) :
    WRel t o e { sl with opened := lg } := ⟨h.r1, h.r2, h.o1, h.o2, h.oOk, h.eOk, h.ne⟩

theorem ar_dup21 (cfg : Cfg) (sl : Slots) (op : Str) :
    applyRedirs cfg sl [("2".toList, op, "&1".toList)] = ({ sl with s2 := sl.s1 }, true) := by
  simp [applyRedirs]

theorem ar_dup12 (cfg : Cfg) (sl : Slots) (op : Str) :
    applyRedirs cfg sl [("1".toList, op, "&2".toList)] = ({ sl with s1 := sl.s2 }, true) := by
  simp [applyRedirs]

theorem ar_file1 (cfg : Cfg) (sl : Slots) (op to : Str) (h : to ≠ "&2".toList) (hw : cfg.canWrite to = true) :
    applyRedirs cfg sl [("1".toList, op, to)] =
      ({ sl with s1 := some { obj := .file to (if op = ">>".toList then 2 else 1) },
                 opened := sl.opened ++ [(to, if op = ">>".toList then 2 else 1)] }, true) := by
  unfold applyRedirs
  have h1 : ¬ (to = "&1".toList ∧ "1".toList = "2".toList) := fun x => by have := x.2; simp at this
  have h2 : ¬ (to = "&2".toList ∧ "1".toList = "1".toList) := fun x => h x.1
  rw [if_neg h1, if_neg h2]
  simp [hw, applyRedirs]

theorem ar_file2 (cfg : Cfg) (sl : Slots) (op to : Str) (h : to ≠ "&1".toList) (hw : cfg.canWrite to = true) :
    applyRedirs cfg sl [("2".toList, op, to)] =
      ({ sl with s2 := some { obj := .file to (if op = ">>".toList then 2 else 1) },
                 opened := sl.opened ++ [(to, if op = ">>".toList then 2 else 1)] }, true) := by
  unfold applyRedirs
  have h1 : ¬ (to = "&1".toList ∧ "2".toList = "2".toList) := fun x => h x.1
  have h2 : ¬ (to = "&2".toList ∧ "2".toList = "1".toList) := fun x => by have := x.2; simp at this
  rw [if_neg h1, if_neg h2]
  simp [hw, applyRedirs]

/-- **the walk against the reference semantics**: when every step obtained its descriptor, the reference semantics
accepts the list and the two candidate descriptors hold exactly the objects of its slots 1 and 2 -/
theorem walk_rel (cfg : Cfg) : ∀ (rs : List Redir) (t : Table) (o e : Option Nat) (lg : List (Str × Nat)) (sl : Slots),
    (∀ r ∈ rs, r.1 = "1".toList ∨ r.1 = "2".toList) → WRel t o e sl → AllCand cfg rs t o e lg →
    (applyRedirs cfg sl rs).2 = true ∧
    WRel (getStdFdsGo cfg rs t o e lg).1 (getStdFdsGo cfg rs t o e lg).2.1 (getStdFdsGo cfg rs t o e lg).2.2.1 (applyRedirs cfg sl rs).1 := by
  intro rs
  induction rs with
  | nil => intro t o e lg sl _ h _; exact ⟨rfl, h⟩
  | cons r rs ih =>
    intro t o e lg sl hfrom hrel hall
    obtain ⟨from_, op, to⟩ := r
    have hf := hfrom (from_, op, to) List.mem_cons_self
    have hfrom' : ∀ r ∈ rs, r.1 = "1".toList ∨ r.1 = "2".toList := fun r hr => hfrom r (List.mem_cons_of_mem _ hr)
    simp only at hf
    rw [applyRedirs_cons]
    rcases hf with hout | herr
    · -- a redirection of stdout
      subst hout
      have hstep : getStdFdsGo cfg (("1".toList, op, to) :: rs) t o e lg =
          getStdFdsGo cfg rs (closeOptFd (candFd cfg t o e lg true op to).1 o) (candFd cfg t o e lg true op to).2.1 e (candFd cfg t o e lg true op to).2.2 := by
        rw [getStdFdsGo]; simp
      have hall' : (candFd cfg t o e lg true op to).2.1.isSome ∧
          AllCand cfg rs (closeOptFd (candFd cfg t o e lg true op to).1 o) (candFd cfg t o e lg true op to).2.1 e (candFd cfg t o e lg true op to).2.2 := by
        rw [AllCand] at hall; simpa using hall
      rw [hstep]
      obtain ⟨hsome, hrest⟩ := hall'
      obtain ⟨lim, en, fd, ha, hc, hobj⟩ := candFd_some cfg t o e lg true op to hsome
      rw [hc] at hrest ⊢
      by_cases hd : to = "&2".toList
      · subst hd
        simp only [and_self, ↓reduceIte] at hobj
        rw [ar_dup12]
        have hobj' : sl.s2.map (·.obj) = some en.obj := by rw [← hrel.r2]; exact hobj
        exact ih _ _ _ _ _ hfrom' (wrel_replace_out hrel ha sl.s2 hobj') hrest
      · simp only [hd, and_false, ↓reduceIte, Bool.true_eq_false, false_and] at hobj
        rw [ar_file1 cfg sl op to hd hobj.1]
        exact ih _ _ _ _ _ hfrom'
          (wrel_opened (wrel_replace_out hrel ha (some { obj := .file to (if op = ">>".toList then 2 else 1) }) (by simp [hobj.2])) _) hrest
    · -- a redirection of stderr
      subst herr
      have hstep : getStdFdsGo cfg (("2".toList, op, to) :: rs) t o e lg =
          getStdFdsGo cfg rs (closeOptFd (candFd cfg t o e lg false op to).1 e) o (candFd cfg t o e lg false op to).2.1 (candFd cfg t o e lg false op to).2.2 := by
        rw [getStdFdsGo]; simp
      have hall' : (candFd cfg t o e lg false op to).2.1.isSome ∧
          AllCand cfg rs (closeOptFd (candFd cfg t o e lg false op to).1 e) o (candFd cfg t o e lg false op to).2.1 (candFd cfg t o e lg false op to).2.2 := by
        rw [AllCand] at hall; simpa using hall
      rw [hstep]
      obtain ⟨hsome, hrest⟩ := hall'
      obtain ⟨lim, en, fd, ha, hc, hobj⟩ := candFd_some cfg t o e lg false op to hsome
      rw [hc] at hrest ⊢
      by_cases hd : to = "&1".toList
      · subst hd
        simp only [Bool.false_eq_true, false_and, ↓reduceIte, and_self] at hobj
        rw [ar_dup21]
        have hobj' : sl.s1.map (·.obj) = some en.obj := by rw [← hrel.r1]; exact hobj
        exact ih _ _ _ _ _ hfrom' (wrel_replace_err hrel ha sl.s1 hobj') hrest
      · simp only [Bool.false_eq_true, false_and, ↓reduceIte, hd, and_false] at hobj
        rw [ar_file2 cfg sl op to hd hobj.1]
        exact ih _ _ _ _ _ hfrom'
          (wrel_opened (wrel_replace_err hrel ha (some { obj := .file to (if op = ">>".toList then 2 else 1) }) (by simp [hobj.2])) _) hrest

/-- **builtins: the text goes where the reference semantics says.**  For every redirection list (descriptors 1 / 2, as
`tokens_to_redirections` produces them) and every table with 1 and 2 open: if every step of the walk obtained its
descriptor, the reference semantics accepts the list, and the object `print_stdout` / `print_stderr` finally writes to is
the object of the reference slot — unless the final `dup` of an unredirected stream failed and nothing is written -/
theorem C04_builtin_target (cfg : Cfg) (rs : List Redir) (err : Bool) (t0 : Table)
    (h1 : (t0 1).isSome) (h2 : (t0 2).isSome) (hfrom : ∀ r ∈ rs, r.1 = "1".toList ∨ r.1 = "2".toList)
    (hall : AllCand cfg rs t0 none none []) :
    (specPrint cfg rs err t0).failed = false ∧
    ((builtinPrint cfg rs err t0).target = none ∨ (builtinPrint cfg rs err t0).target = (specPrint cfg rs err t0).target) := by
  have hw0 : WRel t0 none none { s0 := t0 0, s1 := t0 1, s2 := t0 2 } :=
    ⟨rfl, rfl, h1, h2, (fun _ h => by cases h), (fun _ h => by cases h), (fun _ _ h => by cases h)⟩
  obtain ⟨hok, hw⟩ := walk_rel cfg rs t0 none none [] _ hfrom hw0 hall
  unfold specPrint
  generalize applyRedirs cfg { s0 := t0 0, s1 := t0 1, s2 := t0 2 } rs = sp at hok hw
  obtain ⟨sl, ok⟩ := sp
  simp only at hok hw
  subst hok
  refine ⟨rfl, ?_⟩
  unfold builtinPrint getStdFds
  generalize getStdFdsGo cfg rs t0 none none [] = r at hw
  obtain ⟨t1, o, e, lg⟩ := r
  simp only at hw ⊢
  -- the last step: close the other stream's candidate, write to this stream's (or to a dup of 1 / 2)
  have fin : ∀ (mine other : Option Nat) (d : Nat) (slot : Option Ent), objAt t1 mine d = slot.map (·.obj) →
      (∀ a b, mine = some a → other = some b → a ≠ b) → (∀ b, other = some b → b ≠ d) → (d = if err then 2 else 1) →
      (finishPrint cfg err t1 mine other lg).target = none ∨ (finishPrint cfg err t1 mine other lg).target = slot.map (·.obj) := by
    intro mine other d slot hobj hne hd hderr
    unfold finishPrint
    simp only
    cases mine with
    | some fd =>
      right
      simp only
      rw [closeOptFd_apply]
      have : other ≠ some fd := fun e' => hne fd fd rfl e' rfl
      simp only [this, ↓reduceIte]
      simpa [objAt] using hobj
    | none =>
      simp only
      cases hdup : (closeOptFd t1 other).dup cfg.lim (if err then 2 else 1) with
      | none => left; rfl
      | some p =>
        obtain ⟨t3, fd⟩ := p
        right
        simp only
        unfold Table.dup at hdup
        cases hsrc : (closeOptFd t1 other) (if err then 2 else 1) with
        | none => simp [hsrc] at hdup
        | some en =>
          simp only [hsrc] at hdup
          obtain ⟨_, rfl⟩ := alloc_spec hdup
          have hsrc' : t1 d = some en := by
            rw [← hderr, closeOptFd_apply] at hsrc
            by_cases hod : other = some d
            · simp [hod] at hsrc
            · simpa [hod] using hsrc
          simp only [set_apply, ↓reduceIte, Option.map_some]
          simpa [objAt, hsrc'] using hobj
  cases err with
  | true =>
    simp only [↓reduceIte]
    exact fin e o 2 sl.s2 hw.r2 (fun a b ha hb => (hw.ne b a hb ha).symm) (fun b hb => (hw.oOk b hb).2.1) rfl
  | false =>
    simp only [Bool.false_eq_true, ↓reduceIte]
    exact fin o e 1 sl.s1 hw.r1 hw.ne (fun b hb => (hw.eOk b hb).1) rfl

/-- `AllCand` as a computation (for the non-vacuity check) -/
def allCandB (cfg : Cfg) : List Redir → Table → Option Nat → Option Nat → List (Str × Nat) → Bool
  | [], _, _, _, _ => true
  | (from_, op, to) :: rest, t, o, e, lg =>
    let isOut := from_ = "1".toList
    if !isOut ∧ from_ ≠ "2".toList then allCandB cfg rest t o e lg
    else
      let c := candFd cfg t o e lg isOut op to
      c.2.1.isSome &&
      (if isOut then allCandB cfg rest (closeOptFd c.1 o) c.2.1 e c.2.2
       else allCandB cfg rest (closeOptFd c.1 e) o c.2.1 c.2.2)

theorem allCandB_iff (cfg : Cfg) : ∀ rs t o e lg, allCandB cfg rs t o e lg = true → AllCand cfg rs t o e lg := by
  intro rs
  induction rs with
  | nil => intro _ _ _ _ _; trivial
  | cons r rs ih =>
    intro t o e lg h
    obtain ⟨from_, op, to⟩ := r
    unfold allCandB at h
    unfold AllCand
    simp only at h ⊢
    split at h
    · rename_i hs; rw [if_pos hs]; exact ih _ _ _ _ h
    · rename_i hs; rw [if_neg hs]
      simp only [Bool.and_eq_true] at h
      obtain ⟨ha, hb⟩ := h
      refine ⟨ha, ?_⟩
      split at hb
      · rename_i hi; rw [if_pos hi]; exact ih _ _ _ _ hb
      · rename_i hi; rw [if_neg hi]; exact ih _ _ _ _ hb

/-- non-vacuity: `2> e 1>&2 >> o` with everything openable: every step gets its descriptor, stdout goes to `o` (append) -/
example : AllCand wCfg [(['2'], ['>'], ['e']), (['1'], ['>'], ['&', '2']), (['1'], ['>', '>'], ['o'])] wT0 none none [] ∧
    (builtinPrint wCfg [(['2'], ['>'], ['e']), (['1'], ['>'], ['&', '2']), (['1'], ['>', '>'], ['o'])] false wT0).target = some (.file ['o'] 2) :=
  ⟨allCandB_iff _ _ _ _ _ _ (by decide +kernel), by decide +kernel⟩

end Cicada.C04

namespace Cicada.C04
open Cicada.Kernel Cicada.Kernel.Table Cicada.Pipeline Cicada.SpecFd

/-- **`< file` and `<<< word`** (the child's second phase, core.rs:369-387): when it succeeds, descriptor 0 is the named file
opened for reading (`<`), or the read end of the here-string pipe (`<<<`), or untouched; descriptors 1 and 2 are
untouched in every case; and a file that cannot be opened stops the child before exec -/
theorem C04_stdin (cfg : Cfg) (cmd : Command) (hs : Option Fds) (t t' : Table) (hstd : Std3 t)
    (hhs : ∀ p, hs = some p → 3 ≤ p.1 ∧ 3 ≤ p.2 ∧ p.1 ≠ p.2)
    (hr : childStdin cfg cmd hs t = some t') :
    t' 1 = t 1 ∧ t' 2 = t 2 ∧
    (cmd.isHere = true → ∀ p e, hs = some p → t p.1 = some e → (t' 0).map (·.obj) = some e.obj) ∧
    (cmd.isHere = false → cmd.isFrom = true →
        (t' 0).map (·.obj) = some (.file ((cmd.redirectFrom.map (fun (x : Tok) => x.2)).getD []) 0)) ∧
    (cmd.isHere = false → cmd.isFrom = false → t' 0 = t 0) := by
  unfold childStdin at hr
  simp only at hr
  -- the `<` part
  have hfrom : ∀ t1, (if cmd.isFrom then
        (if !cfg.canRead ((cmd.redirectFrom.map (fun (x : Tok) => x.2)).getD []) then none
         else match t.openFile cfg.lim ((cmd.redirectFrom.map (fun (x : Tok) => x.2)).getD []) 0 with
          | none => none
          | some (t1, fd) => some ((t1.dup2 fd 0).close fd))
      else some t) = some t1 →
      Std3 t1 ∧ t1 1 = t 1 ∧ t1 2 = t 2 ∧ (∀ x, 3 ≤ x → (t x).isSome → t1 x = t x) ∧
      (cmd.isFrom = true → (t1 0).map (·.obj) = some (.file ((cmd.redirectFrom.map (fun (x : Tok) => x.2)).getD []) 0)) ∧
      (cmd.isFrom = false → t1 0 = t 0) := by
    intro t1 h1
    split at h1
    · rename_i hf
      split at h1
      · simp at h1
      · split at h1
        · simp at h1
        · rename_i t2 fd ho
          cases h1
          unfold Table.openFile at ho
          obtain ⟨a, b, c⟩ := temp_onto hstd ho (dst := 0) (by omega) true
          simp only [↓reduceIte] at a b c
          obtain ⟨hfd3, rfl⟩ := alloc_ge3' hstd ho
          obtain ⟨hfree, _⟩ := alloc_spec ho
          refine ⟨a, c 1 (by omega) (by omega), c 2 (by omega) (by omega), ?_, (fun _ => by simpa using b), (fun h => by simp [hf] at h)⟩
          intro x hx hxs
          have hxf : x ≠ fd := fun e => by rw [e, hfree] at hxs; simp at hxs
          simp only [close_apply, hxf, ↓reduceIte]
          rw [dup2_other _ _ _ _ (by omega)]; simp [hxf]
    · rename_i hf
      cases h1
      exact ⟨hstd, rfl, rfl, (fun _ _ _ => rfl), (fun h => absurd h hf), (fun _ => rfl)⟩
  split at hr
  · simp at hr
  · rename_i t1 h1
    obtain ⟨hs1, h11, h12, hkeep, hfile, hsame⟩ := hfrom t1 h1
    simp only [Option.some.injEq] at hr
    subst hr
    cases hh : cmd.isHere with
    | false =>
      simp only [Bool.false_eq_true, ↓reduceIte]
      exact ⟨h11, h12, (fun h => by cases h), (fun _ hf => hfile hf), (fun _ hf => hsame hf)⟩
    | true =>
      cases hs with
      | none =>
        simp only [↓reduceIte]
        exact ⟨h11, h12, (fun _ p e hp _ => by cases hp), (fun h => by cases h), (fun h => by cases h)⟩
      | some p =>
        obtain ⟨hp1, hp2, hne⟩ := hhs p rfl
        simp only [↓reduceIte]
        have hval : ∀ x, x < 3 → (((t1.close p.2).dup2 p.1 0).close p.1) x =
            if x = 0 then ((t1.close p.2).dup2 p.1 0) 0 else t1 x := by
          intro x hx
          have h1 : x ≠ p.1 := by omega
          simp only [close_apply, h1, ↓reduceIte]
          by_cases hx0 : x = 0
          · simp [hx0]
          · rw [dup2_other _ _ _ _ hx0]
            have h2 : x ≠ p.2 := by omega
            simp [hx0, h2]
        refine ⟨?_, ?_, ?_, (fun h => by cases h), (fun h => by cases h)⟩
        · rw [hval 1 (by omega)]; simpa using h11
        · rw [hval 2 (by omega)]; simpa using h12
        · intro _ q e hq he
          simp only [Option.some.injEq] at hq
          rw [← hq] at he
          rw [hval 0 (by omega)]
          simp only [↓reduceIte]
          have hsrc : (t1.close p.2) p.1 = some e := by
            simp only [close_apply, hne, ↓reduceIte]
            rw [hkeep p.1 hp1 (by simp [he])]; exact he
          have h0 : p.1 ≠ 0 := by omega
          rw [dup2_apply, hsrc]
          simp [h0]

/-- an unreadable `<` file: the child stops before exec (the program is not run) -/
theorem C04_stdin_unreadable (cfg : Cfg) (cmd : Command) (hs : Option Fds) (t : Table)
    (hf : cmd.isFrom = true) (hu : cfg.canRead ((cmd.redirectFrom.map (fun (x : Tok) => x.2)).getD []) = false) :
    childStdin cfg cmd hs t = none := by
  unfold childStdin
  simp [hf, hu]

end Cicada.C04
