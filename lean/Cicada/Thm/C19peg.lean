import Cicada.Lemmas.CalcRT
import Cicada.Thm.C19pow
/-!
# C19 (growth) — the PEG round trip at the character level

`C19_pratt` speaks of the flat operand sequence.  This file closes the gap from the CHARACTER string:

* `render P L t`        : the canonical renderer of an expression tree `t : C19.T` — decimal literals (negative
  ones with their sign: the grammar's `int` has an optional sign, so `2--3`, `2^-1`, `-3-2` are legal and lex as
  literals), the five operators, parentheses by a policy `P` (`minimal` = exactly where precedence / associativity
  require, `fullBin` = every compound operand, `full` = every operand, or any policy in between), blanks by a
  layout `L` (any run of spaces / tabs before an operator, after it, after `(`, before `)`; `tight`, `spaced`).
* `C19_parse_render`    : `calculate (lead ++ render P L t ++ trail) = some (flatOf P t)` for EVERY tree, policy,
  layout and surrounding blanks — the model's parser, with the fuel the driver uses (`2·length + 2`), returns exactly
  the flat form (operands in order, parenthesised operands as nested flats).  `C19_parse_render_fuel`: the explicit
  bound (`length + 1` suffices; any larger fuel gives the same answer).
* `C19_peg_roundtrip`   : the same for every parser tree (`Flat`) whose literals are `int` texts (also `+7`,
  `((1))`), of which the above is the image of `flatOf`.
* `C19_pratt_fuel`      : `pratt (hd e) (tl e) = some e` with the model's own Pratt fuel (`loop_total`: the loop
  answers within `length + 1`).
* `C19_eval_render`     : `runCalculator` of the rendered line `= (evalTree (toEsat t)).map .int` for every policy
  that covers the required parentheses (`covers P t`; `covers_minimal`, `covers_full`, `covers_fullBin`);
  `C19_eval_render_inrange` (literals in range: the plain tree `toE t`); `C19_value_render`: whenever the reference
  evaluator `specEval` fixes a value, the rendered LINE evaluates to it.
* `C19_tree_render`     : `parseTree (lead ++ render P L t ++ trail) = some t` — string → tree, where `parseTree` is
  `calculate` followed by the model's `pratt` at every nesting level (`flatT`): the SHAPE comes back, not only the value.
* `C19_eval_factors` / `C19_line_factors` / `C19_arith_factors` : for EVERY line without `.`, `e`, `E` (in particular
  every line classified arithmetic and without `.`), not only rendered ones: `run_calculator` either reports a syntax
  error or returns `evalTree` of the tree `parseTree` extracts (the Pratt loop is natural in its atoms, `loop_map`;
  the parser's literals are `int` texts, `calculate_ok`).
* `C19_render_arith`    : the rendered line (spaces only) is classified arithmetic iff it holds an operator character;
  `C19_render_arith_bin`: always, for a compound expression.
-/
namespace Cicada.C19
open Cicada Cicada.Calc

/-! ## the canonical renderer -/

/-- must the child `c` of operator `o` (left / right side) be parenthesised?  Exactly when standard
precedence and associativity would otherwise regroup it -/
def needParen (o : Op) (right : Bool) : T → Bool
  | .num _ => false
  | .bin o' _ _ =>
    if right then !(decide (prec o < prec o') || (decide (prec o = prec o') && rightAssoc o))
    else !(decide (prec o < prec o') || (decide (prec o = prec o') && !rightAssoc o))

/-- a parenthesisation policy: is the child of `o` on the given side written in parentheses? -/
abbrev Policy := Op → Bool → T → Bool
/-- parentheses exactly where required -/
def minimal : Policy := needParen
/-- every operand in parentheses -/
def full : Policy := fun _ _ _ => true
/-- every compound operand in parentheses -/
def fullBin : Policy := fun _ _ c => match c with | .num _ => false | .bin _ _ _ => true

/-- the policy parenthesises at least where precedence / associativity require it, everywhere in `t` -/
def covers (P : Policy) : T → Bool
  | .num _ => true
  | .bin o l r => (!needParen o false l || P o false l) && (!needParen o true r || P o true r) && covers P l && covers P r

def wrap (L : Layout) (b : Bool) (s : Str) : Str :=
  if b then '(' :: (L.inOpen ++ (s ++ (L.inClose ++ [')']))) else s

/-- **the renderer**: decimal literals (negative ones with their sign, unparenthesised: the grammar's `int`
has an optional sign), operators with the layout's blanks around them, parentheses by the policy -/
def render (P : Policy) (L : Layout) : T → Str
  | .num z => showInt z
  | .bin o l r =>
    wrap L (P o false l) (render P L l) ++ (L.pre ++ (o.char :: (L.post ++ wrap L (P o true r) (render P L r))))

/-- no blanks at all -/
def tight : Layout := {}
/-- one blank on each side of an operator -/
def spaced : Layout := { pre := [' '], post := [' '] }

/-! ## the parser tree of a rendered expression -/

def tappend : Tail → Tail → Tail
  | .nil, b => b
  | .cons o t a, b => .cons o t (tappend a b)

/-- the flat `term (operation term)*` sequence of `t`: parenthesised operands are nested flats -/
def seqOf (P : Policy) : T → Term × Tail
  | .num z => (.num (showInt z), .nil)
  | .bin o l r =>
    let a := if P o false l then (Term.paren (.mk (seqOf P l).1 (seqOf P l).2), Tail.nil) else seqOf P l
    let b := if P o true r then (Term.paren (.mk (seqOf P r).1 (seqOf P r).2), Tail.nil) else seqOf P r
    (a.1, tappend a.2 (.cons o b.1 b.2))

def flatOf (P : Policy) (t : T) : Flat := .mk (seqOf P t).1 (seqOf P t).2

theorem rTail_tappend (L : Layout) : ∀ a b : Tail, rTail L (tappend a b) = rTail L a ++ rTail L b
  | .nil, b => by simp [tappend, rTail]
  | .cons o t a, b => by simp [tappend, rTail, rTail_tappend L a b]

theorem okTail_tappend : ∀ a b : Tail, okTail (tappend a b) = (okTail a && okTail b)
  | .nil, b => by simp [tappend, okTail]
  | .cons o t a, b => by simp [tappend, okTail, okTail_tappend a b, Bool.and_assoc]

theorem render_eq (P : Policy) (L : Layout) (t : T) : render P L t = rFlat L (flatOf P t) := by
  induction t with
  | num z => simp [render, flatOf, seqOf, rFlat, rTerm, rTail]
  | bin o l r ihl ihr =>
    simp only [flatOf, rFlat] at ihl ihr
    simp only [render, flatOf, seqOf, rFlat, rTail_tappend, rTail, ihl, ihr, wrap]
    cases P o false l <;> cases P o true r <;> simp [rTerm, rTail, rFlat]

theorem ok_flatOf (P : Policy) (t : T) : okFlat (flatOf P t) = true := by
  induction t with
  | num z => simp [flatOf, seqOf, okFlat, okTerm, okTail, isLit_showInt]
  | bin o l r ihl ihr =>
    simp only [flatOf, okFlat, Bool.and_eq_true] at ihl ihr
    simp only [flatOf, seqOf, okFlat, okTail_tappend, okTail]
    cases P o false l <;> cases P o true r <;> simp [okTerm, okTail, okFlat, ihl, ihr]

/-- **the character-level round trip.**  For every expression tree, every parenthesisation policy, every
layout of blanks (spaces or tabs before / after operators, inside parentheses) and any blanks around the
line, the model's parser `calculate` (recursive descent with the fuel the driver uses, `2·length + 2`) returns
exactly the tree's flat form: the operands in order, the parenthesised ones as nested sequences. -/
theorem C19_parse_render (P : Policy) (L : Layout) (hL : L.ok = true) (t : T)
    (lead trail : Str) (hl : allWs lead = true) (ht : allWs trail = true) :
    calculate (lead ++ (render P L t ++ trail)) = some (flatOf P t) := by
  rw [render_eq]
  exact calculate_render L hL _ (ok_flatOf P t) lead trail hl ht

/-- the explicit fuel bound behind it: the parser succeeds with every fuel from `needFlat` on, and `needFlat`
is at most the number of characters plus one -/
theorem C19_parse_render_fuel (P : Policy) (L : Layout) (hL : L.ok = true) (t : T) (f : Nat) (rest : Str)
    (hf : (render P L t).length + 1 ≤ f) (hr : stopOK rest = true) :
    pExpr f (render P L t ++ rest) = some (flatOf P t, rest) := by
  rw [render_eq] at hf ⊢
  have := needFlat_le L _ (ok_flatOf P t)
  exact pExpr_render L hL _ f rest (ok_flatOf P t) (by omega) hr

/-! ## evaluation of the rendered line -/

/-- the expression tree over 64-bit values: a literal outside the 64-bit range saturates (`parse::<f64>() as i64`) -/
def toEsat : T → E Int
  | .num z => .atom (satLit z)
  | .bin o l r => .bin o (toEsat l) (toEsat r)

/-- `eval_int` never fails on a tree of values -/
def valE : E Int → Int
  | .atom v => v
  | .bin o l r =>
    match applyOp o (valE l) (valE r) with
    | .ok v => v
    | _ => 0

theorem applyOp_ok (o : Op) (a b : Int) : ∃ v, applyOp o a b = .ok v := by
  cases o <;> simp only [applyOp]
  all_goals first | exact ⟨_, rfl⟩ | (split <;> exact ⟨_, rfl⟩)

theorem evalTree_valE (e : E Int) : evalTree e = .ok (valE e) := by
  induction e with
  | atom v => rfl
  | bin o l r ihl ihr =>
    obtain ⟨v, hv⟩ := applyOp_ok o (valE l) (valE r)
    simp [evalTree, ihl, ihr, Outcome.bind, valE, hv]

/-- the tree the Pratt loop sees at the outer level: parenthesised operands are atoms (already values) -/
def outer (P : Policy) : T → E Int
  | .num z => .atom (satLit z)
  | .bin o l r =>
    .bin o (if P o false l then .atom (valE (toEsat l)) else outer P l)
           (if P o true r then .atom (valE (toEsat r)) else outer P r)

theorem valE_outer (P : Policy) (t : T) : valE (outer P t) = valE (toEsat t) := by
  induction t with
  | num z => rfl
  | bin o l r ihl ihr =>
    simp only [outer, toEsat, valE]
    cases P o false l <;> cases P o true r <;> simp [valE, ihl, ihr]

/-- the same over any atom type: a parenthesised operand `c` is the atom `φ c`, a literal `z` the atom `φ (num z)` -/
def outerG {α : Type} (φ : T → α) (P : Policy) : T → E α
  | .num z => .atom (φ (.num z))
  | .bin o l r =>
    .bin o (if P o false l then .atom (φ l) else outerG φ P l)
           (if P o true r then .atom (φ r) else outerG φ P r)

theorem outer_eq (P : Policy) (t : T) : outer P t = outerG (fun c => valE (toEsat c)) P t := by
  induction t with
  | num z => rfl
  | bin o l r ihl ihr => simp only [outer, outerG, ihl, ihr]

theorem rootPrec_outer {α : Type} (φ : T → α) (P : Policy) (t : T) : ∀ o, needParen o false t = false →
    (prec o < rootPrec (outerG φ P t) ∨ (prec o = rootPrec (outerG φ P t) ∧ rightAssoc o = false)) := by
  intro o h
  cases t with
  | num z => left; simp only [outerG, rootPrec]; have := prec_cases o; omega
  | bin o' l r =>
    simp only [needParen, Bool.false_eq_true, if_false, Bool.not_eq_false', Bool.or_eq_true, Bool.and_eq_true,
      decide_eq_true_eq, Bool.not_eq_true'] at h
    simpa only [outerG, rootPrec] using h

theorem rootPrec_outer_r {α : Type} (φ : T → α) (P : Policy) (t : T) : ∀ o, needParen o true t = false →
    (prec o < rootPrec (outerG φ P t) ∨ (prec o = rootPrec (outerG φ P t) ∧ rightAssoc o = true)) := by
  intro o h
  cases t with
  | num z => left; simp only [outerG, rootPrec]; have := prec_cases o; omega
  | bin o' l r =>
    simp only [needParen, if_true, Bool.not_eq_false', Bool.or_eq_true, Bool.and_eq_true,
      decide_eq_true_eq] at h
    simpa only [outerG, rootPrec] using h

/-- a covering policy leaves a tree that standard precedence / associativity print without parentheses -/
theorem WF_outerG {α : Type} (φ : T → α) (P : Policy) (t : T) (h : covers P t = true) : WF (outerG φ P t) := by
  induction t with
  | num z => trivial
  | bin o l r ihl ihr =>
    simp only [covers, Bool.and_eq_true, Bool.or_eq_true, Bool.not_eq_true'] at h
    obtain ⟨⟨⟨hl, hr⟩, cl⟩, cr⟩ := h
    have atomP : ∀ v : α, prec o < rootPrec (E.atom v) := by
      intro v; simp only [rootPrec]; have := prec_cases o; omega
    simp only [outerG, WF]
    refine ⟨?_, ?_, ?_, ?_⟩
    · split
      · trivial
      · exact ihl cl
    · split
      · trivial
      · exact ihr cr
    · split
      · exact Or.inl (atomP _)
      · rename_i hp; exact rootPrec_outer φ P l o (by rcases hl with h | h; exact h; exact absurd h hp)
    · split
      · exact Or.inl (atomP _)
      · rename_i hp; exact rootPrec_outer_r φ P r o (by rcases hr with h | h; exact h; exact absurd h hp)

theorem WF_outer (P : Policy) (t : T) (h : covers P t = true) : WF (outer P t) := by
  rw [outer_eq]; exact WF_outerG _ P t h

theorem evalTail_tappend : ∀ (a : Tail) (o : Op) (t : Term) (b : Tail) (xs ys : List (Op × Int)) (v : Int),
    evalTail a = .ok xs → evalTerm t = .ok v → evalTail b = .ok ys →
    evalTail (tappend a (.cons o t b)) = .ok (xs ++ (o, v) :: ys)
  | .nil, o, t, b, xs, ys, v, ha, ht, hb => by
    simp only [evalTail] at ha
    injection ha with ha; subst ha
    simp [tappend, evalTail, ht, hb, Outcome.bind]
  | .cons o' t' a, o, t, b, xs, ys, v, ha, ht, hb => by
    simp only [evalTail] at ha
    cases h1 : evalTerm t' with
    | ok v' =>
      cases h2 : evalTail a with
      | ok xs' =>
        rw [h1, h2] at ha
        simp only [Outcome.bind] at ha
        injection ha with ha; subst ha
        simp [tappend, evalTail, h1, Outcome.bind, evalTail_tappend a o t b xs' ys v h2 ht hb]
      | _ => rw [h1, h2] at ha; simp [Outcome.bind] at ha
    | _ => rw [h1] at ha; simp [Outcome.bind] at ha

/-- the operands of the flat form evaluate to the atoms of the outer tree, and the whole to the tree's value -/
theorem eval_seqOf (P : Policy) (t : T) (h : covers P t = true) :
    evalTerm (seqOf P t).1 = .ok (hd (outer P t)) ∧ evalTail (seqOf P t).2 = .ok (tl (outer P t)) ∧
    evalFlat (flatOf P t) = .ok (valE (toEsat t)) := by
  have close : ∀ t', covers P t' = true → evalTerm (seqOf P t').1 = .ok (hd (outer P t')) →
      evalTail (seqOf P t').2 = .ok (tl (outer P t')) → evalFlat (flatOf P t') = .ok (valE (toEsat t')) := by
    intro t' hc h1 h2
    simp only [flatOf, evalFlat, h1, h2, Outcome.bind, pratt_flat _ (WF_outer P t' hc), evalTree_valE, valE_outer]
  induction t with
  | num z =>
    have h1 : evalTerm (seqOf P (.num z)).1 = .ok (hd (outer P (.num z))) := by
      simp only [seqOf, outer, hd]; exact evalTerm_showInt z
    have h2 : evalTail (seqOf P (.num z)).2 = .ok (tl (outer P (.num z))) := by
      simp [seqOf, outer, tl, evalTail]
    exact ⟨h1, h2, close _ h h1 h2⟩
  | bin o l r ihl ihr =>
    have hc := h
    simp only [covers, Bool.and_eq_true] at hc
    obtain ⟨l1, l2, l3⟩ := ihl hc.1.2
    obtain ⟨r1, r2, r3⟩ := ihr hc.2
    simp only [flatOf] at l3 r3
    have key : evalTerm (seqOf P (.bin o l r)).1 = .ok (hd (outer P (.bin o l r))) ∧
        evalTail (seqOf P (.bin o l r)).2 = .ok (tl (outer P (.bin o l r))) := by
      simp only [seqOf, outer, hd, tl]
      cases hl : P o false l <;> cases hr : P o true r <;>
        simp only [if_true, if_false, Bool.false_eq_true, hd, tl, evalTerm, l3, List.nil_append] <;>
        refine ⟨by first | exact l1 | rfl | trivial, ?_⟩
      · exact evalTail_tappend _ o _ _ _ _ _ l2 r1 r2
      · exact evalTail_tappend _ o _ _ _ [] _ l2 (by simp only [evalTerm]; exact r3) rfl
      · exact evalTail_tappend .nil o _ _ [] _ _ rfl r1 r2
      · exact evalTail_tappend .nil o _ _ [] [] _ rfl (by simp only [evalTerm]; exact r3) rfl
    exact ⟨key.1, key.2, close _ h key.1 key.2⟩

/-! ## the expression tree of a parser tree (shape, not only value) -/

def joinE : E T → T
  | .atom t => t
  | .bin o l r => .bin o (joinE l) (joinE r)

mutual
/-- the expression tree a parser tree denotes: the model's `pratt` groups each flat sequence, parenthesised
operands first (this is how `evalFlat` proceeds, with values in place of trees) -/
def termT : Term → Option T
  | .num s => if isLit s then some (.num (litVal s)) else none
  | .paren f => flatT f
def flatT : Flat → Option T
  | .mk first rest =>
    match termT first, tailT rest with
    | some a, some xs => (pratt a xs).map joinE
    | _, _ => none
def tailT : Tail → Option (List (Op × T))
  | .nil => some []
  | .cons o t rest =>
    match termT t, tailT rest with
    | some a, some xs => some ((o, a) :: xs)
    | _, _ => none
end

/-- character string → expression tree: the model's PEG parser, then the model's Pratt loop at every level -/
def parseTree (line : Str) : Option T := (calculate line).bind flatT

theorem joinE_outerG (P : Policy) (t : T) : joinE (outerG id P t) = t := by
  induction t with
  | num z => rfl
  | bin o l r ihl ihr =>
    simp only [outerG, joinE]
    cases P o false l <;> cases P o true r <;> simp [joinE, ihl, ihr]

theorem tailT_tappend : ∀ (a : Tail) (o : Op) (t : Term) (b : Tail) (xs ys : List (Op × T)) (v : T),
    tailT a = some xs → termT t = some v → tailT b = some ys →
    tailT (tappend a (.cons o t b)) = some (xs ++ (o, v) :: ys)
  | .nil, o, t, b, xs, ys, v, ha, ht, hb => by
    simp only [tailT] at ha
    injection ha with ha; subst ha
    simp [tappend, tailT, ht, hb]
  | .cons o' t' a, o, t, b, xs, ys, v, ha, ht, hb => by
    simp only [tailT] at ha
    cases h1 : termT t' with
    | some v' =>
      cases h2 : tailT a with
      | some xs' =>
        rw [h1, h2] at ha
        injection ha with ha; subst ha
        simp [tappend, tailT, h1, tailT_tappend a o t b xs' ys v h2 ht hb]
      | none => rw [h1, h2] at ha; simp at ha
    | none => rw [h1] at ha; simp at ha

theorem tree_seqOf (P : Policy) (t : T) (h : covers P t = true) :
    termT (seqOf P t).1 = some (hd (outerG id P t)) ∧ tailT (seqOf P t).2 = some (tl (outerG id P t)) ∧
    flatT (flatOf P t) = some t := by
  have close : ∀ t', covers P t' = true → termT (seqOf P t').1 = some (hd (outerG id P t')) →
      tailT (seqOf P t').2 = some (tl (outerG id P t')) → flatT (flatOf P t') = some t' := by
    intro t' hc h1 h2
    simp only [flatOf, flatT, h1, h2, pratt_flat _ (WF_outerG id P t' hc), Option.map_some, joinE_outerG]
  induction t with
  | num z =>
    have h1 : termT (seqOf P (.num z)).1 = some (hd (outerG id P (.num z))) := by
      simp [seqOf, outerG, hd, termT, isLit_showInt, litVal_showInt]
    have h2 : tailT (seqOf P (.num z)).2 = some (tl (outerG id P (.num z))) := by
      simp [seqOf, outerG, tl, tailT]
    exact ⟨h1, h2, close _ h h1 h2⟩
  | bin o l r ihl ihr =>
    have hc := h
    simp only [covers, Bool.and_eq_true] at hc
    obtain ⟨l1, l2, l3⟩ := ihl hc.1.2
    obtain ⟨r1, r2, r3⟩ := ihr hc.2
    simp only [flatOf] at l3 r3
    have key : termT (seqOf P (.bin o l r)).1 = some (hd (outerG id P (.bin o l r))) ∧
        tailT (seqOf P (.bin o l r)).2 = some (tl (outerG id P (.bin o l r))) := by
      simp only [seqOf, outerG, hd, tl]
      cases hl : P o false l <;> cases hr : P o true r <;>
        simp only [if_true, if_false, Bool.false_eq_true, hd, tl, termT, l3, List.nil_append, id] <;>
        refine ⟨by first | exact l1 | rfl | trivial, ?_⟩
      · exact tailT_tappend _ o _ _ _ _ _ l2 r1 r2
      · exact tailT_tappend _ o _ _ _ [] _ l2 (by simp only [termT]; exact r3) rfl
      · exact tailT_tappend .nil o _ _ [] _ _ rfl r1 r2
      · exact tailT_tappend .nil o _ _ [] [] _ rfl (by simp only [termT]; exact r3) rfl
    exact ⟨key.1, key.2, close _ h key.1 key.2⟩

/-- **string → tree.**  The rendered line parses back to exactly the expression tree it was rendered from:
PEG parser and Pratt loop (both with the model's own fuel), every tree, every covering policy, every layout. -/
theorem C19_tree_render (P : Policy) (L : Layout) (hL : L.ok = true) (t : T) (hP : covers P t = true)
    (lead trail : Str) (hl : allWs lead = true) (ht : allWs trail = true) :
    parseTree (lead ++ (render P L t ++ trail)) = some t := by
  simp only [parseTree, C19_parse_render P L hL t lead trail hl ht, Option.bind_some, (tree_seqOf P t hP).2.2]

/-! ## evaluation factors through the expression tree, for every parser tree -/

theorem valE_mapE (e : E T) : valE (mapE (fun c => valE (toEsat c)) e) = valE (toEsat (joinE e)) := by
  induction e with
  | atom t => rfl
  | bin o l r ihl ihr => simp only [mapE, joinE, toEsat, valE, ihl, ihr]

mutual
theorem termT_eval : ∀ t : Term, okTerm t = true → ∃ a, termT t = some a ∧ evalTerm t = .ok (valE (toEsat a))
  | .num s, h => by
    simp only [okTerm] at h
    exact ⟨.num (litVal s), by simp [termT, h], by simpa [toEsat, valE] using evalTerm_lit s h⟩
  | .paren f, h => by
    simp only [okTerm] at h
    obtain ⟨t, h1, h2⟩ := flatT_eval f h
    exact ⟨t, by simpa [termT] using h1, by simpa [evalTerm] using h2⟩
theorem flatT_eval : ∀ f : Flat, okFlat f = true → ∃ t, flatT f = some t ∧ evalFlat f = .ok (valE (toEsat t))
  | .mk first rest, h => by
    simp only [okFlat, Bool.and_eq_true] at h
    obtain ⟨a, a1, a2⟩ := termT_eval first h.1
    obtain ⟨xs, x1, x2⟩ := tailT_eval rest h.2
    obtain ⟨e, he⟩ := pratt_total a xs
    refine ⟨joinE e, by simp [flatT, a1, x1, he], ?_⟩
    have := pratt_map (fun c => valE (toEsat c)) a xs
    rw [he] at this
    simp only [evalFlat, a2, x2, Outcome.bind, this, Option.map_some, evalTree_valE, valE_mapE]
theorem tailT_eval : ∀ tl : Tail, okTail tl = true →
    ∃ xs, tailT tl = some xs ∧ evalTail tl = .ok (mapOps (fun c => valE (toEsat c)) xs)
  | .nil, _ => ⟨[], rfl, rfl⟩
  | .cons o t rest, h => by
    simp only [okTail, Bool.and_eq_true] at h
    obtain ⟨a, a1, a2⟩ := termT_eval t h.1
    obtain ⟨xs, x1, x2⟩ := tailT_eval rest h.2
    exact ⟨(o, a) :: xs, by simp [tailT, a1, x1], by simp [evalTail, a2, x2, Outcome.bind, mapOps]⟩
end

/-- **evaluation = evaluation of the parsed tree, for every line** whose parser tree has `int` literals (no
fraction / exponent forms) and that holds no `.`: `run_calculator` returns `evalTree` of the expression tree that
`parseTree` extracts — so precedence, associativity and parentheses act on the value exactly as on the tree -/
theorem C19_eval_factors (line : Str) (f : Flat) (hf : calculate line = some f) (hok : okFlat f = true)
    (hdot : line.contains '.' = false) :
    ∃ t, parseTree line = some t ∧ runCalculator line = (evalTree (toEsat t)).map CalcRes.int := by
  obtain ⟨t, h1, h2⟩ := flatT_eval f hok
  refine ⟨t, by simp [parseTree, hf, h1], ?_⟩
  simp only [runCalculator, hf, hdot, Bool.false_eq_true, if_false, h2, evalTree_valE]

theorem clean_no_dot (line : Str) (hc : clean line = true) : line.contains '.' = false := by
  cases h : line.contains '.' with
  | false => rfl
  | true =>
    rw [List.contains_iff_mem] at h
    simp only [clean, List.all_eq_true] at hc
    have := hc '.' h
    simp [cleanCh] at this

/-- **every integer-mode line** (input-only guard: no `.`, `e`, `E` in the line): either the parser rejects it
(the "syntax error" diagnostic) or the value printed is `evalTree` of the expression tree `parseTree` extracts -/
theorem C19_line_factors (line : Str) (hc : clean line = true) :
    runCalculator line = .ok .syntaxError ∨
    ∃ t, parseTree line = some t ∧ runCalculator line = (evalTree (toEsat t)).map CalcRes.int := by
  cases hf : calculate line with
  | none => left; simp [runCalculator, hf]
  | some f => exact Or.inr (C19_eval_factors line f hf (calculate_ok line hc f hf) (clean_no_dot line hc))

/-- in particular every line the shell classifies as arithmetic and sends to integer mode -/
theorem C19_arith_factors (line : Str) (ha : isArithmetic line = true) (hdot : line.contains '.' = false) :
    runCalculator line = .ok .syntaxError ∨
    ∃ t, parseTree line = some t ∧ runCalculator line = (evalTree (toEsat t)).map CalcRes.int := by
  refine C19_line_factors line ?_
  obtain ⟨_, _, init, last, rfl, _, hi, hl⟩ := (C19_classify line).mp ha
  have hnd : ∀ c, c ∈ init ++ [last] → c ≠ '.' := by
    intro c hc e; subst e
    have : (init ++ [last]).contains '.' = true := List.contains_iff_mem.mpr hc
    rw [hdot] at this; cases this
  simp only [clean, List.all_eq_true]
  intro c hc
  have hb : arithBody c = true ∨ arithLast c = true := by
    rcases List.mem_append.mp hc with h | h
    · exact Or.inl (List.all_eq_true.mp hi c h)
    · simp only [List.mem_singleton] at h; subst h; exact Or.inr hl
  have h1 : c ≠ 'e' := by rintro rfl; revert hb; decide
  have h2 : c ≠ 'E' := by rintro rfl; revert hb; decide
  simp [cleanCh, hnd c hc, h1, h2]

/-! ## the characters of a rendered line -/

theorem showInt_chars (z : Int) : ∃ ds, isDigs ds = true ∧ (showInt z = ds ∨ showInt z = '-' :: ds) := by
  cases z with
  | ofNat n => exact ⟨_, isDigs_toDigits n, Or.inl (showInt_ofNat n)⟩
  | negSucc n => exact ⟨_, isDigs_toDigits (n + 1), Or.inr (showInt_negSucc n)⟩

def layAll (L : Layout) (q : Char → Bool) : Bool := L.pre.all q && L.post.all q && L.inOpen.all q && L.inClose.all q

/-- every character of a rendered expression is a digit, `-`, an operator, a parenthesis or a layout blank -/
theorem render_all (q : Char → Bool) (hd : ∀ c, isDigitA c = true → q c = true) (hop : ∀ o : Op, q o.char = true)
    (ho : q '(' = true) (hc : q ')' = true) (P : Policy) (L : Layout) (hL : layAll L q = true) (t : T) :
    (render P L t).all q = true := by
  simp only [layAll, Bool.and_eq_true] at hL
  induction t with
  | num z =>
    obtain ⟨ds, h, e | e⟩ := showInt_chars z
    all_goals
      simp only [isDigs, Bool.and_eq_true, List.all_eq_true] at h
      simp only [render, e, List.all_cons, Bool.and_eq_true, List.all_eq_true]
    · exact fun c hc => hd c (h.2 c hc)
    · exact ⟨hop .sub, fun c hc => hd c (h.2 c hc)⟩
  | bin o l r ihl ihr =>
    simp only [render, wrap]
    cases P o false l <;> cases P o true r <;>
      simp [List.all_append, ihl, ihr, hL.1.1.1, hL.1.1.2, hL.1.2, hL.2, hop o, ho, hc]

theorem render_any_digit (P : Policy) (L : Layout) (t : T) : (render P L t).any isDigitA = true := by
  induction t with
  | num z =>
    obtain ⟨ds, h, e | e⟩ := showInt_chars z <;> obtain ⟨d, r, rfl, hd, _⟩ := isDigs_head h <;> simp [render, e, hd]
  | bin o l r ihl ihr =>
    simp only [render, wrap]
    cases P o false l <;> simp [List.any_append, ihl]

theorem render_ne_nil (P : Policy) (L : Layout) (t : T) : render P L t ≠ [] := by
  intro h; have := render_any_digit P L t; rw [h] at this; simp at this

theorem getLast?_append_ne {α} (a b : List α) (h : b ≠ []) : (a ++ b).getLast? = b.getLast? := by
  rw [List.getLast?_append]; cases hb : b.getLast? with
  | none => simp at hb; exact absurd hb h
  | some x => rfl

/-- a rendered expression ends in a digit or `)` -/
theorem render_last (P : Policy) (L : Layout) (t : T) : ∀ c, (render P L t).getLast? = some c → (isDigitA c = true ∨ c = ')') := by
  induction t with
  | num z =>
    intro c hc
    left
    obtain ⟨ds, h, e | e⟩ := showInt_chars z
    all_goals
      have hne : ds ≠ [] := by intro e0; subst e0; simp [isDigs] at h
      simp only [isDigs, Bool.and_eq_true, List.all_eq_true] at h
      rw [render, e] at hc
    · exact h.2 c (List.mem_of_getLast? hc)
    · rw [show '-' :: ds = ['-'] ++ ds from rfl, getLast?_append_ne _ _ hne] at hc
      exact h.2 c (List.mem_of_getLast? hc)
  | bin o l r ihl ihr =>
    intro c hc
    simp only [render] at hc
    have hw : wrap L (P o true r) (render P L r) ≠ [] := by
      unfold wrap; split
      · simp
      · exact render_ne_nil P L r
    rw [getLast?_append_ne _ _ (by simp), getLast?_append_ne _ _ (by simp),
      show o.char :: (L.post ++ wrap L (P o true r) (render P L r)) = (o.char :: L.post) ++ wrap L (P o true r) (render P L r) from rfl,
      getLast?_append_ne _ _ hw] at hc
    unfold wrap at hc
    split at hc
    · right
      rw [show '(' :: (L.inOpen ++ (render P L r ++ (L.inClose ++ [')']))) = ('(' :: (L.inOpen ++ (render P L r ++ L.inClose))) ++ [')'] by simp] at hc
      simp only [List.getLast?_concat] at hc
      exact (Option.some.inj hc).symm
    · exact ihr c hc

theorem allWs_all (q : Char → Bool) (h1 : q ' ' = true) (h2 : q '\t' = true) (s : Str) (h : allWs s = true) : s.all q = true := by
  simp only [allWs, List.all_eq_true] at h ⊢
  intro c hc
  have := h c hc
  simp only [isWsC, Bool.or_eq_true, decide_eq_true_eq] at this
  rcases this with rfl | rfl <;> assumption

theorem layAll_ws (q : Char → Bool) (h1 : q ' ' = true) (h2 : q '\t' = true) (L : Layout) (hL : L.ok = true) : layAll L q = true := by
  simp only [Layout.ok, Bool.and_eq_true] at hL
  simp [layAll, allWs_all q h1 h2 _ hL.1.1.1, allWs_all q h1 h2 _ hL.1.1.2, allWs_all q h1 h2 _ hL.1.2, allWs_all q h1 h2 _ hL.2]

theorem line_no_dot (P : Policy) (L : Layout) (hL : L.ok = true) (t : T)
    (lead trail : Str) (hl : allWs lead = true) (ht : allWs trail = true) :
    (lead ++ (render P L t ++ trail)).contains '.' = false := by
  let q : Char → Bool := fun c => c != '.'
  have hq : (lead ++ (render P L t ++ trail)).all q = true := by
    simp only [List.all_append, Bool.and_eq_true]
    refine ⟨allWs_all q (by decide) (by decide) _ hl, ?_, allWs_all q (by decide) (by decide) _ ht⟩
    refine render_all q ?_ ?_ (by decide) (by decide) P L (layAll_ws q (by decide) (by decide) L hL) t
    · intro c hc; simp only [q, bne_iff_ne, ne_eq]; intro e; subst e; revert hc; decide
    · intro o; cases o <;> decide
  cases hc : (lead ++ (render P L t ++ trail)).contains '.' with
  | false => rfl
  | true =>
    rw [List.contains_iff_mem] at hc
    have := (List.all_eq_true.mp hq) '.' hc
    simp [q] at this

/-- **the rendered line evaluates to the tree's value.**  `run_calculator` on the rendered line (any policy
that parenthesises at least where precedence and associativity require, any layout of blanks) is integer
mode and returns `evalTree` of the expression tree (literals outside the 64-bit range saturated) -/
theorem C19_eval_render (P : Policy) (L : Layout) (hL : L.ok = true) (t : T) (hP : covers P t = true)
    (lead trail : Str) (hl : allWs lead = true) (ht : allWs trail = true) :
    runCalculator (lead ++ (render P L t ++ trail)) = (evalTree (toEsat t)).map CalcRes.int := by
  unfold runCalculator
  rw [C19_parse_render P L hL t lead trail hl ht]
  simp only [line_no_dot P L hL t lead trail hl ht, Bool.false_eq_true, if_false, (eval_seqOf P t hP).2.2, evalTree_valE]

/-- literals all inside the 64-bit range -/
def litsIn : T → Bool
  | .num z => inI64 z
  | .bin _ l r => litsIn l && litsIn r

theorem toEsat_eq (t : T) (h : litsIn t = true) : toEsat t = toE t := by
  induction t with
  | num z =>
    simp only [litsIn, inI64, Bool.and_eq_true, decide_eq_true_eq] at h
    simp [toEsat, toE, satLit, h]
  | bin o l r ihl ihr =>
    simp only [litsIn, Bool.and_eq_true] at h
    simp [toEsat, toE, ihl h.1, ihr h.2]

theorem specEval_litsIn (t : T) (v : Int) (h : specEval t = some v) : litsIn t = true := by
  induction t generalizing v with
  | num z =>
    simp only [specEval] at h
    split at h
    · rename_i hz; simp [litsIn, inI64, hz]
    · simp at h
  | bin o l r ihl ihr =>
    simp only [specEval] at h
    split at h
    · rename_i a b ha hb; simp [litsIn, ihl a ha, ihr b hb]
    · simp at h

/-- with literals in range the tree is the plain one (`C19.toE`), so `C19_wrap_hom_pow` / `C19_div` apply -/
theorem C19_eval_render_inrange (P : Policy) (L : Layout) (hL : L.ok = true) (t : T) (hP : covers P t = true)
    (hin : litsIn t = true) (lead trail : Str) (hl : allWs lead = true) (ht : allWs trail = true) :
    runCalculator (lead ++ (render P L t ++ trail)) = (evalTree (toE t)).map CalcRes.int := by
  rw [C19_eval_render P L hL t hP lead trail hl ht, toEsat_eq t hin]

/-- **end to end against the reference evaluator**: whenever the statement fixes the value of the tree
(`specEval`, exact arithmetic reduced to 64 bits), the rendered character line yields exactly that value -/
theorem C19_value_render (P : Policy) (L : Layout) (hL : L.ok = true) (t : T) (hP : covers P t = true)
    (v : Int) (hv : specEval t = some v) (lead trail : Str) (hl : allWs lead = true) (ht : allWs trail = true) :
    runCalculator (lead ++ (render P L t ++ trail)) = .ok (.int v) := by
  rw [C19_eval_render_inrange P L hL t hP (specEval_litsIn t v hv) lead trail hl ht, C19_spec_eval t v hv]
  rfl

theorem covers_minimal (t : T) : covers minimal t = true := by
  induction t with
  | num z => rfl
  | bin o l r ihl ihr =>
    unfold minimal at ihl ihr
    simp [covers, minimal, ihl, ihr]

theorem covers_full (t : T) : covers full t = true := by
  induction t with
  | num z => rfl
  | bin o l r ihl ihr => simp [covers, full, ihl, ihr]

theorem covers_fullBin (t : T) : covers fullBin t = true := by
  induction t with
  | num z => rfl
  | bin o l r ihl ihr =>
    simp only [covers, ihl, ihr, Bool.and_true, Bool.and_eq_true, Bool.or_eq_true, Bool.not_eq_true']
    constructor
    · cases l <;> simp [needParen, fullBin]
    · cases r <;> simp [needParen, fullBin]

/-! ## classification of the rendered line -/

def allSp (s : Str) : Bool := s.all (· = ' ')
/-- the layout uses spaces only (`is_arithmetic` does not allow tabs) -/
def Layout.spaces (L : Layout) : Bool := allSp L.pre && allSp L.post && allSp L.inOpen && allSp L.inClose

theorem allSp_allWs (s : Str) (h : allSp s = true) : allWs s = true := by
  simp only [allSp, allWs, List.all_eq_true, decide_eq_true_eq] at h ⊢
  intro c hc; rw [h c hc]; decide

theorem allSp_all (q : Char → Bool) (h1 : q ' ' = true) (s : Str) (h : allSp s = true) : s.all q = true := by
  simp only [allSp, List.all_eq_true, decide_eq_true_eq] at h ⊢
  intro c hc; rw [h c hc]; exact h1

theorem spaces_ok (L : Layout) (h : Layout.spaces L = true) : L.ok = true := by
  simp only [Layout.spaces, Bool.and_eq_true] at h
  simp [Layout.ok, allSp_allWs _ h.1.1.1, allSp_allWs _ h.1.1.2, allSp_allWs _ h.1.2, allSp_allWs _ h.2]

theorem two_le_of_any (p q : Char → Bool) (s : Str) (hp : s.any p = true) (hq : s.any q = true)
    (hpq : ∀ c, p c = true → q c = true → False) : 2 ≤ s.length := by
  match s, hp, hq with
  | [c], hp, hq => simp at hp hq; exact (hpq c hp hq).elim
  | _ :: _ :: _, _, _ => simp

theorem reArithShape_of (s : Str) (hall : s.all arithBody = true) (hlen : 2 ≤ s.length)
    (hlast : ∀ c, s.getLast? = some c → arithLast c = true) : reArithShape s = true := by
  unfold reArithShape
  cases h : s.getLast? with
  | none => simp at h; subst h; simp at hlen
  | some c =>
    have h1 : s.dropLast.isEmpty = false := by
      cases hd : s.dropLast with
      | nil => have := congrArg List.length hd; simp at this; omega
      | cons _ _ => rfl
    have h2 : s.dropLast.all arithBody = true := by
      simp only [List.all_eq_true] at hall ⊢
      exact fun x hx => hall x ((List.dropLast_sublist s).subset hx)
    simp [h1, h2, hlast c h]

theorem digit_not_op : ∀ c, isDigitA c = true → arithOp c = true → False := by
  intro c h1 h2
  simp only [arithOp, Bool.or_eq_true, decide_eq_true_eq] at h2
  rcases h2 with (((rfl | rfl) | rfl) | rfl) | rfl <;> revert h1 <;> decide

/-- **the rendered line is classified as arithmetic exactly when it holds an operator character** (it always
holds a digit, consists of arithmetic characters and ends in a digit, `)` or a blank); layouts with spaces only -/
theorem C19_render_arith (P : Policy) (L : Layout) (hL : Layout.spaces L = true) (t : T)
    (lead trail : Str) (hl : allSp lead = true) (ht : allSp trail = true) :
    isArithmetic (lead ++ (render P L t ++ trail)) = (lead ++ (render P L t ++ trail)).any arithOp := by
  have hdig : (lead ++ (render P L t ++ trail)).any isDigitA = true := by
    simp [List.any_append, render_any_digit P L t]
  have hbody : (lead ++ (render P L t ++ trail)).all arithBody = true := by
    have hL' := hL
    simp only [Layout.spaces, Bool.and_eq_true] at hL'
    have hlay : layAll L arithBody = true := by
      simp [layAll, allSp_all arithBody (by decide) _ hL'.1.1.1, allSp_all arithBody (by decide) _ hL'.1.1.2,
        allSp_all arithBody (by decide) _ hL'.1.2, allSp_all arithBody (by decide) _ hL'.2]
    simp only [List.all_append, Bool.and_eq_true]
    refine ⟨allSp_all arithBody (by decide) _ hl, ?_, allSp_all arithBody (by decide) _ ht⟩
    refine render_all arithBody ?_ ?_ (by decide) (by decide) P L hlay t
    · intro c hc; simp [arithBody, hc]
    · intro o; cases o <;> decide
  have hlast : ∀ c, (lead ++ (render P L t ++ trail)).getLast? = some c → arithLast c = true := by
    intro c hc
    rw [getLast?_append_ne _ _ (by simp [render_ne_nil P L t])] at hc
    by_cases htr : trail = []
    · subst htr
      rw [List.append_nil] at hc
      rcases render_last P L t c hc with h | rfl
      · simp [arithLast, h]
      · decide
    · rw [getLast?_append_ne _ _ htr] at hc
      have := List.mem_of_getLast? hc
      simp only [allSp, List.all_eq_true, decide_eq_true_eq] at ht
      rw [ht c this]; decide
  cases hop : (lead ++ (render P L t ++ trail)).any arithOp with
  | false => simp [isArithmetic, hop]
  | true =>
    have hlen := two_le_of_any _ _ _ hdig hop digit_not_op
    simp [isArithmetic, hdig, hop, reArithShape_of _ hbody hlen hlast]

/-- a compound expression is always classified as arithmetic -/
theorem C19_render_arith_bin (P : Policy) (L : Layout) (hL : Layout.spaces L = true) (o : Op) (l r : T)
    (lead trail : Str) (hl : allSp lead = true) (ht : allSp trail = true) :
    isArithmetic (lead ++ (render P L (.bin o l r) ++ trail)) = true := by
  rw [C19_render_arith P L hL _ lead trail hl ht]
  have : arithOp o.char = true := by cases o <;> decide
  simp [render, List.any_append, this]

/-! ## the general statements on the parser's own tree type, under their property names -/

/-- PEG round trip for EVERY parser tree whose literals are `int` texts (optional `+` / `-`, digits), not only the
images of expression trees: `calculate (lead ++ rFlat L e ++ trail) = some e` -/
theorem C19_peg_roundtrip (L : Layout) (hL : L.ok = true) (e : Flat) (he : okFlat e = true)
    (lead trail : Str) (hl : allWs lead = true) (ht : allWs trail = true) :
    calculate (lead ++ (rFlat L e ++ trail)) = some e :=
  calculate_render L hL e he lead trail hl ht

/-- `C19_pratt` with the model's own fuel: `pratt` (fuel `2·length + 2`) answers, with the tree -/
theorem C19_pratt_fuel {α : Type} (e : E α) (h : WF e) : pratt (hd e) (tl e) = some e := pratt_flat e h

/-! ## non-vacuity -/

/-- `3 ^ 41 / (2 - 9)` -/
example : render minimal tight wT = "3^41/(2-9)".toList := by decide +kernel
example : render minimal spaced wT = "3 ^ 41 / (2 - 9)".toList := by decide +kernel
example : render full tight wT = "((3)^(41))/((2)-(9))".toList := by decide +kernel
example : runCalculator ([' '] ++ (render minimal spaced wT ++ [' ', '\t'])) = .ok (.int 60070252892616689) :=
  C19_value_render minimal spaced (by decide) wT (covers_minimal _) _ (by decide +kernel) _ _ (by decide) (by decide)

/-- negative literals, right-nested `-`, `^` under a signed base: `2 - (-3 - -2 ^ 2 ^ 3) * -1` -/
def wNeg : T := .bin .sub (.num 2) (.bin .mul (.bin .sub (.num (-3)) (.bin .pow (.num (-2)) (.bin .pow (.num 2) (.num 3)))) (.num (-1)))
example : render minimal tight wNeg = "2-(-3--2^2^3)*-1".toList := by decide +kernel
example : render minimal spaced wNeg = "2 - (-3 - -2 ^ 2 ^ 3) * -1".toList := by decide +kernel
example : render fullBin { pre := [' '], inOpen := ['\t'], inClose := [' ', ' '] } wNeg
    = "2 -(\t(\t-3 -(\t-2 ^(\t2 ^3  )  )  ) *-1  )".toList := by decide +kernel
example : calculate (render minimal tight wNeg) = some (flatOf minimal wNeg) := by
  simpa using C19_parse_render minimal tight (by decide) wNeg [] [] (by decide) (by decide)
example : parseTree (render minimal tight wNeg) = some wNeg := by
  simpa using C19_tree_render minimal tight (by decide) wNeg (covers_minimal _) [] [] (by decide) (by decide)
example : specEval wNeg = some (-257) := by decide +kernel
/-- guards of `C19_arith_factors` / `C19_line_factors` on a concrete line, both outcomes -/
example : isArithmetic "(1+2)*-3".toList = true ∧ "(1+2)*-3".toList.contains '.' = false ∧ clean "(1+2)*-3".toList = true ∧
    runCalculator "(1+2)*-3".toList = .ok (.int (-9)) := by decide +kernel
example : isArithmetic "2 - - 3".toList = true ∧ clean "2 - - 3".toList = true ∧ runCalculator "2 - - 3".toList = .ok .syntaxError := by
  decide +kernel
example : isArithmetic (render minimal spaced wNeg) = true := by
  have := C19_render_arith_bin minimal spaced (by decide) .sub (.num 2) (.bin .mul (.bin .sub (.num (-3)) (.bin .pow (.num (-2)) (.bin .pow (.num 2) (.num 3)))) (.num (-1))) [] [] (by decide) (by decide)
  simpa [wNeg] using this
/-- a literal outside the 64-bit range saturates -/
example : satLit 99999999999999999999 = i64Max ∧ satLit (-99999999999999999999) = i64Min ∧ satLit (-5) = -5 := by decide +kernel
example : runCalculator (render minimal spaced (.bin .add (.num 99999999999999999999) (.num 1))) = .ok (.int i64Min) := by
  have := C19_eval_render minimal spaced (by decide) (.bin .add (.num 99999999999999999999) (.num 1)) (by decide) [] [] (by decide) (by decide)
  simp only [List.nil_append, List.append_nil] at this
  rw [this]; decide +kernel
/-- a parser tree that is not the image of an expression tree: `+7` and a doubly parenthesised operand -/
example : okFlat (.mk (.num "+7".toList) (.cons .add (.paren (.mk (.paren (.mk (.num "1".toList) .nil)) .nil)) .nil)) = true := by
  decide +kernel

end Cicada.C19
