import Cicada.Thm.C13more
import Cicada.Thm.C12glob
import Cicada.Lemmas.C01Esc
/-!
# C13 (growth) — filename expansion as a delivery: `prog PATTERN`

The words a pattern stands for are *data* handed to the program.  In the model (`doExpansion`) filename expansion
(`expandGlob`) runs in the middle of the passes: alias, `~`, `$NAME`, brace lists come before it; the two command
substitution passes and the numeric brace range come after it and read the produced words again; then planning
(`planOfTokens`) looks for `&`, `|`, `<`, `>` in every *untagged* token.  A produced word is tagged `"` exactly when it
holds a blank (`tagBlank`), so

* every produced word is read again by the backquote pass and the `$(…)` pass (both act on `"`-tagged and on untagged
  tokens);
* a produced word without a blank is in addition read by the range pass and by planning.

`inertName` is the class of names on which none of these acts (stated with the model's own gates, so it is tight:
a name outside it is acted upon); `safeName` is the character-level class the driver's `c13g` stream uses as guard.

* `C13_glob_inert` : plain program word, pattern token the earlier passes leave alone (`patOk`), every visible match
  `inertName`, the last one not `&` : `doExpansion` yields the program word followed by the visible matches, ONE token
  each, and the plan is one plain foreground stage (no redirection, no stdin source, no environment) whose token texts
  are exactly `p :: matches`.
* `C13_glob_safe` : the same under the driver's guard (`safeName`, `patSimple`).
* `C13_glob_safe_spec` : the same in the vocabulary of the specs (`C12.globSpec`, `shapeOf`, `plainShape`).
* `C13_finding_*` : concrete, refuted witnesses for the names outside (class `filename-reread`).
-/
namespace Cicada.C13
open Cicada Cicada.PassLemmas Cicada.TokLemmas

/-! ## the guards -/

/-- the visible matches of `pat`: what `C12.globWords` (= the model's `globToken`) makes of the matcher's answer;
the pattern itself when nothing visible matches -/
def globMatches (e : Env) (pat : Str) : List Str := C12.globWords ((e.glob pat).getD []) pat

/-- the pattern token reaches filename expansion as it is, and is a pattern there: it holds `*`; the `~`, `$NAME`
and brace-list passes leave it alone (the model's own gates); it does not look quoted to `expand_glob`; the matcher
accepts it; and the line is not `export PROMPT=…` (which `do_expansion` does not expand at all) -/
def patOk (e : Env) (p pat : Str) : Bool :=
  pat.contains '*' && pat.head? ≠ some '~' && !envInToken pat && !needExpandBrace pat &&
  (trim pat).head? ≠ some '\'' && (trim pat).head? ≠ some '"' &&
  !(p = "export".toList && startsWith pat "PROMPT=".toList) && (e.glob pat).isSome

/-- an easy-to-read sufficient condition for the part of `patOk` that concerns the earlier passes:
no `$`, no `{`, no quote character, no leading `~` -/
def patSimple (pat : Str) : Bool :=
  pat.contains '*' && pat.head? ≠ some '~' && pat.all (fun c => c ≠ '$' && c ≠ '{' && c ≠ '\'' && c ≠ '"')

/-- a name no pass after filename expansion and no planning step gives a meaning to.
For every name: it holds no backquote pair and no `$(…)` (the gates of the two substitution passes).
For a name without a blank (its token is untagged) in addition: it is not the word `|`, does not start with `<`,
holds no `>`, and holds no numeric range `{m..n}`.  (`&` matters only in last position: see `lastNotAmp`.) -/
def inertName (m : Str) : Bool :=
  (matchBackquote m).isNone && !shouldDoDollar m &&
  (m.contains ' ' || (m ≠ ['|'] && m.head? ≠ some '<' && !m.contains '>' && (findRange m).isNone))

/-- the last produced word is not `&` (an untagged last token `&` makes the command a background job) -/
def lastNotAmp (ms : List Str) : Bool := ms.getLast? ≠ some ['&']

/-- the driver's guard (`c13g` stream): none of `>` `<` `|` backquote `{` occurs, `$(` does not occur, and the name
is not `&`.  Names with blanks, `;`, `#`, `=`, `~`, `*`, quotes, a `$` not followed by `(`, … are inside.
It is stronger than needed: `<` inside a name, `|` / `&` inside a longer name, a lone backquote, a `$(` that is never
closed, a `{` that opens no numeric range, and every one of `> < | {` in a name with a blank are harmless
(`inertName`). -/
def safeName (m : Str) : Bool :=
  !(m.any (fun c => c = '>' || c = '<' || c = '|' || c = '`' || c = '{')) && !containsSub m ['$', '('] && m ≠ ['&']

/-- guard of `C13_glob_inert` -/
def guardInert (e : Env) (p pat : Str) : Bool :=
  C01.plainWord p && (lookup e.aliases p).isNone && p ≠ "xargs".toList && patOk e p pat &&
  (globMatches e pat).all inertName && lastNotAmp (globMatches e pat)

/-- guard of `C13_glob_safe` (what the driver checks, plus the conditions on the program word and the pattern) -/
def guardSafe (e : Env) (p pat : Str) : Bool :=
  C01.plainWord p && (lookup e.aliases p).isNone && p ≠ "xargs".toList && patSimple pat && (e.glob pat).isSome &&
  !(p = "export".toList && startsWith pat "PROMPT=".toList) &&
  (globMatches e pat).all safeName

/-- the plan the property asks for: one plain foreground stage with the given tokens -/
def plainPlan (ts : List Tok) : Plan :=
  { commands := [{ tokens := ts, redirectsTo := [], redirectFrom := none }], envs := [], background := false }

/-! ## lemmas -/

theorem tagBlank_cases (m : Str) :
    (m.contains ' ' = true ∧ tagBlank m = (['"'], m)) ∨ (m.contains ' ' = false ∧ tagBlank m = ([], m)) := by
  unfold tagBlank
  cases h : m.contains ' ' <;> simp

theorem reDollarParen_noSub (m : Str) (h : containsSub m ['$', '('] = false) : reDollarParen m = false := by
  induction m with
  | nil => rfl
  | cons c cs ih =>
    simp only [containsSub, Bool.or_eq_false_iff] at h
    obtain ⟨h1, h2⟩ := h
    have ih' := ih h2
    cases cs with
    | nil => simp [reDollarParen]
    | cons d ds =>
      by_cases hc : c = '$'
      · subst hc
        have hd : d ≠ '(' := by
          intro e; subst e; simp [startsWith] at h1
        unfold reDollarParen
        rw [ih']
        simp only [decide_true, Bool.true_and, Bool.or_false]
        split
        · rename_i r heq; simp at heq; exact absurd heq.1 hd
        · rfl
      · unfold reDollarParen
        rw [ih']
        simp [hc]

theorem inertName_facts (m : Str) (h : inertName m = true) :
    matchBackquote m = none ∧ shouldDoDollar m = false ∧
    (m.contains ' ' = true ∨ (m ≠ ['|'] ∧ m.head? ≠ some '<' ∧ (∀ c ∈ m, c ≠ '>') ∧ findRange m = none)) := by
  simp only [inertName, Bool.and_eq_true, Option.isNone_iff_eq_none, Bool.not_eq_true', Bool.or_eq_true,
    decide_eq_true_eq] at h
  obtain ⟨⟨h1, h2⟩, h3⟩ := h
  refine ⟨h1, h2, ?_⟩
  rcases h3 with h3 | ⟨⟨⟨a, b⟩, c⟩, d⟩
  · exact Or.inl h3
  · refine Or.inr ⟨a, b, ?_, d⟩
    intro x hx e; subst e
    simp at c; exact c hx

theorem safe_inert (m : Str) (h : safeName m = true) : inertName m = true ∧ m ≠ ['&'] := by
  simp only [safeName, Bool.and_eq_true, Bool.not_eq_true', List.any_eq_false, Bool.or_eq_true, decide_eq_true_eq,
    not_or] at h
  obtain ⟨⟨h1, h2⟩, h3⟩ := h
  have nb : ∀ c ∈ m, c ≠ '`' := fun c hc => (h1 c hc).1.2
  have nbr : ∀ c ∈ m, c ≠ '{' := fun c hc => (h1 c hc).2
  have hm := matchBackquote_none m nb
  have hd : shouldDoDollar m = false := by simp [shouldDoDollar, reDollarParen_noSub m h2]
  have hr := findRange_none m nbr
  have hp : m ≠ ['|'] := by intro e; subst e; exact (h1 '|' (by simp)).1.1.2 rfl
  have hl : m.head? ≠ some '<' := fun e => (h1 '<' (List.mem_of_mem_head? e)).1.1.1.2 rfl
  have hg : ¬ ('>' ∈ m) := fun e => (h1 '>' e).1.1.1.1 rfl
  refine ⟨?_, h3⟩
  simp [inertName, hm, hd, hr, hp, hl, hg]

theorem patSimple_facts (pat : Str) (h : patSimple pat = true) :
    pat.contains '*' = true ∧ pat.head? ≠ some '~' ∧ envInToken pat = false ∧ needExpandBrace pat = false ∧
    (trim pat).head? ≠ some '\'' ∧ (trim pat).head? ≠ some '"' := by
  simp only [patSimple, Bool.and_eq_true, decide_eq_true_eq, List.all_eq_true] at h
  obtain ⟨⟨h1, h2⟩, h3⟩ := h
  have nd : ∀ c ∈ pat, c ≠ '$' := fun c hc => (h3 c hc).1.1.1
  have nb : ∀ c ∈ pat, c ≠ '{' := fun c hc => (h3 c hc).1.1.2
  have sub : ∀ c, (trim pat).head? = some c → c ∈ pat := by
    intro c hc
    have hmem : c ∈ trim pat := List.mem_of_mem_head? hc
    have h1 : ∀ (l : Str) x, x ∈ trimL l → x ∈ l := by
      intro l x
      induction l with
      | nil => simp [trimL]
      | cons d ds ih =>
        intro hx
        unfold trimL at hx
        split at hx
        · exact List.mem_cons_of_mem _ (ih hx)
        · exact hx
    have h2 : ∀ (l : Str) x, x ∈ trimR l → x ∈ l := by
      intro l x hx
      unfold trimR at hx
      exact List.mem_reverse.mp (h1 _ _ (List.mem_reverse.mp hx))
    exact h1 _ _ (h2 _ _ hmem)
  refine ⟨h1, h2, envInToken_false pat nd, needExpandBrace_false pat nb, ?_, ?_⟩
  · intro e; exact (h3 _ (sub _ e)).1.2 rfl
  · intro e; exact (h3 _ (sub _ e)).2 rfl

/-- filename expansion of `prog PATTERN` -/
theorem expandGlob_pair (e : Env) (p pat : Str) (hp : ∀ c ∈ p, c ≠ '*') (hc : pat.contains '*' = true)
    (hq1 : (trim pat).head? ≠ some '\'') (hq2 : (trim pat).head? ≠ some '"') (hs : (e.glob pat).isSome = true) :
    expandGlob e [([], p), ([], pat)] = ([], p) :: (globMatches e pat).map tagBlank := by
  have hpn : ¬ (([] : Str) = [] ∧ p.contains '*' = true) := by
    intro ⟨_, h⟩
    have : '*' ∈ p := by simpa using h
    exact hp '*' this rfl
  have hok : C12.globOk e ([], pat) = true := by
    simp [C12.globOk, hs, hq1, hq2]
  simp [expandGlob, expandGlobGo, C12.globToken_plain e [] p hpn, C12.globToken_pattern e pat hc hok, globMatches]

/-! ## the theorem -/

/-- **C13, filename expansion is a delivery (tight guard).**  `prog PATTERN`, the program word plain (not an alias,
not `xargs`), the pattern token left alone by the passes before filename expansion (`patOk`), every visible match an
`inertName`, the last one not `&`: the expansion is the program word followed by the visible matches, one token each
(tagged `"` when the name holds a blank), and the plan is one plain foreground stage — no redirection, no stdin
source, no environment — whose token texts are exactly `p :: matches`. -/
theorem C13_glob_inert (se : SubstEnv) (p pat : Str) (f : Nat)
    (hg : guardInert se.env p pat = true) (hf : (globMatches se.env pat).length + 3 < f) :
    doExpansion se f [([], p), ([], pat)] = .ok (([], p) :: (globMatches se.env pat).map tagBlank) ∧
    planOfTokens (([], p) :: (globMatches se.env pat).map tagBlank) =
      .ok (plainPlan (([], p) :: (globMatches se.env pat).map tagBlank)) ∧
    (([], p) :: (globMatches se.env pat).map tagBlank).map (·.2) = p :: globMatches se.env pat := by
  simp only [guardInert, patOk, Bool.and_eq_true, decide_eq_true_eq, Bool.not_eq_true', List.all_eq_true,
    Option.isNone_iff_eq_none, lastNotAmp] at hg
  obtain ⟨⟨⟨⟨⟨hpw, hal⟩, hx⟩, ⟨⟨⟨⟨⟨⟨⟨hstar, htil⟩, henvg⟩, hbr⟩, hq1⟩, hq2⟩, hexp⟩, hsome⟩⟩, hin⟩, hlast⟩ := hg
  obtain ⟨hw, hl⟩ := C01.plainWord_facts p hpw
  generalize hms : globMatches se.env pat = ms at *
  have hstar' : '*' ∈ pat := by simpa using hstar
  have n1 := word_no p hw '|' (by decide)
  have n2 := word_no p hw '~' (by decide)
  have n3 := word_no p hw '$' (by decide)
  have n4 := word_no p hw '{' (by decide)
  have n5 := word_no p hw '*' (by decide)
  have n6 := word_no p hw '`' (by decide)
  have n7 := word_no p hw '=' (by decide)
  have hp1 : p ≠ ['|'] := by intro e; exact n1 '|' (by rw [e]; simp) rfl
  have hph : p.head? ≠ some '~' := by
    cases p with
    | nil => simp
    | cons c cs => intro e; simp at e; exact n2 c (by simp) e
  -- facts about every produced token
  have hfacts := fun m (hm : m ∈ ms) => inertName_facts m (hin m hm)
  have hns : ∀ t ∈ ([], p) :: ms.map tagBlank, NoSubst t := by
    intro t ht
    simp only [List.mem_cons, List.mem_map] at ht
    rcases ht with rfl | ⟨m, hm, rfl⟩
    · exact Or.inr ⟨Or.inr rfl, matchBackquote_none _ n6, shouldDoDollar_false _ n3⟩
    · obtain ⟨h1, h2, _⟩ := hfacts m hm
      rcases tagBlank_cases m with ⟨_, e⟩ | ⟨_, e⟩ <;> rw [e]
      · exact Or.inr ⟨Or.inl rfl, h1, h2⟩
      · exact Or.inr ⟨Or.inr rfl, h1, h2⟩
  have hrange : ∀ t ∈ ms.map tagBlank, t.1 ≠ [] ∨ findRange t.2 = none := by
    intro t ht
    simp only [List.mem_map] at ht
    obtain ⟨m, hm, rfl⟩ := ht
    obtain ⟨_, _, h3⟩ := hfacts m hm
    rcases tagBlank_cases m with ⟨_, e⟩ | ⟨hb, e⟩ <;> rw [e]
    · exact Or.inl (by simp)
    · rcases h3 with h3 | ⟨_, _, _, h3⟩
      · rw [hb] at h3; cases h3
      · exact Or.inr h3
  have harg : ∀ t ∈ ms.map tagBlank, C01.ArgTok' t := by
    intro t ht
    simp only [List.mem_map] at ht
    obtain ⟨m, hm, rfl⟩ := ht
    obtain ⟨_, _, h3⟩ := hfacts m hm
    rcases tagBlank_cases m with ⟨_, e⟩ | ⟨hb, e⟩ <;> rw [e]
    · exact Or.inl (by simp)
    · rcases h3 with h3 | ⟨a, b, c, _⟩
      · rw [hb] at h3; cases h3
      · exact Or.inr ⟨a, b, c⟩
  have hamp : (ms.map tagBlank).getLast? ≠ some ([], ['&']) := by
    intro e
    rw [List.getLast?_map] at e
    cases hml : ms.getLast? with
    | none => rw [hml] at e; simp at e
    | some m =>
      rw [hml] at e
      simp only [Option.map_some, Option.some.injEq] at e
      have : m = ['&'] := by
        have := congrArg Prod.snd e
        simpa [tagBlank] using this
      rw [this] at hml
      exact hlast hml
  refine ⟨?_, ?_, ?_⟩
  · -- the expansion
    obtain ⟨f, rfl⟩ : ∃ g, f = g + 1 := ⟨f - 1, by omega⟩
    have harith : isArithmetic (tokensToLine [([], p), ([], pat)]) = false := by
      apply any_alpha_not_arith
      simp only [tokensToLine, List.map_cons]
      apply joinWith_any_head
      simpa [tokenToText] using hl
    have hprompt : ¬ (([(([] : Str), p), ([], pat)]).length ≥ 2 ∧
        (([(([] : Str), p), ([], pat)]).getD 0 ([], [])).2 = "export".toList ∧
        startsWith (([(([] : Str), p), ([], pat)]).getD 1 ([], [])).2 "PROMPT=".toList = true) := by
      intro ⟨_, h2, h3⟩
      simp only [List.getD_cons_zero, List.getD_cons_succ] at h2 h3
      have h2' : p = "export".toList := h2
      simp only [h2', decide_true, Bool.true_and] at hexp
      rw [h3] at hexp; cases hexp
    have hq1' : ∀ t ∈ [(([] : Str), pat)], ¬ (t.1 = [] ∧ t.2 = ['|']) := by
      intro t ht ⟨_, e⟩
      simp only [List.mem_singleton] at ht; subst ht
      simp only at e; rw [e] at hstar'; simp at hstar'
    have hq2' : ∀ t ∈ [(([] : Str), pat)], ¬ (t.1 = [] ∧ t.2.head? = some '~') := by
      intro t ht ⟨_, e⟩
      simp only [List.mem_singleton] at ht; subst ht
      exact htil e
    have hq3' : ∀ t ∈ [(([] : Str), pat)], t.1 ≠ [] ∨ needExpandBrace t.2 = false := by
      intro t ht
      simp only [List.mem_singleton] at ht; subst ht
      exact Or.inr hbr
    have henv : expandEnv se.env [([], p), ([], pat)] = [([], p), ([], pat)] := by
      simp [expandEnv, envInToken_false p n3, henvg]
    have hglob := expandGlob_pair se.env p pat n5 hstar hq1 hq2 hsome
    rw [hms] at hglob
    simp only [doExpansion, harith, Bool.false_eq_true, ↓reduceIte]
    rw [if_neg hprompt]
    rw [expandAlias_idG se.env p _ hq1' hp1 hx hal, expandHome_idG se.env p _ hq2' hph, henv,
      expandBrace_idG p _ hq3' n4]
    simp only [Outcome.bind]
    rw [hglob, substDotGo_none se _ f 0 (by simp; omega) hns]
    simp only [doExpansion.applyUpdates, List.foldl_nil]
    rw [substDollarGo_none se _ f 0 (by simp; omega) hns]
    simp only [List.foldl_nil, expandBraceRange_idG p _ hrange n4]
  · -- the plan
    have hpa : C01.ArgTok' ([], p) := by
      refine Or.inr ⟨hp1, ?_, word_no p hw '>' (by decide)⟩
      intro e
      have e' : p.head? = some '<' := e
      exact word_no p hw '<' (by decide) '<' (List.mem_of_mem_head? e') rfl
    have := C01.planOfTokens_G p (ms.map tagBlank) .alone n7 hpa harg (fun _ => hamp)
    simpa [C01.pipeToks, C01.stage, plainPlan] using this
  · simp [List.map_map, Function.comp_def, tagBlank]

/-- **C13, filename expansion is a delivery (the driver's guard).**  The same conclusion for every pattern without
`$`, `{`, quote characters and a leading `~`, when every visible match is a `safeName`. -/
theorem C13_glob_safe (se : SubstEnv) (p pat : Str) (f : Nat)
    (hg : guardSafe se.env p pat = true) (hf : (globMatches se.env pat).length + 3 < f) :
    doExpansion se f [([], p), ([], pat)] = .ok (([], p) :: (globMatches se.env pat).map tagBlank) ∧
    planOfTokens (([], p) :: (globMatches se.env pat).map tagBlank) =
      .ok (plainPlan (([], p) :: (globMatches se.env pat).map tagBlank)) ∧
    (([], p) :: (globMatches se.env pat).map tagBlank).map (·.2) = p :: globMatches se.env pat := by
  apply C13_glob_inert se p pat f _ hf
  simp only [guardSafe, Bool.and_eq_true, List.all_eq_true] at hg
  obtain ⟨⟨⟨⟨⟨⟨hpw, hal⟩, hx⟩, hps⟩, hsome⟩, hexp⟩, hsafe⟩ := hg
  obtain ⟨a1, a2, a3, a4, a5, a6⟩ := patSimple_facts pat hps
  have hin : ∀ m ∈ globMatches se.env pat, inertName m = true := fun m hm => (safe_inert m (hsafe m hm)).1
  have hlast : lastNotAmp (globMatches se.env pat) = true := by
    simp only [lastNotAmp, decide_eq_true_eq]
    intro e
    exact (safe_inert _ (hsafe _ (List.mem_of_getLast? e))).2 rfl
  simp only [guardInert, patOk, Bool.and_eq_true, List.all_eq_true]
  refine ⟨⟨⟨⟨⟨hpw, hal⟩, hx⟩, ?_⟩, hin⟩, hlast⟩
  refine ⟨⟨⟨⟨⟨⟨⟨a1, by simpa using a2⟩, by simp [a3]⟩, by simp [a4]⟩, by simpa using a5⟩, by simpa using a6⟩, hexp⟩, hsome⟩

/-- in the vocabulary of the specs: the expansion of `prog PATTERN` is the reference filename expansion `C12.globSpec`
of the two tokens, and the plan has the shape of a plain command (`plainShape`) -/
theorem C13_glob_safe_spec (se : SubstEnv) (p pat : Str) (f : Nat)
    (hg : guardSafe se.env p pat = true) (hf : (globMatches se.env pat).length + 3 < f) :
    doExpansion se f [([], p), ([], pat)] = .ok (C12.globSpec se.env.glob [([], p), ([], pat)]) ∧
    ∃ plan, planOfTokens (C12.globSpec se.env.glob [([], p), ([], pat)]) = .ok plan ∧ shapeOf plan = plainShape ∧
      (plan.commands.map (fun c => c.tokens.map (·.2))) = [p :: globMatches se.env pat] := by
  obtain ⟨h1, h2, h3⟩ := C13_glob_safe se p pat f hg hf
  simp only [guardSafe, Bool.and_eq_true] at hg
  obtain ⟨hw, _⟩ := C01.plainWord_facts p hg.1.1.1.1.1.1
  have hstar := (patSimple_facts pat hg.1.1.1.2).1
  have hstar' : '*' ∈ pat := by simpa using hstar
  have hp : ¬ ('*' ∈ p) := fun hm => word_no p hw '*' (by decide) '*' hm rfl
  have e : C12.globSpec se.env.glob [([], p), ([], pat)] = ([], p) :: (globMatches se.env pat).map tagBlank := by
    simp [C12.globSpec, hp, hstar', globMatches]
  rw [e]
  exact ⟨h1, _, h2, rfl, by simpa [plainPlan] using h3⟩

/-! ## non-vacuity -/

/-- a world for the examples: the matcher answers the pattern `g*` with `names` (nothing else matches anything);
every inner command prints `OUT` -/
def gEnv (names : List Str) : SubstEnv :=
  { env := { glob := fun pat => if pat = "g*".toList then some names else some [] }, cmdOut := fun _ => "OUT".toList }

def progPat : List Tok := [([], "prog".toList), ([], "g*".toList)]

/-- several names, one with a blank, one hidden (dropped), one with `;`, `#`, `=`, `~`, `*`, a `$` and quotes -/
def okNames : List Str := ["g p".toList, "g1".toList, ".ghidden".toList, "g;#=~*$x'\"".toList, "g&".toList]

example : guardSafe (gEnv okNames).env "prog".toList "g*".toList = true := by decide
example : globMatches (gEnv okNames).env "g*".toList = ["g p".toList, "g1".toList, "g;#=~*$x'\"".toList, "g&".toList] := by decide
example : doExpansion (gEnv okNames) 8 progPat =
    .ok [([], "prog".toList), (['"'], "g p".toList), ([], "g1".toList), ([], "g;#=~*$x'\"".toList), ([], "g&".toList)] :=
  (C13_glob_safe (gEnv okNames) "prog".toList "g*".toList 8 (by decide) (by decide)).1
/-- nothing matches: the pattern itself is the argument -/
example : guardSafe (gEnv []).env "prog".toList "g*".toList = true ∧ globMatches (gEnv []).env "g*".toList = ["g*".toList] := by decide

/-- `inertName` is strictly wider than `safeName`: `|` `&` `<` inside a longer name, `&` not in last position, a lone
backquote, an unclosed `$(`, a brace list, and every operator character in a name with a blank -/
def inertNames : List Str :=
  ["a|b".toList, "g<x".toList, "&".toList, "g`id".toList, "g$(id".toList, "g{a,b}".toList, "g >x".toList, "g |".toList,
   "g {1..3}".toList, "g&&".toList]
example : guardInert (gEnv inertNames).env "prog".toList "g*".toList = true ∧ inertNames.all safeName = false := by decide
example : (doExpansion (gEnv inertNames) 14 progPat).map (fun ts => ts.map (·.2)) = .ok ("prog".toList :: inertNames) := by
  have h := (C13_glob_inert (gEnv inertNames) "prog".toList "g*".toList 14 (by decide) (by decide)).1
  rw [progPat, h]
  decide

/-! ## findings: names outside the class (`filename-reread`), refuted witnesses

Each witness gives the names the matcher returns for `prog g*`, shows that the guard rejects them, and shows what the
model does instead of handing the names over. -/

/-- a directory entry `g>x`: the plan carries the redirection `> x` and the program receives `g` -/
theorem C13_finding_filename_redirect :
    guardInert (gEnv ["g>x".toList]).env "prog".toList "g*".toList = false ∧
    doExpansion (gEnv ["g>x".toList]) 8 progPat = .ok [([], "prog".toList), ([], "g>x".toList)] ∧
    planOfTokens [([], "prog".toList), ([], "g>x".toList)] =
      .ok { commands := [{ tokens := [([], "prog".toList), ([], ['g'])], redirectsTo := [(['1'], ['>'], ['x'])],
                           redirectFrom := none }], envs := [], background := false } :=
  ⟨by decide, by decide, rfl⟩

/-- a directory entry `g>` as the last match: the line is rejected (`redirection syntax error`) -/
theorem C13_finding_filename_redirect_error :
    guardInert (gEnv ["g>".toList]).env "prog".toList "g*".toList = false ∧
    doExpansion (gEnv ["g>".toList]) 8 progPat = .ok [([], "prog".toList), ([], "g>".toList)] ∧
    planOfTokens [([], "prog".toList), ([], "g>".toList)] = .error "redirection syntax error" :=
  ⟨by decide, by decide, rfl⟩

/-- a match `<x` (a name starting with `<`): it becomes the stdin source of the command -/
theorem C13_finding_filename_stdin :
    guardInert (gEnv ["g1".toList, "<x".toList]).env "prog".toList "g*".toList = false ∧
    doExpansion (gEnv ["g1".toList, "<x".toList]) 8 progPat = .ok [([], "prog".toList), ([], "g1".toList), ([], "<x".toList)] ∧
    planOfTokens [([], "prog".toList), ([], "g1".toList), ([], "<x".toList)] =
      .ok { commands := [{ tokens := [([], "prog".toList), ([], "g1".toList)], redirectsTo := [],
                           redirectFrom := some (['<'], ['x']) }], envs := [], background := false } :=
  ⟨by decide, by decide, rfl⟩

/-- a match named `&` in last position: the command becomes a background job and loses the argument -/
theorem C13_finding_filename_background :
    guardInert (gEnv ["g1".toList, "&".toList]).env "prog".toList "g*".toList = false ∧
    doExpansion (gEnv ["g1".toList, "&".toList]) 8 progPat = .ok [([], "prog".toList), ([], "g1".toList), ([], "&".toList)] ∧
    planOfTokens [([], "prog".toList), ([], "g1".toList), ([], "&".toList)] =
      .ok { commands := [{ tokens := [([], "prog".toList), ([], "g1".toList)], redirectsTo := [], redirectFrom := none }],
            envs := [], background := true } :=
  ⟨by decide, by decide, rfl⟩

/-- a match named `|`: the names after it are run as a second pipeline stage -/
theorem C13_finding_filename_pipe :
    guardInert (gEnv ["g1".toList, "|".toList, "g2".toList]).env "prog".toList "g*".toList = false ∧
    doExpansion (gEnv ["g1".toList, "|".toList, "g2".toList]) 8 progPat =
      .ok [([], "prog".toList), ([], "g1".toList), ([], "|".toList), ([], "g2".toList)] ∧
    planOfTokens [([], "prog".toList), ([], "g1".toList), ([], "|".toList), ([], "g2".toList)] =
      .ok { commands := [{ tokens := [([], "prog".toList), ([], "g1".toList)], redirectsTo := [], redirectFrom := none },
                         { tokens := [([], "g2".toList)], redirectsTo := [], redirectFrom := none }],
            envs := [], background := false } :=
  ⟨by decide, by decide, rfl⟩

/-- a name holding a backquote pair: the text between the backquotes is RUN and its output spliced into the
argument (with or without a blank in the name) -/
theorem C13_finding_filename_backquote :
    guardInert (gEnv ["g`id`".toList, "g `id`".toList]).env "prog".toList "g*".toList = false ∧
    doExpansion (gEnv ["g`id`".toList, "g `id`".toList]) 20 progPat =
      .ok [([], "prog".toList), ([], "gOUT".toList), (['"'], "g OUT".toList)] :=
  ⟨by decide, by decide⟩

/-- a name holding `$(…)`: the inner text is RUN and its output spliced into the argument -/
theorem C13_finding_filename_dollar_paren :
    guardInert (gEnv ["g$(id)".toList, "g $(id)".toList]).env "prog".toList "g*".toList = false ∧
    doExpansion (gEnv ["g$(id)".toList, "g $(id)".toList]) 20 progPat =
      .ok [([], "prog".toList), ([], "gOUT".toList), (['"'], "g OUT".toList)] :=
  ⟨by decide, by decide +kernel⟩

/-- a name holding a numeric range `{1..3}` (no blank): it is expanded again, the program receives three words -/
theorem C13_finding_filename_range :
    guardInert (gEnv ["g{1..3}".toList]).env "prog".toList "g*".toList = false ∧
    doExpansion (gEnv ["g{1..3}".toList]) 8 progPat =
      .ok [([], "prog".toList), ([], "g1".toList), ([], "g2".toList), ([], "g3".toList)] :=
  ⟨by decide, by decide +kernel⟩

/-- outside `patOk`: `export PROMPT=*` is not expanded at all (the early return of `do_expansion`) -/
theorem C13_note_export_prompt (names : List Str) :
    doExpansion (gEnv names) 8 [([], "export".toList), ([], "PROMPT=*".toList)] =
      .ok [([], "export".toList), ([], "PROMPT=*".toList)] := by
  rfl

#print axioms C13_glob_inert
#print axioms C13_glob_safe
#print axioms C13_glob_safe_spec
#print axioms C13_finding_filename_redirect
#print axioms C13_finding_filename_backquote
#print axioms C13_finding_filename_dollar_paren
#print axioms C13_finding_filename_range

end Cicada.C13
