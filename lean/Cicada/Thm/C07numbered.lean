import Cicada.Thm.C07probe
/-!
# C07: the driver's numbering invariant

`Numbered s`: the children forked so far carry the pids `pidBase + 1, pidBase + 2, …` in creation order.  Every step of
`Term.step` other than a fork leaves the list of pids unchanged; a fork of `pidBase + s.procs.length + 1` keeps the
invariant; hence `runMacro` keeps it for every session action, and the guard `hnum` of
`C07probe.C07_substitution_owns_numbered` holds in every state the replay reaches.
-/
namespace Cicada.C07numbered
open Cicada.Jobs Cicada.Term Cicada.DriveC07 Cicada.C07probe

/-- the pids of the children, in creation order -/
def pids (s : State) : List Pid := s.procs.map (·.pid)

/-- children so far are numbered `pidBase + 1, pidBase + 2, …` in creation order -/
def Numbered (s : State) : Prop :=
  pids s = (List.range s.procs.length).map (fun i => pidBase + i + 1)

/-- the guard `hnum` of `C07_substitution_owns_numbered` -/
theorem Numbered.hnum {s : State} (h : Numbered s) : ∀ p ∈ s.procs, p.pid ≤ pidBase + s.procs.length := by
  intro p hp
  have : p.pid ∈ pids s := List.mem_map_of_mem hp
  rw [h] at this
  simp only [List.mem_map, List.mem_range] at this
  obtain ⟨i, hi, e⟩ := this
  have e' : pidBase + i + 1 = p.pid := e
  show p.pid ≤ pidBase + s.procs.length
  rw [← e', Nat.add_assoc]
  exact Nat.add_le_add_left hi pidBase

theorem pids_length (s : State) : (pids s).length = s.procs.length := by simp [pids]

/-! ### helpers that keep every `pid` field -/

theorem sigProc_pid (p : Proc) (sg : Sig) : (sigProc p sg).pid = p.pid := by
  unfold sigProc
  cases p.st <;> cases sg <;> simp <;> split <;> rfl

theorem consume_pid (p : Proc) : (consume p).pid = p.pid := rfl

theorem updProc_pids (procs : List Proc) (pid : Pid) (f : Proc → Proc) (hf : ∀ q, (f q).pid = q.pid) :
    (updProc procs pid f).map (·.pid) = procs.map (·.pid) := by
  unfold updProc
  rw [List.map_map]
  apply List.map_congr_left
  intro q _
  simp only [Function.comp]
  split <;> simp [hf]

theorem sigGroup_pids (procs : List Proc) (g : Pid) (sg : Sig) :
    (sigGroup procs g sg).map (·.pid) = procs.map (·.pid) := by
  unfold sigGroup
  rw [List.map_map]
  apply List.map_congr_left
  intro q _
  simp only [Function.comp]
  split <;> simp [sigProc_pid]

theorem map_consume_pids (procs : List Proc) : (procs.map consume).map (·.pid) = procs.map (·.pid) := by
  rw [List.map_map]; rfl

theorem pollR_pids (r : Bool) (s : State) : pids (pollR r s) = pids s := by
  unfold pollR pids
  split
  · rfl
  · simp only [map_consume_pids]

/-! ### the steps that do not fork keep the list of pids -/

theorem stepPset_pids {s s' : State} {l : Launch} (h : stepPset s l = some s') : pids s' = pids s := by
  unfold stepPset at h
  split at h
  · injection h with h; subst h
    exact updProc_pids _ _ _ (fun q => by split <;> rfl)
  · cases h

theorem stepGive_pids {c : Cfg} {s s' : State} {l : Launch} (h : stepGive c s l = some s') : pids s' = pids s := by
  unfold stepGive at h
  split at h
  · split at h
    · split at h <;> (injection h with h; subst h; rfl)
    · injection h with h; subst h; rfl
  · cases h

theorem stepInsert_pids {c : Cfg} {s s' : State} {l : Launch} (h : stepInsert c s l = some s') : pids s' = pids s := by
  unfold stepInsert at h
  split at h
  · dsimp only at h
    split at h <;> (injection h with h; subst h; rfl)
  · cases h

theorem stepLaunched_pids {s s' : State} {l : Launch} (h : stepLaunched s l = some s') : pids s' = pids s := by
  unfold stepLaunched at h
  split at h
  · split at h
    · injection h with h; subst h; rfl
    · split at h <;> (injection h with h; subst h; rfl)
  · cases h

theorem stepFg_pids {s s' : State} {n : Nat} {ex : Bool} (h : stepFg s n ex = some s') : pids s' = pids s := by
  unfold stepFg at h
  split at h
  · injection h with h; subst h; rfl
  · split at h
    · cases h
    · split at h
      · injection h with h; subst h; rfl
      · split at h
        · injection h with h; subst h; rfl
        · split at h <;> (injection h with h; subst h; exact sigGroup_pids _ _ _)

theorem stepBg_pids {s s' : State} {n : Nat} {ex : Bool} (h : stepBg s n ex = some s') : pids s' = pids s := by
  unfold stepBg at h
  split at h
  · injection h with h; subst h; rfl
  · split at h
    · cases h
    · split at h
      · injection h with h; subst h; rfl
      · split at h <;> (injection h with h; subst h; exact sigGroup_pids _ _ _)

theorem stepWaitGet_pids {s s' : State} {w : Wait} {pid : Pid} (h : stepWaitGet s w pid = some s') :
    pids s' = pids s := by
  unfold stepWaitGet at h
  split at h
  · cases h
  · split at h
    · cases h
    · injection h with h; subst h
      exact updProc_pids _ _ _ consume_pid

/-- a fork is the only step that changes the list of pids (no step changes a `pid` field, only a fork changes the length) -/
theorem step_pids {c : Cfg} {s s' : State} {a : Act} (h : Term.step c s a = some s')
    (hnf : ∀ pid, a ≠ .fork pid) : pids s' = pids s := by
  cases a with
  | fork pid => exact absurd rfl (hnf pid)
  | launch bg cmds =>
    simp only [Term.step] at h
    split at h
    · split at h
      · cases h
      · injection h with h; subst h; rfl
    · cases h
  | fg n ex =>
    simp only [Term.step] at h
    split at h
    · exact stepFg_pids h
    · cases h
  | bg n ex =>
    simp only [Term.step] at h
    split at h
    · exact stepBg_pids h
    · cases h
  | jobs =>
    simp only [Term.step] at h
    split at h
    · split at h
      · injection h with h; subst h; rfl
      · injection h with h; subst h; exact pollR_pids false s
    · cases h
  | empty =>
    simp only [Term.step] at h
    split at h
    · injection h with h; subst h; rfl
    · cases h
  | psetpgid =>
    simp only [Term.step] at h
    split at h
    · exact stepPset_pids h
    · cases h
  | give =>
    simp only [Term.step] at h
    split at h
    · exact stepGive_pids h
    · cases h
  | insert =>
    simp only [Term.step] at h
    split at h
    · exact stepInsert_pids h
    · cases h
  | launched =>
    simp only [Term.step] at h
    split at h
    · exact stepLaunched_pids h
    · cases h
  | csetpgid pid =>
    simp only [Term.step] at h
    split at h
    · split at h
      · injection h with h; subst h
        exact updProc_pids _ _ _ (fun q => by split <;> rfl)
      · cases h
    · cases h
  | exit pid code =>
    simp only [Term.step] at h
    split at h
    · split at h
      · injection h with h; subst h
        exact updProc_pids _ _ _ (fun q => rfl)
      · cases h
    · cases h
  | signal pid sg =>
    simp only [Term.step] at h
    split at h
    · split at h
      · injection h with h; subst h
        exact updProc_pids _ _ _ (fun q => sigProc_pid q sg)
      · cases h
    · cases h
  | ctrlC =>
    simp only [Term.step] at h
    injection h with h; subst h; exact sigGroup_pids _ _ _
  | ctrlZ =>
    simp only [Term.step] at h
    injection h with h; subst h; exact sigGroup_pids _ _ _
  | waitGet pid =>
    simp only [Term.step] at h
    split at h
    · exact stepWaitGet_pids h
    · cases h
  | waitEchild =>
    simp only [Term.step] at h
    split at h
    · split at h
      · injection h with h; subst h; rfl
      · cases h
    · cases h
  | handback =>
    simp only [Term.step] at h
    split at h
    · injection h with h; subst h; rfl
    · injection h with h; subst h; rfl
    · cases h
  | poll =>
    simp only [Term.step] at h
    split at h
    · injection h with h; subst h; exact pollR_pids true s
    · cases h

/-! ### `Numbered` depends on the list of pids only; the fork step -/

theorem procs_length_of_pids {s s' : State} (h : pids s' = pids s) : s'.procs.length = s.procs.length := by
  rw [← pids_length, ← pids_length, h]

theorem Numbered.of_pids {s s' : State} (hn : Numbered s) (h : pids s' = pids s) : Numbered s' := by
  unfold Numbered
  rw [procs_length_of_pids h, h]
  exact hn

/-- a step that is not a fork keeps the invariant -/
theorem step_numbered {c : Cfg} {s s' : State} {a : Act} (h : Term.step c s a = some s')
    (hnf : ∀ pid, a ≠ .fork pid) (hn : Numbered s) : Numbered s' :=
  hn.of_pids (step_pids h hnf)

theorem stepFork_procs {c : Cfg} {s s' : State} {l : Launch} {pid : Pid} (h : stepFork c s l pid = some s') :
    pids s' = pids s ++ [pid] := by
  unfold stepFork at h
  split at h
  · split at h
    · cases h
    · injection h with h; subst h
      simp [pids]
  · cases h

/-- the fork of the next number keeps the invariant -/
theorem stepFork_numbered {c : Cfg} {s s' : State} {l : Launch}
    (h : stepFork c s l (pidBase + s.procs.length + 1) = some s') (hn : Numbered s) : Numbered s' := by
  have hp := stepFork_procs h
  have hl : s'.procs.length = s.procs.length + 1 := by
    rw [← pids_length, hp, List.length_append, pids_length]; rfl
  unfold Numbered at hn ⊢
  rw [hl, hp, List.range_succ, List.map_append, ← hn]
  rfl

theorem step_fork_numbered {c : Cfg} {s s' : State}
    (h : Term.step c s (.fork (pidBase + s.procs.length + 1)) = some s') (hn : Numbered s) : Numbered s' := by
  simp only [Term.step] at h
  split at h
  · exact stepFork_numbered h hn
  · cases h

theorem numbered_init (sh : Pid) : Numbered (init sh) := by
  simp [Numbered, pids, init]

/-! ### action lists whose forks take the next number -/

/-- every fork of the list forks `pidBase + (number of children at that moment) + 1`, starting from `n` children -/
def goodFrom : Nat → List Act → Prop
  | _, [] => True
  | n, .fork pid :: as => pid = pidBase + n + 1 ∧ goodFrom (n + 1) as
  | n, _ :: as => goodFrom n as

def forks : List Act → Nat
  | [] => 0
  | .fork _ :: as => forks as + 1
  | _ :: as => forks as

theorem goodFrom_append (n : Nat) (as bs : List Act) :
    goodFrom n (as ++ bs) ↔ goodFrom n as ∧ goodFrom (n + forks as) bs := by
  induction as generalizing n with
  | nil => simp [goodFrom, forks]
  | cons a as ih =>
    cases a <;> simp only [List.cons_append, goodFrom, forks, ih] <;> simp [and_assoc, Nat.add_assoc, Nat.add_comm 1]

theorem run_numbered {c : Cfg} (as : List Act) : ∀ {s s' : State}, run c s as = some s' → goodFrom s.procs.length as →
    Numbered s → Numbered s' := by
  induction as with
  | nil => intro s s' h _ hn; simp only [run] at h; injection h with h; subst h; exact hn
  | cons a as ih =>
    intro s s' h hg hn
    simp only [run] at h
    split at h
    · rename_i s1 hs1
      by_cases hf : ∃ pid, a = .fork pid
      · obtain ⟨pid, rfl⟩ := hf
        simp only [goodFrom] at hg
        obtain ⟨rfl, hg⟩ := hg
        have hn1 := step_fork_numbered hs1 hn
        have hl : s1.procs.length = s.procs.length + 1 := by
          simp only [Term.step] at hs1
          split at hs1
          · have hp := stepFork_procs hs1
            rw [← pids_length, hp, List.length_append, pids_length]; rfl
          · cases hs1
        exact ih h (hl ▸ hg) hn1
      · have hnf : ∀ pid, a ≠ .fork pid := fun pid e => hf ⟨pid, e⟩
        have hp := step_pids hs1 hnf
        have hg' : goodFrom s.procs.length as := by
          cases a <;> first | exact hg | exact absurd rfl (hnf _)
        exact ih h (procs_length_of_pids hp ▸ hg') (hn.of_pids hp)
    · cases h

/-! ### the driver's action lists -/

theorem stageActs_forks (c : Cfg) (k : Nat) (pid : Pid) (kind : Kind) : forks (stageActs c k pid kind) = 1 := by
  cases hc : c.parentSetpgid <;> by_cases hk : k = 0 <;> cases kind <;> simp [stageActs, forks, hc, hk]

theorem stageActs_good (c : Cfg) (k n : Nat) (kind : Kind) :
    goodFrom n (stageActs c k (pidBase + n + 1) kind) := by
  cases hc : c.parentSetpgid <;> by_cases hk : k = 0 <;> cases kind <;> simp [stageActs, goodFrom, hc, hk]

theorem stages_good (c : Cfg) (n0 : Nat) (kinds : List Kind) : ∀ a : Nat,
    goodFrom (n0 + a) (((List.range' a kinds.length).zip kinds).flatMap
      (fun (x : Nat × Kind) => stageActs c x.1 (pidBase + n0 + x.1 + 1) x.2)) := by
  induction kinds with
  | nil => intro a; simp [goodFrom]
  | cons kd kinds ih =>
    intro a
    rw [List.length_cons, List.range'_succ, List.zip_cons_cons, List.flatMap_cons, goodFrom_append, stageActs_forks]
    refine ⟨?_, ?_⟩
    · have := stageActs_good c a (n0 + a) kd
      rwa [← Nat.add_assoc] at this
    · have := ih (a + 1)
      rwa [← Nat.add_assoc] at this

theorem launchActs_good (c : Cfg) (cmdOf : Nat → Kind → String) (n0 : Nat) (bg : Bool) (kinds : List Kind) :
    goodFrom n0 (launchActs c cmdOf n0 bg kinds) := by
  unfold launchActs
  simp only [List.range_eq_range']
  rw [goodFrom_append, goodFrom_append]
  refine ⟨⟨?_, ?_⟩, ?_⟩
  · simp [goodFrom]
  · have := stages_good c n0 kinds 0
    simpa [forks] using this
  · simp [goodFrom]

/-! ### `settle` and the session actions -/

theorem settle_pids (c : Cfg) (pref : List Pid) : ∀ (f : Nat) {s s' : State}, settle c pref f s = some s' →
    pids s' = pids s := by
  intro f
  induction f with
  | zero => intro s s' h; simp only [settle] at h; injection h with h; subst h; rfl
  | succ f ih =>
    intro s s' h
    have key : ∀ a, (∀ pid, a ≠ Act.fork pid) → (Term.step c s a).bind (settle c pref f) = some s' → pids s' = pids s := by
      intro a hnf hb
      cases hs : Term.step c s a with
      | none => rw [hs] at hb; cases hb
      | some s1 =>
        rw [hs] at hb
        exact (ih hb).trans (step_pids hs hnf)
    simp only [settle] at h
    split at h
    · split at h
      · exact key _ (by intro pid e; cases e) h
      · split at h
        · exact key _ (by intro pid e; cases e) h
        · injection h with h; subst h; rfl
    · exact key _ (by intro pid e; cases e) h
    · exact key _ (by intro pid e; cases e) h
    · injection h with h; subst h; rfl

theorem extSignal_pids {c : Cfg} {s s' : State} {i : Nat} {sg : Sig} (h : extSignal c s i sg = some s') :
    pids s' = pids s := by
  unfold extSignal at h
  split at h
  · rename_i s1 hs1
    injection h with h; subst h
    exact step_pids hs1 (by intro pid e; cases e)
  · injection h with h; subst h; rfl

/-- every session action of the replay keeps the numbering invariant -/
theorem runMacro_numbered {c : Cfg} {cmdOf : Nat → Kind → String} {pref : List Pid} {s s' : State} {a : SAct}
    (h : runMacro c cmdOf pref s a = some s') (hn : Numbered s) : Numbered s' := by
  have fin : ∀ {o : Option State}, (∀ s1, o = some s1 → Numbered s1) →
      o.bind (fun s1 => settle c pref (settleFuel s1) s1) = some s' → Numbered s' := by
    intro o ho hb
    cases o with
    | none => cases hb
    | some s1 => exact (ho s1 rfl).of_pids (settle_pids c pref _ hb)
  have viaStep : ∀ {act : Act}, (∀ pid, act ≠ Act.fork pid) → ∀ s1, Term.step c s act = some s1 → Numbered s1 :=
    fun hnf s1 hs => step_numbered hs hnf hn
  have viaSig : ∀ {i : Nat} {sg : Sig}, ∀ s1, extSignal c s i sg = some s1 → Numbered s1 :=
    fun s1 hs => hn.of_pids (extSignal_pids hs)
  cases a with
  | launch bg kinds =>
    exact fin (fun s1 hs => run_numbered _ hs (launchActs_good c cmdOf _ bg kinds) hn) h
  | ctrlZ => exact fin (viaStep (act := .ctrlZ) (by intro pid e; cases e)) h
  | ctrlC => exact fin (viaStep (act := .ctrlC) (by intro pid e; cases e)) h
  | fg n => cases n <;> exact fin (viaStep (by intro pid e; cases e)) h
  | bg n => cases n <;> exact fin (viaStep (by intro pid e; cases e)) h
  | kill i => exact fin viaSig h
  | stop i => exact fin viaSig h
  | cont i => exact fin viaSig h
  | jobs => exact fin (viaStep (act := .jobs) (by intro pid e; cases e)) h
  | empty => exact fin (viaStep (act := .empty) (by intro pid e; cases e)) h

/-- a whole session: every state the replay reaches from the initial state is numbered -/
def replay (c : Cfg) (cmdOf : Nat → Kind → String) (pref : List Pid) : State → List SAct → Option State
  | s, [] => some s
  | s, a :: as => (runMacro c cmdOf pref s a).bind (fun s1 => replay c cmdOf pref s1 as)

theorem replay_numbered {c : Cfg} {cmdOf : Nat → Kind → String} {pref : List Pid} (as : List SAct) :
    ∀ {s s' : State}, replay c cmdOf pref s as = some s' → Numbered s → Numbered s' := by
  induction as with
  | nil => intro s s' h hn; simp only [replay] at h; injection h with h; subst h; exact hn
  | cons a as ih =>
    intro s s' h hn
    simp only [replay] at h
    cases hs : runMacro c cmdOf pref s a with
    | none => rw [hs] at h; cases h
    | some s1 => rw [hs] at h; exact ih h (runMacro_numbered hs hn)

/-- the probe's answer in every prompt state a session reaches (the guard `hnum` discharged by the invariant) -/
theorem C07_substitution_owns_reached (c : Cfg) (cmdOf : Nat → Kind → String) (pref : List Pid) (as : List SAct)
    (s : State) (hi : c.interactive = true) (hr : replay c cmdOf pref (init shellPid) as = some s)
    (hm : s.mode = .prompt) (hsh : s.shell ≠ pidBase + s.procs.length + 1) : probeOwns c s = (true, true) :=
  C07_substitution_owns_numbered c s hi hm (replay_numbered as hr (numbered_init shellPid)).hnum hsh

/-! ### the driver's own replay (`DriveC07.macroAll`, `DriveC07.replayModel`) -/

theorem macroAll_numbered {c : Cfg} {s s' : State} {a : SAct} (h : macroAll c s a = .ok s') (hn : Numbered s) :
    Numbered s' := by
  have hA : (match runMacro c stageCmd [] s a with | some s' => MacroRes.ok s' | none => MacroRes.stuck) = .ok s' →
      Numbered s' := by
    intro h
    split at h
    · rename_i s1 hs1
      injection h with h; subst h
      exact runMacro_numbered hs1 hn
    · cases h
  have hB : ∀ rs : List (Option State), (∀ r ∈ rs, ∀ s1, r = some s1 → Numbered s1) →
      (match rs with
       | some s1 :: rest =>
         if rest.all (fun r => match r with | some s2 => stateKey s2 = stateKey s1 | none => false) then MacroRes.ok s1
         else MacroRes.orderSensitive
       | _ => MacroRes.stuck) = .ok s' → Numbered s' := by
    intro rs hrs h
    split at h
    · split at h
      · injection h with h; subst h
        exact hrs _ (List.mem_cons_self) _ rfl
      · cases h
    · cases h
  have hrs : ∀ (prefs : List (List Pid)), ∀ r ∈ prefs.map (fun pref => runMacro c stageCmd pref s a), ∀ s1, r = some s1 →
      Numbered s1 := by
    intro prefs r hr s1 e
    obtain ⟨pref, _, hp⟩ := List.mem_map.mp hr
    exact runMacro_numbered (hp.trans e) hn
  unfold macroAll at h
  dsimp only at h
  split at h <;> split at h <;> first | exact hA h | exact hB _ (hrs _) h

theorem foldl_replay_numbered (c : Cfg) (hs : List Nat) (probes : List Bool) (acts : List SAct) : ∀ r : Replay,
    Numbered r.st →
    Numbered (acts.foldl (fun (r : Replay) a =>
      if r.bad.isSome then r else
      match macroAll c r.st a with
      | .ok s' =>
        let cmdOf := fun g => ((s'.cmds.find? (·.1 = pidBase + g)).map (·.2)).getD "?"
        let pr := if probes.getD r.obs.length false then probeText (probeOwns c r.st) else ""
        { st := s', obs := r.obs ++ [obsText hs cmdOf (observe r.st s') ++ pr] }
      | .stuck => { r with bad := some s!"stuck at action {r.obs.length}" }
      | .orderSensitive => { r with bad := some s!"order-sensitive at action {r.obs.length}" }) r).st := by
  induction acts with
  | nil => intro r hr; exact hr
  | cons a acts ih =>
    intro r hr
    rw [List.foldl_cons]
    apply ih
    split
    · exact hr
    · split
      · rename_i s1 hs1
        exact macroAll_numbered hs1 hr
      · exact hr
      · exact hr

/-- every state in which the driver's replay asks the probe (and the final one) is numbered -/
theorem replayModel_numbered (c : Cfg) (acts : List SAct) (probes : List Bool) :
    Numbered (replayModel c acts probes).st := by
  unfold replayModel
  exact foldl_replay_numbered c (helpers acts) probes acts {} (numbered_init shellPid)

/-- the probe's answer in every prompt state of the driver's replay: the guard `hnum` is discharged by the invariant -/
theorem C07_substitution_owns_replayModel (c : Cfg) (acts : List SAct) (probes : List Bool)
    (hi : c.interactive = true) (hm : (replayModel c acts probes).st.mode = .prompt)
    (hsh : (replayModel c acts probes).st.shell ≠ pidBase + (replayModel c acts probes).st.procs.length + 1) :
    probeOwns c (replayModel c acts probes).st = (true, true) :=
  C07_substitution_owns_numbered c _ hi hm (replayModel_numbered c acts probes).hnum hsh

/-! ### non-vacuity -/

example : Numbered (init shellPid) := numbered_init shellPid

example : ∃ s, runMacro {} stageCmd [] (init shellPid) (.launch true [.sleep, .sleep]) = some s ∧
    pids s = [pidBase + 1, pidBase + 2] ∧ s.mode = .prompt := by
  refine ⟨_, rfl, ?_, ?_⟩ <;> decide

example : ∃ s, replay {} stageCmd [] (init shellPid) [.launch true [.sleep], .launch false [.exit 0], .jobs] = some s ∧
    s.mode = .prompt ∧ s.shell ≠ pidBase + s.procs.length + 1 ∧ s.procs.length = 2 := by
  refine ⟨_, rfl, ?_, ?_, ?_⟩ <;> decide

/-- a non-fork step on a state with two children: the pids stay -/
example : ∃ s s', runMacro {} stageCmd [] (init shellPid) (.launch true [.sleep, .sleep]) = some s ∧
    Term.step {} s (.signal (pidBase + 1) .stop) = some s' ∧ pids s' = [pidBase + 1, pidBase + 2] := by
  refine ⟨_, _, rfl, rfl, ?_⟩; decide

/-- the fork of the next number is enabled in a launching state -/
example : ∃ s', stepFork {} { init shellPid with mode := .launching { bg := false, cmds := ["x"] } }
    { bg := false, cmds := ["x"] } (pidBase + 0 + 1) = some s' ∧ pids s' = [pidBase + 1] := by
  refine ⟨_, rfl, ?_⟩; decide

example : (replayModel {} [.launch true [.sleep], .launch false [.exit 0]] []).st.mode = .prompt ∧
    (replayModel {} [.launch true [.sleep], .launch false [.exit 0]] []).st.procs.length = 2 := by
  constructor <;> decide

end Cicada.C07numbered

section
open Cicada.C07numbered
#print axioms Numbered.hnum
#print axioms step_pids
#print axioms stepFork_numbered
#print axioms runMacro_numbered
#print axioms numbered_init
#print axioms replay_numbered
#print axioms C07_substitution_owns_reached
#print axioms macroAll_numbered
#print axioms replayModel_numbered
#print axioms C07_substitution_owns_replayModel
end
