import Cicada.Thm.C03
/-!
# C03 (growth) — comments, background markers, `$?` along the list

* `C03_comment` : an unquoted, unescaped `#` after the last segment of a list-safe program (glued to the
  last word or after blanks) starts a comment that runs to the end of the text: `line_to_cmds` yields exactly
  the items of the program without it, hence the same pipelines run with the same statuses.
* `C03_status_dollar_q` : along the list, after every prefix `first (op seg)^k` the status the next segment
  sees (`previous_status`, i.e. `$?`) is the status of the most recently *executed* pipeline; a skipped
  pipeline changes nothing; the rest of the program continues from exactly that state.
* `C03_background_amp` : a `&` as the very last character of a segment (background marker, as in `a &; b &`)
  stays in the text handed to `run_proc`; the list semantics is unchanged — except in front of `&&`, where
  `a &&& b` is read as `a && & b` (witness `C03_finding_amp_before_and`).
-/
namespace Cicada.C03
open Cicada Cicada.L2C

/-! ## (a) comments -/

theorem go_stopped (l : Str) : ∀ (s : S), s.stop = true → go s l = s := by
  induction l with
  | nil => intro s _; rfl
  | cons c cs ih =>
    intro s h
    have : ∀ n, step s c n = s := by intro n; simp [step, h]
    simp only [go, this]
    exact ih s h

/-- a text after the last segment that `line_to_cmds` ignores: read from a state outside quotes whose pending
segment is not blank, it leaves the list of items as it is -/
def InertTail (tail : Str) : Prop :=
  ∀ s : S, s.stop = false → s.bs = false → s.sep = [] → (trim s.token).isEmpty = false →
    finish (go s tail) = s.result ++ [trim s.token]

theorem inertTail_nil : InertTail [] := by
  intro s _ _ _ h4
  have : s.token ≠ [] := trim_ne_nil_of h4
  simp [go, finish, this]

theorem inertTail_hash (c : Str) : InertTail ('#' :: c) := by
  intro s h1 h2 h3 h4
  have : s.token ≠ [] := trim_ne_nil_of h4
  have e : ∀ n, step s '#' n = { s with stop := true } := by intro n; simp [step, h1, h2, h3]
  simp only [go, e]
  rw [go_stopped c _ rfl]
  simp [finish, this]

theorem trimL_snoc_blank (t : Str) : trimL (t ++ [' ']) = if trimL t = [] then [] else trimL t ++ [' '] := by
  induction t with
  | nil => simp [trimL, isWs]
  | cons c cs ih =>
    by_cases hc : isWs c = true
    · simp [trimL, hc, ih]
    · simp [trimL, hc]

theorem trimR_snoc_blank (t : Str) : trimR (t ++ [' ']) = trimR t := by
  simp [trimR, trimL, isWs]

theorem trim_snoc_blank (t : Str) : trim (t ++ [' ']) = trim t := by
  simp only [trim, trimL_snoc_blank]
  split
  · rename_i h; rw [h]
  · exact trimR_snoc_blank _

theorem inertTail_blank (tail : Str) (h : InertTail tail) : InertTail (' ' :: tail) := by
  intro s h1 h2 h3 h4
  have e : ∀ n, step s ' ' n = { s with token := s.token ++ [' '] } := by intro n; simp [step, h1, h2]
  simp only [go, e]
  have := h { s with token := s.token ++ [' '] } h1 h2 h3 (by simpa [trim_snoc_blank] using h4)
  rw [this]
  simp [trim_snoc_blank]

/-- the comment texts: blanks (possibly none), `#`, anything -/
def commentTail (n : Nat) (c : Str) : Str := List.replicate n ' ' ++ '#' :: c

theorem inertTail_comment (n : Nat) (c : Str) : InertTail (commentTail n c) := by
  induction n with
  | zero => exact inertTail_hash c
  | succ n ih => exact inertTail_blank _ ih

theorem finish_go_rest_tail (tail : Str) (ht : InertTail tail) (rest : List (ListOp × Str)) :
    ∀ (s : S), s.stop = false → s.bs = false → s.sep = [] → (trim s.token).isEmpty = false →
      (rest.all (fun x => segOk x.2) = true) →
      finish (go s (renderRest rest ++ tail)) = s.result ++ [trim s.token] ++ itemsRest rest := by
  induction rest with
  | nil =>
    intro s h1 h2 h3 h4 _
    simp [renderRest, itemsRest, ht s h1 h2 h3 h4]
  | cons x rest ih =>
    intro s h1 h2 h3 h4 hall
    obtain ⟨o, seg⟩ := x
    simp only [List.all_cons, Bool.and_eq_true] at hall
    obtain ⟨hseg, hrest⟩ := hall
    simp only [segOk, Bool.and_eq_true, Bool.not_eq_true'] at hseg
    obtain ⟨⟨hs1, hs2⟩, _⟩ := hseg
    have e : renderRest ((o, seg) :: rest) ++ tail = o.text ++ (seg ++ (renderRest rest ++ tail)) := by
      simp [renderRest, List.append_assoc]
    rw [e, go_op s o _ h1 h2 h3]
    rw [go_safe seg none false _ _ hs1 (by intro c hc; cases hc) rfl rfl rfl]
    rw [ih _ rfl rfl rfl (by simpa [after] using hs2) hrest]
    have hp : pushTrim s.result s.token = s.result ++ [trim s.token] := by
      simp [pushTrim, h4]
    simp [after, hp, itemsRest, List.append_assoc]

/-- list splitting of a list-safe program followed by an ignored tail -/
theorem lineToCmds_render_tail (p : Prog) (hg : guard p = true) (tail : Str) (ht : InertTail tail) :
    lineToCmds (render p ++ tail) = items p := by
  simp only [guard, Bool.and_eq_true] at hg
  obtain ⟨hf, hr⟩ := hg
  simp only [segOk, Bool.and_eq_true, Bool.not_eq_true'] at hf
  obtain ⟨⟨hf1, hf2⟩, _⟩ := hf
  have e : render p ++ tail = p.first ++ (renderRest p.rest ++ tail) := by simp [render, renderRest]
  rw [lineToCmds, e, go_safe p.first none false {} _ hf1 (by intro c hc; cases hc) rfl rfl rfl]
  rw [finish_go_rest_tail tail ht p.rest _ rfl rfl rfl (by simpa [after] using hf2) hr]
  simp [after, items]

/-- **C03, comments.** For every list-safe program `p`, every number `n ≥ 0` of blanks and every text `c`
(any characters at all, operators, quotes, even newlines): the line `p␣…␣#c` is split into exactly the items of
`p`.  `n = 0` is the `#` glued to the last word: `echo a#b` runs `echo a`. -/
theorem C03_comment (p : Prog) (hg : guard p = true) (n : Nat) (c : Str) :
    lineToCmds (render p ++ commentTail n c) = lineToCmds (render p) := by
  rw [lineToCmds_render_tail p hg _ (inertTail_comment n c), lineToCmds_render p hg]

/-- … hence the same pipelines run, with the same statuses and final state, as the reference semantics
prescribes for the program without the comment -/
theorem C03_comment_holds {σ : Type} (run : σ → Str → σ × Int) (sh : σ) (p : Prog) (hg : guard p = true)
    (n : Nat) (c : Str) :
    runCommandLine run sh (render p ++ commentTail n c) = runCommandLine run sh (render p) ∧
    ofLoop (runCommandLine run sh (render p ++ commentTail n c)) = specList run sh p := by
  have e : runCommandLine run sh (render p ++ commentTail n c) = runCommandLine run sh (render p) := by
    simp only [runCommandLine, C03_comment p hg n c]
  exact ⟨e, by rw [e]; exact C03_partial run sh p hg⟩

/-- a `#` inside quotes or after a backslash is not a comment: it is already inside the guard of `C03_partial` -/
example : guard { first := "a 'q # x' ".toList, rest := [(.semi, " y \\# z ".toList)] } = true := by decide

/-- non-vacuity: `false && a ; b # && c ; 'd` and `false && a ; b#x` -/
example : guard wProg = true ∧
    render wProg ++ commentTail 1 " && c ; 'd".toList = "false && a ; b # && c ; 'd".toList ∧
    lineToCmds (render wProg ++ commentTail 1 " && c ; 'd".toList) =
      ["false".toList, "&&".toList, "a".toList, ";".toList, "b".toList] ∧
    lineToCmds (render wProg ++ commentTail 0 "x".toList) =
      ["false".toList, "&&".toList, "a".toList, ";".toList, "b".toList] := by decide

/-! ## (c) `$?` along the list -/

/-- the program cut after its first `k` operators -/
def Prog.pref (p : Prog) (k : Nat) : Prog := { first := p.first, rest := p.rest.take k }

/-- status of the most recently executed pipeline of a trace -/
def lastStatus (tr : List (Str × Int)) : Int := ((tr.getLast?).map (·.2)).getD 0

/-- does the pipeline after operator `o` run when the status so far is `status`? -/
def runsAfter (o : ListOp) (status : Int) : Bool :=
  match o with
  | .semi => true
  | .and => status = 0
  | .or => status ≠ 0

theorem guard_pref (p : Prog) (k : Nat) (hg : guard p = true) : guard (p.pref k) = true := by
  simp only [guard, Bool.and_eq_true, List.all_eq_true, Prog.pref] at hg ⊢
  exact ⟨hg.1, fun x hx => hg.2 x (List.mem_of_mem_take hx)⟩

theorem specRest_cons {σ} (run : σ → Str → σ × Int) (r : Res σ) (o : ListOp) (seg : Str) (rest : List (ListOp × Str)) :
    specRest run r ((o, seg) :: rest) =
      if runsAfter o r.status then
        specRest run { sh := (run r.sh (trim seg)).1, status := (run r.sh (trim seg)).2,
                       trace := r.trace ++ [(trim seg, (run r.sh (trim seg)).2)] } rest
      else specRest run r rest := by
  cases o <;> simp [specRest, runsAfter]

theorem specRest_append {σ} (run : σ → Str → σ × Int) (l1 l2 : List (ListOp × Str)) :
    ∀ r : Res σ, specRest run r (l1 ++ l2) = specRest run (specRest run r l1) l2 := by
  induction l1 with
  | nil => intro r; rfl
  | cons x xs ih =>
    intro r
    obtain ⟨o, seg⟩ := x
    simp only [List.cons_append, specRest_cons]
    split <;> exact ih _

/-- one step of the reference semantics, written out -/
theorem specRest_one {σ} (run : σ → Str → σ × Int) (r : Res σ) (o : ListOp) (seg : Str) :
    specRest run r [(o, seg)] =
      if runsAfter o r.status then
        { sh := (run r.sh (trim seg)).1, status := (run r.sh (trim seg)).2,
          trace := r.trace ++ [(trim seg, (run r.sh (trim seg)).2)] }
      else r := by
  rw [specRest_cons]; rfl

/-- invariant of the reference semantics: the status is that of the last executed pipeline -/
theorem specRest_status {σ} (run : σ → Str → σ × Int) (l : List (ListOp × Str)) :
    ∀ r : Res σ, r.trace ≠ [] → r.status = lastStatus r.trace →
      (specRest run r l).trace ≠ [] ∧ (specRest run r l).status = lastStatus (specRest run r l).trace := by
  induction l with
  | nil => intro r h1 h2; exact ⟨h1, h2⟩
  | cons x xs ih =>
    intro r h1 h2
    obtain ⟨o, seg⟩ := x
    rw [specRest_cons]
    split
    · exact ih _ (by simp) (by simp [lastStatus])
    · exact ih _ h1 h2

theorem specList_pref {σ} (run : σ → Str → σ × Int) (sh : σ) (p : Prog) (k : Nat) :
    specList run sh p = specRest run (specList run sh (p.pref k)) (p.rest.drop k) := by
  have : p.rest = p.rest.take k ++ p.rest.drop k := (List.take_append_drop k p.rest).symm
  simp only [specList, Prog.pref]
  conv => lhs; rw [this]
  rw [specRest_append]

theorem specList_pref_succ {σ} (run : σ → Str → σ × Int) (sh : σ) (p : Prog) (k : Nat) (o : ListOp) (seg : Str)
    (h : p.rest[k]? = some (o, seg)) :
    specList run sh (p.pref (k + 1)) = specRest run (specList run sh (p.pref k)) [(o, seg)] := by
  have hk : k < p.rest.length := by
    rcases Nat.lt_or_ge k p.rest.length with h' | h'
    · exact h'
    · rw [List.getElem?_eq_none h'] at h; cases h
  have e : p.rest.take (k + 1) = p.rest.take k ++ [(o, seg)] := by
    rw [List.take_add_one, h]; rfl
  simp only [specList, Prog.pref, e, specRest_append]

/-- **C03, `$?`.** For a list-safe program and every `k`: let `st` be the loop state after the prefix
`first (op seg)^k` has been run.  Then
1. `st.status` — the `previous_status` (`$?`) the next segment sees — is the status returned by the most
   recently **executed** pipeline (the last entry of the trace, which is never empty);
2. the whole program is the rest of the program continued from exactly `st`;
3. the next segment `(o, seg)` runs iff `o` and `st.status` say so; if it is skipped, shell state, status and
   trace are unchanged; if it runs, it runs in `st.sh`, its status becomes the new status, and the trace grows
   by exactly this entry. -/
theorem C03_status_dollar_q {σ : Type} (run : σ → Str → σ × Int) (sh : σ) (p : Prog) (hg : guard p = true) (k : Nat) :
    let st := runCommandLine run sh (render (p.pref k))
    st.trace ≠ [] ∧ st.status = lastStatus st.trace ∧
    ofLoop (runCommandLine run sh (render p)) = specRest run (ofLoop st) (p.rest.drop k) ∧
    ∀ o seg, p.rest[k]? = some (o, seg) →
      let st' := runCommandLine run sh (render (p.pref (k + 1)))
      if runsAfter o st.status then
        st'.sh = (run st.sh (trim seg)).1 ∧ st'.status = (run st.sh (trim seg)).2 ∧
        st'.trace = st.trace ++ [(trim seg, (run st.sh (trim seg)).2)]
      else st'.sh = st.sh ∧ st'.status = st.status ∧ st'.trace = st.trace := by
  intro st
  have hk : ofLoop st = specList run sh (p.pref k) := C03_partial run sh (p.pref k) (guard_pref p k hg)
  have hfull : ofLoop (runCommandLine run sh (render p)) = specList run sh p := C03_partial run sh p hg
  have hinv : (specList run sh (p.pref k)).trace ≠ [] ∧
      (specList run sh (p.pref k)).status = lastStatus (specList run sh (p.pref k)).trace := by
    simp only [specList]
    exact specRest_status run _ _ (by simp) (by simp [lastStatus])
  have h1 : st.trace = (specList run sh (p.pref k)).trace := by rw [← hk]; rfl
  have h2 : st.status = (specList run sh (p.pref k)).status := by rw [← hk]; rfl
  have h3 : st.sh = (specList run sh (p.pref k)).sh := by rw [← hk]; rfl
  refine ⟨by rw [h1]; exact hinv.1, by rw [h1, h2]; exact hinv.2, ?_, ?_⟩
  · rw [hfull, hk]; exact specList_pref run sh p k
  · intro o seg hseg st'
    have hk' : ofLoop st' = specList run sh (p.pref (k + 1)) :=
      C03_partial run sh (p.pref (k + 1)) (guard_pref p (k + 1) hg)
    rw [specList_pref_succ run sh p k o seg hseg, ← hk, specRest_one] at hk'
    have e1 : st'.sh = (ofLoop st').sh := rfl
    have e2 : st'.status = (ofLoop st').status := rfl
    have e3 : st'.trace = (ofLoop st').trace := rfl
    rw [e1, e2, e3, hk']
    have : (ofLoop st).status = st.status := rfl
    rw [this]
    split <;> simp [ofLoop]

/-- the final status: `$?` after the line is the status of the last pipeline that was executed -/
theorem C03_status_final {σ : Type} (run : σ → Str → σ × Int) (sh : σ) (p : Prog) (hg : guard p = true) :
    (runCommandLine run sh (render p)).trace ≠ [] ∧
    (runCommandLine run sh (render p)).status = lastStatus (runCommandLine run sh (render p)).trace := by
  have h := C03_status_dollar_q run sh p hg p.rest.length
  have e : p.pref p.rest.length = p := by simp [Prog.pref]
  simp only [e] at h
  exact ⟨h.1, h.2.1⟩

/-- non-vacuity: in `false && a ; b || c` the segment `a` is skipped and leaves `$?` = 1 for `;`-`b`;
`b` runs and returns 0, so `c` is skipped and the final `$?` is 0, the status of `b` -/
example :
    let p : Prog := { first := "false ".toList, rest := [(.and, " a ".toList), (.semi, " b ".toList), (.or, " c".toList)] }
    guard p = true ∧
    (runCommandLine wRun () (render (p.pref 1))).status = 1 ∧
    (runCommandLine wRun () (render (p.pref 1))).trace = [("false".toList, 1)] ∧
    (runCommandLine wRun () (render (p.pref 2))).trace = [("false".toList, 1), ("b".toList, 0)] ∧
    (runCommandLine wRun () (render p)).trace = [("false".toList, 1), ("b".toList, 0)] ∧
    (runCommandLine wRun () (render p)).status = 0 := by decide

/-! ## (b) background markers -/

/-- does the text after this segment start with `&&`? -/
def nextAnd : List (ListOp × Str) → Bool
  | (.and, _) :: _ => true
  | _ => false

/-- list-safe as in `segOk`, or list-safe up to a final `&` (the background marker glued to the end of the
segment) when the next operator is not `&&` -/
def segOkBg (na : Bool) (seg : Str) : Bool :=
  (safeSeg none false seg || (!na && seg.getLast? = some '&' && safeSeg none false seg.dropLast)) &&
  !(trim seg).isEmpty && !isListSep (trim seg)

def restOkBg : List (ListOp × Str) → Bool
  | [] => true
  | (_, seg) :: rest => segOkBg (nextAnd rest) seg && restOkBg rest

/-- input guard of `C03_background_amp` (a Boolean function of the program text only); weaker than `guard` -/
def guardBg (p : Prog) : Bool := segOkBg (nextAnd p.rest) p.first && restOkBg p.rest

theorem segOkBg_of_segOk (na : Bool) (seg : Str) (h : segOk seg = true) : segOkBg na seg = true := by
  simp only [segOk, Bool.and_eq_true] at h
  simp [segOkBg, h.1.1, h.1.2, h.2]

theorem restOkBg_of (rest : List (ListOp × Str)) (h : rest.all (fun x => segOk x.2) = true) : restOkBg rest = true := by
  induction rest with
  | nil => rfl
  | cons x xs ih =>
    obtain ⟨o, seg⟩ := x
    simp only [List.all_cons, Bool.and_eq_true] at h
    simp [restOkBg, segOkBg_of_segOk _ seg h.1, ih h.2]

theorem guardBg_of_guard (p : Prog) (h : guard p = true) : guardBg p = true := by
  simp only [guard, Bool.and_eq_true] at h
  simp [guardBg, segOkBg_of_segOk _ _ h.1, restOkBg_of _ h.2]

/-- reading a segment that may end in a background marker -/
theorem go_seg_bg (na : Bool) (seg : Str) (s : S) (rest : Str)
    (h : (safeSeg none false seg || (!na && seg.getLast? = some '&' && safeSeg none false seg.dropLast)) = true)
    (hnext : na = false → rest.head? ≠ some '&')
    (h1 : s.stop = false) (h2 : s.bs = false) (h3 : s.sep = []) :
    go s (seg ++ rest) = go (after s false seg) rest := by
  simp only [Bool.or_eq_true, Bool.and_eq_true, Bool.not_eq_true', decide_eq_true_eq] at h
  rcases h with h | ⟨⟨hna, hl⟩, hb⟩
  · exact go_safe seg none false s rest h (by intro c hc; cases hc) h1 h2 h3
  · have hseg : seg = seg.dropLast ++ ['&'] := by
      obtain ⟨ys, hys⟩ := List.getLast?_eq_some_iff.mp hl
      rw [hys]; simp
    have hn := hnext hna
    rw [hseg, List.append_assoc, go_safe seg.dropLast none false s _ hb (by intro c hc; cases hc) h1 h2 h3]
    simp only [List.cons_append, List.nil_append, go]
    have e : step (after s false seg.dropLast) '&' rest.head? =
        { after s false seg.dropLast with token := (after s false seg.dropLast).token ++ ['&'] } := by
      simp [step, after, hn]
    rw [e]
    simp [after, List.append_assoc]

theorem head_renderRest (rest : List (ListOp × Str)) (tail : Str) (hna : nextAnd rest = false)
    (ht : tail.head? ≠ some '&') : (renderRest rest ++ tail).head? ≠ some '&' := by
  cases rest with
  | nil => simpa [renderRest] using ht
  | cons x xs =>
    obtain ⟨o, seg⟩ := x
    cases o <;> simp [renderRest, ListOp.text, nextAnd] at hna ⊢

theorem finish_go_rest_bg (tail : Str) (ht : InertTail tail) (hta : tail.head? ≠ some '&') (rest : List (ListOp × Str)) :
    ∀ (s : S), s.stop = false → s.bs = false → s.sep = [] → (trim s.token).isEmpty = false →
      restOkBg rest = true →
      finish (go s (renderRest rest ++ tail)) = s.result ++ [trim s.token] ++ itemsRest rest := by
  induction rest with
  | nil =>
    intro s h1 h2 h3 h4 _
    simp [renderRest, itemsRest, ht s h1 h2 h3 h4]
  | cons x rest ih =>
    intro s h1 h2 h3 h4 hall
    obtain ⟨o, seg⟩ := x
    simp only [restOkBg, Bool.and_eq_true] at hall
    obtain ⟨hseg, hrest⟩ := hall
    simp only [segOkBg, Bool.and_eq_true, Bool.not_eq_true'] at hseg
    obtain ⟨⟨hs1, hs2⟩, _⟩ := hseg
    have e : renderRest ((o, seg) :: rest) ++ tail = o.text ++ (seg ++ (renderRest rest ++ tail)) := by
      simp [renderRest, List.append_assoc]
    rw [e, go_op s o _ h1 h2 h3]
    rw [go_seg_bg (nextAnd rest) seg _ _ (by simpa using hs1) (fun hna => head_renderRest rest tail hna hta) rfl rfl rfl]
    rw [ih _ rfl rfl rfl (by simpa [after] using hs2) hrest]
    have hp : pushTrim s.result s.token = s.result ++ [trim s.token] := by
      simp [pushTrim, h4]
    simp [after, hp, itemsRest, List.append_assoc]

/-- list splitting with background markers (and an optional ignored tail, e.g. a comment) -/
theorem lineToCmds_render_bg (p : Prog) (hg : guardBg p = true) (tail : Str) (ht : InertTail tail)
    (hta : tail.head? ≠ some '&') :
    lineToCmds (render p ++ tail) = items p := by
  simp only [guardBg, Bool.and_eq_true] at hg
  obtain ⟨hf, hr⟩ := hg
  simp only [segOkBg, Bool.and_eq_true, Bool.not_eq_true'] at hf
  obtain ⟨⟨hf1, hf2⟩, _⟩ := hf
  have e : render p ++ tail = p.first ++ (renderRest p.rest ++ tail) := by simp [render, renderRest]
  rw [lineToCmds, e, go_seg_bg (nextAnd p.rest) p.first {} _ (by simpa using hf1)
    (fun hna => head_renderRest p.rest tail hna hta) rfl rfl rfl]
  rw [finish_go_rest_bg tail ht hta p.rest _ rfl rfl rfl (by simpa [after] using hf2) hr]
  simp [after, items]

/-- the loop refines the reference semantics whenever no item is itself an operator text -/
theorem runItems_rest_bg {σ} (run : σ → Str → σ × Int) (rest : List (ListOp × Str)) :
    ∀ (st : LoopSt σ), restOkBg rest = true →
      ofLoop (runItems run st (itemsRest rest)) = specRest run (ofLoop st) rest := by
  induction rest with
  | nil => intro st _; simp [itemsRest, runItems, specRest]
  | cons x rest ih =>
    intro st hall
    obtain ⟨o, seg⟩ := x
    simp only [restOkBg, Bool.and_eq_true] at hall
    obtain ⟨hseg, hrest⟩ := hall
    simp only [segOkBg, Bool.and_eq_true, Bool.not_eq_true'] at hseg
    obtain ⟨_, hns⟩ := hseg
    rw [specRest_cons]
    simp only [itemsRest, runItems, isListSep_text, ↓reduceIte, hns, Bool.false_eq_true]
    cases o with
    | semi =>
      have a1 : ¬ (([';'] : Str) = ['&', '&']) := by decide
      have a2 : ¬ (([';'] : Str) = ['|', '|']) := by decide
      simp only [ListOp.text, runsAfter, a1, a2, false_and, ↓reduceIte]
      rw [ih _ hrest]; simp [ofLoop]
    | and =>
      have a2 : ¬ ((['&', '&'] : Str) = ['|', '|']) := by decide
      simp only [ListOp.text, runsAfter, a2, false_and, ↓reduceIte, true_and]
      by_cases hz : st.status = 0
      · simp only [hz, ne_eq, not_true_eq_false, ↓reduceIte]
        rw [ih _ hrest]; simp [ofLoop, hz]
      · simp only [ne_eq, hz, not_false_eq_true, ↓reduceIte]
        rw [ih _ hrest]; simp [ofLoop, hz]
    | or =>
      have a1 : ¬ ((['|', '|'] : Str) = ['&', '&']) := by decide
      simp only [ListOp.text, runsAfter, a1, false_and, ↓reduceIte, true_and]
      by_cases hz : st.status = 0
      · simp only [hz, ↓reduceIte]
        rw [ih _ hrest]; simp [ofLoop, hz]
      · simp only [hz, ↓reduceIte]
        rw [ih _ hrest]; simp [ofLoop, hz]

/-- **C03, background markers.**  Segments may end in a `&` glued to their end (`a &; b &`, `a &|| b`,
also before a comment), provided the next operator is not `&&`: the `&` stays in the segment text handed to
`run_proc` (`items`: the trimmed raw segment), the items are exactly those of the program, and the list runs
as the reference semantics prescribes.  `guardBg` is weaker than `guard`, so this contains `C03_partial`. -/
theorem C03_background_amp {σ : Type} (run : σ → Str → σ × Int) (sh : σ) (p : Prog) (hg : guardBg p = true) :
    lineToCmds (render p) = trim p.first :: itemsRest p.rest ∧ Holds03 run sh p := by
  have hsplit : lineToCmds (render p) = items p := by
    have := lineToCmds_render_bg p hg [] inertTail_nil (by simp)
    simpa using this
  refine ⟨hsplit, ?_⟩
  unfold Holds03 runCommandLine
  rw [hsplit]
  simp only [guardBg, Bool.and_eq_true] at hg
  obtain ⟨hf, hr⟩ := hg
  simp only [segOkBg, Bool.and_eq_true, Bool.not_eq_true'] at hf
  obtain ⟨_, hns⟩ := hf
  simp only [items, runItems, hns, Bool.false_eq_true, ↓reduceIte]
  have a1 : ¬ (([] : Str) = ['&', '&']) := by decide
  have a2 : ¬ (([] : Str) = ['|', '|']) := by decide
  simp only [a1, a2, false_and, ↓reduceIte]
  rw [runItems_rest_bg run p.rest _ hr]
  simp [specList, ofLoop]

/-- … also with a comment after the last segment: `a &; b & # c` -/
theorem C03_background_amp_comment (p : Prog) (hg : guardBg p = true) (n : Nat) (c : Str) :
    lineToCmds (render p ++ commentTail n c) = lineToCmds (render p) := by
  rw [lineToCmds_render_bg p hg _ (inertTail_comment n c) (by cases n <;> simp [commentTail, List.replicate]),
    (C03_background_amp (fun (_ : Unit) _ => ((), 0)) () p hg).1]
  rfl

/-- the excluded case is a genuine misreading: `a &&& b` is not "`a &` and-then `b`" but `a && & b` -/
theorem C03_finding_amp_before_and :
    let p : Prog := { first := "a &".toList, rest := [(.and, " b".toList)] }
    render p = "a &&& b".toList ∧ guardBg p = false ∧
    lineToCmds (render p) = ["a".toList, "&&".toList, "& b".toList] ∧
    lineToCmds (render p) ≠ items p := by decide

/-- non-vacuity: `sleep 1 &; b &|| c | d & ; e &` — not inside `guard`, inside `guardBg`; the items keep the `&` -/
example :
    let p : Prog := { first := "sleep 1 &".toList,
                      rest := [(.semi, " b &".toList), (.or, " c | d & ".toList), (.semi, " e &".toList)] }
    guard p = false ∧ guardBg p = true ∧
    render p = "sleep 1 &; b &|| c | d & ; e &".toList ∧
    lineToCmds (render p) = ["sleep 1 &".toList, ";".toList, "b &".toList, "||".toList, "c | d &".toList, ";".toList, "e &".toList] := by
  decide

end Cicada.C03
