import Cicada.Spec.C15
import Cicada.Model.ScriptSess
/-!
# C15 — script arguments, functions, `source` and exit statuses

Proved (positional parameters, the part that is pure):
* `C15_pos_ref` : in `pre$Npost` (pre and post free of `$` and newlines, post not starting with a digit or `}`)
  the reference is replaced by `argValue args N` and the adjacent text is preserved; `C15_index`,
  `C15_missing_is_empty`, `C15_all` say what that value is: the N-th argument, nothing past the end, and for `@`
  the arguments from the first on joined by blanks.  The braced spelling and whole words of several
  references: `C15_word_full` / `C15_tokens_full` in `Thm/C15word.lean`.
* `C15_missing_is_empty` : an index past the end expands to nothing.
* `C15_sq_untouched` : nothing inside single quotes is expanded.
Functions, `source`, `exit`, `set -e` and statuses: `Model/ScriptSess.lean` and the `C15_sete_*`, `C15_exit_*`,
`C15_status_is_last`, `C15_functions_hoisted` theorems below, exercised by the `ssess` stream against the real binary
(the function-status defect found there was repaired by `fix:` 6257c3a).
-/
namespace Cicada.C15
open Cicada

theorem findArgRef_skip (pre rest acc : Str) (h : ∀ c ∈ pre, c ≠ '$') :
    findArgRef acc (pre ++ rest) = findArgRef (acc ++ pre) rest := by
  induction pre generalizing acc with
  | nil => simp
  | cons c cs ih =>
    have hc := h c (by simp)
    simp only [List.cons_append, findArgRef, hc, ↓reduceIte]
    rw [ih _ (fun x hx => h x (by simp [hx]))]
    simp [List.append_assoc]

theorem findArgRef_none (s acc : Str) (h : ∀ c ∈ s, c ≠ '$') : findArgRef acc s = none := by
  induction s generalizing acc with
  | nil => rfl
  | cons c cs ih =>
    have hc := h c (by simp)
    simp [findArgRef, hc, ih _ (fun x hx => h x (by simp [hx]))]

theorem digits_split (d post : Str) (hd : d.all isDigitA = true) (hp : ∀ c, post.head? = some c → isDigitA c = false) :
    (d ++ post).takeWhile isDigitA = d ∧ (d ++ post).dropWhile isDigitA = post := by
  induction d with
  | nil =>
    cases post with
    | nil => simp
    | cons c cs => simp [hp c rfl]
  | cons c cs ih =>
    simp only [List.all_cons, Bool.and_eq_true] at hd
    have := ih hd.2
    simp [List.takeWhile, List.dropWhile, hd.1, this.1, this.2]

/-- the text after a reference, once the loop has gone over it -/
theorem tail_plain (args : List Str) (post : Str) (f : Nat) (h : ∀ c ∈ post, c ≠ '$') :
    (if post = [] then [] else expandArgsTokAux args (f + 1) post) = post := by
  by_cases hp : post = []
  · simp [hp]
  · simp [hp, expandArgsTokAux, findArgRef_none post [] h]

theorem noNl_append (a b : Str) (ha : noNl a = true) (hb : noNl b = true) : noNl (a ++ b) = true := by
  simp only [noNl, List.all_append, Bool.and_eq_true] at *
  exact ⟨ha, hb⟩

theorem argKey_digits (d post : Str) (hne : d ≠ []) (hall : d.all isDigitA = true)
    (hp : ∀ c, post.head? = some c → isDigitA c = false) : argKey (d ++ post) = some (d, post) := by
  obtain ⟨h1, h2⟩ := digits_split d post hall hp
  obtain ⟨c0, cs0, rfl⟩ : ∃ c cs, d = c :: cs := by
    cases d with
    | nil => exact absurd rfl hne
    | cons c cs => exact ⟨c, cs, rfl⟩
  have hc0 : isDigitA c0 = true := by simp at hall; exact hall.1
  have hc0a : c0 ≠ '@' := by intro e; subst e; revert hc0; decide
  unfold argKey
  split
  · rename_i r heq; simp at heq; exact absurd heq.1 hc0a
  · simp only [h1, h2]; simp

theorem dropBrace_id (post : Str) (h : ∀ c, post.head? = some c → c ≠ '}') : dropBrace post = post := by
  cases post with
  | nil => rfl
  | cons c cs =>
    have := h c rfl
    unfold dropBrace
    split
    · rename_i r heq; simp at heq; exact absurd heq.1 this
    · rfl

theorem digit_ne_nl (c : Char) (h : isDigitA c = true) : c ≠ '\n' := by intro e; subst e; revert h; decide

theorem noNl_digits (d : Str) (h : d.all isDigitA = true) : noNl d = true := by
  simp only [noNl, List.all_eq_true, decide_eq_true_eq] at *
  intro c hc; exact digit_ne_nl c (h c hc)

/-- **`$N`** -/
theorem C15_pos_ref (args : List Str) (pre d post : Str) (hpre : ∀ c ∈ pre, c ≠ '$') (hn1 : noNl pre = true)
    (hd : digitsOk d = true) (hpost : ∀ c ∈ post, c ≠ '$') (hn2 : noNl post = true)
    (hnext : ∀ c, post.head? = some c → isDigitA c = false ∧ c ≠ '}') :
    expandArgsTok args (pre ++ '$' :: (d ++ post)) = pre ++ argValue args d ++ post := by
  simp only [digitsOk, Bool.and_eq_true, Bool.not_eq_true', List.isEmpty_eq_false_iff] at hd
  obtain ⟨hne, hall⟩ := hd
  have hkey := argKey_digits d post hne hall (fun c hc => (hnext c hc).1)
  have hdb := dropBrace_id post (fun c hc => (hnext c hc).2)
  have hd0 : ∀ r, d ++ post ≠ '{' :: r := by
    intro r e
    cases d with
    | nil => exact hne rfl
    | cons c cs =>
      simp at e; simp at hall
      have := hall.1; rw [e.1] at this; revert this; decide
  have href : argRefAt (d ++ post) = some (d, post) := by
    unfold argRefAt
    split
    · rename_i r heq; exact absurd heq (hd0 r)
    · simp [hkey, hdb]
  have hnl : noNl (pre ++ '$' :: (d ++ post)) = true := by
    apply noNl_append _ _ hn1
    have : noNl ('$' :: (d ++ post)) = true := by
      have h1 := noNl_append d post (noNl_digits d hall) hn2
      simp only [noNl, List.all_cons, Bool.and_eq_true, decide_eq_true_eq] at h1 ⊢
      exact ⟨by decide, h1⟩
    exact this
  unfold expandArgsTok
  generalize hL : (pre ++ '$' :: (d ++ post)).length = L
  simp only [expandArgsTokAux, hnl, Bool.not_true, Bool.false_eq_true, ↓reduceIte]
  rw [findArgRef_skip pre _ [] hpre]
  simp only [List.nil_append, findArgRef, ↓reduceIte, href]
  cases L with
  | zero => simp at hL
  | succ L' =>
    rw [tail_plain args post L' hpost]

/-- an index past the end expands to nothing -/
theorem C15_missing_is_empty (args : List Str) (d : Str) (n : Nat) (hd : parseUsize d = some n) (hn : args.length ≤ n) (h : d ≠ ['@']) :
    argValue args d = [] := by
  simp [argValue, h, hd, List.getD_eq_getElem?_getD, List.getElem?_eq_none hn]

/-- an index inside the list expands to that argument -/
theorem C15_index (args : List Str) (d : Str) (n : Nat) (hd : parseUsize d = some n) (hn : n < args.length) (h : d ≠ ['@']) :
    argValue args d = args[n] := by
  simp [argValue, h, hd, List.getD_eq_getElem?_getD, List.getElem?_eq_getElem hn]

/-- `$@` is the arguments from the first on, joined by blanks -/
theorem C15_all (args : List Str) : argValue args ['@'] = joinWith [' '] (args.drop 1) := by simp [argValue]

/-- nothing inside single quotes (or backquotes) is expanded -/
theorem C15_sq_untouched (args : List Str) (text : Str) (pre post : List Tok) :
    expandArgsInTokens args (pre ++ [(['\''], text)] ++ post) =
      expandArgsInTokens args pre ++ [(['\''], text)] ++ expandArgsInTokens args post := by
  simp [expandArgsInTokens]

/-! ### non-vacuity / concrete instances -/
example : expandArgsTok ["s.sh".toList, "a b".toList, "c".toList] "x$1-${2}$3/$@.".toList = "xa b-c/a b c.".toList := by decide
example : parseUsize "12".toList = some 12 := by decide

end Cicada.C15

/-! ### functions, `source`, `exit`, `set -e` (model: `Model/ScriptSess.lean`) -/
namespace Cicada.C15
open Cicada.ScriptSess

/-- **after `set -e` the first failing command ends the run with its status**: whatever follows is not executed -/
theorem C15_sete_first_failure (cfg : Cfg) (files : List (Str × List SStmt)) (f : Nat) (k c : Nat) (rest : List SStmt) (st : St) (last : Nat)
    (hs : st.sete = true) (he : st.exited = none) (hc : c ≠ 0) :
    runStmts cfg files (f + 1) (.stage k c :: rest) st last = ({ st with trace := st.trace ++ [(k, c)] }, c) := by
  simp [runStmts, he, hs, hc]

/-- a succeeding command lets the run go on -/
theorem C15_success_continues (cfg : Cfg) (files : List (Str × List SStmt)) (f : Nat) (k : Nat) (rest : List SStmt) (st : St) (last : Nat)
    (he : st.exited = none) :
    runStmts cfg files (f + 1) (.stage k 0 :: rest) st last = runStmts cfg files f rest { st with trace := st.trace ++ [(k, 0)] } 0 := by
  simp [runStmts, he]

/-- **`exit N` ends the shell immediately**: nothing after it runs, in whatever nesting it was reached -/
theorem C15_exit_immediate (cfg : Cfg) (files : List (Str × List SStmt)) (f : Nat) (n : Nat) (rest : List SStmt) (st : St) (last : Nat)
    (he : st.exited = none) :
    runStmts cfg files (f + 1) (.exit n :: rest) st last = ({ st with exited := some n }, n) := by
  simp [runStmts, he]

/-- once the shell has exited no statement is run any more -/
theorem C15_exited_runs_nothing (cfg : Cfg) (files : List (Str × List SStmt)) (f : Nat) (stmts : List SStmt) (st : St) (last : Nat) (n : Nat)
    (he : st.exited = some n) : runStmts cfg files f stmts st last = (st, last) := by
  cases f with
  | zero => simp [runStmts]
  | succ f => cases stmts <;> simp [runStmts, he]

/-- the status of a run without `set -e` and without `exit` is the status of its last command -/
theorem C15_status_is_last (cfg : Cfg) (files : List (Str × List SStmt)) (f : Nat) (k c : Nat) (st : St) (last : Nat)
    (hs : st.sete = false) (he : st.exited = none) :
    (runStmts cfg files (f + 2) [.stage k c] st last).2 = c := by
  simp [runStmts, he, hs]

/-- a function defined anywhere in a file is callable from the first line of that file: definitions are registered when
the file is loaded -/
theorem C15_functions_hoisted (cfg : Cfg) (k c : Nat) :
    (runMain cfg [("s".toList, [.call "f".toList, .defn "f".toList [.stage k c]])] "s".toList).2 = [(k, c)] := by
  simp [runMain, runFile, runStmts, setFunc, isDefn, List.find?]

/-- `set -e` issued before a `source` is still in effect after it (since the `fix:` to the source builtin):
`set -e; source a; stage 2 (fails); stage 3` stops at 2 -/
theorem C15_sete_survives_source :
    runMain {} [("s".toList, [.sete, .source "a".toList, .stage 2 3, .stage 3 0]), ("a".toList, [.stage 1 0])] "s".toList
      = (3, [(1, 0), (2, 3)]) := by decide

/-- KF-C15-sete-inside-sourced-file: a `set -e` issued INSIDE a sourced file is switched off again when that file ends
(model = implementation), the reference semantics keeps it -/
theorem C15_finding_sete_inside_sourced_file :
    runMain {} [("s".toList, [.source "a".toList, .stage 2 3, .stage 3 0]), ("a".toList, [.sete, .stage 1 0])] "s".toList
      = (0, [(1, 0), (2, 3), (3, 0)]) ∧
    runMain { clearAfterSource := false } [("s".toList, [.source "a".toList, .stage 2 3, .stage 3 0]), ("a".toList, [.sete, .stage 1 0])] "s".toList
      = (3, [(1, 0), (2, 3)]) := by decide

end Cicada.C15
