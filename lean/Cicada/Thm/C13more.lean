import Cicada.Thm.C13
import Cicada.Thm.C01
/-!
# C13 (growth) — double-quoted command substitutions, inert unquoted deliveries, the command text

* `C13_deliveries` (token level) : a plain command whose arguments are deliveries — double-quoted ones of
  **any** form (`"$N"`, `"${N}"`, `"$(c)"`, `` "`c`" ``) and unquoted variables `$N` / `${N}` whose value is
  *inert* (`inertValue`) — mixed freely: `do_expansion` turns each delivery token into one token holding exactly
  the value (for a substitution: the trimmed output of `c`), and the plan is one plain foreground stage whose
  arguments are exactly the values, one per delivery.  For every environment, every `cmdOut`, and every value
  that does not itself spell a command substitution (`valueOk`, the class KF-C13-value-substitution).
  The inner command `c` is a list of plain words separated by single blanks (`cmdOk`).
* `C13_dq_subst`, `C13_unquoted_safe` : the two named special cases.
* `C13_line`, `C13_line_planFuel` : the same on the command *text* `Spec/C13.renderCmd p ds` through
  `CommandLine::from_line` (`planOf`), in the vocabulary of the spec (`shapeOf`, `plainShape`, `Delivery.value`);
  `parseLine_renderCmd` is the tokenizer round trip it rests on.
-/
namespace Cicada.C13
open Cicada Cicada.PassLemmas Cicada.TokLemmas Cicada.PL

/-! ## (2a) double-quoted deliveries of every form -/

/-! ### the passes leave plain tokens alone (generalised from `Lemmas/Passes`: unquoted tokens allowed) -/


theorem expandAliasGo_false_G (e : Env) (qs : List Tok) (h : ∀ t ∈ qs, ¬ (t.1 = [] ∧ t.2 = ['|'])) :
    expandAliasGo e false qs = qs := by
  induction qs with
  | nil => rfl
  | cons t rest ih =>
    obtain ⟨sep, text⟩ := t
    have hne := h (sep, text) (by simp)
    simp only at hne
    simp [expandAliasGo, hne, ih (fun x hx => h x (by simp [hx]))]

theorem expandAlias_idG (e : Env) (p : Str) (qs : List Tok) (h : ∀ t ∈ qs, ¬ (t.1 = [] ∧ t.2 = ['|']))
    (hp1 : p ≠ ['|']) (hp2 : p ≠ "xargs".toList) (hp3 : lookup e.aliases p = none) :
    expandAlias e (([], p) :: qs) = ([], p) :: qs := by
  have hp2' : ¬ p = ['x', 'a', 'r', 'g', 's'] := hp2
  simp [expandAlias, expandAliasGo, hp1, hp2', hp3, expandAliasGo_false_G e qs h]

theorem expandHome_idG (e : Env) (p : Str) (qs : List Tok) (h : ∀ t ∈ qs, ¬ (t.1 = [] ∧ t.2.head? = some '~'))
    (hp : p.head? ≠ some '~') :
    expandHome e (([], p) :: qs) = ([], p) :: qs := by
  simp only [expandHome, List.map_cons]
  congr 1
  · simp [hp]
  · induction qs with
    | nil => rfl
    | cons t rest ih =>
      obtain ⟨a, b⟩ := t
      have := h (a, b) (by simp)
      simp only at this
      simp only [List.map_cons, this, ↓reduceIte]
      rw [ih (fun x hx => h x (by simp [hx]))]

theorem expandBrace_idG (p : Str) (qs : List Tok) (h : ∀ t ∈ qs, t.1 ≠ [] ∨ needExpandBrace t.2 = false)
    (hp : ∀ c ∈ p, c ≠ '{') :
    expandBrace (([], p) :: qs) = .ok (([], p) :: qs) := by
  have hq : expandBrace qs = .ok qs := by
    induction qs with
    | nil => rfl
    | cons t rest ih =>
      obtain ⟨sep, text⟩ := t
      have hne := h (sep, text) (by simp)
      simp only at hne
      rcases hne with hne | hne <;>
        simp [expandBrace, ih (fun x hx => h x (by simp [hx])), Outcome.bind, hne]
  simp [expandBrace, hq, Outcome.bind, needExpandBrace_false p hp]

theorem expandGlobGo_G (e : Env) (qs : List Tok) (h : ∀ t ∈ qs, t.1 ≠ [] ∨ ¬ ('*' ∈ t.2)) :
    expandGlobGo e qs = some qs := by
  induction qs with
  | nil => rfl
  | cons t rest ih =>
    obtain ⟨sep, text⟩ := t
    have hne := h (sep, text) (by simp)
    simp only at hne
    rcases hne with hne | hne <;>
      simp [expandGlobGo, globToken, hne, ih (fun x hx => h x (by simp [hx]))]

theorem expandGlob_idG (e : Env) (p : Str) (qs : List Tok) (h : ∀ t ∈ qs, t.1 ≠ [] ∨ ¬ ('*' ∈ t.2))
    (hp : ∀ c ∈ p, c ≠ '*') :
    expandGlob e (([], p) :: qs) = ([], p) :: qs := by
  have : ¬ ('*' ∈ p) := fun hm => hp '*' hm rfl
  simp [expandGlob, expandGlobGo, globToken, this, expandGlobGo_G e qs h]

theorem expandRangeGo_G (qs : List Tok) (h : ∀ t ∈ qs, t.1 ≠ [] ∨ findRange t.2 = none) : expandRangeGo qs = some qs := by
  induction qs with
  | nil => rfl
  | cons t rest ih =>
    obtain ⟨sep, text⟩ := t
    have hne := h (sep, text) (by simp)
    simp only at hne
    rcases hne with hne | hne <;>
      simp [expandRangeGo, rangeToken, hne, ih (fun x hx => h x (by simp [hx]))]

theorem expandBraceRange_idG (p : Str) (qs : List Tok) (h : ∀ t ∈ qs, t.1 ≠ [] ∨ findRange t.2 = none)
    (hp : ∀ c ∈ p, c ≠ '{') :
    expandBraceRange (([], p) :: qs) = ([], p) :: qs := by
  simp [expandBraceRange, expandRangeGo, rangeToken, findRange_none p hp, expandRangeGo_G qs h]

/-- planning a plain program word followed by argument tokens: one plain stage whose argv is the token texts -/
theorem plan_args (p : Str) (qs : List Tok) (hw : p.all wordChar = true) (hq : ∀ t ∈ qs, ArgTok t)
    (hamp : ∀ t ∈ qs, t ≠ ([], ['&'])) :
    planOfTokens (([], p) :: qs) =
      .ok { commands := [{ tokens := ([], p) :: qs, redirectsTo := [], redirectFrom := none }],
            envs := [], background := false } := by
  have hpe := word_no p hw '=' (by decide)
  have hpa : ArgTok ([], p) := by
    refine Or.inr ⟨?_, ?_, ?_, ?_⟩
    · intro e; exact word_no p hw '|' (by decide) '|' (by have e' : p = _ := e; rw [e']; simp) rfl
    · intro e
      have e' : p.head? = some '<' := e
      exact word_no p hw '<' (by decide) '<' (List.mem_of_mem_head? e') rfl
    · intro e; exact word_no p hw '&' (by decide) '&' (by have e' : p = _ := e; rw [e']; simp) rfl
    · exact word_no p hw '>' (by decide)
  have hlast : (([], p) :: qs).length > 1 → (([], p) :: qs).getLast? ≠ some ([], ['&']) := by
    intro hlen e
    have hmem := List.mem_of_getLast? e
    simp only [List.mem_cons] at hmem
    rcases hmem with h | h
    · cases hm : qs with
      | nil => rw [hm] at hlen; simp at hlen
      | cons y ys =>
        rw [hm] at e
        rw [List.getLast?_cons_cons] at e
        have hmem2 := List.mem_of_getLast? e
        rw [← hm] at hmem2
        exact hamp _ hmem2 rfl
    · exact hamp _ h rfl
  exact planOfTokens_args p _ hpe hpa hq hlast

/-! ### inner commands: plain words separated by single blanks -/

/-- characters of the text of an inner command: word characters and blanks -/
def bodyChar (c : Char) : Bool := wordChar c || c = ' '

def argWord (w : Str) : Bool := w ≠ [] && w.all wordChar

/-- the words of an inner command: a plain program word (not an alias, not `xargs`), then plain words -/
def cmdWordsOk (se : SubstEnv) : List Str → Bool
  | [] => false
  | w :: as => C01.guard se.env w [] && as.all argWord

/-- the inner command of a substitution: plain words separated by single blanks -/
def cmdOk (se : SubstEnv) (c : Str) : Bool := cmdWordsOk se (splitOnChar ' ' c)

theorem join_split (c : Str) : joinWith [' '] (splitOnChar ' ' c) = c := by
  induction c with
  | nil => rfl
  | cons x xs ih =>
    simp only [splitOnChar]
    cases h : splitOnChar ' ' xs with
    | nil => rw [h] at ih; simp [joinWith] at ih; subst ih; simp [splitOnChar] at h
    | cons p ps =>
      rw [h] at ih
      by_cases hx : x = ' '
      · simp [hx, joinWith, ih]
      · simp only [hx, ↓reduceIte]
        cases ps with
        | nil => simp [joinWith] at ih ⊢; exact ih
        | cons y ys => simp [joinWith] at ih ⊢; exact ih

def wordsText (as : List Str) : Str := (as.map (fun a => ' ' :: a)).flatten

theorem joinWith_words (w : Str) (as : List Str) : joinWith [' '] (w :: as) = w ++ wordsText as := by
  induction as generalizing w with
  | nil => simp [joinWith, wordsText]
  | cons a as ih => simp [joinWith, wordsText, ih a]

theorem go_words (as : List Str) : ∀ (r : List Tok) (t : Str) (hd : Bool), t ≠ [] → as.all argWord = true →
    finish (go (inW r t hd) (wordsText as)) = r ++ [([], t)] ++ as.map (fun a => ([], a)) := by
  induction as with
  | nil => intro r t hd ht _; simp [wordsText, go, (done_inW r t hd ht).fin]
  | cons a as ih =>
    intro r t hd ht hall
    simp only [List.all_cons, Bool.and_eq_true, argWord, decide_eq_true_eq] at hall
    obtain ⟨⟨hne, hw⟩, hrest⟩ := hall
    obtain ⟨c, cs, rfl⟩ : ∃ c cs, a = c :: cs := by
      cases a with
      | nil => exact absurd rfl hne
      | cons c cs => exact ⟨c, cs, rfl⟩
    simp only [List.all_cons, Bool.and_eq_true] at hw
    have e : wordsText ((c :: cs) :: as) = ' ' :: c :: (cs ++ wordsText as) := by simp [wordsText]
    rw [e]
    simp only [go]
    rw [step_inW_space, step_clean_word _ _ c _ hw.1, go_word cs _ [c] hd _ hw.2]
    rw [ih _ _ _ (by simp) (by simpa [argWord] using hrest)]
    simp [List.append_assoc]

theorem parseLine_words (w : Str) (as : List Str) (hw : w.all wordChar = true) (hl : w.any isAlphaA = true)
    (ha : as.all argWord = true) :
    parseLine (joinWith [' '] (w :: as)) = ([], w) :: as.map (fun a => ([], a)) := by
  have harith : isArithmetic (joinWith [' '] (w :: as)) = false := by
    apply any_alpha_not_arith
    exact joinWith_any_head _ _ _ _ hl
  obtain ⟨c, cs, rfl⟩ : ∃ c cs, w = c :: cs := by
    cases w with
    | nil => simp at hl
    | cons c cs => exact ⟨c, cs, rfl⟩
  simp only [List.all_cons, Bool.and_eq_true] at hw
  simp only [parseLine, parseLineInfo, harith, Bool.false_eq_true, ↓reduceIte]
  rw [joinWith_words]
  simp only [List.cons_append, go]
  have : ({} : St) = clean [] false := rfl
  rw [this, step_clean_word [] false c _ hw.1, go_word cs [] [c] false _ hw.2]
  rw [go_words as [] _ false (by simp) ha]
  simp

theorem argWord_facts (a : Str) (h : argWord a = true) : a ≠ [] ∧ a.all wordChar = true := by
  simpa [argWord] using h

/-- the whole expansion is the identity on plain words, and they are planned as one plain stage -/
theorem plan_words (se : SubstEnv) (w : Str) (as : List Str) (f : Nat)
    (hg : cmdWordsOk se (w :: as) = true) (hf : as.length + 3 < f) :
    planOf se f (joinWith [' '] (w :: as)) =
      .ok (.ok { commands := [{ tokens := ([], w) :: as.map (fun a => ([], a)), redirectsTo := [], redirectFrom := none }],
                 envs := [], background := false }) := by
  simp only [cmdWordsOk, C01.guard, Bool.and_eq_true, decide_eq_true_eq, List.all_eq_true] at hg
  obtain ⟨⟨⟨⟨hp, hal⟩, hx⟩, _⟩, ha⟩ := hg
  obtain ⟨hw, hl⟩ := C01.plainWord_facts w hp
  have hal' : lookup se.env.aliases w = none := by
    cases h : lookup se.env.aliases w with
    | none => rfl
    | some v => rw [h] at hal; simp at hal
  have hno : ∀ (x : Char), wordChar x = false → ∀ t ∈ as.map (fun a => (([] : Str), a)), ∀ c ∈ t.2, c ≠ x := by
    intro x hx t ht
    simp only [List.mem_map] at ht
    obtain ⟨a, ha1, rfl⟩ := ht
    exact word_no a (argWord_facts a (ha a ha1)).2 x hx
  have hne : ∀ t ∈ as.map (fun a => (([] : Str), a)), t.2 ≠ [] := by
    intro t ht
    simp only [List.mem_map] at ht
    obtain ⟨a, ha1, rfl⟩ := ht
    exact (argWord_facts a (ha a ha1)).1
  obtain ⟨f, rfl⟩ : ∃ g, f = g + 1 := ⟨f - 1, by omega⟩
  obtain ⟨f, rfl⟩ : ∃ g, f = g + 1 := ⟨f - 1, by omega⟩
  have n1 := word_no w hw '|' (by decide)
  have n2 := word_no w hw '~' (by decide)
  have n3 := word_no w hw '$' (by decide)
  have n4 := word_no w hw '{' (by decide)
  have n5 := word_no w hw '*' (by decide)
  have n6 := word_no w hw '`' (by decide)
  have hp1 : w ≠ ['|'] := by intro e; exact n1 '|' (by rw [e]; simp) rfl
  have hph : w.head? ≠ some '~' := by
    cases w with
    | nil => simp
    | cons c cs => intro e; simp at e; exact n2 c (by simp) e
  have hq1 : ∀ t ∈ as.map (fun a => (([] : Str), a)), ¬ (t.1 = [] ∧ t.2 = ['|']) := by
    intro t ht ⟨_, e⟩; exact hno '|' (by decide) t ht '|' (by rw [e]; simp) rfl
  have hq2 : ∀ t ∈ as.map (fun a => (([] : Str), a)), ¬ (t.1 = [] ∧ t.2.head? = some '~') := by
    intro t ht ⟨_, e⟩; exact hno '~' (by decide) t ht '~' (List.mem_of_mem_head? e) rfl
  have hq3 : ∀ t ∈ as.map (fun a => (([] : Str), a)), t.1 ≠ [] ∨ needExpandBrace t.2 = false :=
    fun t ht => Or.inr (needExpandBrace_false _ (hno '{' (by decide) t ht))
  have hq4 : ∀ t ∈ as.map (fun a => (([] : Str), a)), t.1 ≠ [] ∨ ¬ ('*' ∈ t.2) :=
    fun t ht => Or.inr (fun hm => hno '*' (by decide) t ht '*' hm rfl)
  have hq5 : ∀ t ∈ as.map (fun a => (([] : Str), a)), t.1 ≠ [] ∨ findRange t.2 = none :=
    fun t ht => Or.inr (findRange_none _ (hno '{' (by decide) t ht))
  have hq6 : ∀ t ∈ as.map (fun a => (([] : Str), a)), ArgTok t := by
    intro t ht
    refine Or.inr ⟨?_, ?_, ?_, hno '>' (by decide) t ht⟩
    · intro e; exact hno '|' (by decide) t ht '|' (by rw [e]; simp) rfl
    · intro e; exact hno '<' (by decide) t ht '<' (List.mem_of_mem_head? e) rfl
    · intro e; exact hno '&' (by decide) t ht '&' (by rw [e]; simp) rfl
  have hq7 : ∀ t ∈ as.map (fun a => (([] : Str), a)), t ≠ ([], ['&']) := by
    intro t ht e; exact hno '&' (by decide) t ht '&' (by rw [e]; simp) rfl
  have hns : ∀ t ∈ ([], w) :: as.map (fun a => (([] : Str), a)), NoSubst t := by
    intro t ht
    simp only [List.mem_cons] at ht
    rcases ht with rfl | ht
    · exact Or.inr ⟨Or.inr rfl, matchBackquote_none _ n6, shouldDoDollar_false _ n3⟩
    · have hs : t.1 = [] := by
        simp only [List.mem_map] at ht; obtain ⟨a, _, rfl⟩ := ht; rfl
      exact Or.inr ⟨Or.inr hs, matchBackquote_none _ (hno '`' (by decide) t ht), shouldDoDollar_false _ (hno '$' (by decide) t ht)⟩
  have harith : isArithmetic (tokensToLine (([], w) :: as.map (fun a => (([] : Str), a)))) = false := by
    apply any_alpha_not_arith
    simp only [tokensToLine, List.map_cons]
    apply joinWith_any_head
    simpa [tokenToText] using hl
  have hprompt : ¬ ((([], w) :: as.map (fun a => (([] : Str), a))).length ≥ 2 ∧
      ((([], w) :: as.map (fun a => (([] : Str), a))).getD 0 ([], [])).2 = "export".toList ∧
      startsWith ((([], w) :: as.map (fun a => (([] : Str), a))).getD 1 ([], [])).2 "PROMPT=".toList = true) := by
    intro ⟨h1, _, h3⟩
    cases as with
    | nil => simp at h1
    | cons a rest =>
      simp only [List.map_cons, List.getD_cons_succ, List.getD_cons_zero] at h3
      have := hno '=' (by decide) ([], a) (by simp)
      simp only at this
      have h6 : a.length ≥ 7 ∧ a.getD 6 ' ' = '=' := by
        revert h3
        match a with
        | [] | [_] | [_, _] | [_, _, _] | [_, _, _, _] | [_, _, _, _, _] | [_, _, _, _, _, _] => simp [startsWith]
        | a0 :: a1 :: a2 :: a3 :: a4 :: a5 :: a6 :: r => simp [startsWith]
      obtain ⟨h6a, h6b⟩ := h6
      have hm : a.getD 6 ' ' ∈ a := by
        simp only [List.getD, List.getElem?_eq_getElem (show 6 < a.length by omega), Option.getD_some]
        exact List.getElem_mem _
      exact this _ hm h6b
  simp only [planOf]
  rw [parseLine_words w as hw hl (by simpa [List.all_eq_true] using ha)]
  simp only [doExpansion, harith, Bool.false_eq_true, ↓reduceIte]
  rw [if_neg hprompt]
  rw [expandAlias_idG se.env w _ hq1 hp1 (by simpa using hx) hal', expandHome_idG se.env w _ hq2 hph]
  have henv : expandEnv se.env (([], w) :: as.map (fun a => (([] : Str), a))) = ([], w) :: as.map (fun a => (([] : Str), a)) := by
    simp only [expandEnv, List.map_cons, List.map_map]
    congr 1
    · simp [envInToken_false w n3]
    · apply List.map_congr_left
      intro a ha1
      have := envInToken_false a (hno '$' (by decide) ([], a) (List.mem_map.mpr ⟨a, ha1, rfl⟩))
      simp [this]
  rw [henv, expandBrace_idG w _ hq3 n4]
  simp only [Outcome.bind]
  rw [expandGlob_idG se.env w _ hq4 n5, substDotGo_none se _ f 0 (by simp; omega) hns]
  simp only [doExpansion.applyUpdates, List.foldl_nil]
  rw [substDollarGo_none se _ f 0 (by simp; omega) hns]
  simp only [List.foldl_nil, expandBraceRange_idG w _ hq5 n4, Outcome.map, Outcome.bind]
  rw [plan_args w _ hw hq6 hq7]

theorem split_length (c : Str) : (splitOnChar ' ' c).length ≤ c.length + 1 := by
  induction c with
  | nil => simp [splitOnChar]
  | cons x xs ih =>
    simp only [splitOnChar]
    cases h : splitOnChar ' ' xs with
    | nil => simp
    | cons p ps =>
      rw [h] at ih
      by_cases hx : x = ' ' <;> simp [hx] at ih ⊢ <;> omega

/-- running the inner command `c`: its trimmed output -/
theorem runInner_cmd (se : SubstEnv) (c : Str) (f : Nat) (h : cmdOk se c = true) (hf : c.length + 4 < f) :
    runInner se f c = .ok (some (trim (se.cmdOut c))) := by
  obtain ⟨f, rfl⟩ : ∃ g, f = g + 1 := ⟨f - 1, by omega⟩
  have hj := join_split c
  have hlen := split_length c
  unfold cmdOk at h
  cases hs : splitOnChar ' ' c with
  | nil => rw [hs] at h; simp [cmdWordsOk] at h
  | cons w as =>
    rw [hs] at h hj hlen
    have := plan_words se w as f h (by simp at hlen; omega)
    rw [hj] at this
    have hk : joinWith [' '] (w :: as.map (fun a => ((([] : Str), a) : Tok).2)) = c := by
      simpa using hj
    simp [runInner, this, planKey, joinWith, List.map_map, Function.comp_def]
    simpa using congrArg (fun x => trim (se.cmdOut x)) hk

theorem cmdOk_facts (se : SubstEnv) (c : Str) (h : cmdOk se c = true) :
    c.all bodyChar = true ∧ c ≠ [] := by
  have hj := join_split c
  unfold cmdOk at h
  cases hs : splitOnChar ' ' c with
  | nil => rw [hs] at h; simp [cmdWordsOk] at h
  | cons w as =>
    rw [hs] at h hj
    simp only [cmdWordsOk, C01.guard, Bool.and_eq_true, List.all_eq_true] at h
    obtain ⟨⟨⟨⟨hp, _⟩, _⟩, _⟩, ha⟩ := h
    obtain ⟨hw, hl⟩ := C01.plainWord_facts w hp
    have hwne : w ≠ [] := by intro e; subst e; simp at hl
    rw [joinWith_words] at hj
    constructor
    · rw [← hj, List.all_append, Bool.and_eq_true]
      constructor
      · rw [List.all_eq_true] at hw ⊢
        intro x hx; simp [bodyChar, hw x hx]
      · simp only [wordsText, List.all_flatten, List.all_map, List.all_eq_true, Function.comp]
        intro a ha1
        have := (argWord_facts a (ha a ha1)).2
        rw [List.all_eq_true] at this
        intro x hx
        simp only [List.mem_cons] at hx
        rcases hx with rfl | hx
        · decide
        · simp [bodyChar, this x hx]
    · intro e; rw [e] at hj
      cases w with
      | nil => exact hwne rfl
      | cons _ _ => simp at hj


/-- double-quoted deliveries: variables named by identifiers, substitutions of a plain-words command -/
def dqAny (se : SubstEnv) (ds : List Delivery) : Bool :=
  ds.all (fun d => d.dq &&
    (((d.form = .var || d.form = .braced) && C10.isIdent d.name) ||
     ((d.form = .dollarParen || d.form = .backquote) && cmdOk se d.name)))

theorem body_no (p : Str) (hp : p.all bodyChar = true) (x : Char) (hx : bodyChar x = false) : ∀ c ∈ p, c ≠ x := by
  intro c hc e
  subst e
  have := (List.all_eq_true.mp hp) c hc
  rw [hx] at this
  exact Bool.noConfusion this

/-- fuel the substitutions of a delivery list need: one unit per delivery plus the length of each name -/
def fuelNeed (ds : List Delivery) : Nat := ds.length + (ds.map (fun d => d.name.length)).sum

theorem fuelNeed_cons (d : Delivery) (rest : List Delivery) : fuelNeed (d :: rest) = fuelNeed rest + 1 + d.name.length := by
  simp [fuelNeed]; omega

/-! ### gates on the substitution tokens -/

theorem reDollarSpecial_paren (w : Str) (h : ∀ c ∈ w, c ≠ '$') : reDollarSpecial ('$' :: '(' :: w) = false := by
  simp [reDollarSpecial, reDollarSpecial_false w h]

theorem reDollarName_paren (w : Str) (h : ∀ c ∈ w, c ≠ '$') : reDollarName ('$' :: '(' :: w) = false := by
  have : isNameStart '(' = false := by decide
  simp [reDollarName, reDollarName_false w h, this]

theorem envInToken_paren (w : Str) (h : ∀ c ∈ w, c ≠ '$') : envInToken ('$' :: '(' :: w) = false := by
  simp [envInToken, reDollarSpecial_paren w h, reDollarName_paren w h]

theorem dropWhile_none (w : Str) (x : Char) (h : ∀ c ∈ w, c ≠ x) (r : Str) :
    (w ++ x :: r).dropWhile (· ≠ x) = x :: r ∧ (w ++ x :: r).takeWhile (· ≠ x) = w := by
  induction w with
  | nil => simp
  | cons c cs ih =>
    have hc := h c (by simp)
    have := ih (fun y hy => h y (by simp [hy]))
    simp only [ne_eq, decide_not] at this ⊢
    simp [hc, this]

theorem takeWhile_all (w : Str) (x : Char) (h : ∀ c ∈ w, c ≠ x) :
    w.takeWhile (· ≠ x) = w ∧ w.dropWhile (· ≠ x) = [] := by
  induction w with
  | nil => simp
  | cons c cs ih =>
    have hc := h c (by simp)
    have := ih (fun y hy => h y (by simp [hy]))
    simp only [ne_eq, decide_not] at this ⊢
    simp [List.dropWhile, List.takeWhile, hc, this]

theorem matchBackquote_whole (w : Str) (hne : w ≠ []) (h : ∀ c ∈ w, c ≠ '`') :
    matchBackquote ('`' :: (w ++ ['`'])) = some ([], w, []) := by
  obtain ⟨h1, h2⟩ := dropWhile_none w '`' h []
  simp only [matchBackquote, List.takeWhile, List.dropWhile, ne_eq, not_true_eq_false, decide_false]
  rw [h1, h2]
  simp [hne, noNl]

theorem reDollarParen_whole (w : Str) (hne : w ≠ []) (h : ∀ c ∈ w, c ≠ ')') :
    reDollarParen ('$' :: '(' :: (w ++ [')'])) = true := by
  obtain ⟨h1, h2⟩ := dropWhile_none w ')' h []
  simp only [reDollarParen, ne_eq, decide_true, Bool.true_and, Bool.or_eq_true, Bool.and_eq_true, decide_eq_true_eq]
  left
  rw [h1, h2]
  simp [hne]

theorem reQuotedAssignWithSubst_false (t : Str) (h : ∀ c ∈ t, c ≠ '=') : reQuotedAssignWithSubst t = false := by
  induction t with
  | nil => rfl
  | cons c cs ih =>
    have hc := h c (by simp)
    simp [reQuotedAssignWithSubst, hc, ih (fun x hx => h x (by simp [hx]))]

theorem shouldDoDollar_whole (w : Str) (hw : w.all bodyChar = true) (hne : w ≠ []) :
    shouldDoDollar ('$' :: '(' :: (w ++ [')'])) = true := by
  have n1 := body_no w hw ')' (by decide)
  have n2 := body_no w hw '=' (by decide)
  have : ∀ c ∈ '$' :: '(' :: (w ++ [')']), c ≠ '=' := by
    intro c hc; simp at hc
    rcases hc with rfl | rfl | hc | rfl
    · decide
    · decide
    · exact n2 c hc
    · decide
  simp [shouldDoDollar, reDollarParen_whole w hne n1, reQuotedAssignWithSubst_false _ this]

theorem filter_range_none (w : Str) (x : Char) (h : ∀ c ∈ w, c ≠ x) (r : Str) :
    ∀ n, n ≤ w.length → (List.range n).filter (fun i => (w ++ r).getD i ' ' = x) = [] := by
  intro n hn
  simp only [List.filter_eq_nil_iff, List.mem_range, decide_eq_true_eq]
  intro i hi e
  have hlt : i < w.length := by omega
  have : (w ++ r).getD i ' ' = w[i] := by
    simp [List.getD, List.getElem?_append_left hlt, List.getElem?_eq_getElem hlt]
  rw [this] at e
  exact h _ (List.getElem_mem hlt) e

theorem lastParen_whole (w : Str) (hne : w ≠ []) (h : ∀ c ∈ w, c ≠ ')') :
    lastParen (w ++ [')']) = some w.length := by
  have hlen : (w ++ [')']).length = w.length + 1 := by simp
  have hlast : (w ++ [')']).getD w.length ' ' = ')' := by simp [List.getD]
  have hpos : 1 ≤ w.length := by
    cases w with
    | nil => exact absurd rfl hne
    | cons _ _ => simp
  simp only [lastParen, hlen, List.range_succ, List.filter_append, filter_range_none w ')' h [')'] w.length (Nat.le_refl _)]
  simp [hpos]

theorem findDollarGroup_whole (w : Str) (hw : w.all bodyChar = true) (hne : w ≠ []) :
    findDollarGroup [] ('$' :: '(' :: (w ++ [')'])) = some ([], w, []) := by
  have n1 := body_no w hw ')' (by decide)
  have n2 := body_no w hw '\n' (by decide)
  have hnl : ∀ c ∈ w ++ [')'], c ≠ '\n' := by
    intro c hc; simp at hc
    rcases hc with hc | rfl
    · exact n2 c hc
    · decide
  simp only [findDollarGroup, ↓reduceIte, (takeWhile_all _ '\n' hnl).1, lastParen_whole w hne n1]
  simp

/-- the `$(…)` loop on the whole token `$(c)`: one round, the output is not looked at again when it is `valueOk` -/
theorem substDollarLoop_whole (se : SubstEnv) (c : Str) (f : Nat) (h : cmdOk se c = true)
    (hv : shouldDoDollar (trim (se.cmdOut c)) = false) (hf : c.length + 6 < f) :
    substDollarLoop se f ('$' :: '(' :: (c ++ [')'])) = .ok (some (trim (se.cmdOut c))) := by
  obtain ⟨hw, hne⟩ := cmdOk_facts se c h
  obtain ⟨f, rfl⟩ : ∃ g, f = g + 1 := ⟨f - 1, by omega⟩
  obtain ⟨f, rfl⟩ : ∃ g, f = g + 1 := ⟨f - 1, by omega⟩
  have hr := runInner_cmd se c (f + 1) h (by omega)
  simp only [substDollarLoop, shouldDoDollar_whole c hw hne, Bool.not_true, Bool.false_eq_true, ↓reduceIte,
    findDollarGroup_whole c hw hne, hr, spliceDollar, Option.getD_some, List.nil_append, List.append_nil, hv,
    Bool.not_false]

/-- the backquote loop on the whole token `` `c` `` -/
theorem substDotLoop_whole (se : SubstEnv) (c : Str) (f : Nat) (h : cmdOk se c = true) (hf : c.length + 5 < f) :
    substDotLoop se f [] ('`' :: (c ++ ['`'])) = .ok (trim (se.cmdOut c)) := by
  obtain ⟨hw, hne⟩ := cmdOk_facts se c h
  obtain ⟨f, rfl⟩ : ∃ g, f = g + 1 := ⟨f - 1, by omega⟩
  have hr := runInner_cmd se c f h (by omega)
  have n1 := body_no c hw '`' (by decide)
  simp [substDotLoop, matchBackquote_whole c hne n1, hr]

/-! ## (2b) deliveries in general: double-quoted of every form, unquoted variables with an inert value -/

/-- a value that, as an unquoted token, no later pass and no planning step gives a meaning to: it is not the
word `|` or `&`, does not start with `<`, holds no `>` and no `*`, and holds neither a brace list `{…,…}` nor
a range `{a..b}`.  Blanks, `;`, `#`, `~`, `=`, quotes, `(`, `)`, `&` and `|` inside a longer word, … are all
allowed.  (Spelling a command substitution is excluded separately, by `valueOk`, for quoted and unquoted
deliveries alike.) -/
def inertValue (v : Str) : Bool :=
  v ≠ ['|'] && v ≠ ['&'] && v.head? ≠ some '<' && !v.contains '>' && !v.contains '*' &&
  !needExpandBrace v && (findRange v).isNone

/-- a sufficient condition that is easy to read: none of `| & < > * {` occurs -/
def simpleValue (v : Str) : Bool := v.all (fun c => c ≠ '|' && c ≠ '&' && c ≠ '<' && c ≠ '>' && c ≠ '*' && c ≠ '{')

theorem simple_inert (v : Str) (h : simpleValue v = true) : inertValue v = true := by
  simp only [simpleValue, List.all_eq_true, Bool.and_eq_true, decide_eq_true_eq] at h
  have hb : needExpandBrace v = false := needExpandBrace_false v (fun c hc => (h c hc).2)
  have hr : findRange v = none := findRange_none v (fun c hc => (h c hc).2)
  have h1 : v ≠ ['|'] := by intro e; subst e; exact (h '|' (by simp)).1.1.1.1.1 rfl
  have h2 : v ≠ ['&'] := by intro e; subst e; exact (h '&' (by simp)).1.1.1.1.2 rfl
  have h3 : v.head? ≠ some '<' := fun e => (h '<' (List.mem_of_mem_head? e)).1.1.1.2 rfl
  have h4 : ¬ ('>' ∈ v) := fun e => (h '>' e).1.1.2 rfl
  have h5 : ¬ ('*' ∈ v) := fun e => (h '*' e).1.2 rfl
  simp [inertValue, h1, h2, h3, h4, h5, hb, hr]

/-- one delivery is inside the proved domain -/
def delivOk (se : SubstEnv) (d : Delivery) : Bool :=
  ((d.form = .var || d.form = .braced) && C10.isIdent d.name && (d.dq || inertValue (d.value se))) ||
  (d.dq && (d.form = .dollarParen || d.form = .backquote) && cmdOk se d.name)

def delivsOk (se : SubstEnv) (ds : List Delivery) : Bool := ds.all (delivOk se)

def sepOf (d : Delivery) : Str := if d.dq then ['"'] else []

/-- the token a delivery is read as -/
def tokInG (d : Delivery) : Tok := (sepOf d, (tokIn d).2)
/-- the token it must become: same quoting, the text is the value -/
def tokOutG (se : SubstEnv) (d : Delivery) : Tok := (sepOf d, d.value se)

/-- the token after `expand_env`: variables replaced -/
def tokMid1 (se : SubstEnv) (d : Delivery) : Tok :=
  match d.form with
  | .var => tokOutG se d
  | .braced => tokOutG se d
  | _ => tokInG d

/-- the token after the backquote pass: variables and backquotes replaced -/
def tokMid2 (se : SubstEnv) (d : Delivery) : Tok :=
  match d.form with
  | .dollarParen => tokInG d
  | _ => tokOutG se d

theorem delivsOk_cons (se : SubstEnv) (d : Delivery) (rest : List Delivery) :
    delivsOk se (d :: rest) = true ↔
      (((d.form = .var ∨ d.form = .braced) ∧ C10.isIdent d.name = true ∧ (d.dq = true ∨ inertValue (d.value se) = true)) ∨
        (d.dq = true ∧ (d.form = .dollarParen ∨ d.form = .backquote) ∧ cmdOk se d.name = true)) ∧ delivsOk se rest = true := by
  simp [delivsOk, delivOk, and_assoc]

theorem cmd_no (se : SubstEnv) (c : Str) (h : cmdOk se c = true) (x : Char) (hx : bodyChar x = false) : ∀ y ∈ c, y ≠ x :=
  body_no c (cmdOk_facts se c h).1 x hx

theorem sepOf_cases (d : Delivery) : sepOf d = ['"'] ∨ sepOf d = [] := by
  unfold sepOf; split <;> simp

theorem expandEnv_any (se : SubstEnv) (ds : List Delivery) (h : delivsOk se ds = true) :
    expandEnv se.env (ds.map tokInG) = ds.map (tokMid1 se) := by
  induction ds with
  | nil => rfl
  | cons d rest ih =>
    rw [delivsOk_cons] at h
    obtain ⟨hd, hrest⟩ := h
    have ihr := ih hrest
    simp only [expandEnv, List.map_cons] at ihr ⊢
    rw [ihr]
    congr 1
    have e1 : (tokInG d).1 = sepOf d := rfl
    have e2 : (tokInG d).2 = (tokIn d).2 := rfl
    have hs1 : sepOf d ≠ ['`'] := by rcases sepOf_cases d with h | h <;> simp [h]
    have hs2 : sepOf d ≠ ['\''] := by rcases sepOf_cases d with h | h <;> simp [h]
    rcases hd with ⟨hf, hn, _⟩ | ⟨_, hf, hc⟩
    · have hgate : envInToken (tokIn d).2 = true := by
        rcases hf with hf | hf
        · simp [tokIn, hf, envInToken_var d.name hn]
        · simp [tokIn, hf, envInToken_braced d.name hn]
      have hm : tokMid1 se d = tokOutG se d := by rcases hf with hf | hf <;> simp [tokMid1, hf]
      simp [e1, e2, hs1, hs2, hgate, hm, tokOutG, expandEnvs_delivery se d hf hn]
    · have n3 := cmd_no se d.name hc '$' (by decide)
      rcases hf with hf | hf
      · have hg : envInToken ('$' :: '(' :: (d.name ++ [')'])) = false := by
          apply envInToken_paren
          intro c hc'; simp at hc'
          rcases hc' with hc' | rfl
          · exact n3 c hc'
          · decide
        have e3 : (tokIn d).2 = '$' :: '(' :: (d.name ++ [')']) := by simp [tokIn, hf]
        have hm : tokMid1 se d = tokInG d := by simp [tokMid1, hf]
        simp [e3, hs1, hs2, hg, hm, tokInG]
      · have hg : envInToken ('`' :: (d.name ++ ['`'])) = false := by
          apply envInToken_false
          intro c hc'; simp at hc'
          rcases hc' with rfl | hc' | rfl
          · decide
          · exact n3 c hc'
          · decide
        have e3 : (tokIn d).2 = '`' :: (d.name ++ ['`']) := by simp [tokIn, hf]
        have hm : tokMid1 se d = tokInG d := by simp [tokMid1, hf]
        simp [e3, hs1, hs2, hg, hm, tokInG]

theorem set_at_length (pre : List Tok) (a b : Tok) (r : List Tok) :
    (pre ++ a :: r).set pre.length b = pre ++ b :: r := by
  induction pre with
  | nil => rfl
  | cons x xs ih => simp [ih]

theorem applyUpdates_cons (pre : List Tok) (sep t v : Str) (r : List Tok) (u : List (Nat × Str)) :
    doExpansion.applyUpdates (pre ++ (sep, t) :: r) ((pre.length, v) :: u) =
      doExpansion.applyUpdates (pre ++ (sep, v) :: r) u := by
  simp [doExpansion.applyUpdates]

theorem matchBackquote_paren (w : Str) (h : ∀ c ∈ w, c ≠ '`') : matchBackquote ('$' :: '(' :: (w ++ [')'])) = none := by
  apply matchBackquote_none
  intro c hc; simp at hc
  rcases hc with rfl | rfl | hc | rfl
  · decide
  · decide
  · exact h c hc
  · decide

/-- the backquote pass skips a token (quoted with `"` or unquoted) without a backquote pair -/
theorem substDotGo_skip (se : SubstEnv) (f idx : Nat) (sep t : Str) (rest : List Tok)
    (hs : sep = ['"'] ∨ sep = []) (hm : matchBackquote t = none) :
    substDotGo se (f + 1) idx ((sep, t) :: rest) = substDotGo se f (idx + 1) rest := by
  rcases hs with hs | hs <;> subst hs <;> simp [substDotGo, hm]

theorem substDollarGo_skip (se : SubstEnv) (f idx : Nat) (sep t : Str) (rest : List Tok)
    (hm : shouldDoDollar t = false) :
    substDollarGo se (f + 1) idx ((sep, t) :: rest) = substDollarGo se f (idx + 1) rest := by
  simp [substDollarGo, hm]

theorem substDot_any (se : SubstEnv) (ds : List Delivery) : ∀ (f idx : Nat) (pre : List Tok), idx = pre.length →
    delivsOk se ds = true → (∀ d ∈ ds, valueOk (d.value se) = true) → fuelNeed ds + 7 < f →
    ∃ u, substDotGo se f idx (ds.map (tokMid1 se)) = .ok u ∧
      doExpansion.applyUpdates (pre ++ ds.map (tokMid1 se)) u = pre ++ ds.map (tokMid2 se) := by
  induction ds with
  | nil =>
    intro f idx pre _ _ _ hf
    obtain ⟨f, rfl⟩ : ∃ g, f = g + 1 := ⟨f - 1, by omega⟩
    exact ⟨[], rfl, rfl⟩
  | cons d rest ih =>
    intro f idx pre hidx h hv hf
    obtain ⟨f, rfl⟩ : ∃ g, f = g + 1 := ⟨f - 1, by omega⟩
    rw [fuelNeed_cons] at hf
    rw [delivsOk_cons] at h
    obtain ⟨hd, hrest⟩ := h
    have hvd := hv d (by simp)
    simp only [valueOk, Bool.and_eq_true, Option.isNone_iff_eq_none, Bool.not_eq_true'] at hvd
    have hvr : ∀ d ∈ rest, valueOk (d.value se) = true := fun x hx => hv x (by simp [hx])
    have hfr : fuelNeed rest + 7 < f := by omega
    rcases hd with ⟨hf1, _, _⟩ | ⟨hdq, hf1, hc⟩
    · -- a variable: already a value
      have hm1 : tokMid1 se d = (sepOf d, d.value se) := by rcases hf1 with hf1 | hf1 <;> simp [tokMid1, hf1, tokOutG]
      have hm2 : tokMid2 se d = (sepOf d, d.value se) := by rcases hf1 with hf1 | hf1 <;> simp [tokMid2, hf1, tokOutG]
      obtain ⟨u, hu1, hu2⟩ := ih f (idx + 1) (pre ++ [(sepOf d, d.value se)]) (by simp [hidx]) hrest hvr hfr
      refine ⟨u, ?_, ?_⟩
      · rw [List.map_cons, hm1, substDotGo_skip se f idx _ _ _ (sepOf_cases d) hvd.1, hu1]
      · simpa [List.map_cons, hm1, hm2, List.append_assoc] using hu2
    · have n6 := cmd_no se d.name hc '`' (by decide)
      have hsep : sepOf d = ['"'] := by simp [sepOf, hdq]
      rcases hf1 with hf1 | hf1
      · -- `$(c)`: left to the next pass
        have hm1 : tokMid1 se d = (['"'], '$' :: '(' :: (d.name ++ [')'])) := by simp [tokMid1, hf1, tokInG, tokIn, hsep]
        have hm2 : tokMid2 se d = (['"'], '$' :: '(' :: (d.name ++ [')'])) := by simp [tokMid2, hf1, tokInG, tokIn, hsep]
        obtain ⟨u, hu1, hu2⟩ := ih f (idx + 1) (pre ++ [(['"'], '$' :: '(' :: (d.name ++ [')']))]) (by simp [hidx]) hrest hvr hfr
        refine ⟨u, ?_, ?_⟩
        · rw [List.map_cons, hm1, substDotGo_skip se f idx _ _ _ (Or.inl rfl) (matchBackquote_paren d.name n6), hu1]
        · simpa [List.map_cons, hm1, hm2, List.append_assoc] using hu2
      · -- `` `c` ``: replaced by the trimmed output
        have hm1 : tokMid1 se d = (['"'], '`' :: (d.name ++ ['`'])) := by simp [tokMid1, hf1, tokInG, tokIn, hsep]
        have hval : d.value se = trim (se.cmdOut d.name) := by simp [Delivery.value, hf1]
        have hm2 : tokMid2 se d = (['"'], trim (se.cmdOut d.name)) := by simp [tokMid2, hf1, tokOutG, hval, hsep]
        obtain ⟨u, hu1, hu2⟩ := ih f (idx + 1) (pre ++ [(['"'], trim (se.cmdOut d.name))]) (by simp [hidx]) hrest hvr hfr
        obtain ⟨_, hne⟩ := cmdOk_facts se d.name hc
        refine ⟨(idx, trim (se.cmdOut d.name)) :: u, ?_, ?_⟩
        · simp [List.map_cons, hm1, substDotGo, matchBackquote_whole d.name hne n6,
            substDotLoop_whole se d.name f hc (by omega), hu1, Outcome.bind, Outcome.map]
        · rw [List.map_cons, hm1, hidx, applyUpdates_cons]
          simpa [List.map_cons, hm2, List.append_assoc] using hu2

theorem substDollar_any (se : SubstEnv) (ds : List Delivery) : ∀ (f idx : Nat) (pre : List Tok), idx = pre.length →
    delivsOk se ds = true → (∀ d ∈ ds, valueOk (d.value se) = true) → fuelNeed ds + 7 < f →
    ∃ u, substDollarGo se f idx (ds.map (tokMid2 se)) = .ok (some u) ∧
      doExpansion.applyUpdates (pre ++ ds.map (tokMid2 se)) u = pre ++ ds.map (tokOutG se) := by
  induction ds with
  | nil =>
    intro f idx pre _ _ _ hf
    obtain ⟨f, rfl⟩ : ∃ g, f = g + 1 := ⟨f - 1, by omega⟩
    exact ⟨[], rfl, rfl⟩
  | cons d rest ih =>
    intro f idx pre hidx h hv hf
    obtain ⟨f, rfl⟩ : ∃ g, f = g + 1 := ⟨f - 1, by omega⟩
    rw [fuelNeed_cons] at hf
    rw [delivsOk_cons] at h
    obtain ⟨hd, hrest⟩ := h
    have hvd := hv d (by simp)
    simp only [valueOk, Bool.and_eq_true, Option.isNone_iff_eq_none, Bool.not_eq_true'] at hvd
    have hvr : ∀ d ∈ rest, valueOk (d.value se) = true := fun x hx => hv x (by simp [hx])
    have hfr : fuelNeed rest + 7 < f := by omega
    obtain ⟨u, hu1, hu2⟩ := ih f (idx + 1) (pre ++ [tokOutG se d]) (by simp [hidx]) hrest hvr hfr
    by_cases hdp : d.form = .dollarParen
    · have hc : d.dq = true ∧ cmdOk se d.name = true := by
        rcases hd with ⟨hf1, _, _⟩ | ⟨hdq, _, hc⟩
        · rcases hf1 with hf1 | hf1 <;> rw [hdp] at hf1 <;> cases hf1
        · exact ⟨hdq, hc⟩
      obtain ⟨hdq, hc⟩ := hc
      have hsep : sepOf d = ['"'] := by simp [sepOf, hdq]
      obtain ⟨hw, hne⟩ := cmdOk_facts se d.name hc
      have hm2 : tokMid2 se d = (['"'], '$' :: '(' :: (d.name ++ [')'])) := by simp [tokMid2, hdp, tokInG, tokIn, hsep]
      have hval : d.value se = trim (se.cmdOut d.name) := by simp [Delivery.value, hdp]
      have hto : tokOutG se d = (['"'], trim (se.cmdOut d.name)) := by simp [tokOutG, hval, hsep]
      rw [hval] at hvd
      refine ⟨(idx, trim (se.cmdOut d.name)) :: u, ?_, ?_⟩
      · simp [List.map_cons, hm2, substDollarGo, shouldDoDollar_whole d.name hw hne,
          substDollarLoop_whole se d.name f hc hvd.2 (by omega), hu1, Outcome.bind, Outcome.map]
      · rw [List.map_cons, hm2, hidx, applyUpdates_cons]
        simpa [List.map_cons, hto, List.append_assoc] using hu2
    · have hm2 : tokMid2 se d = tokOutG se d := by
        cases hform : d.form <;> simp_all [tokMid2]
      refine ⟨u, ?_, ?_⟩
      · rw [List.map_cons, hm2]
        simp only [tokOutG]
        rw [substDollarGo_skip se f idx _ _ _ hvd.2, hu1]
      · simpa [List.map_cons, hm2, List.append_assoc] using hu2

theorem inertValue_facts (v : Str) (h : inertValue v = true) :
    v ≠ ['|'] ∧ v ≠ ['&'] ∧ v.head? ≠ some '<' ∧ (∀ c ∈ v, c ≠ '>') ∧ ¬ ('*' ∈ v) ∧
    needExpandBrace v = false ∧ findRange v = none := by
  simp only [inertValue, Bool.and_eq_true, decide_eq_true_eq, Bool.not_eq_true', Option.isNone_iff_eq_none] at h
  obtain ⟨⟨⟨⟨⟨⟨h1, h2⟩, h3⟩, h4⟩, h5⟩, h6⟩, h7⟩ := h
  refine ⟨h1, h2, h3, ?_, by simpa using h5, h6, h7⟩
  intro c hc e; subst e
  simp at h4; exact h4 hc

/-- **C13, deliveries in general.**  A plain command whose arguments are deliveries — double-quoted ones of
every form (`"$N"`, `"${N}"`, `"$(c)"`, `` "`c`" ``) and unquoted variables `$N`, `${N}` whose value is inert —
in any mixture: the expansion turns each delivery token into one token holding exactly the value (same
quoting), and the plan is one plain foreground stage, no redirection, no stdin source, no environment,
whose arguments are exactly the values, one argument per delivery. -/
theorem C13_deliveries (se : SubstEnv) (p : Str) (ds : List Delivery) (f : Nat)
    (hp : C01.plainWord p = true) (ha : lookup se.env.aliases p = none) (hx : p ≠ "xargs".toList)
    (hd : delivsOk se ds = true) (hv : ∀ d ∈ ds, valueOk (d.value se) = true) (hf : fuelNeed ds + 9 < f) :
    doExpansion se f (([], p) :: ds.map tokInG) = .ok (([], p) :: ds.map (tokOutG se)) ∧
    planOfTokens (([], p) :: ds.map (tokOutG se)) =
      .ok { commands := [{ tokens := ([], p) :: ds.map (tokOutG se), redirectsTo := [], redirectFrom := none }],
            envs := [], background := false } ∧
    (ds.map (tokOutG se)).map (·.2) = ds.map (·.value se) := by
  obtain ⟨hw, hl⟩ := C01.plainWord_facts p hp
  have hall : ∀ d ∈ ds, delivOk se d = true := by simpa [delivsOk] using hd
  -- facts about each delivery
  have hdel : ∀ d ∈ ds, sepOf d ≠ [] ∨ inertValue (d.value se) = true := by
    intro d hd'
    have := hall d hd'
    simp only [delivOk, Bool.or_eq_true, Bool.and_eq_true, decide_eq_true_eq] at this
    rcases this with ⟨_, h | h⟩ | ⟨⟨h, _⟩, _⟩
    · left; simp [sepOf, h]
    · right; exact h
    · left; simp [sepOf, h]
  have hsubst : ∀ d ∈ ds, (d.form = .dollarParen ∨ d.form = .backquote) → sepOf d ≠ [] := by
    intro d hd' hform
    have := hall d hd'
    simp only [delivOk, Bool.or_eq_true, Bool.and_eq_true, decide_eq_true_eq] at this
    rcases this with ⟨⟨h, _⟩, _⟩ | ⟨⟨h, _⟩, _⟩
    · rcases h with h | h <;> rcases hform with g | g <;> rw [g] at h <;> cases h
    · simp [sepOf, h]
  have hin1 : ∀ t ∈ ds.map tokInG, ¬ (t.1 = [] ∧ t.2 = ['|']) := by
    intro t ht; simp only [List.mem_map] at ht; obtain ⟨d, _, rfl⟩ := ht
    intro ⟨_, h2⟩; revert h2
    cases hform : d.form <;> simp [tokInG, tokIn, hform]
  have hin2 : ∀ t ∈ ds.map tokInG, ¬ (t.1 = [] ∧ t.2.head? = some '~') := by
    intro t ht; simp only [List.mem_map] at ht; obtain ⟨d, _, rfl⟩ := ht
    intro ⟨_, h2⟩; revert h2
    cases hform : d.form <;> simp [tokInG, tokIn, hform]
  have hmidB : ∀ t ∈ ds.map (tokMid1 se), t.1 ≠ [] ∨ needExpandBrace t.2 = false := by
    intro t ht; simp only [List.mem_map] at ht; obtain ⟨d, hd', rfl⟩ := ht
    cases hform : d.form
    · rcases hdel d hd' with h | h
      · left; simpa [tokMid1, hform, tokOutG] using h
      · right; simpa [tokMid1, hform, tokOutG] using (inertValue_facts _ h).2.2.2.2.2.1
    · rcases hdel d hd' with h | h
      · left; simpa [tokMid1, hform, tokOutG] using h
      · right; simpa [tokMid1, hform, tokOutG] using (inertValue_facts _ h).2.2.2.2.2.1
    · left; simpa [tokMid1, hform, tokInG] using hsubst d hd' (Or.inl hform)
    · left; simpa [tokMid1, hform, tokInG] using hsubst d hd' (Or.inr hform)
  have hmidG : ∀ t ∈ ds.map (tokMid1 se), t.1 ≠ [] ∨ ¬ ('*' ∈ t.2) := by
    intro t ht; simp only [List.mem_map] at ht; obtain ⟨d, hd', rfl⟩ := ht
    cases hform : d.form
    · rcases hdel d hd' with h | h
      · left; simpa [tokMid1, hform, tokOutG] using h
      · right; simpa [tokMid1, hform, tokOutG] using (inertValue_facts _ h).2.2.2.2.1
    · rcases hdel d hd' with h | h
      · left; simpa [tokMid1, hform, tokOutG] using h
      · right; simpa [tokMid1, hform, tokOutG] using (inertValue_facts _ h).2.2.2.2.1
    · left; simpa [tokMid1, hform, tokInG] using hsubst d hd' (Or.inl hform)
    · left; simpa [tokMid1, hform, tokInG] using hsubst d hd' (Or.inr hform)
  have houtR : ∀ t ∈ ds.map (tokOutG se), t.1 ≠ [] ∨ findRange t.2 = none := by
    intro t ht; simp only [List.mem_map] at ht; obtain ⟨d, hd', rfl⟩ := ht
    rcases hdel d hd' with h | h
    · left; simpa [tokOutG] using h
    · right; simpa [tokOutG] using (inertValue_facts _ h).2.2.2.2.2.2
  have houtA : ∀ t ∈ ds.map (tokOutG se), ArgTok t := by
    intro t ht; simp only [List.mem_map] at ht; obtain ⟨d, hd', rfl⟩ := ht
    rcases hdel d hd' with h | h
    · left; simpa [tokOutG] using h
    · obtain ⟨a1, a2, a3, a4, _⟩ := inertValue_facts _ h
      exact Or.inr ⟨a1, a3, a2, a4⟩
  have houtAmp : ∀ t ∈ ds.map (tokOutG se), t ≠ ([], ['&']) := by
    intro t ht; simp only [List.mem_map] at ht; obtain ⟨d, hd', rfl⟩ := ht
    rcases hdel d hd' with h | h
    · intro e; simp [tokOutG] at e; exact h e.1
    · intro e; simp [tokOutG] at e; exact (inertValue_facts _ h).2.1 e.2
  refine ⟨?_, plan_args p _ hw houtA houtAmp, by simp [tokOutG]⟩
  obtain ⟨f, rfl⟩ : ∃ g, f = g + 1 := ⟨f - 1, by omega⟩
  obtain ⟨f, rfl⟩ : ∃ g, f = g + 1 := ⟨f - 1, by omega⟩
  have n1 := word_no p hw '|' (by decide)
  have n2 := word_no p hw '~' (by decide)
  have n3 := word_no p hw '$' (by decide)
  have n4 := word_no p hw '{' (by decide)
  have n5 := word_no p hw '*' (by decide)
  have n6 := word_no p hw '`' (by decide)
  have hp1 : p ≠ ['|'] := by intro e; exact n1 '|' (by rw [e]; simp) rfl
  have hph : p.head? ≠ some '~' := by
    cases p with
    | nil => simp
    | cons c cs => intro e; simp at e; exact n2 c (by simp) e
  have harith : isArithmetic (tokensToLine (([], p) :: ds.map tokInG)) = false := by
    apply any_alpha_not_arith
    simp only [tokensToLine, List.map_cons]
    apply joinWith_any_head
    simpa [tokenToText] using hl
  have hprompt : ¬ ((([], p) :: ds.map tokInG).length ≥ 2 ∧ ((([], p) :: ds.map tokInG).getD 0 ([], [])).2 = "export".toList ∧
      startsWith ((([], p) :: ds.map tokInG).getD 1 ([], [])).2 "PROMPT=".toList = true) := by
    intro ⟨h1, _, h3⟩
    cases ds with
    | nil => simp at h1
    | cons d rest =>
      simp only [List.map_cons, List.getD_cons_succ, List.getD_cons_zero] at h3
      revert h3
      simp only [tokInG, tokIn]
      cases hform : d.form <;> simp [startsWith]
  have henv : expandEnv se.env (([], p) :: ds.map tokInG) = ([], p) :: ds.map (tokMid1 se) := by
    have := expandEnv_any se ds hd
    simp only [expandEnv, List.map_cons] at this ⊢
    rw [this]
    simp [envInToken_false p n3]
  obtain ⟨u1, hu1, ha1⟩ := substDot_any se ds f 1 [([], p)] rfl hd hv (by omega)
  obtain ⟨u2, hu2, ha2⟩ := substDollar_any se ds f 1 [([], p)] rfl hd hv (by omega)
  have hdot : substDotGo se (f + 1) 0 (([], p) :: ds.map (tokMid1 se)) = .ok u1 := by
    simp [substDotGo, matchBackquote_none p n6, hu1]
  have hdol : substDollarGo se (f + 1) 0 (([], p) :: ds.map (tokMid2 se)) = .ok (some u2) := by
    simp [substDollarGo, shouldDoDollar_false p n3, hu2]
  simp only [doExpansion, harith, Bool.false_eq_true, ↓reduceIte]
  rw [if_neg hprompt]
  rw [expandAlias_idG se.env p _ hin1 hp1 hx ha, expandHome_idG se.env p _ hin2 hph, henv, expandBrace_idG p _ hmidB n4]
  simp only [Outcome.bind]
  rw [expandGlob_idG se.env p _ hmidG n5, hdot]
  simp only
  have ha1' : doExpansion.applyUpdates (([], p) :: ds.map (tokMid1 se)) u1 = ([], p) :: ds.map (tokMid2 se) := by
    simpa using ha1
  have ha2' : doExpansion.applyUpdates (([], p) :: ds.map (tokMid2 se)) u2 = ([], p) :: ds.map (tokOutG se) := by
    simpa using ha2
  rw [ha1', hdol]
  simp only [ha2', expandBraceRange_idG p _ houtR n4]

/-! ### the two named corollaries -/

theorem dqAny_delivsOk (se : SubstEnv) (ds : List Delivery) (h : dqAny se ds = true) :
    delivsOk se ds = true ∧ ds.map tokInG = ds.map tokIn ∧ ds.map (tokOutG se) = ds.map (tokOut se) := by
  simp only [dqAny, List.all_eq_true, Bool.and_eq_true, Bool.or_eq_true, decide_eq_true_eq] at h
  refine ⟨?_, ?_, ?_⟩
  · simp only [delivsOk, delivOk, List.all_eq_true, Bool.and_eq_true, Bool.or_eq_true, decide_eq_true_eq]
    intro d hd
    obtain ⟨hdq, h1 | h1⟩ := h d hd
    · exact Or.inl ⟨h1, Or.inl hdq⟩
    · exact Or.inr ⟨⟨hdq, h1.1⟩, h1.2⟩
  · apply List.map_congr_left
    intro d hd
    simp [tokInG, sepOf, (h d hd).1, tokIn]
  · apply List.map_congr_left
    intro d hd
    simp [tokOutG, sepOf, (h d hd).1, tokOut]

/-- **C13, double-quoted deliveries of every form** (variables and both command substitutions, mixed):
the expansion replaces each delivery token by one double-quoted token holding exactly the value (for a
substitution: the trimmed output of the command), and the plan is one plain foreground stage whose
arguments are exactly these values — whatever characters the values hold, as long as they do not themselves
spell a command substitution (`valueOk`). -/
theorem C13_dq_subst (se : SubstEnv) (p : Str) (ds : List Delivery) (f : Nat)
    (hp : C01.plainWord p = true) (ha : lookup se.env.aliases p = none) (hx : p ≠ "xargs".toList)
    (hd : dqAny se ds = true) (hv : ∀ d ∈ ds, valueOk (d.value se) = true) (hf : fuelNeed ds + 9 < f) :
    doExpansion se f (([], p) :: ds.map tokIn) = .ok (([], p) :: ds.map (tokOut se)) ∧
    planOfTokens (([], p) :: ds.map (tokOut se)) =
      .ok { commands := [{ tokens := ([], p) :: ds.map (tokOut se), redirectsTo := [], redirectFrom := none }],
            envs := [], background := false } ∧
    (ds.map (tokOut se)).map (·.2) = ds.map (·.value se) := by
  obtain ⟨h1, h2, h3⟩ := dqAny_delivsOk se ds hd
  have := C13_deliveries se p ds f hp ha hx h1 hv hf
  rwa [h2, h3] at this

/-- unquoted variable deliveries with an inert value -/
def unquotedVars (se : SubstEnv) (ds : List Delivery) : Bool :=
  ds.all (fun d => !d.dq && (d.form = .var || d.form = .braced) && C10.isIdent d.name && inertValue (d.value se))

/-- **C13, unquoted variables with an inert value**: `prog $A ${B} …` — each value arrives as exactly one
argument (no word splitting happens at all: blanks inside the value stay inside the argument), plain shape. -/
theorem C13_unquoted_safe (se : SubstEnv) (p : Str) (ds : List Delivery) (f : Nat)
    (hp : C01.plainWord p = true) (ha : lookup se.env.aliases p = none) (hx : p ≠ "xargs".toList)
    (hd : unquotedVars se ds = true) (hv : ∀ d ∈ ds, valueOk (d.value se) = true) (hf : fuelNeed ds + 9 < f) :
    doExpansion se f (([], p) :: ds.map (fun d => ([], (tokIn d).2))) = .ok (([], p) :: ds.map (fun d => ([], d.value se))) ∧
    planOfTokens (([], p) :: ds.map (fun d => ([], d.value se))) =
      .ok { commands := [{ tokens := ([], p) :: ds.map (fun d => ([], d.value se)), redirectsTo := [], redirectFrom := none }],
            envs := [], background := false } := by
  simp only [unquotedVars, List.all_eq_true, Bool.and_eq_true, Bool.or_eq_true, decide_eq_true_eq,
    Bool.not_eq_true'] at hd
  have h1 : delivsOk se ds = true := by
    simp only [delivsOk, delivOk, List.all_eq_true, Bool.and_eq_true, Bool.or_eq_true, decide_eq_true_eq]
    intro d hd'
    obtain ⟨⟨⟨_, hf1⟩, hn⟩, hi⟩ := hd d hd'
    exact Or.inl ⟨⟨hf1, hn⟩, Or.inr hi⟩
  have h2 : ds.map tokInG = ds.map (fun d => ([], (tokIn d).2)) := by
    apply List.map_congr_left
    intro d hd'
    simp [tokInG, sepOf, (hd d hd').1.1.1]
  have h3 : ds.map (tokOutG se) = ds.map (fun d => ([], d.value se)) := by
    apply List.map_congr_left
    intro d hd'
    simp [tokOutG, sepOf, (hd d hd').1.1.1]
  have := C13_deliveries se p ds f hp ha hx h1 hv hf
  rw [h2, h3] at this
  exact ⟨this.1, this.2.1⟩

/-! ## the same on the command text: tokenizer round trip, then `CommandLine::from_line` -/

section Line
open Cicada.PL

theorem step_inDqG (r : List Tok) (t : Str) (hd : Bool) (c : Char) (n : Option Char)
    (h3 : c ≠ '\\') (h4 : c ≠ '"') :
    step (inQ r '"' t hd) c n = inQ r '"' (t ++ [c]) (hd || decide (c = '$')) := by
  have h4' : ¬ '"' = c := fun h => h4 h.symm
  by_cases hdl : c = '$' <;> by_cases hp : c = '|' <;> by_cases hs : c = ' ' <;> by_cases hq : c = '\'' <;>
    by_cases hb : c = '`' <;> by_cases ho : c = '(' <;> by_cases hc : c = ')' <;>
    simp_all [step, stepMid, stepTail, inQ, isQ]

theorem step_clean_dollar (r : List Tok) (hd : Bool) (n : Option Char) :
    step (clean r hd) '$' n = inW r ['$'] true := by
  simp [step, clean, inW, isQ]

theorem step_inW_brace (r : List Tok) (t : Str) (hd : Bool) (c : Char) (n : Option Char) (h : c = '{' ∨ c = '}') :
    step (inW r t hd) c n = inW r (t ++ [c]) hd := by
  rcases h with h | h <;> subst h <;> simp [step, stepMid, stepTail, inW, isQ]

theorem go_dq_bodyG (body : Str) : ∀ (r : List Tok) (t : Str) (hd : Bool) (rest : Str),
    (∀ c ∈ body, c ≠ '\\' ∧ c ≠ '"') →
    go (inQ r '"' t hd) (body ++ rest) = go (inQ r '"' (t ++ body) (hd || body.any (· = '$'))) rest := by
  induction body with
  | nil => intro r t hd rest _; simp
  | cons c cs ih =>
    intro r t hd rest h
    obtain ⟨h3, h4⟩ := h c (by simp)
    simp only [List.cons_append, go]
    rw [step_inDqG r t hd c _ h3 h4, ih _ _ _ _ (fun x hx => h x (by simp [hx]))]
    simp [List.append_assoc, Bool.or_assoc]

/-- the text between the quotes (or the whole text, unquoted) of a delivery -/
def core (d : Delivery) : Str := (tokIn d).2

theorem render_eq (d : Delivery) : d.render = if d.dq then ['"'] ++ core d ++ ['"'] else core d := by
  unfold Delivery.render core tokIn
  cases d.form <;> rfl

/-- syntactic part of `delivOk`: names are identifiers, commands are plain words, substitutions are quoted -/
def syntaxOk (d : Delivery) : Bool :=
  ((d.form = .var || d.form = .braced) && C10.isIdent d.name) ||
  (d.dq && (d.form = .dollarParen || d.form = .backquote) && d.name.all bodyChar)

theorem ident_word (n : Str) (h : C10.isIdent n = true) : n.all wordChar = true := by
  obtain ⟨c, cs, rfl, _, hall⟩ := ident_facts n h
  rw [List.all_eq_true]
  intro x hx
  have := hall x hx
  simp only [isNameChar, wordChar, Bool.or_eq_true] at this ⊢
  rcases this with (a | a) | a <;> simp [a]

theorem core_noq (d : Delivery) (h : syntaxOk d = true) : ∀ c ∈ core d, c ≠ '\\' ∧ c ≠ '"' := by
  have hw : d.name.all bodyChar = true := by
    simp only [syntaxOk, Bool.or_eq_true, Bool.and_eq_true] at h
    rcases h with ⟨_, h⟩ | ⟨_, h⟩
    · have := ident_word _ h
      rw [List.all_eq_true] at this ⊢
      intro x hx; simp [bodyChar, this x hx]
    · exact h
  have n1 := body_no d.name hw '\\' (by decide)
  have n2 := body_no d.name hw '"' (by decide)
  intro c hc
  unfold core tokIn at hc
  cases hform : d.form <;> simp [hform] at hc
  · rcases hc with rfl | hc
    · decide
    · exact ⟨n1 c hc, n2 c hc⟩
  · rcases hc with rfl | rfl | hc | rfl
    · decide
    · decide
    · exact ⟨n1 c hc, n2 c hc⟩
    · decide
  · rcases hc with rfl | rfl | hc | rfl
    · decide
    · decide
    · exact ⟨n1 c hc, n2 c hc⟩
    · decide
  · rcases hc with rfl | hc | rfl
    · decide
    · exact ⟨n1 c hc, n2 c hc⟩
    · decide

/-- reading one delivery from between words -/
theorem go_delivery (d : Delivery) (r : List Tok) (hd : Bool) (rest : Str) (h : syntaxOk d = true) :
    ∃ s' hd', go (clean r hd) (d.render ++ rest) = go s' rest ∧ Done s' (r ++ [tokInG d]) hd' := by
  by_cases hdq : d.dq = true
  · refine ⟨doneQ r '"' (core d) (hd || (core d).any (· = '$')), (hd || (core d).any (· = '$')), ?_, ?_⟩
    · rw [render_eq]
      simp only [hdq, ↓reduceIte, List.cons_append, List.nil_append, List.append_assoc, go]
      rw [step_clean_quote r hd '"' _ (Or.inr rfl), go_dq_bodyG (core d) r [] hd _ (core_noq d h)]
      simp only [List.nil_append, go]
      rw [step_close _ _ _ '"' _ (Or.inr rfl)]
    · have : tokInG d = (['"'], core d) := by simp [tokInG, sepOf, hdq, core]
      rw [this]
      exact done_doneQ r '"' (core d) _ (Or.inr rfl)
  · have hdq' : d.dq = false := by simpa using hdq
    simp only [syntaxOk, hdq', Bool.false_and, Bool.or_false, Bool.and_eq_true, Bool.or_eq_true, decide_eq_true_eq] at h
    obtain ⟨hf, hn⟩ := h
    have hw := ident_word _ hn
    have ht : tokInG d = ([], core d) := by simp [tokInG, sepOf, hdq', core]
    rw [render_eq, ht]
    simp only [hdq', Bool.false_eq_true, ↓reduceIte]
    rcases hf with hf | hf
    · have hc : core d = '$' :: d.name := by simp [core, tokIn, hf]
      refine ⟨inW r ('$' :: d.name) true, true, ?_, ?_⟩
      · rw [hc]
        simp only [List.cons_append, go]
        rw [step_clean_dollar, go_word d.name r ['$'] true rest hw]
        rfl
      · rw [hc]; exact done_inW r _ true (by simp)
    · have hc : core d = '$' :: '{' :: (d.name ++ ['}']) := by simp [core, tokIn, hf]
      refine ⟨inW r ('$' :: '{' :: (d.name ++ ['}'])) true, true, ?_, ?_⟩
      · rw [hc]
        simp only [List.cons_append, List.append_assoc, go]
        rw [step_clean_dollar, step_inW_brace r _ true '{' _ (Or.inl rfl), go_word d.name r _ true _ hw]
        simp only [List.cons_append, List.nil_append, go]
        rw [step_inW_brace r _ true '}' _ (Or.inr rfl)]
        simp
      · rw [hc]; exact done_inW r _ true (by simp)

def delivText (ds : List Delivery) : Str := (ds.map (fun d => ' ' :: d.render)).flatten

theorem go_deliveries (ds : List Delivery) : ∀ (s : St) (r' : List Tok) (hd : Bool) (rest : Str),
    Done s r' hd → ds.all syntaxOk = true →
    ∃ s' hd', go s (delivText ds ++ rest) = go s' rest ∧ Done s' (r' ++ ds.map tokInG) hd' := by
  induction ds with
  | nil => intro s r' hd rest hD _; exact ⟨s, hd, by simp [delivText], by simpa using hD⟩
  | cons d xs ih =>
    intro s r' hd rest hD hall
    simp only [List.all_cons, Bool.and_eq_true] at hall
    obtain ⟨s1, hd1, hgo, hD1⟩ := go_delivery d r' hd (delivText xs ++ rest) hall.1
    obtain ⟨s', hd', hgo', hD'⟩ := ih s1 (r' ++ [tokInG d]) hd1 rest hD1 hall.2
    refine ⟨s', hd', ?_, ?_⟩
    · have e : delivText (d :: xs) ++ rest = ' ' :: (d.render ++ (delivText xs ++ rest)) := by
        simp [delivText, List.append_assoc]
      rw [e]
      simp only [go]
      rw [hD.space, hgo, hgo']
    · simpa [List.append_assoc] using hD'

/-- **tokenizer round trip** for a command made of deliveries -/
theorem parseLine_renderCmd (p : Str) (ds : List Delivery)
    (hw : p.all wordChar = true) (hl : p.any isAlphaA = true) (ha : ds.all syntaxOk = true) :
    parseLine (renderCmd p ds) = ([], p) :: ds.map tokInG := by
  have hne : p ≠ [] := by intro e; subst e; simp at hl
  have harith : isArithmetic (renderCmd p ds) = false := by
    apply any_alpha_not_arith
    simp [renderCmd, List.any_append, hl]
  obtain ⟨c, cs, rfl⟩ : ∃ c cs, p = c :: cs := by
    cases p with
    | nil => exact absurd rfl hne
    | cons c cs => exact ⟨c, cs, rfl⟩
  simp only [List.all_cons, Bool.and_eq_true] at hw
  have h0 : go {} (renderCmd (c :: cs) ds) = go (inW [] (c :: cs) false) (delivText ds) := by
    simp only [renderCmd, List.cons_append, go]
    have : ({} : St) = clean [] false := rfl
    rw [this, step_clean_word [] false c _ hw.1, go_word cs [] [c] false _ hw.2]
    simp [delivText]
  obtain ⟨s', hd', hgo, hD⟩ := go_deliveries ds (inW [] (c :: cs) false) ([] ++ [([], c :: cs)]) false []
    (done_inW [] (c :: cs) false (by simp)) ha
  simp only [parseLine, parseLineInfo, harith, Bool.false_eq_true, ↓reduceIte]
  rw [h0]
  have : delivText ds = delivText ds ++ [] := by simp
  rw [this, hgo]
  simp only [go]
  rw [hD.fin]
  simp


theorem delivsOk_syntax (se : SubstEnv) (ds : List Delivery) (h : delivsOk se ds = true) : ds.all syntaxOk = true := by
  simp only [delivsOk, List.all_eq_true] at h ⊢
  intro d hd
  have := h d hd
  simp only [delivOk, Bool.or_eq_true, Bool.and_eq_true, decide_eq_true_eq] at this
  simp only [syntaxOk, Bool.or_eq_true, Bool.and_eq_true, decide_eq_true_eq]
  rcases this with ⟨h1, _⟩ | ⟨h1, h2⟩
  · exact Or.inl h1
  · exact Or.inr ⟨h1, (cmdOk_facts se d.name h2).1⟩

/-- **C13 on the command text.**  For the text `p d₁ … dₙ` (`Spec/C13.renderCmd`) whose deliveries are
double-quoted of any form or unquoted variables with an inert value, `CommandLine::from_line` succeeds with a
plan of the plain shape (one stage, no redirection, no stdin source, foreground, no environment) whose argv
is exactly `p` followed by the values, one argument per delivery. -/
theorem C13_line (se : SubstEnv) (p : Str) (ds : List Delivery) (f : Nat)
    (hp : C01.plainWord p = true) (ha : lookup se.env.aliases p = none) (hx : p ≠ "xargs".toList)
    (hd : delivsOk se ds = true) (hv : ∀ d ∈ ds, valueOk (d.value se) = true) (hf : fuelNeed ds + 10 < f) :
    ∃ plan, planOf se f (renderCmd p ds) = .ok (.ok plan) ∧ shapeOf plan = plainShape ∧
      plan.commands.map (fun c => c.tokens.map (·.2)) = [p :: ds.map (·.value se)] := by
  obtain ⟨hw, hl⟩ := C01.plainWord_facts p hp
  obtain ⟨f, rfl⟩ : ∃ g, f = g + 1 := ⟨f - 1, by omega⟩
  obtain ⟨h1, h2, h3⟩ := C13_deliveries se p ds f hp ha hx hd hv (by omega)
  refine ⟨{ commands := [{ tokens := ([], p) :: ds.map (tokOutG se), redirectsTo := [], redirectFrom := none }],
            envs := [], background := false }, ?_, ?_, ?_⟩
  · simp only [planOf]
    rw [parseLine_renderCmd p ds hw hl (delivsOk_syntax se ds hd), h1]
    simp only [Outcome.map, Outcome.bind, h2]
  · simp [shapeOf, plainShape]
  · simpa using h3

theorem name_le_render (d : Delivery) : d.name.length ≤ d.render.length := by
  unfold Delivery.render
  cases d.form <;> cases d.dq <;> simp <;> omega

/-- the fuel of the driver (`planFuel`) is enough -/
theorem planFuel_enough (p : Str) (ds : List Delivery) : fuelNeed ds + 10 < planFuel (renderCmd p ds) := by
  have key : ∀ l : List Delivery, fuelNeed l ≤ 2 * (delivText l).length := by
    intro l
    induction l with
    | nil => simp [fuelNeed]
    | cons x xs ih =>
      have := name_le_render x
      rw [fuelNeed_cons]
      simp only [delivText, List.map_cons, List.flatten_cons, List.length_append, List.length_cons] at ih ⊢
      omega
  have := key ds
  have e : (renderCmd p ds).length = p.length + (delivText ds).length := by simp [renderCmd, delivText]
  simp only [planFuel, e]; omega

/-- `C13_line` with the driver's fuel -/
theorem C13_line_planFuel (se : SubstEnv) (p : Str) (ds : List Delivery)
    (hp : C01.plainWord p = true) (ha : lookup se.env.aliases p = none) (hx : p ≠ "xargs".toList)
    (hd : delivsOk se ds = true) (hv : ∀ d ∈ ds, valueOk (d.value se) = true) :
    ∃ plan, planOf se (planFuel (renderCmd p ds)) (renderCmd p ds) = .ok (.ok plan) ∧ shapeOf plan = plainShape ∧
      plan.commands.map (fun c => c.tokens.map (·.2)) = [p :: ds.map (·.value se)] :=
  C13_line se p ds _ hp ha hx hd hv (planFuel_enough p ds)

end Line

/-! ### non-vacuity -/

/-- a mixed command: `prog "$(id -u root)" "`id`" "$X" "${Y}" $U ${V}`, output and values full of metacharacters -/
def exEnv : SubstEnv :=
  { env := { vars := [("X".toList, "a | b > c ; d & $Z *".toList), ("U".toList, "two words; # ~ = 'q' a|b (x) {y}".toList),
                      ("V".toList, "k&r".toList)] },
    cmdOut := fun k => if k = "id".toList then "  uid=0 > x | y & `z\n".toList
                       else if k = "id -u root".toList then "\t0 ; rm -rf * \n".toList else [] }

def exDs : List Delivery :=
  [⟨.dollarParen, "id -u root".toList, true⟩, ⟨.backquote, "id".toList, true⟩, ⟨.var, "X".toList, true⟩, ⟨.braced, "Y".toList, true⟩,
   ⟨.var, "U".toList, false⟩, ⟨.braced, "V".toList, false⟩]

example : C01.plainWord "prog".toList = true ∧ lookup exEnv.env.aliases "prog".toList = none ∧
    delivsOk exEnv exDs = true ∧ (∀ d ∈ exDs, valueOk (d.value exEnv) = true) ∧
    dqAny exEnv (exDs.take 4) = true ∧ unquotedVars exEnv (exDs.drop 4) = true ∧
    exDs.map (·.value exEnv) =
      ["0 ; rm -rf *".toList, "uid=0 > x | y & `z".toList, "a | b > c ; d & $Z *".toList, [],
       "two words; # ~ = 'q' a|b (x) {y}".toList, "k&r".toList] := by
  decide

/-- the token lists of the theorem are what the tokenizer produces for the command text -/
example : parseLine "prog \"$(id -u root)\" \"`id`\" \"$X\" \"${Y}\" $U ${V}".toList = ([], "prog".toList) :: exDs.map tokInG := by
  decide +kernel

/-- … and the command text of the line theorem -/
example : renderCmd "prog".toList exDs = "prog \"$(id -u root)\" \"`id`\" \"$X\" \"${Y}\" $U ${V}".toList := by decide

/-- outside `inertValue`: the operator findings of `Thm/C13.lean` -/
example : inertValue "|".toList = false ∧ inertValue "a>b".toList = false ∧ inertValue "&".toList = false ∧
    inertValue "<f".toList = false ∧ inertValue "*.c".toList = false ∧ inertValue "{a,b}".toList = false ∧
    inertValue "{1..3}".toList = false := by decide

end Cicada.C13
