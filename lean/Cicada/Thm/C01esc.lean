import Cicada.Lemmas.C01Esc
import Cicada.Thm.C01
/-!
# C01 — the ESCAPED style and the `| q` context

`C01_esc_partial` : for argument lists that mix all three styles (single quotes, double quotes, backslash
escapes) and all five contexts, under the decidable input guard `guardEsc`, the first pipeline is planned with
exactly the expected argv (`Holds01`).  `guardEsc` is the complement of the finding classes of
`Cicada.C01.classify` (`guardEsc_classify`, `classify_guardEsc`), plus — in the `| q` context only — the side
condition that the decoy word `q` is not an alias (the reference semantics `expectedObs` silently assumes it).

`C01_pipe_partial` : the `| q` context for arguments in single or double quotes (corollary).
-/
namespace Cicada.C01
open Cicada Cicada.TokLemmas Cicada.PassLemmas Cicada.C03

/-! ## the guard -/

/-- an escaped argument holds none of the characters of the finding classes esc-backquote, esc-dollar,
esc-tilde (first character), esc-brace, esc-glob -/
def escCharsOk (a : Str) : Bool :=
  !a.any (· = '`') && !a.any (· = '$') && !(a.head? = some '~') && !a.any (· = '{') && !a.any (· = '*')

/-- the last argument if it is an escaped one -/
def lastEscOf (args : List (Style × Str)) : Option Str :=
  match args.getLast? with
  | some (.esc, a) => some a
  | _ => none

def endsInWs (a : Str) : Bool :=
  match a.getLast? with
  | some c => isWs c
  | none => false

/-- input guard of `C01_esc_partial`: the statement's side conditions (plain program word that is no alias and not
`xargs`, every argument expressible in its style), then one conjunct per finding class of `classify`; in the pipe
context the decoy word `q` must not be an alias -/
def guardEsc (e : Env) (p : Str) (args : List (Style × Str)) (ctx : Ctx) : Bool :=
  plainWord p && (lookup e.aliases p).isNone && p ≠ "xargs".toList &&
  args.all (fun x => okArg x.1 x.2) &&
  (ctx ≠ .pipe || (lookup e.aliases ['q']).isNone) &&
  -- not esc-backquote / esc-dollar / esc-tilde / esc-brace / esc-glob
  args.all (fun x => x.1 ≠ .esc || escCharsOk x.2) &&
  -- not esc-amp
  lastEscOf args ≠ some ['&'] &&
  -- not esc-ltgt-alone
  !(args.dropLast.any (fun x => x.1 = .esc && onlyLtGt x.2)) &&
  !(ctx = .pipe && (match lastEscOf args with
    | some a => onlyLtGt a
    | none => false)) &&
  -- not esc-trailing-blank
  !(ctx ≠ .pipe && (match lastEscOf args with
    | some a => endsInWs a
    | none => false))

/-! ## what the guard gives -/

structure GuardFacts (e : Env) (p : Str) (args : List (Style × Str)) (ctx : Ctx) : Prop where
  plain : plainWord p = true
  alias : lookup e.aliases p = none
  xargs : p ≠ "xargs".toList
  qalias : ctx = .pipe → lookup e.aliases ['q'] = none
  ok : ∀ x ∈ args, okArg x.1 x.2 = true
  chars : ∀ x ∈ args, x.1 = .esc → escCharsOk x.2 = true
  amp : lastEscOf args ≠ some ['&']
  mid : ∀ x ∈ args.dropLast, escOpen x = false
  lastPipe : ctx = .pipe → ∀ x, args.getLast? = some x → escOpen x = false
  lastWs : ctx ≠ .pipe → lastNoWs args

theorem isNone_eq {α} {o : Option α} (h : o.isNone = true) : o = none := by
  cases o with
  | none => rfl
  | some v => simp at h

theorem guardEsc_facts {e : Env} {p : Str} {args : List (Style × Str)} {ctx : Ctx}
    (hg : guardEsc e p args ctx = true) : GuardFacts e p args ctx := by
  simp only [guardEsc, Bool.and_eq_true, Bool.or_eq_true, Bool.not_eq_true', decide_eq_true_eq,
    Bool.and_eq_false_iff, decide_eq_false_iff_not] at hg
  obtain ⟨⟨⟨⟨⟨⟨⟨⟨⟨h1, h2⟩, h3⟩, h4⟩, h5⟩, h6⟩, h7⟩, h8⟩, h9⟩, h10⟩ := hg
  refine ⟨h1, isNone_eq h2, h3, ?_, ?_, ?_, h7, ?_, ?_, ?_⟩
  · intro hc
    rcases h5 with h5 | h5
    · exact absurd hc h5
    · exact isNone_eq h5
  · exact fun x hx => (List.all_eq_true.mp h4) x hx
  · intro x hx he
    have := (List.all_eq_true.mp h6) x hx
    simpa [he] using this
  · intro x hx
    have := (List.any_eq_false.mp h8) x hx
    simpa [escOpen] using this
  · intro hc x hx
    rcases h9 with h9 | h9
    · exact absurd hc h9
    · obtain ⟨s, a⟩ := x
      cases s with
      | esc => simpa [lastEscOf, hx, escOpen] using h9
      | sq => simp [escOpen]
      | dq => simp [escOpen]
  · intro hc a ha d hd
    rcases h10 with h10 | h10
    · exact absurd h10 (by simpa using hc)
    · simpa [lastEscOf, ha, endsInWs, hd] using h10

theorem GuardFacts.wordOk {e : Env} {p : Str} {args : List (Style × Str)} {ctx : Ctx} (g : GuardFacts e p args ctx) :
    ∀ x ∈ args, wordOk x = true := by
  intro x hx
  have h1 := g.ok x hx
  obtain ⟨s, a⟩ := x
  cases s with
  | sq => exact h1
  | dq => exact h1
  | esc =>
    have h2 := g.chars _ hx rfl
    simp only [escCharsOk, Bool.and_eq_true, Bool.not_eq_true'] at h2
    have h1' : a.isEmpty = false := by simpa [okArg] using h1
    have h3 : a.any (· = '$') = false := h2.1.1.1.2
    simp only [List.any_eq_false, decide_eq_true_eq] at h3
    show (!a.isEmpty && a.all (· ≠ '$')) = true
    simp only [h1', Bool.not_false, Bool.true_and, List.all_eq_true, decide_eq_true_eq]
    exact h3

/-! ## the guard is the complement of the finding classes of `classify` -/

theorem any_escs (args : List (Style × Str)) (f : Str → Bool) :
    ((args.filter (fun x => x.1 = .esc)).map (·.2)).any f = args.any (fun x => x.1 = .esc && f x.2) := by
  induction args with
  | nil => rfl
  | cons x xs ih =>
    obtain ⟨s, a⟩ := x
    cases s <;> simp [List.filter, ih]

theorem lastEsc_eq (args : List (Style × Str)) :
    (match args.getLast? with
      | some (.esc, a) => some a
      | _ => none) = lastEscOf args := rfl

/-- the guard admits only inputs outside the finding classes -/
theorem guardEsc_classify {e : Env} {p : Str} {args : List (Style × Str)} {ctx : Ctx}
    (hg : guardEsc e p args ctx = true) :
    classify e p args ctx = "-" ∨ classify e p args ctx = "esc-other" := by
  have g := guardEsc_facts hg
  unfold classify
  by_cases h0 : guard e p args = true
  · left; simp [h0]
  · right
    rw [if_neg h0]
    have c1 : ¬ (!plainWord p ∨ (lookup e.aliases p).isSome ∨ p = "xargs".toList) := by
      have := g.xargs
      simp [g.plain, g.alias]
      exact this
    rw [if_neg c1]
    have kc : ∀ x ∈ args, x.1 = .esc → (x.2.any (· = '`') = false ∧ x.2.any (· = '$') = false ∧
        ¬ (x.2.head? = some '~') ∧ x.2.any (· = '{') = false ∧ x.2.any (· = '*') = false) := by
      intro x hx he
      have := g.chars x hx he
      simp only [escCharsOk, Bool.and_eq_true, Bool.not_eq_true', decide_eq_false_iff_not] at this
      obtain ⟨⟨⟨⟨c1, c2⟩, c3⟩, c4⟩, c5⟩ := this
      exact ⟨c1, c2, c3, c4, c5⟩
    have kany : ∀ (f : Str → Bool), (∀ x ∈ args, x.1 = .esc → f x.2 = false) →
        (args.any fun x => decide (x.1 = Style.esc) && f x.2) = false := by
      intro f hf
      rw [List.any_eq_false]; intro x hx
      by_cases he : x.1 = .esc
      · simp [he, hf x hx he]
      · simp [he]
    have k1 := kany (fun a => a.any (· = '`')) (fun x hx he => (kc x hx he).1)
    have k2 := kany (fun a => a.any (· = '$')) (fun x hx he => (kc x hx he).2.1)
    have k3 := kany (fun a => decide (a.head? = some '~')) (fun x hx he => by simpa using (kc x hx he).2.2.1)
    have k4 := kany (fun a => a.any (· = '{')) (fun x hx he => (kc x hx he).2.2.2.1)
    have k5 := kany (fun a => a.any (· = '*')) (fun x hx he => (kc x hx he).2.2.2.2)
    have k7 : (args.dropLast.any fun x => decide (x.1 = Style.esc) && onlyLtGt x.2) = false := by
      rw [List.any_eq_false]; intro x hx
      have := g.mid x hx
      simpa [escOpen] using this
    have k6 := g.amp
    have k8 := g.lastPipe
    have k9 := g.lastWs
    simp only [any_escs]
    skip
    split
    · rename_i h
      exfalso
      rw [List.any_eq_true] at h
      obtain ⟨⟨s, a⟩, hx, hm⟩ := h
      have hok : okArg s a = true := g.ok _ hx
      cases s with
      | sq => simp only [hok] at hm; simp at hm
      | dq => simp only [hok] at hm; simp at hm
      | esc =>
        simp only at hm
        simp [okArg, hm] at hok
    rw [k1, k2, k3, k4, k5, k7]
    simp only [Bool.false_eq_true, ↓reduceIte, Bool.false_or]
    cases hL : args.getLast? with
    | none => simp
    | some x =>
      obtain ⟨s, a⟩ := x
      cases s with
      | sq => simp
      | dq => simp
      | esc =>
        have k6' : a ≠ ['&'] := by simpa [lastEscOf, hL] using k6
        by_cases hc : ctx = .pipe
        · have := k8 hc _ hL
          simp only [escOpen, decide_true, Bool.true_and] at this
          simp [k6', hc, this]
        · have := k9 hc a hL
          simp only [hc, ↓reduceIte, decide_false, Bool.false_and, Bool.false_eq_true, ne_eq,
            not_false_eq_true, decide_true, Bool.true_and]
          cases hd : a.getLast? with
          | none => simp [k6']
          | some d => simp [this d hd, k6']

theorem ite_str {c : Prop} [Decidable c] {s t : String}
    (h : (if c then s else t) = "-" ∨ (if c then s else t) = "esc-other") (h1 : s ≠ "-") (h2 : s ≠ "esc-other") :
    ¬ c ∧ (t = "-" ∨ t = "esc-other") := by
  by_cases hc : c
  · simp only [hc, ↓reduceIte] at h
    rcases h with h | h
    · exact absurd h h1
    · exact absurd h h2
  · simp only [hc, ↓reduceIte] at h
    exact ⟨hc, h⟩

/-- … and it admits all of them (given, in the pipe context, that `q` is no alias) -/
theorem classify_guardEsc {e : Env} {p : Str} {args : List (Style × Str)} {ctx : Ctx}
    (h : classify e p args ctx = "-" ∨ classify e p args ctx = "esc-other")
    (hq : ctx = .pipe → (lookup e.aliases ['q']).isNone = true) : guardEsc e p args ctx = true := by
  unfold classify at h
  by_cases h0 : guard e p args = true
  · clear h
    simp only [guard, Bool.and_eq_true, decide_eq_true_eq] at h0
    obtain ⟨⟨⟨p1, p2⟩, p3⟩, p4⟩ := h0
    have hne : ∀ x ∈ args, x.1 ≠ .esc ∧ okArg x.1 x.2 = true := by
      intro ⟨s, a⟩ hx
      have := List.all_eq_true.mp p4 _ hx
      cases s with
      | sq => exact ⟨by simp, this⟩
      | dq => exact ⟨by simp, this⟩
      | esc => simp [styleOk] at this
    have a1 : args.all (fun x => okArg x.1 x.2) = true := by
      rw [List.all_eq_true]; exact fun x hx => (hne x hx).2
    have a2 : args.all (fun x => x.1 ≠ .esc || escCharsOk x.2) = true := by
      rw [List.all_eq_true]; intro x hx; simp [(hne x hx).1]
    have a3 : (args.dropLast.any fun x => decide (x.1 = Style.esc) && onlyLtGt x.2) = false := by
      rw [List.any_eq_false]; intro x hx
      simp [(hne x (List.dropLast_subset _ hx)).1]
    have eL : lastEscOf args = none := by
      cases hL : args.getLast? with
      | none => simp [lastEscOf, hL]
      | some x =>
        obtain ⟨s, a⟩ := x
        have := (hne _ (List.mem_of_getLast? hL)).1
        cases s with
        | sq => simp [lastEscOf, hL]
        | dq => simp [lastEscOf, hL]
        | esc => exact absurd rfl this
    have hq' : (decide (ctx ≠ .pipe) || (lookup e.aliases ['q']).isNone) = true := by
      by_cases hc : ctx = .pipe
      · simp [hq hc]
      · simp [hc]
    have p3' : decide (p ≠ "xargs".toList) = true := by simpa using p3
    unfold guardEsc
    rw [a1, a2, a3, eL, p1, p2, p3', hq']
    simp
  · rw [if_neg h0] at h
    replace ⟨n1, h⟩ := ite_str h (by decide) (by decide)
    replace ⟨n2, h⟩ := ite_str h (by decide) (by decide)
    simp only [any_escs] at h
    replace ⟨n3, h⟩ := ite_str h (by decide) (by decide)
    replace ⟨n4, h⟩ := ite_str h (by decide) (by decide)
    replace ⟨n5, h⟩ := ite_str h (by decide) (by decide)
    replace ⟨n6, h⟩ := ite_str h (by decide) (by decide)
    replace ⟨n7, h⟩ := ite_str h (by decide) (by decide)
    replace ⟨n8, h⟩ := ite_str h (by decide) (by decide)
    replace ⟨n9, h⟩ := ite_str h (by decide) (by decide)
    replace ⟨n10, h⟩ := ite_str h (by decide) (by decide)
    clear h
    have a1 : args.all (fun x => okArg x.1 x.2) = true := by
      rw [List.all_eq_true]
      intro ⟨s, a⟩ hx
      have := fun hm => n2 (List.any_eq_true.mpr ⟨(s, a), hx, hm⟩)
      cases s with
      | sq => simpa using this
      | dq => simpa using this
      | esc => simpa [okArg] using this
    have a2 : args.all (fun x => x.1 ≠ .esc || escCharsOk x.2) = true := by
      rw [List.all_eq_true]
      intro x hx
      by_cases he : x.1 = .esc
      · have m : ∀ f : Str → Bool, ¬ (args.any fun x => decide (x.1 = .esc) && f x.2) = true → f x.2 = false := by
          intro f hn
          cases hf : f x.2 with
          | false => rfl
          | true => exact absurd (List.any_eq_true.mpr ⟨x, hx, by simp [he, hf]⟩) hn
        have m3 := m (fun a => a.any (· = '`')) n3
        have m4 := m (fun a => a.any (· = '$')) n4
        have m5 := m (fun a => decide (a.head? = some '~')) n5
        have m6 := m (fun a => a.any (· = '{')) n6
        have m7 := m (fun a => a.any (· = '*')) n7
        simp [he, escCharsOk, m3, m4, m5, m6, m7]
      · simp [he]
    simp only [not_or, Bool.not_eq_true', Bool.not_eq_true, Bool.not_eq_false] at n1
    obtain ⟨p1, p2, p3⟩ := n1
    have p2' : (lookup e.aliases p).isNone = true := by
      cases hl : lookup e.aliases p with
      | none => rfl
      | some v => simp [hl] at p2
    have hq' : (decide (ctx ≠ .pipe) || (lookup e.aliases ['q']).isNone) = true := by
      by_cases hc : ctx = .pipe
      · simp [hq hc]
      · simp [hc]
    unfold guardEsc
    rw [a1, a2, p1, p2', hq']
    simp only [Bool.or_eq_true, not_or, Bool.not_eq_true] at n9
    obtain ⟨n9a, n9b⟩ := n9
    rw [n9a]
    have p3' : decide (p ≠ "xargs".toList) = true := by simpa using p3
    rw [p3']
    cases hL : args.getLast? with
    | none => simp [lastEscOf, hL]
    | some x =>
      obtain ⟨s, a⟩ := x
      cases s with
      | sq => simp [lastEscOf, hL]
      | dq => simp [lastEscOf, hL]
      | esc =>
        rw [hL] at n8 n9b n10
        simp only at n8 n9b n10
        have eL : lastEscOf args = some a := by simp [lastEscOf, hL]
        rw [eL]
        have e10 : (decide (ctx ≠ .pipe) && endsInWs a) = false := by
          cases hd : a.getLast? with
          | none => simp [endsInWs, hd]
          | some d =>
            rw [hd] at n10
            simp only [Bool.not_eq_true] at n10
            simpa [endsInWs, hd] using n10
        simp only [e10, n9b]
        simpa using n8

/-! ## from the tokens' tags to what the passes and the planner need -/

theorem tokRel_quiet {x : Style × Str} {t : Tok} (hr : TokRel x t) (hok : okArg x.1 x.2 = true)
    (hch : x.1 = .esc → escCharsOk x.2 = true) : Quiet t ∧ ArgTok' t := by
  obtain ⟨s, a⟩ := x
  obtain ⟨tag, text⟩ := t
  obtain ⟨h1, h2⟩ := hr
  simp only at h1 h2 hok hch
  subst h1
  cases s with
  | sq =>
    simp only at h2; subst h2
    exact ⟨Or.inl rfl, Or.inl (by simp)⟩
  | dq =>
    simp only at h2; subst h2
    refine ⟨Or.inr ⟨?_, Or.inl rfl⟩, Or.inl (by simp)⟩
    intro c hc
    simp [okArg] at hok
    have := hok c hc
    exact ⟨this.1.1.1, this.1.1.2⟩
  | esc =>
    have hc := hch rfl
    simp only [escCharsOk, Bool.and_eq_true, Bool.not_eq_true', List.any_eq_false, decide_eq_true_eq,
      decide_eq_false_iff_not] at hc
    obtain ⟨⟨⟨⟨c1, c2⟩, c3⟩, c4⟩, c5⟩ := hc
    have hds : ∀ c ∈ text, c ≠ '$' ∧ c ≠ '`' := fun c hc => ⟨c2 c hc, c1 c hc⟩
    simp only at h2
    rcases h2 with h2 | h2 | ⟨h2, h3, h4⟩
    · subst h2; exact ⟨Or.inl rfl, Or.inl (by simp)⟩
    · subst h2; exact ⟨Or.inr ⟨hds, Or.inr (Or.inl rfl)⟩, Or.inl (by simp)⟩
    · subst h2
      refine ⟨Or.inr ⟨hds, Or.inr (Or.inr ⟨rfl, fun c hc => ⟨c4 c hc, c5 c hc⟩, c3⟩)⟩, Or.inr ⟨h4, ?_, fun c hc => (h3 c hc).2⟩⟩
      intro e
      have e' : text.head? = some '<' := e
      exact (h3 '<' (List.mem_of_mem_head? e')).1 rfl

theorem argsRel_all {args : List (Style × Str)} {toks : List Tok} (hr : ArgsRel args toks)
    (hok : ∀ x ∈ args, okArg x.1 x.2 = true) (hch : ∀ x ∈ args, x.1 = .esc → escCharsOk x.2 = true) :
    ∀ t ∈ toks, Quiet t ∧ ArgTok' t := by
  induction hr with
  | nil => intro t ht; simp at ht
  | cons h1 _ ih =>
    intro t ht
    simp only [List.mem_cons] at ht
    rcases ht with rfl | ht
    · exact tokRel_quiet h1 (hok _ (by simp)) (hch _ (by simp))
    · exact ih (fun x hx => hok x (by simp [hx])) (fun x hx => hch x (by simp [hx])) t ht

theorem argsRel_last {args : List (Style × Str)} {toks : List Tok} (hr : ArgsRel args toks) :
    ∀ t, toks.getLast? = some t → ∃ x, args.getLast? = some x ∧ TokRel x t := by
  induction hr with
  | nil => intro t ht; simp at ht
  | @cons x t0 xs ts h1 hrest ih =>
    intro t ht
    cases hrest with
    | nil =>
      simp at ht; subst ht
      exact ⟨x, by simp, h1⟩
    | cons h2 h3 =>
      rw [List.getLast?_cons_cons] at ht ⊢
      exact ih t ht

theorem argsRel_last_amp {args : List (Style × Str)} {toks : List Tok} (hr : ArgsRel args toks)
    (hamp : lastEscOf args ≠ some ['&']) : toks.getLast? ≠ some ([], ['&']) := by
  intro e
  obtain ⟨x, hx, h1, h2⟩ := argsRel_last hr _ e
  obtain ⟨s, a⟩ := x
  simp only at h1 h2
  subst h1
  cases s with
  | sq => simp at h2
  | dq => simp at h2
  | esc => exact hamp (by simp [lastEscOf, hx])

/-! ## the theorem -/

theorem pipeToks_quiet (ctx : Ctx) : ∀ t ∈ pipeToks ctx, Quiet t := by
  intro t ht
  by_cases hc : ctx = .pipe
  · simp only [pipeToks, hc, ↓reduceIte, List.mem_cons, List.not_mem_nil, or_false] at ht
    rcases ht with rfl | rfl <;>
      exact Or.inr ⟨by simp, Or.inr (Or.inr ⟨rfl, by simp, by simp⟩)⟩
  · simp [pipeToks, hc] at ht

theorem expandAliasGo_pipeToks (e : Env) (ctx : Ctx) (hq : ctx = .pipe → lookup e.aliases ['q'] = none) :
    expandAliasGo e false (pipeToks ctx) = pipeToks ctx := by
  by_cases hc : ctx = .pipe
  · have := hq hc
    simp [pipeToks, hc, expandAliasGo, this]
  · simp [pipeToks, hc, expandAliasGo]

/-- planning the rendered first pipeline (with its decoy stage in the pipe context) -/
theorem plan_renderCmdG (se : SubstEnv) (f : Nat) (p : Str) (args : List (Style × Str)) (ctx : Ctx)
    (hg : guardEsc se.env p args ctx = true) (hf : args.length + 5 < f) :
    ∃ toks, toks.map (·.2) = args.map (·.2) ∧
      planOf se f (renderCmd p args ++ pipeSfx ctx) =
        .ok (.ok { commands := stage (([], p) :: toks) :: (if ctx = .pipe then [stage [([], ['q'])]] else []),
                   envs := [], background := false }) := by
  have g := guardEsc_facts hg
  obtain ⟨hw, hl⟩ := plainWord_facts p g.plain
  obtain ⟨toks, hrel, hparse⟩ := parseLine_cmdG p args ctx hw hl g.wordOk g.mid g.lastPipe
  have hall := argsRel_all hrel g.ok g.chars
  have hlen : toks.length = args.length := by
    have := congrArg List.length (forall2_texts hrel)
    simpa using this
  refine ⟨toks, forall2_texts hrel, ?_⟩
  cases f with
  | zero => omega
  | succ f =>
    simp only [planOf]
    rw [hparse]
    have hnp : ∀ t ∈ toks, ¬ (t.1 = [] ∧ t.2 = ['|']) := by
      intro t ht ⟨h1, h2⟩
      rcases (hall t ht).2 with h3 | ⟨h3, _⟩
      · exact h3 h1
      · exact h3 h2
    have hq : ∀ t ∈ toks ++ pipeToks ctx, Quiet t := by
      intro t ht
      simp only [List.mem_append] at ht
      rcases ht with ht | ht
      · exact (hall t ht).1
      · exact pipeToks_quiet ctx t ht
    have hal : expandAliasGo se.env false (toks ++ pipeToks ctx) = toks ++ pipeToks ctx := by
      rw [expandAliasGo_false_append _ _ _ hnp, expandAliasGo_pipeToks _ _ g.qalias]
    have hlen2 : (pipeToks ctx).length ≤ 2 := by
      by_cases hc : ctx = .pipe <;> simp [pipeToks, hc]
    have e : ([], p) :: toks ++ pipeToks ctx = ([], p) :: (toks ++ pipeToks ctx) := rfl
    rw [e, doExpansion_quiet se p _ f hw hl hq g.alias g.xargs hal (by simp only [List.length_append]; omega)]
    simp only [Outcome.map, Outcome.bind]
    have hpe := word_no p hw '=' (by decide)
    have hpa : ArgTok' ([], p) := by
      refine Or.inr ⟨?_, ?_, ?_⟩
      · intro e; exact word_no p hw '|' (by decide) '|' (by have e' : p = _ := e; rw [e']; simp) rfl
      · intro e
        have e' : p.head? = some '<' := e
        exact word_no p hw '<' (by decide) '<' (List.mem_of_mem_head? e') rfl
      · exact word_no p hw '>' (by decide)
    rw [← e, planOfTokens_G p toks ctx hpe hpa (fun t ht => (hall t ht).2) (fun _ => argsRel_last_amp hrel g.amp)]

/-- **C01, all three styles, all five contexts**, under `guardEsc` -/
theorem C01_esc_partial (se : SubstEnv) (p : Str) (args : List (Style × Str)) (ctx : Ctx) (f : Nat)
    (hg : guardEsc se.env p args ctx = true) (hf : args.length + 5 < f) :
    Holds01 se f p args ctx := by
  have g := guardEsc_facts hg
  obtain ⟨hw, hl⟩ := plainWord_facts p g.plain
  have hne : p ≠ [] := by intro e; subst e; simp at hl
  obtain ⟨rest, hitems⟩ := lineToCmds_firstG p args ctx hw hne g.wordOk g.lastWs
  obtain ⟨toks, htexts, hplan⟩ := plan_renderCmdG se f p args ctx hg hf
  unfold Holds01
  refine ⟨{ commands := stage (([], p) :: toks) :: (if ctx = .pipe then [stage [([], ['q'])]] else []),
             envs := [], background := false }, ?_, ?_⟩
  · simp only [firstPlan, hitems]
    exact hplan
  · simp only [obsOfPlan, expectedObs, expectedArgv]
    by_cases hc : ctx = .pipe
    · simp [hc, stage, htexts]
    · simp [hc, stage, htexts]

theorem length_le_argsText (args : List (Style × Str)) : args.length ≤ (argsText args).length := by
  induction args with
  | nil => simp
  | cons x xs ih =>
    obtain ⟨s, a⟩ := x
    simp only [argsText, List.map_cons, List.flatten_cons, List.length_append, List.length_cons] at ih ⊢
    omega

/-- the driver's fuel is enough -/
theorem planFuel_enough5 (p : Str) (args : List (Style × Str)) (ctx : Ctx) :
    args.length + 5 < planFuel (renderLine p args ctx) := by
  have h := length_le_argsText args
  have e : (List.map (fun x => ' ' :: renderArg x.1 x.2) args).flatten = argsText args := by
    simp [argsText]
  simp only [planFuel, renderLine, renderCmd, List.length_append, e]
  omega

/-- `guardEsc` = "no finding class" + "in the pipe context `q` is no alias" -/
theorem guardEsc_iff (e : Env) (p : Str) (args : List (Style × Str)) (ctx : Ctx) :
    guardEsc e p args ctx = true ↔
      (classify e p args ctx = "-" ∨ classify e p args ctx = "esc-other") ∧
      (ctx = .pipe → (lookup e.aliases ['q']).isNone = true) := by
  constructor
  · intro hg
    refine ⟨guardEsc_classify hg, fun hc => ?_⟩
    rw [(guardEsc_facts hg).qalias hc]; rfl
  · intro ⟨h1, h2⟩
    exact classify_guardEsc h1 h2

/-- **C01 on the whole complement of the finding classes**: every input that `classify` puts in no finding class
(class `-` or `esc-other`) satisfies the property; in the pipe context provided `q` is no alias -/
theorem C01_nonfinding (se : SubstEnv) (p : Str) (args : List (Style × Str)) (ctx : Ctx)
    (hcl : classify se.env p args ctx = "-" ∨ classify se.env p args ctx = "esc-other")
    (hq : ctx = .pipe → (lookup se.env.aliases ['q']).isNone = true) :
    Holds01 se (planFuel (renderLine p args ctx)) p args ctx :=
  C01_esc_partial se p args ctx _ (classify_guardEsc hcl hq) (planFuel_enough5 p args ctx)

/-- **C01, the `| q` context, single- and double-quoted arguments** (corollary; `guard` is the guard of `C01_partial`) -/
theorem C01_pipe_partial (se : SubstEnv) (p : Str) (args : List (Style × Str)) (f : Nat)
    (hg : guard se.env p args = true) (hq : (lookup se.env.aliases ['q']).isNone = true)
    (hf : args.length + 5 < f) :
    Holds01 se f p args .pipe := by
  apply C01_esc_partial se p args .pipe f _ hf
  apply classify_guardEsc _ (fun _ => hq)
  left
  simp [classify, hg]

/-- with ctx = `.pipe` the plan has two stages: the expected argv, then `q` -/
theorem C01_pipe_stages (se : SubstEnv) (p : Str) (args : List (Style × Str)) (f : Nat)
    (hg : guard se.env p args = true) (hq : (lookup se.env.aliases ['q']).isNone = true)
    (hf : args.length + 5 < f) :
    ∃ plan, firstPlan se f (renderLine p args .pipe) = .ok (.ok plan) ∧
      (obsOfPlan plan).stages = [(p :: args.map (·.2), [], none), ([['q']], [], none)] := by
  obtain ⟨plan, h1, h2⟩ := C01_pipe_partial se p args f hg hq hf
  exact ⟨plan, h1, by rw [h2]; rfl⟩

/-! ## what stays outside: the decoy word `q` as an alias

The stronger statement without the `q` side condition is false: `expectedObs` says the second stage is `q`, but the code
expands an alias `q` there.  (The statement of the property is about the first stage; this is an artefact of the
reference semantics, not a finding.) -/

def C01_nonfinding_strong : Prop :=
  ∀ (se : SubstEnv) (p : Str) (args : List (Style × Str)) (ctx : Ctx),
    (classify se.env p args ctx = "-" ∨ classify se.env p args ctx = "esc-other") →
    ∀ f, args.length + 5 < f → Holds01 se f p args ctx

def qEnv : SubstEnv := { env := { aliases := [(['q'], "zz".toList)] }, cmdOut := fun _ => [] }

theorem C01_pipe_q_alias : ¬ Holds01 qEnv 8 "prog".toList [(.sq, "a".toList)] .pipe := by
  intro ⟨plan, h1, h2⟩
  have : firstPlan qEnv 8 (renderLine "prog".toList [(.sq, "a".toList)] .pipe) =
      .ok (.ok { commands := [{ tokens := [([], "prog".toList), (['\''], "a".toList)], redirectsTo := [], redirectFrom := none },
                              { tokens := [([], "zz".toList)], redirectsTo := [], redirectFrom := none }],
                 envs := [], background := false }) := by
    rfl
  rw [this] at h1
  injection h1 with h1; injection h1 with h1
  subst h1
  revert h2
  simp [obsOfPlan, expectedObs, expectedArgv]

theorem C01_nonfinding_strong_false : ¬ C01_nonfinding_strong := by
  intro h
  exact C01_pipe_q_alias (h qEnv "prog".toList [(.sq, "a".toList)] .pipe (Or.inl (by decide)) 8 (by decide))

/-! ## non-vacuity -/

/-- all three styles mixed; escaped arguments with blanks, tabs, quotes, operators, `>` / `<`, a word starting with `\|`
(sticky tag) followed by more escaped words, `&` in the middle, a last argument made only of `>` -/
example : guardEsc wEnv.env "prog".toList
    [(.esc, "a b\tc".toList), (.sq, "x|y; $Z *".toList), (.esc, "|pipe;first".toList), (.esc, "(sub)#!=%^,}?[]\\".toList),
     (.esc, "&".toList), (.dq, "<<< 'q' #".toList), (.esc, "2>file<in".toList), (.esc, "\"it's\"".toList), (.esc, ">>".toList)]
    .semi = true := by decide

example : guardEsc wEnv.env "prog".toList [(.esc, "a>b c".toList), (.sq, []), (.esc, "x ".toList)] .pipe = true := by decide

example : classify wEnv.env "prog".toList [(.esc, "a>b c".toList), (.sq, []), (.esc, "x ".toList)] .pipe = "esc-other" := by decide

example : guard wEnv.env "prog".toList [(.sq, "a|b".toList), (.dq, "c d".toList)] = true ∧
    (lookup wEnv.env.aliases ['q']).isNone = true := by decide

end Cicada.C01
