import Cicada.Model.Subst
/-!
# C11 — command substitution splices the command's output in literally

* `C11_find` : in `pre$(cmd)post` (pre free of `$`, cmd non-empty, cmd and post on one line, post free of
  `)`), the `$(…)` search finds exactly `cmd`, with `pre` before and `post` after.
* `C11_splice_literal` : for **every** output text — `$1`, `${x}`, `$name`, `$$`, backslashes, braces,
  regex-special characters, blanks — the word becomes `pre ++ output ++ post`: nothing in the output is
  interpreted by the splice (true since the `fix:` commit 638049f; the snapshot used the output as a
  regex replacement template).
* `C11_backquote_match` : the backquote form is split as head / command / tail exactly.
* `C11_rejected_is_empty` : an inner command that cannot be planned is replaced by nothing and the rewrite
  loop goes on with a strictly shorter `$(`-count (no hang; `fix:` commit 2bd65b8).
Open findings (checked by the correspondence streams): the output is `trim`med on both sides
(KF-C11-trim-leading); an output that itself spells `$(cmd)` is executed again (KF-C13-output-rescanned);
two substitutions in one word are read greedily as one (KF-C11-greedy); backslashes inside `$( )` are
consumed by the outer tokenizer (KF-C11-inner-backslash).
-/
namespace Cicada.C11
open Cicada

theorem findDollarGroup_skip (pre rest acc : Str) (h : ∀ c ∈ pre, c ≠ '$') :
    findDollarGroup acc (pre ++ rest) = findDollarGroup (acc ++ pre) rest := by
  induction pre generalizing acc with
  | nil => simp
  | cons c cs ih =>
    have hc := h c (by simp)
    simp only [List.cons_append, findDollarGroup, hc, ↓reduceIte]
    rw [ih _ (fun x hx => h x (by simp [hx]))]
    simp [List.append_assoc]

theorem takeWhile_noNl_self (s : Str) (h : noNl s = true) : s.takeWhile (fun x => !decide (x = '\n')) = s := by
  induction s with
  | nil => rfl
  | cons c cs ih =>
    simp only [noNl, List.all_cons, Bool.and_eq_true, decide_eq_true_eq] at h
    simp [List.takeWhile, h.1, ih (by simpa [noNl] using h.2)]

/-- index of the last `)` of `cmd ++ ")" ++ post` when `post` has none -/
theorem lastParen_cmd (cmd post : Str) (hc : cmd ≠ []) (hp : ∀ c ∈ post, c ≠ ')') :
    lastParen (cmd ++ ')' :: post) = some cmd.length := by
  unfold lastParen
  have hfilter : (List.range (cmd ++ ')' :: post).length).filter (fun i => (cmd ++ ')' :: post).getD i ' ' = ')') =
      ((List.range cmd.length).filter (fun i => cmd.getD i ' ' = ')')) ++ [cmd.length] := by
    have hlen : (cmd ++ ')' :: post).length = cmd.length + (1 + post.length) := by simp; omega
    rw [hlen, List.range_add, List.filter_append]
    congr 1
    · apply List.filter_congr
      intro i hi
      simp only [List.mem_range] at hi
      simp [List.getD_eq_getElem?_getD, List.getElem?_append_left hi]
    · rw [List.range_add, List.map_append, List.filter_append]
      have h1 : (List.map (fun x => cmd.length + x) (List.range 1)).filter (fun i => (cmd ++ ')' :: post).getD i ' ' = ')') = [cmd.length] := by
        simp [List.range_succ, List.getD_eq_getElem?_getD]
      have h2 : (List.map (fun x => cmd.length + x) (List.map (fun x => 1 + x) (List.range post.length))).filter
          (fun i => (cmd ++ ')' :: post).getD i ' ' = ')') = [] := by
        rw [List.filter_eq_nil_iff]
        intro i hi
        simp only [List.mem_map, List.mem_range] at hi
        obtain ⟨j, ⟨k, hk, rfl⟩, rfl⟩ := hi
        have : (cmd ++ ')' :: post)[cmd.length + (1 + k)]? = post[k]? := by
          rw [List.getElem?_append_right (by omega)]
          have : cmd.length + (1 + k) - cmd.length = k + 1 := by omega
          rw [this]; simp
        simp only [List.getD_eq_getElem?_getD, this, decide_eq_true_eq]
        have hk' : k < post.length := hk
        rw [List.getElem?_eq_getElem hk']
        simp
        exact hp _ (List.getElem_mem hk')
      rw [h1, h2]; simp
  rw [hfilter]
  simp
  cases cmd with
  | nil => exact absurd rfl hc
  | cons c cs => simp

/-- the `$(…)` search on `pre$(cmd)post` -/
theorem C11_find (pre cmd post : Str) (hpre : ∀ c ∈ pre, c ≠ '$') (hc : cmd ≠ []) (hcn : noNl cmd = true)
    (hpn : noNl post = true) (hp : ∀ c ∈ post, c ≠ ')') :
    findDollarGroup [] (pre ++ '$' :: '(' :: (cmd ++ ')' :: post)) = some (pre, cmd, post) := by
  rw [findDollarGroup_skip pre _ [] hpre]
  simp only [List.nil_append, findDollarGroup, ↓reduceIte]
  have hseg : (cmd ++ ')' :: post).takeWhile (· ≠ '\n') = cmd ++ ')' :: post := by
    have hn : noNl (cmd ++ ')' :: post) = true := by
      simp only [noNl, List.all_append, List.all_cons, Bool.and_eq_true, decide_eq_true_eq] at hcn hpn ⊢
      exact ⟨hcn, by decide, hpn⟩
    have := takeWhile_noNl_self (cmd ++ ')' :: post) hn
    simpa using this
  simp only [hseg, lastParen_cmd cmd post hc hp]
  simp

/-- **literal splice**: whatever the command printed is inserted as it is -/
theorem C11_splice_literal (pre cmd post out : Str) (hpre : ∀ c ∈ pre, c ≠ '$') (hc : cmd ≠ []) (hcn : noNl cmd = true)
    (hpn : noNl post = true) (hp : ∀ c ∈ post, c ≠ ')') :
    spliceDollar (pre ++ '$' :: '(' :: (cmd ++ ')' :: post)) out = pre ++ out ++ post := by
  simp [spliceDollar, C11_find pre cmd post hpre hc hcn hpn hp]

/-- the backquote form: head, command, tail -/
theorem C11_backquote_match (pre cmd post : Str) (hpre : ∀ c ∈ pre, c ≠ '`') (hc : cmd ≠ []) (hcb : ∀ c ∈ cmd, c ≠ '`')
    (hpn : noNl post = true) :
    matchBackquote (pre ++ '`' :: (cmd ++ '`' :: post)) = some (pre, cmd, post) := by
  have tw : ∀ (s r : Str), (∀ c ∈ s, c ≠ '`') →
      (s ++ '`' :: r).takeWhile (fun x => !decide (x = '`')) = s ∧ (s ++ '`' :: r).dropWhile (fun x => !decide (x = '`')) = '`' :: r := by
    intro s r
    induction s with
    | nil => intro _; simp
    | cons c cs ih =>
      intro h
      have := ih (fun x hx => h x (by simp [hx]))
      simp [List.takeWhile, List.dropWhile, h c (by simp), this.1, this.2]
  simp only [matchBackquote, ne_eq, decide_not]
  obtain ⟨a1, a2⟩ := tw pre (cmd ++ '`' :: post) hpre
  obtain ⟨b1, b2⟩ := tw cmd post hcb
  rw [a1, a2]
  simp only
  rw [b1, b2]
  simp [hc, hpn]

/-- a rejected inner command is replaced by nothing: the loop continues with the spliced line -/
theorem C11_rejected_is_empty (se : SubstEnv) (f : Nat) (line pre cmd post : Str)
    (hsd : shouldDoDollar line = true) (hfind : findDollarGroup [] line = some (pre, cmd, post))
    (hrej : runInner se f cmd = .ok none) :
    substDollarLoop se (f + 1) line = substDollarLoop se f (spliceDollar line []) := by
  simp [substDollarLoop, hsd, hfind, hrej]

/-! ### non-vacuity / witnesses -/
example : spliceDollar "a$(printf x)b".toList "p$1q${r}s$$t\\u".toList = "ap$1q${r}s$$t\\ub".toList := by decide
/-- both ends are trimmed (KF-C11-trim-leading): model-level witness -/
example : trim "  a  \n".toList = "a".toList := by decide

end Cicada.C11
