import Cicada.Thm.C19
import Cicada.Spec.C19
/-!
# C19 (growth) — `^` against the exact power

`Calc.powWrap` is square-and-multiply modulo 2^64 (the model of `i64::wrapping_pow` in the repaired
calculator); `Calc.applyOp .pow l r` calls it with `rhs as u32`, i.e. the exponent reduced modulo 2^32.

* `powModAux_eq`      : the loop invariant: `powModAux f b e acc = acc * b ^ e % 2^64` when `e < 2^f`.
* `C19_pow_hom`       : `powWrap a n = wrap64 (a ^ n)` for EVERY integer base and every `n < 2^64`
                        (the 64 rounds of the loop consume 64 exponent bits; the code only ever passes `n < 2^32`).
* `C19_pow_apply`     : the operator on all operands: the exponent is `r mod 2^32` (`rhs as u32`);
  `C19_pow_inrange` (`0 ≤ r < 2^32`: the exact power), `C19_pow_negative` (`-2^32 ≤ r < 0`: exponent `r + 2^32`),
  `C19_pow_huge` (`r` in the k-th window of width 2^32: exponent `r - 2^32·k`).
* `C19_wrap_hom_pow`  : the evaluation homomorphism for trees over `+ - * ^` whose every exponent sub-tree has
                        an exact value in `[0, 2^32)`: wrapping at every step = exact value reduced to 64 bits.
* `C19_wrap_hom_pow_exact` : with in-range leaves the result IS `wrap64 (evalZ t)`.
* `C19_spec_eval`     : whenever the reference evaluator `C19.specEval` (Spec/C19.lean) fixes a value, the model's
                        `evalTree` returns exactly that value (all five operators).
-/
namespace Cicada.C19
open Cicada Cicada.Calc


theorem int_emod_pow (a m : Int) (n : Nat) : (a % m) ^ n % m = a ^ n % m := by
  induction n with
  | zero => simp
  | succ n ih => rw [Int.pow_succ, Int.pow_succ, Int.mul_emod, ih, Int.emod_emod, ← Int.mul_emod]

theorem powModAux_eq : ∀ (f b e acc : Nat), e < 2 ^ f → acc < 2 ^ 64 →
    powModAux f b e acc = acc * b ^ e % 2 ^ 64 := by
  intro f
  induction f with
  | zero =>
    intro b e acc he ha
    have : e = 0 := by simpa using he
    subst this
    simp only [powModAux, Nat.pow_zero, Nat.mul_one]
    exact (Nat.mod_eq_of_lt ha).symm
  | succ f ih =>
    intro b e acc he ha
    unfold powModAux
    by_cases h0 : e = 0
    · subst h0
      simp only [↓reduceIte, Nat.pow_zero, Nat.mul_one]
      exact (Nat.mod_eq_of_lt ha).symm
    · simp only [h0, ↓reduceIte]
      have he2 : e / 2 < 2 ^ f := by rw [Nat.pow_succ] at he; omega
      have hb : b ^ e = (b * b) ^ (e / 2) * b ^ (e % 2) := by
        conv => lhs; rw [← Nat.div_add_mod e 2, Nat.pow_add, Nat.pow_mul, Nat.pow_two]
      by_cases hodd : e % 2 = 1
      · simp only [hodd, ↓reduceIte]
        rw [ih _ _ _ he2 (Nat.mod_lt _ (by decide)), hb, hodd, Nat.mul_mod, ← Nat.pow_mod, Nat.mod_mod,
          ← Nat.mul_mod, Nat.pow_one]
        congr 1
        ac_rfl
      · have hev : e % 2 = 0 := by omega
        simp only [hev, Nat.zero_ne_one, ↓reduceIte]
        rw [ih _ _ _ he2 ha, hb, hev, Nat.mul_mod, ← Nat.pow_mod, ← Nat.mul_mod, Nat.pow_zero, Nat.mul_one]

theorem wrap64_emod (x : Int) : wrap64 (x % 2 ^ 64) = wrap64 x := by
  rw [pow64, wrap64_def, wrap64_def]; omega

theorem C19_pow_hom (a : Int) (n : Nat) (hn : n < 2 ^ 64) : powWrap a n = wrap64 (a ^ n) := by
  unfold powWrap
  rw [powModAux_eq 64 _ n 1 hn (by decide), Nat.one_mul, Int.ofNat_eq_natCast, Int.natCast_mod, Int.natCast_pow,
    Int.toNat_of_nonneg (Int.emod_nonneg _ (by decide))]
  have : ((2 ^ 64 : Nat) : Int) = 2 ^ 64 := by decide
  rw [this, int_emod_pow, wrap64_emod]

theorem pow32 : (2 : Int) ^ 32 = 4294967296 := by decide

theorem C19_pow_apply (l r : Int) : applyOp .pow l r = .ok (wrap64 (l ^ (r % 2 ^ 32).toNat)) := by
  have h0 : 0 ≤ r % 2 ^ 32 := Int.emod_nonneg _ (by decide)
  have h1 : r % 2 ^ 32 < 2 ^ 32 := Int.emod_lt_of_pos _ (by decide)
  simp only [applyOp]
  rw [C19_pow_hom]
  rw [pow32] at h1
  have : ((2 ^ 64 : Nat)) = 18446744073709551616 := by decide
  rw [this]; omega

theorem C19_pow_inrange (l r : Int) (h0 : 0 ≤ r) (h1 : r < 2 ^ 32) :
    applyOp .pow l r = .ok (wrap64 (l ^ r.toNat)) := by
  rw [C19_pow_apply, Int.emod_eq_of_lt h0 h1]

theorem C19_pow_negative (l r : Int) (h0 : -(2 ^ 32) ≤ r) (h1 : r < 0) :
    applyOp .pow l r = .ok (wrap64 (l ^ (r + 2 ^ 32).toNat)) := by
  rw [C19_pow_apply]
  have : r % 2 ^ 32 = r + 2 ^ 32 := by rw [pow32] at *; omega
  rw [this]

theorem C19_pow_huge (l r : Int) (k : Nat) (h0 : 2 ^ 32 * (k : Int) ≤ r) (h1 : r < 2 ^ 32 * (k + 1)) :
    applyOp .pow l r = .ok (wrap64 (l ^ (r - 2 ^ 32 * k).toNat)) := by
  rw [C19_pow_apply]
  have : r % 2 ^ 32 = r - 2 ^ 32 * k := by rw [pow32] at *; omega
  rw [this]

/-! ### trees over `+ - * ^` -/

theorem wrap64_pow (a : Int) (n : Nat) : wrap64 (wrap64 a ^ n) = wrap64 (a ^ n) := by
  induction n with
  | zero => simp
  | succ n ih => rw [Int.pow_succ, Int.pow_succ, ← wrap64_mul, ih, wrap64_idem, wrap64_mul]

theorem wrap64_emod32 (x : Int) : wrap64 x % 2 ^ 32 = x % 2 ^ 32 := by
  rw [pow32, wrap64_def]; omega

/-- trees over `+ - * ^` in which the exact value of every exponent sub-tree lies in `[0, 2^32)` -/
def ring4 : E Int → Bool
  | .atom _ => true
  | .bin .div _ _ => false
  | .bin .pow l r => ring4 l && ring4 r && decide (0 ≤ evalZ r) && decide (evalZ r < 2 ^ 32)
  | .bin _ l r => ring4 l && ring4 r

theorem C19_wrap_hom_pow (t : E Int) (h : ring4 t = true) :
    ∃ r, evalTree t = .ok r ∧ wrap64 r = wrap64 (evalZ t) := by
  induction t with
  | atom v => exact ⟨v, rfl, rfl⟩
  | bin o l r ihl ihr =>
    cases o with
    | div => simp [ring4] at h
    | add =>
      simp only [ring4, Bool.and_eq_true] at h
      obtain ⟨a, ha1, ha2⟩ := ihl h.1
      obtain ⟨b, hb1, hb2⟩ := ihr h.2
      refine ⟨wrap64 (a + b), by simp [evalTree, ha1, hb1, Outcome.bind, applyOp], ?_⟩
      rw [wrap64_idem, evalZ, ← wrap64_add a b, ha2, hb2, wrap64_add]
    | sub =>
      simp only [ring4, Bool.and_eq_true] at h
      obtain ⟨a, ha1, ha2⟩ := ihl h.1
      obtain ⟨b, hb1, hb2⟩ := ihr h.2
      refine ⟨wrap64 (a - b), by simp [evalTree, ha1, hb1, Outcome.bind, applyOp], ?_⟩
      rw [wrap64_idem, evalZ, ← wrap64_sub a b, ha2, hb2, wrap64_sub]
    | mul =>
      simp only [ring4, Bool.and_eq_true] at h
      obtain ⟨a, ha1, ha2⟩ := ihl h.1
      obtain ⟨b, hb1, hb2⟩ := ihr h.2
      refine ⟨wrap64 (a * b), by simp [evalTree, ha1, hb1, Outcome.bind, applyOp], ?_⟩
      rw [wrap64_idem, evalZ, ← wrap64_mul a b, ha2, hb2, wrap64_mul]
    | pow =>
      simp only [ring4, Bool.and_eq_true, decide_eq_true_eq] at h
      obtain ⟨⟨⟨hl, hr⟩, h0⟩, h1⟩ := h
      obtain ⟨a, ha1, ha2⟩ := ihl hl
      obtain ⟨b, hb1, hb2⟩ := ihr hr
      have hb : b % 2 ^ 32 = evalZ r := by
        rw [← wrap64_emod32 b, hb2, wrap64_emod32, Int.emod_eq_of_lt h0 h1]
      refine ⟨wrap64 (a ^ (evalZ r).toNat), ?_, ?_⟩
      · simp only [evalTree, ha1, hb1, Outcome.bind, C19_pow_apply, hb]
      · rw [wrap64_idem, evalZ, ← wrap64_pow a, ha2, wrap64_pow]

def inI64 (z : Int) : Bool := decide (i64Min ≤ z) && decide (z ≤ i64Max)

theorem wrap64_range (x : Int) : inI64 (wrap64 x) = true := by
  simp only [inI64, i64Min, i64Max, pow63, Bool.and_eq_true, decide_eq_true_eq]
  rw [wrap64_def]; omega

theorem wrap64_of_range (x : Int) (h : inI64 x = true) : wrap64 x = x := by
  simp only [inI64, i64Min, i64Max, pow63, Bool.and_eq_true, decide_eq_true_eq] at h
  rw [wrap64_def]; omega

theorem applyOp_range (o : Op) (a b r : Int) (h : applyOp o a b = .ok r) : inI64 r = true := by
  cases o <;> simp only [applyOp] at h
  · injection h with h; subst h; exact wrap64_range _
  · injection h with h; subst h; exact wrap64_range _
  · injection h with h; subst h; exact wrap64_range _
  · split at h
    · injection h with h; subst h
      split
      · simp [inI64, i64Min, i64Max, pow63]
      · split <;> simp [inI64, i64Min, i64Max, pow63]
    · injection h with h; subst h; exact wrap64_range _
  · have h' := Outcome.ok.inj h; rw [← h']; unfold powWrap; exact wrap64_range _

def leavesIn : E Int → Bool
  | .atom v => inI64 v
  | .bin _ l r => leavesIn l && leavesIn r

theorem evalTree_range (t : E Int) (hl : leavesIn t = true) (r : Int) (h : evalTree t = .ok r) : inI64 r = true := by
  cases t with
  | atom v => simp only [evalTree] at h; injection h with h; subst h; exact hl
  | bin o l r' =>
    simp only [evalTree] at h
    cases h1 : evalTree l <;> rw [h1] at h <;> simp only [Outcome.bind] at h <;> try contradiction
    cases h2 : evalTree r' <;> rw [h2] at h <;> try contradiction
    exact applyOp_range _ _ _ _ h

theorem C19_wrap_hom_pow_exact (t : E Int) (h : ring4 t = true) (hl : leavesIn t = true) :
    evalTree t = .ok (wrap64 (evalZ t)) := by
  obtain ⟨r, h1, h2⟩ := C19_wrap_hom_pow t h
  rw [h1, ← h2, wrap64_of_range r (evalTree_range t hl r h1)]

def toE : T → E Int
  | .num z => .atom z
  | .bin o l r => .bin o (toE l) (toE r)

theorem C19_spec_eval (t : T) (v : Int) (h : specEval t = some v) : evalTree (toE t) = .ok v := by
  induction t generalizing v with
  | num z =>
    simp only [specEval] at h
    split at h
    · injection h with h; subst h; rfl
    · contradiction
  | bin o l r ihl ihr =>
    simp only [specEval] at h
    split at h
    · rename_i a b ha hb
      simp only [toE, evalTree, ihl a ha, ihr b hb, Outcome.bind]
      cases o <;> simp only at h
      · injection h with h; subst h; rfl
      · injection h with h; subst h; rfl
      · injection h with h; subst h; rfl
      · rw [C19_div]
        split at h <;> rename_i hb0 <;> simp only [hb0, ↓reduceIte] <;> injection h with h <;> subst h <;> rfl
      · split at h
        · rename_i hb
          injection h with h; subst h
          exact C19_pow_inrange a b hb.1 (by rw [pow32]; omega)
        · contradiction
    · contradiction

/-! ### non-vacuity -/
example : powWrap 3 41 = wrap64 (3 ^ 41) := C19_pow_hom 3 41 (by decide)
example : powWrap 3 41 = -420491770248316829 := by decide +kernel
example : powWrap (-2) 63 = i64Min := by decide +kernel
example : applyOp .pow 2 64 = .ok 0 := by decide +kernel
example : applyOp .pow 2 (-1) = .ok 0 := by decide +kernel
example : applyOp .pow 3 (-1) = .ok (wrap64 (3 ^ 4294967295)) := by
  rw [C19_pow_negative 3 (-1) (by decide) (by decide)]; rfl
example : applyOp .pow 3 (2 ^ 32 + 2) = .ok 9 := by
  rw [C19_pow_huge 3 (2 ^ 32 + 2) 1 (by decide) (by decide)]; decide +kernel

def wTree2 : E Int := .bin .sub (.bin .mul (.bin .pow (.atom 3) (.atom 41)) (.atom 5)) (.bin .pow (.atom (-7)) (.bin .add (.atom 2) (.atom 30)))
example : ring4 wTree2 = true := by decide +kernel
example : leavesIn wTree2 = true := by decide +kernel
example : ring4 wTree = true := by decide +kernel
def wT : T := .bin .div (.bin .pow (.num 3) (.num 41)) (.bin .sub (.num 2) (.num 9))
example : specEval wT = some 60070252892616689 := by decide +kernel

end Cicada.C19
