import Cicada.Thm.C18
/-!
# C18 — more: row order, `LIKE` search, rowids after `history delete`

Model: `Model/History.lean` (`Db`, `Db.next`, `add`, `delete`, `like`, `list`).

(a) `C18_rowids_increasing`: in every table reachable from the empty one by `history add` / `history delete`, the rowids
    are strictly increasing in list order, positive, and `Db.next` is larger than all of them; so listing by rowid is
    listing in list order (`C18_orderBy_rowid`), and that is submission order: `C18_order` (the exact reference fold),
    `C18_order_sublist` (the stored inputs are a subsequence of the submitted trimmed lines), `C18_order_no_delete`.
(b) `C18_like_matches`: `like` with enough fuel is SQLite's LIKE, given as an inductive relation (`%` any sequence, `_` any
    one character, other characters equal up to ASCII case); `C18_like_contains`: for a pattern without `%` / `_`,
    `'%' ++ pat ++ '%'` matches exactly the strings in which `pat` occurs contiguously up to ASCII case;
    `C18_list_contains`: `list db pat` returns exactly those rows' inputs, in order (the fuel `list` passes is enough).
(c) `C18_next_eq_last` / `C18_delete_then_add`: a table without AUTOINCREMENT gives a new row one more than the rowid of the
    newest surviving row: after the newest row is deleted, the next added line REUSES its rowid whenever that was one
    above the row before it (always the case when no deletion hit the row before) — `ex_rowid_reused`.
-/
namespace Cicada.Hist

/-! ## (a) order -/

/-- one operation on the history table -/
inductive Op where
  /-- `history add LINE` (or the prompt recording a line) in directory `dir` -/
  | add (line dir : Str)
  /-- `history delete ID…` -/
  | del (ids : List Nat)
  deriving Repr, DecidableEq

def applyOp (db : Db) : Op → Db
  | .add line dir => add db line dir
  | .del ids => delete db ids

/-- the table after a history of operations, starting from the empty table -/
def runOps (ops : List Op) : Db := ops.foldl applyOp {}

/-- the rowids are strictly increasing in list order -/
def Sorted (db : Db) : Prop := (db.rows.map (·.rowid)).Pairwise (· < ·)

/-- all rowids are positive (SQLite starts at 1; the listing selects `ROWID > 0`) -/
def Positive (db : Db) : Prop := ∀ r ∈ db.rows, 0 < r.rowid

theorem foldl_max_spec : ∀ (rows : List Row) (m : Nat),
    m ≤ rows.foldl (fun m r => max m r.rowid) m ∧ ∀ r ∈ rows, r.rowid ≤ rows.foldl (fun m r => max m r.rowid) m := by
  intro rows
  induction rows with
  | nil => intro m; simp
  | cons a rest ih =>
    intro m
    simp only [List.foldl_cons, List.mem_cons]
    have h := ih (max m a.rowid)
    refine ⟨by omega, ?_⟩
    rintro r (rfl | hr)
    · omega
    · exact h.2 r hr

/-- `Db.next` is fresh in EVERY table -/
theorem next_fresh (db : Db) : ∀ r ∈ db.rows, r.rowid < db.next := by
  intro r hr
  have := (foldl_max_spec db.rows 0).2 r hr
  unfold Db.next
  omega

theorem next_pos (db : Db) : 0 < db.next := by unfold Db.next; omega

theorem sorted_add (db : Db) (line dir : Str) (h : Sorted db) : Sorted (add db line dir) := by
  unfold Sorted at *
  simp only [add, List.map_append, List.map_cons, List.map_nil, List.pairwise_append, List.pairwise_cons,
    List.not_mem_nil, false_imp_iff, implies_true, List.Pairwise.nil, and_self, true_and, List.mem_cons, or_false,
    List.mem_map, forall_exists_index, and_imp]
  refine ⟨h, ?_⟩
  rintro a r hr rfl b rfl
  exact next_fresh db r hr

theorem sorted_delete (db : Db) (ids : List Nat) (h : Sorted db) : Sorted (delete db ids) := by
  unfold Sorted at *
  simp only [delete]
  rw [List.pairwise_map] at *
  exact h.filter _

theorem positive_add (db : Db) (line dir : Str) (h : Positive db) : Positive (add db line dir) := by
  intro r hr
  simp only [add, List.mem_append, List.mem_cons, List.not_mem_nil, or_false] at hr
  rcases hr with hr | rfl
  · exact h r hr
  · exact next_pos db

theorem positive_delete (db : Db) (ids : List Nat) (h : Positive db) : Positive (delete db ids) := by
  intro r hr
  simp only [delete, List.mem_filter] at hr
  exact h r hr.1

theorem foldl_sorted : ∀ (ops : List Op) (db : Db), Sorted db → Positive db →
    Sorted (ops.foldl applyOp db) ∧ Positive (ops.foldl applyOp db) := by
  intro ops
  induction ops with
  | nil => intro db h p; exact ⟨h, p⟩
  | cons o rest ih =>
    intro db h p
    simp only [List.foldl_cons]
    cases o with
    | add line dir => exact ih _ (sorted_add db line dir h) (positive_add db line dir p)
    | del ids => exact ih _ (sorted_delete db ids h) (positive_delete db ids p)

/-- **rowids increase with the list order** in every reachable table, are positive, and `Db.next` is fresh -/
theorem C18_rowids_increasing (ops : List Op) :
    ((runOps ops).rows.map (·.rowid)).Pairwise (· < ·) ∧
    (∀ r ∈ (runOps ops).rows, 0 < r.rowid) ∧
    (∀ r ∈ (runOps ops).rows, r.rowid < (runOps ops).next) := by
  have h := foldl_sorted ops {} (by simp [Sorted]) (by intro r hr; simp at hr)
  exact ⟨h.1, h.2, next_fresh _⟩

/-- `SELECT … ORDER BY rowid` -/
def orderByRowid (db : Db) : List Row := db.rows.mergeSort (fun a b => decide (a.rowid ≤ b.rowid))

theorem orderBy_of_sorted (db : Db) (h : Sorted db) : orderByRowid db = db.rows := by
  unfold orderByRowid
  apply List.mergeSort_of_pairwise
  unfold Sorted at h
  rw [List.pairwise_map] at h
  exact h.imp (fun hab => by simpa using Nat.le_of_lt hab)

/-- listing a reachable table by rowid is listing it in list order -/
theorem C18_orderBy_rowid (ops : List Op) : orderByRowid (runOps ops) = (runOps ops).rows :=
  orderBy_of_sorted _ (C18_rowids_increasing ops).1

/-- the submitted lines as they are stored (trimmed, KF-C18-trim), in submission order -/
def submitted (ops : List Op) : List Str :=
  ops.filterMap (fun o => match o with | .add line _ => some (trim line) | .del _ => none)

theorem foldl_sublist : ∀ (ops : List Op) (db : Db) (pre : List Str), (db.rows.map (·.inp)).Sublist pre →
    ((ops.foldl applyOp db).rows.map (·.inp)).Sublist (pre ++ submitted ops) := by
  intro ops
  induction ops with
  | nil => intro db pre h; simpa [submitted] using h
  | cons o rest ih =>
    intro db pre h
    simp only [List.foldl_cons]
    cases o with
    | add line dir =>
      have h1 : ((applyOp db (.add line dir)).rows.map (·.inp)).Sublist (pre ++ [trim line]) := by
        simp only [applyOp, add, List.map_append, List.map_cons, List.map_nil]
        exact h.append (List.Sublist.refl _)
      have := ih _ _ h1
      simpa [submitted, List.append_assoc] using this
    | del ids =>
      have h1 : ((applyOp db (.del ids)).rows.map (·.inp)).Sublist pre := by
        simp only [applyOp, delete]
        exact (List.filter_sublist.map _).trans h
      have := ih _ _ h1
      simpa [submitted] using this

/-- **submission order, subsequence form**: what a later shell process reads in rowid order is a subsequence of the
submitted (trimmed) lines in submission order — deletions only remove, nothing is reordered or invented -/
theorem C18_order_sublist (ops : List Op) : ((orderByRowid (runOps ops)).map (·.inp)).Sublist (submitted ops) := by
  rw [C18_orderBy_rowid]
  have := foldl_sublist ops {} [] (List.Sublist.refl _)
  rw [List.nil_append] at this
  exact this

theorem foldl_no_delete : ∀ (ops : List Op) (db : Db), (∀ o ∈ ops, ∀ ids, o ≠ .del ids) →
    (ops.foldl applyOp db).rows.map (·.inp) = db.rows.map (·.inp) ++ submitted ops := by
  intro ops
  induction ops with
  | nil => intro db _; simp [submitted]
  | cons o rest ih =>
    intro db h
    simp only [List.foldl_cons]
    cases o with
    | add line dir =>
      rw [ih _ (fun o ho => h o (List.mem_cons_of_mem _ ho))]
      simp [applyOp, add, submitted]
    | del ids => exact absurd rfl (h _ List.mem_cons_self ids)

/-- without deletions every submitted line is there, in submission order -/
theorem C18_order_no_delete (ops : List Op) (h : ∀ o ∈ ops, ∀ ids, o ≠ .del ids) :
    (orderByRowid (runOps ops)).map (·.inp) = submitted ops := by
  rw [C18_orderBy_rowid]
  have := foldl_no_delete ops {} h
  rw [show (({} : Db).rows.map (·.inp)) = [] from rfl, List.nil_append] at this
  exact this

/-! ### the exact reference: a numbered list -/

/-- reference semantics of the table as the statement describes it: a list of numbered lines in submission order;
a new line is numbered one more than the newest line still there (1 in an empty list); `delete` removes the numbers named -/
def specStep (l : List (Nat × Str)) : Op → List (Nat × Str)
  | .add line _ => l ++ [((l.getLast?.map (·.1)).getD 0 + 1, trim line)]
  | .del ids => l.filter (fun e => !ids.contains e.1)

def lastId (db : Db) : Nat := (db.rows.getLast?.map (·.rowid)).getD 0

/-- in a table with increasing rowids the next rowid is one more than the LAST row's (not a high-water mark) -/
theorem next_eq_last (db : Db) (h : Sorted db) : db.next = lastId db + 1 := by
  unfold Db.next lastId
  rcases List.eq_nil_or_concat db.rows with hnil | ⟨pre, r, hrows⟩
  · simp [hnil]
  · rw [List.concat_eq_append] at hrows
    have hs : ((pre ++ [r]).map (·.rowid)).Pairwise (· < ·) := by rw [← hrows]; exact h
    simp only [List.map_append, List.map_cons, List.map_nil, List.pairwise_append, List.mem_map, List.mem_cons,
      List.not_mem_nil, or_false, forall_exists_index, and_imp] at hs
    have hlt : ∀ q ∈ pre, q.rowid < r.rowid := fun q hq => hs.2.2 _ q hq rfl _ rfl
    have hmax : pre.foldl (fun m r => max m r.rowid) 0 ≤ r.rowid := by
      have key : ∀ (l : List Row) (m : Nat), m ≤ r.rowid → (∀ q ∈ l, q.rowid < r.rowid) →
          l.foldl (fun m r => max m r.rowid) m ≤ r.rowid := by
        intro l
        induction l with
        | nil => intro m hm _; simpa using hm
        | cons a l ih =>
          intro m hm hl
          simp only [List.foldl_cons]
          apply ih
          · have := hl a List.mem_cons_self; omega
          · exact fun q hq => hl q (List.mem_cons_of_mem _ hq)
      exact key pre 0 (Nat.zero_le _) hlt
    rw [hrows]
    simp only [List.foldl_append, List.foldl_cons, List.foldl_nil, List.getLast?_append, List.getLast?_singleton,
      Option.some_or, Option.map_some, Option.getD_some]
    omega

def view (db : Db) : List (Nat × Str) := db.rows.map (fun r => (r.rowid, r.inp))

theorem view_getLast (db : Db) : ((view db).getLast?.map (·.1)).getD 0 = lastId db := by
  unfold view lastId
  rw [List.getLast?_map]
  cases db.rows.getLast? <;> rfl

theorem view_step (db : Db) (h : Sorted db) (o : Op) : view (applyOp db o) = specStep (view db) o := by
  cases o with
  | add line dir =>
    simp only [applyOp, specStep, view_getLast]
    simp only [view, add, List.map_append, List.map_cons, List.map_nil, next_eq_last db h]
  | del ids =>
    simp only [applyOp, specStep, view, delete, List.filter_map]
    rfl

theorem foldl_view : ∀ (ops : List Op) (db : Db), Sorted db → Positive db →
    view (ops.foldl applyOp db) = ops.foldl specStep (view db) := by
  intro ops
  induction ops with
  | nil => intro db _ _; rfl
  | cons o rest ih =>
    intro db h p
    simp only [List.foldl_cons]
    rw [← view_step db h o]
    have := foldl_sorted [o] db h p
    exact ih _ this.1 this.2

/-- **submission order, exact form**: the (rowid, input) pairs a later shell process reads in rowid order are exactly
the numbered list of the reference semantics: the submitted trimmed lines that were not deleted, in submission order,
each numbered one more than the newest line present when it was added -/
theorem C18_order (ops : List Op) :
    (orderByRowid (runOps ops)).map (fun r => (r.rowid, r.inp)) = ops.foldl specStep [] := by
  rw [C18_orderBy_rowid]
  exact foldl_view ops {} (by simp [Sorted]) (by intro r hr; simp at hr)

/-- non-vacuity: adds with blanks around, deletion of a middle row and of the newest row, then another add -/
def exOps : List Op :=
  [.add " a ".toList "/".toList, .add "b".toList "/".toList, .add "c".toList "/t".toList, .del [2], .add "d".toList "/".toList,
   .del [4], .add "e".toList "/".toList]

example : (orderByRowid (runOps exOps)).map (fun r => (r.rowid, r.inp)) = [(1, ['a']), (3, ['c']), (4, ['e'])] ∧
    submitted exOps = [['a'], ['b'], ['c'], ['d'], ['e']] ∧ (runOps exOps).next = 5 := by
  rw [C18_orderBy_rowid]
  decide

/-! ## (c) rowids after a deletion -/

/-- **the next rowid is one more than the newest surviving row's** in every reachable table (1 when it is empty) -/
theorem C18_next_eq_last (ops : List Op) : (runOps ops).next = lastId (runOps ops) + 1 :=
  next_eq_last _ (C18_rowids_increasing ops).1

/-- deleting rows other than the newest does not change the next rowid -/
theorem C18_delete_older_keeps_next (db : Db) (h : Sorted db) (pre : List Row) (r : Row) (hrows : db.rows = pre ++ [r])
    (ids : List Nat) (hr : r.rowid ∉ ids) : (delete db ids).next = db.next := by
  rw [next_eq_last _ (sorted_delete db ids h), next_eq_last db h]
  unfold lastId
  simp [delete, hrows, List.filter_append, hr]

/-- **deleting the newest row and adding a line**: the new row is numbered one more than the row BEFORE the deleted one
(1 if there is none) — never above the deleted rowid, and equal to it (the rowid is reused, so a rowid does not identify a
line for ever) exactly when the deleted row was numbered one more than the row before it -/
theorem C18_delete_then_add (db : Db) (h : Sorted db) (hp : Positive db) (pre : List Row) (r : Row) (hrows : db.rows = pre ++ [r])
    (line dir : Str) :
    (add (delete db [r.rowid]) line dir).rows =
      pre ++ [{ rowid := (pre.getLast?.map (·.rowid)).getD 0 + 1, inp := trim line, dir := dir }] ∧
    (pre.getLast?.map (·.rowid)).getD 0 + 1 ≤ r.rowid := by
  have hs : ((pre ++ [r]).map (·.rowid)).Pairwise (· < ·) := by rw [← hrows]; exact h
  simp only [List.map_append, List.map_cons, List.map_nil, List.pairwise_append, List.mem_map, List.mem_cons,
    List.not_mem_nil, or_false, forall_exists_index, and_imp] at hs
  have hlt : ∀ q ∈ pre, q.rowid < r.rowid := fun q hq => hs.2.2 _ q hq rfl _ rfl
  have hdel : (delete db [r.rowid]).rows = pre := by
    simp only [delete, hrows, List.filter_append, List.filter_cons, List.filter_nil]
    have hpre : pre.filter (fun q => !([r.rowid].contains q.rowid)) = pre := by
      apply List.filter_eq_self.mpr
      intro q hq
      have := hlt q hq
      simp; omega
    rw [hpre]
    simp
  have hsd := sorted_delete db [r.rowid] h
  constructor
  · rw [C18_add_appends, next_eq_last _ hsd]
    simp only [lastId, hdel]
  · cases hl : pre.getLast? with
    | none =>
      have := hp r (by rw [hrows]; simp)
      simp; omega
    | some q =>
      have := hlt q (List.mem_of_getLast? hl)
      simp; omega

/-- KF witness: `add a; add b; delete 2; add c` — the line `c` gets rowid 2 again -/
theorem ex_rowid_reused :
    (runOps [.add ['a'] [], .add ['b'] [], .del [2], .add ['c'] []]).rows.map (fun r => (r.rowid, r.inp)) = [(1, ['a']), (2, ['c'])] := by
  decide

/-- non-vacuity of `C18_delete_then_add` (reuse) and the other case (no reuse: the row before the newest was deleted earlier) -/
example : let db := runOps [.add ['a'] [], .add ['b'] [], .add ['c'] [], .del [2]]
    db.rows.map (·.rowid) = [1, 3] ∧ (add (delete db [3]) ['d'] []).rows.map (fun r => (r.rowid, r.inp)) = [(1, ['a']), (2, ['d'])] := by
  decide

/-! ## (b) LIKE -/

theorem like_zero (p s : Str) : like 0 p s = false := by simp only [like]
theorem like_nil (f : Nat) (s : Str) : like (f+1) [] s = decide (s = []) := by
  simp only [like]
theorem like_pct_nil (f : Nat) (pr : Str) : like (f+1) ('%' :: pr) [] = like f pr [] := by
  simp only [like, Bool.or_false]
theorem like_pct_cons (f : Nat) (pr : Str) (d : Char) (sr : Str) :
    like (f+1) ('%' :: pr) (d :: sr) = (like f pr (d :: sr) || like f ('%' :: pr) sr) := by
  simp only [like]
theorem like_und_nil (f : Nat) (pr : Str) : like (f+1) ('_' :: pr) [] = false := by
  simp only [like]
theorem like_und_cons (f : Nat) (pr : Str) (d : Char) (sr : Str) : like (f+1) ('_' :: pr) (d :: sr) = like f pr sr := by
  simp only [like]
theorem like_chr_nil (f : Nat) (c : Char) (pr : Str) (h1 : c ≠ '%') (h2 : c ≠ '_') : like (f+1) (c :: pr) [] = false := by
  unfold like
  split
  · rename_i h; cases h
  · rename_i h; simp at h; exact absurd h.1 h1
  · rename_i h; simp at h; exact absurd h.1 h2
  · rfl
theorem like_chr_cons (f : Nat) (c : Char) (pr : Str) (d : Char) (sr : Str) (h1 : c ≠ '%') (h2 : c ≠ '_') :
    like (f+1) (c :: pr) (d :: sr) = (decide (lowerA c = lowerA d) && like f pr sr) := by
  conv => lhs; unfold like
  split
  · rename_i h; cases h
  · rename_i h; simp at h; exact absurd h.1 h1
  · rename_i h; simp at h; exact absurd h.1 h2
  · rename_i h; simp at h; obtain ⟨rfl, rfl⟩ := h; rfl

/-- SQLite's LIKE (default settings, no ESCAPE) as a relation: `%` stands for any sequence of characters (also the empty
one), `_` for exactly one character, every other pattern character for itself up to ASCII case -/
inductive Matches : Str → Str → Prop
  | nil : Matches [] []
  | pct (pr s1 s2 : Str) : Matches pr s2 → Matches ('%' :: pr) (s1 ++ s2)
  | und (pr : Str) (d : Char) (sr : Str) : Matches pr sr → Matches ('_' :: pr) (d :: sr)
  | chr (c : Char) (pr : Str) (d : Char) (sr : Str) : c ≠ '%' → c ≠ '_' → lowerA c = lowerA d → Matches pr sr →
      Matches (c :: pr) (d :: sr)

theorem matches_pct_inv {pr s : Str} (h : Matches ('%' :: pr) s) : ∃ s1 s2, s = s1 ++ s2 ∧ Matches pr s2 := by
  generalize hp : '%' :: pr = p at h
  cases h with
  | nil => cases hp
  | pct pr' s1 s2 hm => simp at hp; subst hp; exact ⟨s1, s2, rfl, hm⟩
  | und pr' d sr hm => simp at hp
  | chr c pr' d sr h1 h2 hl hm => simp at hp; exact absurd hp.1.symm h1

theorem matches_chr_inv {c : Char} {pr s : Str} (h1 : c ≠ '%') (h2 : c ≠ '_') (h : Matches (c :: pr) s) :
    ∃ d sr, s = d :: sr ∧ lowerA c = lowerA d ∧ Matches pr sr := by
  generalize hp : c :: pr = p at h
  cases h with
  | nil => cases hp
  | pct pr' s1 s2 hm => simp at hp; exact absurd hp.1 h1
  | und pr' d sr hm => simp at hp; exact absurd hp.1 h2
  | chr c' pr' d sr _ _ hl hm => simp at hp; obtain ⟨rfl, rfl⟩ := hp; exact ⟨d, sr, rfl, hl, hm⟩

theorem matches_nil_inv {s : Str} (h : Matches [] s) : s = [] := by
  generalize hp : ([] : Str) = p at h
  cases h with
  | nil => rfl
  | pct pr' s1 s2 hm => cases hp
  | und pr' d sr hm => cases hp
  | chr c' pr' d sr _ _ hl hm => cases hp

/-- soundness, for every fuel -/
theorem like_sound : ∀ (f : Nat) (p s : Str), like f p s = true → Matches p s := by
  intro f
  induction f with
  | zero => intro p s h; simp [like_zero] at h
  | succ f ih =>
    intro p s h
    cases p with
    | nil =>
      rw [like_nil] at h
      have : s = [] := by simpa using h
      subst this; exact .nil
    | cons c pr =>
      by_cases h1 : c = '%'
      · subst h1
        cases s with
        | nil =>
          rw [like_pct_nil] at h
          exact .pct pr [] [] (ih _ _ h)
        | cons d sr =>
          rw [like_pct_cons, Bool.or_eq_true] at h
          rcases h with h | h
          · exact .pct pr [] (d :: sr) (ih _ _ h)
          · obtain ⟨s1, s2, rfl, hm⟩ := matches_pct_inv (ih _ _ h)
            exact .pct pr (d :: s1) s2 hm
      · by_cases h2 : c = '_'
        · subst h2
          cases s with
          | nil => rw [like_und_nil] at h; cases h
          | cons d sr => rw [like_und_cons] at h; exact .und pr d sr (ih _ _ h)
        · cases s with
          | nil => rw [like_chr_nil _ _ _ h1 h2] at h; cases h
          | cons d sr =>
            rw [like_chr_cons _ _ _ _ _ h1 h2, Bool.and_eq_true] at h
            exact .chr c pr d sr h1 h2 (by simpa using h.1) (ih _ _ h.2)

/-- completeness, for every fuel of at least `|pattern| + |string| + 1` -/
theorem like_complete {p s : Str} (h : Matches p s) : ∀ f, p.length + s.length + 1 ≤ f → like f p s = true := by
  induction h with
  | nil =>
    intro f hf
    obtain ⟨f', rfl⟩ : ∃ f', f = f' + 1 := ⟨f - 1, by omega⟩
    simp [like_nil]
  | pct pr s1 s2 hm ih =>
    induction s1 with
    | nil =>
      intro f hf
      obtain ⟨f', rfl⟩ : ∃ f', f = f' + 1 := ⟨f - 1, by omega⟩
      simp only [List.length_cons, List.nil_append] at hf ⊢
      cases s2 with
      | nil => rw [like_pct_nil]; exact ih f' (by simp at hf ⊢; omega)
      | cons d sr => rw [like_pct_cons, ih f' (by omega)]; rfl
    | cons d s1 ih1 =>
      intro f hf
      obtain ⟨f', rfl⟩ : ∃ f', f = f' + 1 := ⟨f - 1, by omega⟩
      simp only [List.cons_append]
      rw [like_pct_cons, ih1 f' (by simp at hf ⊢; omega)]
      simp
  | und pr d sr hm ih =>
    intro f hf
    obtain ⟨f', rfl⟩ : ∃ f', f = f' + 1 := ⟨f - 1, by omega⟩
    rw [like_und_cons]
    exact ih f' (by simp at hf; omega)
  | chr c pr d sr h1 h2 hl hm ih =>
    intro f hf
    obtain ⟨f', rfl⟩ : ∃ f', f = f' + 1 := ⟨f - 1, by omega⟩
    rw [like_chr_cons _ _ _ _ _ h1 h2, ih f' (by simp at hf; omega)]
    simp [hl]

/-- **`like` is SQLite's LIKE** whenever the fuel is at least `|pattern| + |string| + 1` -/
theorem C18_like_matches (f : Nat) (p s : Str) (hf : p.length + s.length + 1 ≤ f) : like f p s = true ↔ Matches p s :=
  ⟨like_sound f p s, fun h => like_complete h f hf⟩

/-- the pattern has no wildcard -/
def literal (pat : Str) : Bool := pat.all (fun c => c != '%' && c != '_')

/-- `pat` occurs in `s` as a contiguous substring, up to ASCII case -/
def Occurs (pat s : Str) : Prop := ∃ a m b, s = a ++ m ++ b ∧ m.map lowerA = pat.map lowerA

/-- `s` begins with `pat` up to ASCII case -/
def prefixCI (pat s : Str) : Bool := (s.take pat.length).map lowerA == pat.map lowerA

/-- executable form of `Occurs` -/
def occursB (pat : Str) : Str → Bool
  | [] => prefixCI pat []
  | d :: sr => prefixCI pat (d :: sr) || occursB pat sr

theorem prefixCI_iff (pat s : Str) : prefixCI pat s = true ↔ ∃ m b, s = m ++ b ∧ m.map lowerA = pat.map lowerA := by
  unfold prefixCI
  simp only [beq_iff_eq]
  constructor
  · intro h
    exact ⟨s.take pat.length, s.drop pat.length, (List.take_append_drop _ _).symm, h⟩
  · rintro ⟨m, b, rfl, hm⟩
    have hl : m.length = pat.length := by simpa using congrArg List.length hm
    rw [← hl, List.take_left']
    · exact hm
    · rfl

theorem occurs_nil_iff (pat : Str) : Occurs pat [] ↔ ∃ m b, ([] : Str) = m ++ b ∧ m.map lowerA = pat.map lowerA := by
  constructor
  · rintro ⟨a, m, b, h, hm⟩
    have : a = [] ∧ m = [] ∧ b = [] := by simpa [and_assoc] using h.symm
    obtain ⟨rfl, rfl, rfl⟩ := this
    exact ⟨[], [], rfl, hm⟩
  · rintro ⟨m, b, h, hm⟩
    exact ⟨[], m, b, by simpa using h, hm⟩

theorem occurs_cons_iff (pat : Str) (d : Char) (sr : Str) :
    Occurs pat (d :: sr) ↔ (∃ m b, d :: sr = m ++ b ∧ m.map lowerA = pat.map lowerA) ∨ Occurs pat sr := by
  constructor
  · rintro ⟨a, m, b, h, hm⟩
    cases a with
    | nil => left; exact ⟨m, b, by simpa using h, hm⟩
    | cons x a =>
      right
      simp only [List.cons_append, List.cons.injEq] at h
      exact ⟨a, m, b, h.2, hm⟩
  · rintro (⟨m, b, h, hm⟩ | ⟨a, m, b, h, hm⟩)
    · exact ⟨[], m, b, by simpa using h, hm⟩
    · exact ⟨d :: a, m, b, by simp [h], hm⟩

theorem occursB_iff (pat s : Str) : occursB pat s = true ↔ Occurs pat s := by
  induction s with
  | nil => rw [occursB, prefixCI_iff, occurs_nil_iff]
  | cons d sr ih => rw [occursB, Bool.or_eq_true, prefixCI_iff, ih, occurs_cons_iff]

theorem matches_pct_iff (pr s : Str) : Matches ('%' :: pr) s ↔ ∃ s1 s2, s = s1 ++ s2 ∧ Matches pr s2 :=
  ⟨matches_pct_inv, by rintro ⟨s1, s2, rfl, h⟩; exact .pct pr s1 s2 h⟩

/-- a literal prefix of the pattern consumes a prefix of the string that equals it up to case -/
theorem matches_literal (pat rest : Str) (hl : literal pat = true) : ∀ s,
    Matches (pat ++ rest) s ↔ ∃ m b, s = m ++ b ∧ m.map lowerA = pat.map lowerA ∧ Matches rest b := by
  induction pat with
  | nil =>
    intro s
    constructor
    · intro h; exact ⟨[], s, rfl, rfl, h⟩
    · rintro ⟨m, b, rfl, hm, h⟩
      have : m = [] := by simpa using hm
      subst this; exact h
  | cons c pat ih =>
    intro s
    simp only [literal, List.all_cons, Bool.and_eq_true, bne_iff_ne, ne_eq] at hl
    obtain ⟨⟨h1, h2⟩, hl'⟩ := hl
    have ih' := ih (by simpa [literal] using hl')
    constructor
    · intro h
      obtain ⟨d, sr, rfl, hcd, hm⟩ := matches_chr_inv h1 h2 h
      obtain ⟨m, b, rfl, hmm, hb⟩ := (ih' sr).mp hm
      exact ⟨d :: m, b, rfl, by simp [hcd, hmm], hb⟩
    · rintro ⟨m, b, rfl, hm, hb⟩
      cases m with
      | nil => simp at hm
      | cons d m =>
        simp only [List.map_cons, List.cons.injEq] at hm
        exact .chr c _ d _ h1 h2 hm.1.symm ((ih' _).mpr ⟨m, b, rfl, hm.2, hb⟩)

theorem matches_pct_only (b : Str) : Matches ['%'] b := by
  have := Matches.pct [] b [] .nil
  simpa using this

/-- `%pat%` for a literal `pat`: the strings in which `pat` occurs -/
theorem matches_contains (pat s : Str) (hl : literal pat = true) : Matches ('%' :: (pat ++ ['%'])) s ↔ Occurs pat s := by
  rw [matches_pct_iff]
  constructor
  · rintro ⟨a, t, rfl, h⟩
    obtain ⟨m, b, rfl, hm, _⟩ := (matches_literal pat ['%'] hl t).mp h
    exact ⟨a, m, b, by simp, hm⟩
  · rintro ⟨a, m, b, rfl, hm⟩
    exact ⟨a, m ++ b, by simp, (matches_literal pat ['%'] hl _).mpr ⟨m, b, rfl, hm, matches_pct_only b⟩⟩

/-- **the search pattern of `history PATTERN`**: for a pattern without `%` and `_`, and any fuel of at least
`|pat| + |s| + 3` (= length of `%pat%` + length of the string + 1), `like` on `%pat%` says whether `pat` occurs in `s`
as a contiguous substring up to ASCII case -/
theorem C18_like_contains (pat s : Str) (hl : literal pat = true) (f : Nat) (hf : pat.length + s.length + 3 ≤ f) :
    like f ('%' :: (pat ++ ['%'])) s = true ↔ Occurs pat s := by
  rw [C18_like_matches f _ s (by simp; omega), matches_contains pat s hl]

/-- the fuel `list` passes to `like` is sufficient -/
theorem list_fuel_ok (pat s : Str) : pat.length + s.length + 3 ≤ 2 * (pat.length + s.length) + 4 := by omega

/-- **`history PATTERN` lists exactly the rows whose input contains the pattern** (up to ASCII case), in table order,
for every pattern without `%` and `_` (the empty pattern lists everything) -/
theorem C18_list_contains (db : Db) (pat : Str) (hl : literal pat = true) :
    list db pat = (db.rows.filter (fun r => occursB pat r.inp)).map (·.inp) := by
  unfold list
  congr 1
  apply List.filter_congr
  intro r _
  by_cases hp : pat = []
  · subst hp
    have : occursB [] r.inp = true := (occursB_iff _ _).mpr ⟨[], [], r.inp, by simp, rfl⟩
    simp [this]
  · have h := C18_like_contains pat r.inp hl _ (list_fuel_ok pat r.inp)
    rw [← occursB_iff] at h
    simp only [hp, decide_false, Bool.false_or]
    exact Bool.eq_iff_iff.mpr h

/-- membership form -/
theorem C18_list_mem (db : Db) (pat : Str) (hl : literal pat = true) (x : Str) :
    x ∈ list db pat ↔ ∃ r ∈ db.rows, r.inp = x ∧ Occurs pat x := by
  rw [C18_list_contains db pat hl]
  simp only [List.mem_map, List.mem_filter, occursB_iff]
  constructor
  · rintro ⟨r, ⟨hr, ho⟩, rfl⟩; exact ⟨r, hr, rfl, ho⟩
  · rintro ⟨r, hr, rfl, ho⟩; exact ⟨r, ⟨hr, ho⟩, rfl⟩

example : literal "Ab c".toList = true ∧ occursB "Ab c".toList "xxaB Cyy".toList = true ∧
    like (2 * (4 + 8) + 4) ('%' :: ("Ab c".toList ++ ['%'])) "xxaB Cyy".toList = true ∧
    like (2 * (4 + 7) + 4) ('%' :: ("Ab c".toList ++ ['%'])) "xxaBCyy".toList = false := by decide

/-- wildcards in the pattern are wildcards (the reason for the guard): `history a_c` also lists `abc` -/
example : list (runOps [.add "abc".toList [], .add "a_c".toList [], .add "ac".toList []]) "a_c".toList = ["abc".toList, "a_c".toList] := by
  decide

end Cicada.Hist

