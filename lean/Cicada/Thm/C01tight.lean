import Cicada.Lemmas.C01Tight
import Cicada.Thm.C01esc
/-!
# C01 — the TIGHT spelling of the list / pipe operators

`renderLineT p args ctx` writes the operator of the context directly after the last argument, without blanks:
`prog 'a'|q`, `prog "b";q`, `prog \;x&&q`, `prog 'x'||q` (field 6 = `t` of the `plan1`/`c01` stream of the driver).

`C01_tight_partial` : under `guardT` = `guardEsc` (the guard of `C01_esc_partial`: the complement of the finding classes of
`classify`, `guardEsc_iff`) and, in the `|q` context only, `stickyEnd args = false` (the driver's `sticky` fold), the first
pipeline of the tight line is planned with exactly the expected argv — the same observable as for the spaced line.
No further exclusion is needed: `;q`, `&&q`, `||q` are split off by `line_to_cmds` whatever the last argument is (a last
argument ending in an escaped `&`, `|`, `;`, `\` included: witnesses below), and they leave the same first pipeline as the
spaced spelling.

`C01_finding_pipe_first_tight` : the whole class outside (`guardEsc`, `|q`, `stickyEnd args = true`) violates the statement:
the tokenizer is in its sticky `\` mode (entered by a word that starts with an escaped `|`, kept while the following words
start with an escaped character), where a `|` does not end the word; `|q` is appended to the last argument and the decoy
stage disappears (KF-C01-esc-pipe-first-tight).
-/
namespace Cicada.C01
open Cicada Cicada.TokLemmas Cicada.PassLemmas Cicada.C03

/-- the suffixes of the driver (`tightSuffix`) -/
theorem tight_eq (ctx : Ctx) : ctx.tight = (match ctx with
    | .alone => [] | .pipe => "|q".toList | .semi => ";q".toList | .and => "&&q".toList | .or => "||q".toList) := by
  cases ctx <;> rfl

/-- `stickyEnd` is the driver's `sticky` fold, verbatim -/
theorem stickyEnd_eq_driver (args : List (Style × Str)) :
    stickyEnd args = args.foldl (fun (st : Bool) (x : C01.Style × Str) => match x with
      | (.esc, c :: _) => if c = '|' then true else if C01.isSpecial c then st else false
      | _ => false) false := rfl

/-- the statement for the tight spelling: same expected observable as for the spaced line -/
def HoldsT (se : SubstEnv) (f : Nat) (p : Str) (args : List (Style × Str)) (ctx : Ctx) : Prop :=
  ∃ plan, firstPlan se f (renderLineT p args ctx) = .ok (.ok plan) ∧ obsOfPlan plan = expectedObs p args ctx

/-- input guard: `guardEsc`, and in the `|q` context the last argument's tag chain does not start with an escaped `|` -/
def guardT (e : Env) (p : Str) (args : List (Style × Str)) (ctx : Ctx) : Bool :=
  guardEsc e p args ctx && (ctx ≠ .pipe || !stickyEnd args)

/-- the stronger statement (without the sticky exclusion): false, see `C01_tight_strong_false` -/
def C01_tight_strong : Prop :=
  ∀ (se : SubstEnv) (p : Str) (args : List (Style × Str)) (ctx : Ctx),
    guardEsc se.env p args ctx = true → ∀ f, args.length + 5 < f → HoldsT se f p args ctx

/-- planning the first pipeline of the tight line (with its decoy stage in the pipe context) -/
theorem plan_renderCmdT (se : SubstEnv) (f : Nat) (p : Str) (args : List (Style × Str)) (ctx : Ctx)
    (hg : guardEsc se.env p args ctx = true) (hst : ctx = .pipe → stickyEnd args = false) (hf : args.length + 5 < f) :
    ∃ toks, toks.map (·.2) = args.map (·.2) ∧
      planOf se f (renderCmd p args ++ pipeSfxT ctx) =
        .ok (.ok { commands := stage (([], p) :: toks) :: (if ctx = .pipe then [stage [([], ['q'])]] else []),
                   envs := [], background := false }) := by
  have g := guardEsc_facts hg
  obtain ⟨hw, hl⟩ := plainWord_facts p g.plain
  obtain ⟨toks, hrel, hparse⟩ := parseLine_cmdT p args ctx hw hl g.wordOk g.mid g.lastPipe hst
  have hall := argsRel_all hrel g.ok g.chars
  have hlen : toks.length = args.length := by
    have := congrArg List.length (forall2_texts hrel)
    simpa using this
  refine ⟨toks, forall2_texts hrel, ?_⟩
  cases f with
  | zero => omega
  | succ f =>
    simp only [planOf]
    rw [hparse]
    have hnp : ∀ t ∈ toks, ¬ (t.1 = [] ∧ t.2 = ['|']) := by
      intro t ht ⟨h1, h2⟩
      rcases (hall t ht).2 with h3 | ⟨h3, _⟩
      · exact h3 h1
      · exact h3 h2
    have hq : ∀ t ∈ toks ++ pipeToks ctx, Quiet t := by
      intro t ht
      simp only [List.mem_append] at ht
      rcases ht with ht | ht
      · exact (hall t ht).1
      · exact pipeToks_quiet ctx t ht
    have hal : expandAliasGo se.env false (toks ++ pipeToks ctx) = toks ++ pipeToks ctx := by
      rw [expandAliasGo_false_append _ _ _ hnp, expandAliasGo_pipeToks _ _ g.qalias]
    have hlen2 : (pipeToks ctx).length ≤ 2 := by
      by_cases hc : ctx = .pipe <;> simp [pipeToks, hc]
    have e : ([], p) :: toks ++ pipeToks ctx = ([], p) :: (toks ++ pipeToks ctx) := rfl
    rw [e, doExpansion_quiet se p _ f hw hl hq g.alias g.xargs hal (by simp only [List.length_append]; omega)]
    simp only [Outcome.map, Outcome.bind]
    have hpe := word_no p hw '=' (by decide)
    have hpa : ArgTok' ([], p) := by
      refine Or.inr ⟨?_, ?_, ?_⟩
      · intro e; exact word_no p hw '|' (by decide) '|' (by have e' : p = _ := e; rw [e']; simp) rfl
      · intro e
        have e' : p.head? = some '<' := e
        exact word_no p hw '<' (by decide) '<' (List.mem_of_mem_head? e') rfl
      · exact word_no p hw '>' (by decide)
    rw [← e, planOfTokens_G p toks ctx hpe hpa (fun t ht => (hall t ht).2) (fun _ => argsRel_last_amp hrel g.amp)]

theorem guardT_facts {e : Env} {p : Str} {args : List (Style × Str)} {ctx : Ctx} (hg : guardT e p args ctx = true) :
    guardEsc e p args ctx = true ∧ (ctx = .pipe → stickyEnd args = false) := by
  simp only [guardT, Bool.and_eq_true, Bool.or_eq_true, decide_eq_true_eq, Bool.not_eq_true'] at hg
  refine ⟨hg.1, fun hc => ?_⟩
  rcases hg.2 with h | h
  · exact absurd hc h
  · exact h

/-- **C01, the tight spelling: all three styles, all five contexts**, under `guardT` -/
theorem C01_tight_partial (se : SubstEnv) (p : Str) (args : List (Style × Str)) (ctx : Ctx) (f : Nat)
    (hg : guardT se.env p args ctx = true) (hf : args.length + 5 < f) :
    HoldsT se f p args ctx := by
  obtain ⟨hge, hst⟩ := guardT_facts hg
  have g := guardEsc_facts hge
  obtain ⟨hw, hl⟩ := plainWord_facts p g.plain
  have hne : p ≠ [] := by intro e; subst e; simp at hl
  obtain ⟨rest, hitems⟩ := lineToCmds_firstT p args ctx hw hne g.wordOk g.lastWs
  obtain ⟨toks, htexts, hplan⟩ := plan_renderCmdT se f p args ctx hge hst hf
  unfold HoldsT
  refine ⟨{ commands := stage (([], p) :: toks) :: (if ctx = .pipe then [stage [([], ['q'])]] else []),
             envs := [], background := false }, ?_, ?_⟩
  · simp only [firstPlan, hitems]
    exact hplan
  · simp only [obsOfPlan, expectedObs, expectedArgv]
    by_cases hc : ctx = .pipe
    · simp [hc, stage, htexts]
    · simp [hc, stage, htexts]

/-- the driver's fuel (of the first item, which is what the `plan1` stream uses; the line's is larger) is enough -/
theorem planFuel_enoughT (p : Str) (args : List (Style × Str)) (sfx : Str) :
    args.length + 5 < planFuel (renderCmd p args ++ sfx) := by
  have h := length_le_argsText args
  have e : (List.map (fun x => ' ' :: renderArg x.1 x.2) args).flatten = argsText args := by
    simp [argsText]
  simp only [planFuel, renderCmd, List.length_append, e]
  omega

/-- the same with the guard spelled as the driver computes the class of a tight line: `classify` says no finding class,
`q` is no alias in the pipe context, and not (`sticky` and pipe context) -/
theorem C01_tight_nonfinding (se : SubstEnv) (p : Str) (args : List (Style × Str)) (ctx : Ctx)
    (hcl : classify se.env p args ctx = "-" ∨ classify se.env p args ctx = "esc-other")
    (hq : ctx = .pipe → (lookup se.env.aliases ['q']).isNone = true)
    (hs : ¬ (stickyEnd args = true ∧ ctx = .pipe)) :
    HoldsT se (planFuel (renderLineT p args ctx)) p args ctx := by
  apply C01_tight_partial se p args ctx _ _ (planFuel_enoughT p args _)
  simp only [guardT, Bool.and_eq_true, Bool.or_eq_true, decide_eq_true_eq, Bool.not_eq_true']
  refine ⟨classify_guardEsc hcl hq, ?_⟩
  by_cases hc : ctx = .pipe
  · right
    cases h : stickyEnd args with
    | false => rfl
    | true => exact absurd ⟨h, hc⟩ hs
  · exact Or.inl hc

/-! ## the finding class: a last argument in the sticky mode, followed by a tight `|` -/

/-- what the code does on the whole class: one stage only, `|q` glued to the last argument -/
theorem C01_pipe_first_tight_plan (se : SubstEnv) (p : Str) (args : List (Style × Str)) (f : Nat)
    (hg : guardEsc se.env p args .pipe = true) (hs : stickyEnd args = true) (hf : args.length + 5 < f) :
    ∃ as a, args = as ++ [(.esc, a)] ∧
      ∃ plan, firstPlan se f (renderLineT p args .pipe) = .ok (.ok plan) ∧
        obsOfPlan plan = { stages := [(p :: as.map (·.2) ++ [a ++ "|q".toList], [], none)], envs := [], background := false } := by
  have g := guardEsc_facts hg
  obtain ⟨hw, hl⟩ := plainWord_facts p g.plain
  have hne : p ≠ [] := by intro e; subst e; simp at hl
  obtain ⟨rest, hitems⟩ := lineToCmds_firstT p args .pipe hw hne g.wordOk (fun h => absurd rfl h)
  obtain ⟨toks0, t, hrel, hparse⟩ := parseLine_cmdStuck p args hw hl g.wordOk g.mid (g.lastPipe rfl) hs
  have hall := argsRel_all hrel g.ok g.chars
  -- the last argument is the escaped one whose text is `t`
  obtain ⟨x, hx, hxr⟩ := argsRel_last hrel (['\\'], t) (by simp)
  obtain ⟨sty, a⟩ := x
  obtain ⟨ha, hsty⟩ := hxr
  simp only at ha hsty
  subst ha
  have hesc : sty = .esc := by
    cases sty with
    | sq => simp at hsty
    | dq => simp at hsty
    | esc => rfl
  subst hesc
  have hargs : args = args.dropLast ++ [(.esc, t)] := by
    have hne' : args ≠ [] := by intro e; subst e; simp at hx
    have := (List.dropLast_concat_getLast hne').symm
    rw [List.getLast?_eq_some_getLast hne'] at hx
    simp only [Option.some.injEq] at hx
    rw [hx] at this
    exact this
  have htexts : (toks0 ++ [((['\\'] : Str), t)]).map (·.2) = args.map (·.2) := forall2_texts hrel
  have htexts0 : toks0.map (·.2) = args.dropLast.map (·.2) := by
    have h1 : (toks0.map (·.2)) ++ [t] = (args.dropLast.map (·.2)) ++ [t] := by
      have : args.map (·.2) = (args.dropLast.map (·.2)) ++ [t] := by
        conv => lhs; rw [hargs]
        simp
      rw [← this, ← htexts]; simp
    exact List.append_cancel_right h1
  have hlen : toks0.length + 1 = args.length := by
    have := congrArg List.length htexts
    simpa using this
  -- the token list after the glue
  let toks' : List Tok := toks0 ++ [(['\\'], t ++ ['|', 'q'])]
  have hall' : ∀ u ∈ toks', Quiet u ∧ ArgTok' u := by
    intro u hu
    simp only [toks', List.mem_append, List.mem_singleton] at hu
    rcases hu with hu | rfl
    · exact hall u (by simp [hu])
    · have hq0 := (hall (['\\'], t) (by simp)).1
      refine ⟨Or.inr ⟨?_, Or.inr (Or.inl rfl)⟩, Or.inl (by simp)⟩
      intro c hc
      simp only [List.mem_append, List.mem_cons, List.not_mem_nil, or_false] at hc
      rcases hq0 with h0 | ⟨h0, _⟩
      · simp at h0
      · rcases hc with hc | rfl | rfl
        · exact h0 c hc
        · exact ⟨by decide, by decide⟩
        · exact ⟨by decide, by decide⟩
  refine ⟨args.dropLast, t, hargs, ?_⟩
  have hplan : planOf se f (renderCmd p args ++ pipeSfxT .pipe) =
      .ok (.ok { commands := [stage (([], p) :: toks')], envs := [], background := false }) := by
    cases f with
    | zero => omega
    | succ f =>
      have e0 : pipeSfxT .pipe = ['|', 'q'] := rfl
      simp only [planOf, e0]
      rw [hparse]
      have hnp : ∀ u ∈ toks', ¬ (u.1 = [] ∧ u.2 = ['|']) := by
        intro u hu ⟨h1, h2⟩
        rcases (hall' u hu).2 with h3 | ⟨h3, _⟩
        · exact h3 h1
        · exact h3 h2
      have hal : expandAliasGo se.env false toks' = toks' := by
        have := expandAliasGo_false_append se.env toks' [] hnp
        simpa [expandAliasGo] using this
      have e : ([], p) :: toks0 ++ [((['\\'] : Str), t ++ ['|', 'q'])] = ([], p) :: toks' := rfl
      rw [e, doExpansion_quiet se p _ f hw hl (fun u hu => (hall' u hu).1) g.alias g.xargs hal
        (by simp only [toks', List.length_append, List.length_cons, List.length_nil]; omega)]
      simp only [Outcome.map, Outcome.bind]
      have hpe := word_no p hw '=' (by decide)
      have hpa : ArgTok' ([], p) := by
        refine Or.inr ⟨?_, ?_, ?_⟩
        · intro e; exact word_no p hw '|' (by decide) '|' (by have e' : p = _ := e; rw [e']; simp) rfl
        · intro e
          have e' : p.head? = some '<' := e
          exact word_no p hw '<' (by decide) '<' (List.mem_of_mem_head? e') rfl
        · exact word_no p hw '>' (by decide)
      have hlastamp : toks'.getLast? ≠ some ([], ['&']) := by simp [toks']
      have := planOfTokens_G p toks' .alone hpe hpa (fun u hu => (hall' u hu).2) (fun _ => hlastamp)
      simp only [pipeToks, reduceCtorEq, ↓reduceIte, List.append_nil] at this
      rw [this]
  refine ⟨_, by simp only [firstPlan, hitems]; exact hplan, ?_⟩
  simp [obsOfPlan, stage, toks', htexts0]

/-- **the finding, for all inputs of its class** (KF-C01-esc-pipe-first-tight): inside `guardEsc`, a last argument left in
the sticky mode and a tight `|q` — the statement fails -/
theorem C01_finding_pipe_first_tight (se : SubstEnv) (p : Str) (args : List (Style × Str)) (f : Nat)
    (hg : guardEsc se.env p args .pipe = true) (hs : stickyEnd args = true) (hf : args.length + 5 < f) :
    ¬ HoldsT se f p args .pipe := by
  intro ⟨plan, h1, h2⟩
  obtain ⟨as, a, _, plan', h1', h2'⟩ := C01_pipe_first_tight_plan se p args f hg hs hf
  rw [h1] at h1'
  injection h1' with h1'; injection h1' with h1'
  subst h1'
  rw [h2'] at h2
  have := congrArg (fun o => o.stages.length) h2
  simp [expectedObs] at this

/-- a concrete member of the class: `prog \|x|q` -/
theorem C01_finding_pipe_first_tight_witness :
    ¬ HoldsT wEnv 8 "prog".toList [(.esc, "|x".toList)] .pipe :=
  C01_finding_pipe_first_tight wEnv _ _ 8 (by decide) (by decide) (by decide)

theorem C01_tight_strong_false : ¬ C01_tight_strong := by
  intro h
  exact C01_finding_pipe_first_tight_witness (h wEnv "prog".toList [(.esc, "|x".toList)] .pipe (by decide) 8 (by decide))

/-- on `guardEsc` inputs, `guardT` is exactly the complement of the finding class: the partial theorem and the finding
together decide the statement on all of `guardEsc` -/
theorem C01_tight_iff (se : SubstEnv) (p : Str) (args : List (Style × Str)) (ctx : Ctx) (f : Nat)
    (hg : guardEsc se.env p args ctx = true) (hf : args.length + 5 < f) :
    HoldsT se f p args ctx ↔ ¬ (ctx = .pipe ∧ stickyEnd args = true) := by
  constructor
  · intro h ⟨hc, hs⟩
    subst hc
    exact C01_finding_pipe_first_tight se p args f hg hs hf h
  · intro h
    apply C01_tight_partial se p args ctx f _ hf
    simp only [guardT, hg, Bool.true_and, Bool.or_eq_true, decide_eq_true_eq, Bool.not_eq_true']
    by_cases hc : ctx = .pipe
    · right
      cases hs : stickyEnd args with
      | false => rfl
      | true => exact absurd ⟨hc, hs⟩ h
    · exact Or.inl hc

/-! ## non-vacuity, and the candidates for a further exclusion that turned out to need none -/

/-- all three styles; the sticky mode entered by `\|pipe` and left again by the quoted word; last argument escaped -/
example : guardT wEnv.env "prog".toList
    [(.esc, "a b\tc".toList), (.esc, "|pipe;first".toList), (.esc, ";still".toList), (.sq, "x|y; $Z *".toList),
     (.dq, "<<< 'q' #".toList), (.esc, "2>file<in".toList), (.esc, "x|".toList)] .pipe = true := by decide

example : guardT wEnv.env "prog".toList [(.esc, "|x".toList), (.esc, "y&".toList)] .and = true := by decide
/-- in the sticky mode, but the context is not the pipe: inside the guard -/
example : guardT wEnv.env "prog".toList [(.esc, "|x".toList), (.esc, ";y".toList)] .or = true ∧
    stickyEnd [(Style.esc, "|x".toList), (.esc, ";y".toList)] = true := by decide
example : guardT wEnv.env "prog".toList [] .pipe = true := by decide

/-- `prog x\&&&q` : a last argument ending in an escaped `&` before a tight `&&` is fine -/
example : HoldsT wEnv 8 "prog".toList [(.esc, "x&".toList)] .and :=
  C01_tight_partial _ _ _ _ _ (by decide) (by decide)
/-- `prog x\|||q`, `prog x\||q`, `prog x\\;q` likewise -/
example : HoldsT wEnv 8 "prog".toList [(.esc, "x|".toList)] .or :=
  C01_tight_partial _ _ _ _ _ (by decide) (by decide)
example : HoldsT wEnv 8 "prog".toList [(.esc, "x|".toList)] .pipe :=
  C01_tight_partial _ _ _ _ _ (by decide) (by decide)
example : HoldsT wEnv 8 "prog".toList [(.esc, "x\\".toList)] .semi :=
  C01_tight_partial _ _ _ _ _ (by decide) (by decide)

/-- outside `guardEsc` already (class esc-ltgt-alone, `prog \>|q`): the tight spelling is violated too -/
theorem C01_tight_ltgt_alone : ¬ HoldsT wEnv 8 "prog".toList [(.esc, ">".toList)] .pipe := by
  intro ⟨plan, h1, h2⟩
  have : firstPlan wEnv 8 (renderLineT "prog".toList [(.esc, ">".toList)] .pipe) =
      .ok (.ok { commands := [{ tokens := [([], "prog".toList)], redirectsTo := [], redirectFrom := none },
                              { tokens := [(['\''], ">q".toList)], redirectsTo := [], redirectFrom := none }],
                 envs := [], background := false }) := by
    rfl
  rw [this] at h1
  injection h1 with h1; injection h1 with h1
  subst h1
  revert h2
  simp [obsOfPlan, expectedObs, expectedArgv]

/-- outside `guardEsc` already (class esc-trailing-blank, `prog x\ ;q`): the escaped blank is trimmed off -/
theorem C01_tight_trailing_blank : ¬ HoldsT wEnv 8 "prog".toList [(.esc, "x ".toList)] .semi := by
  intro ⟨plan, h1, h2⟩
  have : firstPlan wEnv 8 (renderLineT "prog".toList [(.esc, "x ".toList)] .semi) =
      .ok (.ok { commands := [{ tokens := [([], "prog".toList), ([], "x".toList)], redirectsTo := [], redirectFrom := none }],
                 envs := [], background := false }) := by
    rfl
  rw [this] at h1
  injection h1 with h1; injection h1 with h1
  subst h1
  revert h2
  simp [obsOfPlan, expectedObs, expectedArgv]

end Cicada.C01
