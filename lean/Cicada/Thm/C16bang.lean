import Cicada.Model.Prompt
/-!
# C16/C05: `!!` expansion is ONE left-to-right pass - inserted text is never rescanned

The model `extendBangbang` (Model/Prompt.lean, of `tools::extend_bangbang`, tools.rs:85-122) does NOT replace on the whole
line: as the Rust does, it re-builds the line from the tokens of `parseLine`, replacing inside each token that holds `!!`
and is not single-quoted, then `trim_end`s.  The per-token replacement `replaceBangs` already IS the textbook structural
recursion, so the proofs are short: `replaceBangs = replaceAllBang` (`replaceBangs_eq_replaceAllBang`), and the model is
the token-wise map of `replaceAllBang` (`C16_bangbang_single_pass`).  The whole-line equation
`extendBangbang prev line = replaceAllBang prev line` is FALSE for the model and for the Rust (blanks are normalised,
single-quoted tokens are skipped: see the `example`s at the end), so it is stated only where it holds.
-/
namespace Cicada

/-- the textbook non-overlapping left-to-right replace-all of `!!` by `prev`: the inserted `prev` is emitted, never rescanned -/
def replaceAllBang (prev : Str) : Str → Str
  | '!' :: '!' :: rest => prev ++ replaceAllBang prev rest
  | c :: rest => c :: replaceAllBang prev rest
  | [] => []

/-- the one-pass equation: after a `!!` the scan resumes in the REST of the input, behind the inserted text -/
theorem replaceAllBang_bang (prev rest : Str) :
    replaceAllBang prev ('!' :: '!' :: rest) = prev ++ replaceAllBang prev rest := by
  simp [replaceAllBang]

/-- the model's token replacement is this recursion -/
theorem replaceBangs_eq_replaceAllBang (prev s : Str) : replaceBangs prev s = replaceAllBang prev s := by
  fun_induction replaceBangs prev s with
  | case1 rest ih => simp [replaceAllBang, ih]
  | case2 c rest h ih =>
    rw [replaceAllBang.eq_2 _ _ _ h, ih]
  | case3 => simp [replaceAllBang]

/-- the token-wise rebuild of `extend_bangbang`, with the reference replace-all -/
def rebuildBang (prev line : Str) : Str :=
  trimEnd ((parseLine line).flatMap (fun (sep, tok) =>
    sep ++ (if hasInfix ['!', '!'] tok ∧ sep ≠ ['\''] then replaceAllBang prev tok else tok) ++ sep ++ [' ']))

/-- **C16_bangbang_single_pass**: with the model's own guards (`hasInfix "!!" line`, `prev ≠ []`) the result is the
token-wise rebuild in which every replaced token is `replaceAllBang prev tok` - one pass, `prev` never rescanned, total for
every `prev`; in the two guarded-out cases the line is unchanged. -/
theorem C16_bangbang_single_pass (prev line : Str) :
    (hasInfix ['!', '!'] line = true → prev ≠ [] → extendBangbang prev line = rebuildBang prev line) ∧
    (hasInfix ['!', '!'] line = false → extendBangbang prev line = line) ∧
    (prev = [] → extendBangbang prev line = line) := by
  refine ⟨?_, ?_, ?_⟩
  · intro h hp
    have hp' : prev.isEmpty = false := by cases prev <;> simp_all
    unfold extendBangbang rebuildBang
    simp only [h, hp', Bool.not_true, Bool.false_eq_true, if_false]
    congr 2
    funext p
    rw [replaceBangs_eq_replaceAllBang]
  · intro h; simp [extendBangbang, h]
  · intro h; subst h; unfold extendBangbang; split <;> simp

/-- a previous command that itself is `!!` (the hang of the rescanning loop): the result is defined, and is the line itself -/
example : extendBangbang "!!".toList "echo !!".toList = "echo !!".toList := by decide
example : extendBangbang "ls -l".toList "echo !! x!!y".toList = "echo ls -l xls -ly".toList := by decide
example : hasInfix ['!', '!'] "echo !!".toList = true ∧ "!!".toList ≠ [] := by decide
-- the whole-line equation fails: blanks are normalised, single-quoted tokens are left alone
example : extendBangbang "ls".toList "echo  !!".toList ≠ replaceAllBang "ls".toList "echo  !!".toList := by decide
example : extendBangbang "ls".toList "echo '!!' !!".toList = "echo '!!' ls".toList := by decide

/-- **C16_bangbang_length**: the expansion cannot grow without bound, whatever `prev` holds -/
theorem C16_bangbang_length (prev line : Str) :
    (replaceAllBang prev line).length ≤ line.length + line.length * prev.length := by
  fun_induction replaceAllBang prev line with
  | case1 rest ih =>
    have e : (rest.length + 1 + 1) * prev.length = rest.length * prev.length + 2 * prev.length := by
      rw [Nat.add_assoc, Nat.add_mul]
    simp only [List.length_append, List.length_cons, e]
    omega
  | case2 c rest h ih =>
    have e : (rest.length + 1) * prev.length = rest.length * prev.length + prev.length := by
      rw [Nat.add_mul, Nat.one_mul]
    simp only [List.length_cons, e]
    omega
  | case3 => simp

example : (replaceAllBang "!!".toList "a!!!!".toList).length = 5 := by decide

#print axioms replaceBangs_eq_replaceAllBang
#print axioms C16_bangbang_single_pass
#print axioms C16_bangbang_length

end Cicada
