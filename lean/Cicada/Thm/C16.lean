import Cicada.Model.Prompt
import Cicada.Model.Script
import Cicada.Lemmas.C01
/-!
# C16 — a line means the same at the prompt, with -c, in a script, function or source

The entry points differ in one step only: `-c` hands the line to `run_command_line` as it is, the script
path (script file, function body, sourced file) first passes it through `scripting::expand_args` =
`tokens_to_line ∘ expand_args_in_tokens ∘ parse_line`.  So "means the same" is `expandArgs args line = line`
(then everything downstream is literally the same call), or at least equal plans.

* `C16_rerender_id` : for every command of the C01 domain (plain word + single- or double-quoted arguments of
  any content the style can express, any positional-parameter list), the script path reproduces the line
  **character for character**.
* `C16_finding_unquoted_escape` : an unquoted backslash escape is dropped by the re-rendering
  (`echo a\ b` becomes `echo a b`: two arguments in a script, one with `-c`) — KF-C16-unquoted-escape.
-/
namespace Cicada.C16
open Cicada Cicada.C01 Cicada.TokLemmas Cicada.PassLemmas

theorem isArgsInToken_false (t : Str) (h : ∀ c ∈ t, c ≠ '$') : isArgsInToken t = false := by
  induction t with
  | nil => rfl
  | cons c cs ih =>
    have hc := h c (by simp)
    simp [isArgsInToken, hc, ih (fun x hx => h x (by simp [hx]))]

theorem wrapBody_noq (q : Char) (text : Str) (h : ∀ c ∈ text, c ≠ q) : ∀ met prev, wrapBody [q] met prev text = text := by
  induction text with
  | nil => intro _ _; rfl
  | cons c cs ih =>
    intro met prev
    have hc := h c (by simp)
    simp [wrapBody, hc, ih (fun x hx => h x (by simp [hx]))]

theorem tokenToText_tokOf (x : Style × Str) (h : styleOk x = true) : tokenToText (tokOf x) = renderArg x.1 x.2 := by
  obtain ⟨s, a⟩ := x
  cases s with
  | sq =>
    have hb : ∀ c ∈ a, c ≠ '\'' := by
      intro c hc e; subst e; simp [styleOk, okArg] at h; exact h hc
    simp [tokenToText, tokOf, wrapSepString, wrapBody_noq '\'' a hb, renderArg]
  | dq =>
    have hb : ∀ c ∈ a, c ≠ '"' := by
      intro c hc
      simp [styleOk, okArg] at h
      exact (h c hc).2
    simp [tokenToText, tokOf, wrapSepString, wrapBody_noq '"' a hb, renderArg]
  | esc => simp [styleOk] at h

theorem joinWith_space (x : Str) (xs : List Str) : joinWith [' '] (x :: xs) = x ++ (xs.map (fun y => ' ' :: y)).flatten := by
  induction xs generalizing x with
  | nil => simp [joinWith]
  | cons y ys ih => simp [joinWith, ih y]

theorem tokensToLine_render (p : Str) (args : List (Style × Str)) (ha : args.all styleOk = true) :
    tokensToLine (([], p) :: args.map tokOf) = renderCmd p args := by
  simp only [tokensToLine, List.map_cons, joinWith_space, renderCmd, List.map_map]
  congr 2
  apply List.map_congr_left
  intro x hx
  simp only [Function.comp]
  rw [tokenToText_tokOf x ((List.all_eq_true.mp ha) x hx)]

/-- **the script path reproduces the line character for character** -/
theorem C16_rerender_id (scriptArgs : List Str) (p : Str) (args : List (Style × Str))
    (hp : plainWord p = true) (ha : args.all styleOk = true) :
    expandArgs scriptArgs (renderCmd p args) = renderCmd p args := by
  obtain ⟨hw, hl⟩ : p.all wordChar = true ∧ p.any isAlphaA = true := by
    simp only [plainWord, Bool.and_eq_true] at hp
    exact ⟨by simpa [wordChar] using hp.2, hp.1⟩
  unfold expandArgs
  rw [parseLine_renderCmd p args hw hl ha]
  have hid : expandArgsInTokens scriptArgs (([], p) :: args.map tokOf) = ([], p) :: args.map tokOf := by
    simp only [expandArgsInTokens, List.map_cons, List.map_map]
    congr 1
    · simp [isArgsInToken_false p (word_no p hw '$' (by decide))]
    · conv => rhs; rw [← List.map_id (args.map tokOf)]
      rw [List.map_map]
      apply List.map_congr_left
      intro x hx
      have hok := (List.all_eq_true.mp ha) x hx
      obtain ⟨s, a⟩ := x
      cases s with
      | sq => simp [tokOf]
      | dq =>
        have hb : ∀ c ∈ a, c ≠ '$' := by
          intro c hc; simp [styleOk, okArg] at hok; exact (hok c hc).1.1.1
        simp [tokOf, isArgsInToken_false a hb]
      | esc => simp [styleOk] at hok
  rw [hid, tokensToLine_render p args ha]

/-- consequently both paths plan the same pipeline, whatever the environment -/
theorem C16_same_plan (se : SubstEnv) (f : Nat) (scriptArgs : List Str) (p : Str) (args : List (Style × Str))
    (hp : plainWord p = true) (ha : args.all styleOk = true) :
    planOf se f (expandArgs scriptArgs (renderCmd p args)) = planOf se f (renderCmd p args) := by
  rw [C16_rerender_id scriptArgs p args hp ha]

/-! ### finding: unquoted escapes do not survive the script path (KF-C16-unquoted-escape) -/
theorem C16_finding_unquoted_escape : expandArgs [] "echo a\\ b".toList = "echo a b".toList := by decide
theorem C16_finding_escaped_semicolon : expandArgs [] "g\\;h".toList = "g;h".toList := by decide

/-! ### non-vacuity -/
example : expandArgs ["s".toList, "x".toList] "prog 'a;b' \"c && d\" '$1'".toList = "prog 'a;b' \"c && d\" '$1'".toList := by decide

end Cicada.C16

namespace Cicada.C16
open Cicada

/-- **the prompt is `-c` for every line without `!!`**: the only rewriting the interactive entry point applies
(`extend_bangbang`) hands such a line on character for character, whatever was run before -/
theorem C16_prompt_same (prev line : Str) (h : hasInfix ['!', '!'] line = false) : extendBangbang prev line = line := by
  simp [extendBangbang, h]

/-- … and so is the first line of a session, `!!` or not -/
theorem C16_prompt_first (line : Str) : extendBangbang [] line = line := by
  unfold extendBangbang
  split
  · rfl
  · simp

/-- non-vacuity: a line with a single `!` (no `!!`) and awkward quoting is within the hypothesis -/
example : hasInfix ['!', '!'] "argv \"say \\\"hi\\\"\" done!".toList = false := by decide

end Cicada.C16
