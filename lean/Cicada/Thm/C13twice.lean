import Cicada.Thm.C13more
/-!
# C13 — the same word delivered twice on one line keeps each occurrence's own quoting

`C13_deliveries` / `C13_line` (`Thm/C13more.lean`) quantify over an arbitrary LIST of deliveries; nothing in
their hypotheses asks the names to be distinct, so a repeated name is an instance.  This file makes the
instance explicit (a seeded regression cached expansions by the word's text, so that in `prog $Z "$Z"` the
second occurrence inherited the first one's quote tag): the variable `N` delivered twice, in any of the
spellings `$N`, `${N}`, `"$N"`, `"${N}"`, gives argv `[prog, v, v]`.

Guards (all decidable, input-only): `prog` is a plain word that is no alias and not `xargs`; `N` is an
identifier; the value `v` does not itself spell a command substitution (`valueOk`, the guard of the general
theorem for quoted and unquoted deliveries alike — so "whatever characters" is: every character, operators
included, except that the value as a whole must not match the backquote / `$(…)` patterns, which the shell
re-expands: the finding of `Thm/C13.lean`); an unquoted occurrence needs `inertValue v` in addition.
-/
namespace Cicada.C13
open Cicada

/-- the variable `N` spelled `$N` / `${N}` (`braced`), double-quoted or not -/
def occ (braced dq : Bool) (N : Str) : Delivery := ⟨if braced then .braced else .var, N, dq⟩

theorem occ_value (se : SubstEnv) (b q : Bool) (N v : Str) (hv : se.env.value N = some v) :
    (occ b q N).value se = v := by
  cases b <;> simp [occ, Delivery.value, hv]

theorem occ_ok (se : SubstEnv) (b q : Bool) (N v : Str) (hN : C10.isIdent N = true)
    (hv : se.env.value N = some v) (hq : (q || inertValue v) = true) : delivOk se (occ b q N) = true := by
  have e := occ_value se b q N v hv
  have hn : (occ b q N).name = N := rfl
  have hdq : (occ b q N).dq = q := rfl
  simp only [delivOk, e, hn, hdq, hN, Bool.or_eq_true, Bool.and_eq_true, decide_eq_true_eq]
  left
  refine ⟨⟨?_, trivial⟩, ?_⟩
  · cases b <;> simp [occ]
  · cases q
    · right; simpa using hq
    · left; rfl

/-- **the general instance**: `N` delivered twice, each occurrence in its own spelling (`b₁ b₂`: braced or not,
`q₁ q₂`: double-quoted or not; an unquoted occurrence needs an inert value).  The plan is the plain one with
argv `[p, v, v]`. -/
theorem C13_same_word_twice (se : SubstEnv) (p N v : Str) (b₁ q₁ b₂ q₂ : Bool)
    (hp : C01.plainWord p = true) (ha : lookup se.env.aliases p = none) (hx : p ≠ "xargs".toList)
    (hN : C10.isIdent N = true) (hval : se.env.value N = some v) (hv : valueOk v = true)
    (hq : ((q₁ && q₂) || inertValue v) = true) :
    ∃ plan, planOf se (planFuel (renderCmd p [occ b₁ q₁ N, occ b₂ q₂ N])) (renderCmd p [occ b₁ q₁ N, occ b₂ q₂ N])
        = .ok (.ok plan) ∧ shapeOf plan = plainShape ∧
      plan.commands.map (fun c => c.tokens.map (·.2)) = [[p, v, v]] := by
  have h1 : (q₁ || inertValue v) = true := by cases q₁ <;> simp_all
  have h2 : (q₂ || inertValue v) = true := by cases q₂ <;> cases q₁ <;> simp_all
  have hd : delivsOk se [occ b₁ q₁ N, occ b₂ q₂ N] = true := by
    simp [delivsOk, occ_ok se b₁ q₁ N v hN hval h1, occ_ok se b₂ q₂ N v hN hval h2]
  have hvs : ∀ d ∈ [occ b₁ q₁ N, occ b₂ q₂ N], valueOk (d.value se) = true := by
    intro d hd'
    simp only [List.mem_cons, List.not_mem_nil, or_false] at hd'
    rcases hd' with rfl | rfl <;> simpa [occ_value se _ _ N v hval] using hv
  obtain ⟨plan, e1, e2, e3⟩ := C13_line_planFuel se p [occ b₁ q₁ N, occ b₂ q₂ N] hp ha hx hd hvs
  refine ⟨plan, e1, e2, ?_⟩
  simpa [occ_value se _ _ N v hval] using e3

/-- the command texts, spelled out -/
theorem text_dq_dq (p N : Str) :
    renderCmd p [occ false true N, occ false true N] = p ++ " \"$".toList ++ N ++ "\" \"$".toList ++ N ++ "\"".toList := by
  simp [renderCmd, occ, Delivery.render]
theorem text_dq_braced (p N : Str) :
    renderCmd p [occ false true N, occ true true N] = p ++ " \"$".toList ++ N ++ "\" \"${".toList ++ N ++ "}\"".toList := by
  simp [renderCmd, occ, Delivery.render]
theorem text_un_dq (p N : Str) :
    renderCmd p [occ false false N, occ false true N] = p ++ " $".toList ++ N ++ " \"$".toList ++ N ++ "\"".toList := by
  simp [renderCmd, occ, Delivery.render]
theorem text_dq_un (p N : Str) :
    renderCmd p [occ false true N, occ false false N] = p ++ " \"$".toList ++ N ++ "\" $".toList ++ N := by
  simp [renderCmd, occ, Delivery.render]

/-- the statement about one line: the driver's plan is plain and its argv is `[p, v, v]` -/
def TwicePlain (se : SubstEnv) (line p v : Str) : Prop :=
  ∃ plan, planOf se (planFuel line) line = .ok (.ok plan) ∧ shapeOf plan = plainShape ∧
    plan.commands.map (fun c => c.tokens.map (·.2)) = [[p, v, v]]

/-- **1.** `prog "$N" "$N"` and `prog "$N" "${N}"`: one plain foreground stage, argv `[prog, v, v]`, whatever
characters `v` holds (guard `valueOk`: `v` as a whole is not itself a command substitution). -/
theorem C13_same_word_twice_dq (se : SubstEnv) (p N v : Str)
    (hp : C01.plainWord p = true) (ha : lookup se.env.aliases p = none) (hx : p ≠ "xargs".toList)
    (hN : C10.isIdent N = true) (hval : se.env.value N = some v) (hv : valueOk v = true) :
    TwicePlain se (p ++ " \"$".toList ++ N ++ "\" \"$".toList ++ N ++ "\"".toList) p v ∧
    TwicePlain se (p ++ " \"$".toList ++ N ++ "\" \"${".toList ++ N ++ "}\"".toList) p v := by
  constructor
  · rw [← text_dq_dq]; exact C13_same_word_twice se p N v false true false true hp ha hx hN hval hv (by simp)
  · rw [← text_dq_braced]; exact C13_same_word_twice se p N v false true true true hp ha hx hN hval hv (by simp)

/-- **2.** `prog $N "$N"` and `prog "$N" $N` with an inert value: argv `[prog, v, v]` — the quoted occurrence
keeps its quoting, the unquoted one its own. -/
theorem C13_same_word_unquoted_then_quoted (se : SubstEnv) (p N v : Str)
    (hp : C01.plainWord p = true) (ha : lookup se.env.aliases p = none) (hx : p ≠ "xargs".toList)
    (hN : C10.isIdent N = true) (hval : se.env.value N = some v) (hv : valueOk v = true)
    (hi : inertValue v = true) :
    TwicePlain se (p ++ " $".toList ++ N ++ " \"$".toList ++ N ++ "\"".toList) p v ∧
    TwicePlain se (p ++ " \"$".toList ++ N ++ "\" $".toList ++ N) p v := by
  constructor
  · rw [← text_un_dq]; exact C13_same_word_twice se p N v false false false true hp ha hx hN hval hv (by simp [hi])
  · rw [← text_dq_un]; exact C13_same_word_twice se p N v false true false false hp ha hx hN hval hv (by simp [hi])

/-- the tokens keep each occurrence's own quote tag (the expansion level, from `C13_deliveries`) -/
theorem C13_same_word_tags (se : SubstEnv) (p N v : Str) (b₁ q₁ b₂ q₂ : Bool) (f : Nat)
    (hp : C01.plainWord p = true) (ha : lookup se.env.aliases p = none) (hx : p ≠ "xargs".toList)
    (hN : C10.isIdent N = true) (hval : se.env.value N = some v) (hv : valueOk v = true)
    (hq : ((q₁ && q₂) || inertValue v) = true) (hf : 2 * N.length + 11 < f) :
    doExpansion se f [([], p), tokInG (occ b₁ q₁ N), tokInG (occ b₂ q₂ N)] =
      .ok [([], p), (if q₁ then ['"'] else [], v), (if q₂ then ['"'] else [], v)] := by
  have h1 : (q₁ || inertValue v) = true := by cases q₁ <;> simp_all
  have h2 : (q₂ || inertValue v) = true := by cases q₂ <;> cases q₁ <;> simp_all
  have hd : delivsOk se [occ b₁ q₁ N, occ b₂ q₂ N] = true := by
    simp [delivsOk, occ_ok se b₁ q₁ N v hN hval h1, occ_ok se b₂ q₂ N v hN hval h2]
  have hvs : ∀ d ∈ [occ b₁ q₁ N, occ b₂ q₂ N], valueOk (d.value se) = true := by
    intro d hd'
    simp only [List.mem_cons, List.not_mem_nil, or_false] at hd'
    rcases hd' with rfl | rfl <;> simpa [occ_value se _ _ N v hval] using hv
  have hfn : fuelNeed [occ b₁ q₁ N, occ b₂ q₂ N] + 9 < f := by
    simp [fuelNeed, occ]; omega
  have := (C13_deliveries se p [occ b₁ q₁ N, occ b₂ q₂ N] f hp ha hx hd hvs hfn).1
  simp only [List.map_cons, List.map_nil, tokOutG, occ_value se _ _ N v hval] at this
  exact this

/-! ### non-vacuity -/

def twEnv : SubstEnv := { env := { vars := [("Z".toList, "a>b".toList), ("W".toList, "two words; a|b".toList)] }, cmdOut := fun _ => [] }

/-- 1 with `v = "a>b"` -/
example : C01.plainWord "prog".toList = true ∧ lookup twEnv.env.aliases "prog".toList = none ∧ "prog".toList ≠ "xargs".toList ∧
    C10.isIdent "Z".toList = true ∧ twEnv.env.value "Z".toList = some "a>b".toList ∧ valueOk "a>b".toList = true ∧
    inertValue "a>b".toList = false ∧
    "prog".toList ++ " \"$".toList ++ "Z".toList ++ "\" \"$".toList ++ "Z".toList ++ "\"".toList = "prog \"$Z\" \"$Z\"".toList := by
  decide

/-- 2 with the inert `v = "two words; a|b"` -/
example : C10.isIdent "W".toList = true ∧ twEnv.env.value "W".toList = some "two words; a|b".toList ∧
    valueOk "two words; a|b".toList = true ∧ inertValue "two words; a|b".toList = true ∧
    "prog".toList ++ " $".toList ++ "W".toList ++ " \"$".toList ++ "W".toList ++ "\"".toList = "prog $W \"$W\"".toList := by
  decide

/-- the model run on the concrete lines -/
example : (planOf twEnv 30 "prog \"$Z\" \"${Z}\"".toList).map
    (fun o => o.toOption.map (fun pl => pl.commands.map (fun c => c.tokens))) =
    .ok (some [[([], "prog".toList), (['"'], "a>b".toList), (['"'], "a>b".toList)]]) := by
  rfl

example : (planOf twEnv 30 "prog $W \"$W\"".toList).map
    (fun o => o.toOption.map (fun pl => pl.commands.map (fun c => c.tokens))) =
    .ok (some [[([], "prog".toList), ([], "two words; a|b".toList), (['"'], "two words; a|b".toList)]]) := by
  rfl

end Cicada.C13

#print axioms Cicada.C13.C13_same_word_twice
#print axioms Cicada.C13.C13_same_word_twice_dq
#print axioms Cicada.C13.C13_same_word_unquoted_then_quoted
#print axioms Cicada.C13.C13_same_word_tags
