import Cicada.Model.EnvCd
/-!
# C09 — variables, exported environment and working directory follow scoping rules

Theorems over `Model/EnvCd.lean` (for every state and every file system `fs`):
* `C09_cd_failed_noop` : a `cd` that fails (missing target, non-directory, `cd -` without a previous directory)
  returns non-zero and changes nothing at all.
* `C09_cd_minus_returns` : after a `cd` that moved from `a` to `b`, `cd -` goes back to `a` (when `a` still
  resolves to itself) and a further `cd -` returns to `b`.
* `C09_assign_not_exported` : `NAME=v` alone is seen by expansions but not by children unless NAME is
  already exported — and then the exported value changes.
* `C09_prefixed_scoped` : `NAME=v cmd` changes nothing in the shell; the command sees `v` (also over an
  exported NAME since `fix:` a55d180).
* `C09_export_seen_everywhere`, `C09_unset_removes_everywhere`.
* `C09_read_fields` : `read` (split at every blank, drop empty fields — since `fix:` 3dc6db7) assigns what the
  reference semantics (split at runs of blanks, remainder in the last name) assigns.
-/
namespace Cicada.EnvCd
open Cicada

theorem lookup_put_same (l : List (Str × Str)) (k v : Str) : lookup (put l k v) k = some v := by simp [lookup, put]

theorem lookup_nil (k : Str) : lookup ([] : List (Str × Str)) k = none := rfl

theorem lookup_del_same (l : List (Str × Str)) (k : Str) : lookup (del l k) k = none := by
  simp [lookup, del, List.find?_eq_none]

/-- a failing `cd` changes nothing -/
theorem cdTo_failed (fs : Str → FsRes) (s : St) (t : Option Str) (h : (cdTo fs s t).2.1 ≠ 0) : (cdTo fs s t).1 = s := by
  unfold cdTo at h ⊢
  cases t with
  | none => rfl
  | some d =>
    simp only at h ⊢
    cases hfs : fs d with
    | missing => simp
    | notDir => simp
    | dir c =>
      rw [hfs] at h
      by_cases hc : s.cwd = c <;> simp [hc] at h ⊢

/-- a failing `cd` changes nothing -/
theorem C09_cd_failed_noop (fs : Str → FsRes) (s : St) (args : List Str) (h : (step fs s (.cd args)).2.1 ≠ 0) :
    (step fs s (.cd args)).1 = s := by
  unfold step at h ⊢
  match args with
  | _ :: _ :: _ => rfl
  | [] => exact cdTo_failed fs s _ h
  | [a] => exact cdTo_failed fs s _ h

/-- `cd -` returns to the directory in effect before the last change -/
theorem C09_cd_minus_returns (fs : Str → FsRes) (s : St) (b : Str) (arg : Str) (hab : s.cwd ≠ b)
    (harg : arg ≠ ['-']) (hto : fs (if arg.head? = some '/' then arg else s.cwd ++ '/' :: arg) = .dir b)
    (hback : fs s.cwd = .dir s.cwd) (hane : s.cwd ≠ []) :
    let s1 := (step fs s (.cd [arg])).1
    s1.cwd = b ∧ s1.prev = s.cwd ∧ (step fs s1 (.cd [['-']])).1.cwd = s.cwd ∧ (step fs s1 (.cd [['-']])).1.prev = b := by
  have h1 : step fs s (.cd [arg]) =
      ({ s with cwd := b, prev := s.cwd, exported := put s.exported "PWD".toList b }, 0, []) := by
    simp only [step, cdTarget, harg, ↓reduceIte]
    by_cases hh : arg.head? = some '/'
    · simp only [hh, ↓reduceIte] at hto ⊢; simp [cdTo, hto, hab]
    · simp only [hh, ↓reduceIte] at hto ⊢; simp [cdTo, hto, hab]
  simp only [h1]
  refine ⟨trivial, trivial, ?_⟩
  simp [step, cdTarget, hane, cdTo, hback, Ne.symm hab]

/-- `NAME=v` alone: a shell variable, invisible to children, unless NAME is exported already -/
theorem C09_assign_not_exported (fs : Str → FsRes) (s : St) (n v : Str) (h : lookup s.exported n = none) :
    let s' := (step fs s (.assign n v)).1
    expandsTo s' n = v ∧ childSees s' [] n = none := by
  simp [step, setEnv, h, expandsTo, childSees, lookup_put_same, lookup_nil]

theorem C09_assign_updates_exported (fs : Str → FsRes) (s : St) (n v w : Str) (h : lookup s.exported n = some w) :
    let s' := (step fs s (.assign n v)).1
    expandsTo s' n = v ∧ childSees s' [] n = some v := by
  simp [step, setEnv, h, expandsTo, childSees, lookup_put_same, lookup_nil]

/-- `NAME=v cmd`: the shell is untouched, the command sees v -/
theorem C09_prefixed_scoped (fs : Str → FsRes) (s : St) (n v : Str) :
    (step fs s (.prefixed n v)).1 = s ∧ childSees s (step fs s (.prefixed n v)).2.2 n = some v := by
  simp [step, childSees, lookup]

/-- an assignment prefix never outlives its line, whether the word after it names a program or a shell function: every later
expansion and every later child sees exactly what it saw before -/
theorem C09_prefix_leaves_no_trace (fs : Str → FsRes) (s : St) (n v m : Str) :
    (step fs s (.prefixedFn n v)).1 = s ∧ (step fs s (.prefixedFn n v)).2.2 = [] ∧
    expandsTo (step fs s (.prefixed n v)).1 m = expandsTo s m ∧ childSees (step fs s (.prefixed n v)).1 [] m = childSees s [] m ∧
    expandsTo (step fs s (.prefixedFn n v)).1 m = expandsTo s m ∧ childSees (step fs s (.prefixedFn n v)).1 [] m = childSees s [] m := by
  simp [step]

theorem C09_export_seen_everywhere (fs : Str → FsRes) (s : St) (n v : Str) :
    let s' := (step fs s (.export n v)).1
    expandsTo s' n = v ∧ childSees s' [] n = some v := by
  simp [step, expandsTo, childSees, lookup_put_same, lookup_nil]

theorem C09_unset_removes_everywhere (fs : Str → FsRes) (s : St) (n : Str) (h : unsetNameOk n = true) :
    let s' := (step fs s (.unset n)).1
    expandsTo s' n = [] ∧ childSees s' [] n = none := by
  simp [step, h, expandsTo, childSees, lookup_del_same, lookup_nil]

/-! ### `read`: the implementation's split-then-drop-empties is splitting at runs of blanks -/
theorem splitAt_filter_runs (line acc : Str) :
    (splitAtGo [' ', '\t', '\n'] acc line).filter (· ≠ []) = splitRunsGo acc line := by
  induction line generalizing acc with
  | nil => by_cases h : acc = [] <;> simp [splitAtGo, splitRunsGo, h]
  | cons c cs ih =>
    simp only [ne_eq, decide_not] at ih ⊢
    by_cases hc : c = ' ' ∨ c = '\t' ∨ c = '\n'
    · have hm : ([' ', '\t', '\n'] : Str).contains c = true := by
        rcases hc with h | h | h <;> subst h <;> decide
      by_cases h : acc = []
      · simp only [splitAtGo, hm, ↓reduceIte, splitRunsGo, hc, h, List.filter_cons, decide_true, Bool.not_true, Bool.false_eq_true]
        exact ih []
      · simp only [splitAtGo, hm, ↓reduceIte, splitRunsGo, hc, h, List.filter_cons, decide_false, Bool.not_false]
        rw [ih []]
    · have hm : ([' ', '\t', '\n'] : Str).contains c = false := by
        simp only [not_or] at hc
        simp [hc.1, hc.2.1, hc.2.2]
      simp only [splitAtGo, hm, Bool.false_eq_true, ↓reduceIte, splitRunsGo, hc]
      exact ih _

/-- `read` assigns exactly what the reference semantics assigns, for every state, names and line -/
theorem C09_read_fields (s : St) (extra : List (Str × Str)) (names : List Str) (line : Str) :
    readAssign s extra names line = readAssignSpec s extra names line := by
  unfold readAssign readAssignSpec splitFields
  by_cases h : ifsChars s extra = []
  · simp only [h, ↓reduceIte, splitRuns]; rw [splitAt_filter_runs]
  · simp only [h, ↓reduceIte]

example : expandsTo (readAssign {} [] ["A".toList, "B".toList] "1   2  3".toList) "B".toList = "2 3".toList := by decide

/-! ### histories: prefixed lines can be erased from ANY history without changing the state it ends in -/

def isPrefixOp : Op → Bool
  | .prefixed _ _ => true
  | .prefixedFn _ _ => true
  | _ => false

/-- the state a history of operations ends in -/
def runOps (fs : Str → FsRes) (s : St) (ops : List Op) : St := ops.foldl (fun s o => (step fs s o).1) s

/-- for EVERY history and start state: deleting all `NAME=v cmd` / `NAME=v func` lines leaves the final state -- and therefore every later
expansion, every later child's environment and the working directory -- unchanged -/
theorem C09_prefixes_erasable (fs : Str → FsRes) (ops : List Op) : ∀ (s : St),
    runOps fs s ops = runOps fs s (ops.filter fun o => !isPrefixOp o) := by
  induction ops with
  | nil => intro s; rfl
  | cons o rest ih =>
    intro s
    cases o <;> simp [runOps, List.foldl_cons, isPrefixOp, step] <;> first | exact ih _ | (simpa [runOps] using ih _)

example : runOps (fun _ => .missing) {} [.assign "A".toList "1".toList, .prefixed "A".toList "2".toList, .prefixedFn "A".toList "3".toList] =
    runOps (fun _ => .missing) {} [.assign "A".toList "1".toList] := by
  rw [C09_prefixes_erasable]; rfl

/-! ### order on one name: a plain assignment, then an export, then `unset` (the stale shell variable must neither win nor survive) -/

/-- after `N=a` and then `export N=b` -- whatever the state before -- `$N` is `b` and a child sees `b`: the exported value shadows the
shell variable the first assignment may have left -/
theorem C09_export_after_assign (fs : Str → FsRes) (s : St) (n a b : Str) :
    let s2 := (step fs (step fs s (.assign n a)).1 (.export n b)).1
    expandsTo s2 n = b ∧ childSees s2 [] n = some b := by
  simp [step, expandsTo, childSees, lookup_put_same, lookup_nil]

/-- ... and a following `unset N` removes it everywhere, the stale shell variable included -/
theorem C09_unset_after_export_after_assign (fs : Str → FsRes) (s : St) (n a b : Str) (h : unsetNameOk n = true) :
    let s3 := (step fs (step fs (step fs s (.assign n a)).1 (.export n b)).1 (.unset n)).1
    expandsTo s3 n = [] ∧ childSees s3 [] n = none ∧ lookup s3.vars n = none := by
  simp [step, h, expandsTo, childSees, lookup_del_same, lookup_nil]

end Cicada.EnvCd
