import Cicada.Spec.C14
/-!
# C14 — scripts execute exactly the command sequence their block structure prescribes

Model: `Model/Locust.lean` (the pest grammar read as a PEG, character level, with pest's implicit
whitespace) and `Model/ScriptRun.lean` (run_exp / run_exp_if / run_exp_test_br / run_exp_for /
run_exp_while over the pair tree); reference semantics: `Spec/C14.lean` (`semBlock`, the textbook reading).

Proved here:
* `C14_stray_*` : a block terminator with nothing to close (`fi`, `done`, `else` as the first line, whatever
  follows) makes the whole script a syntax error — nothing is silently skipped (since `fix:` 31b5572; the
  snapshot's top rule had no end-of-input anchor, refuted by `C14_snapshot_skipped`).
* `C14_first_true_arm` : in the reference semantics exactly the first arm whose condition succeeds runs, and
  no later condition is evaluated.
* `C14_break_innermost` : `break` inside a loop body ends that loop only (the statement after the loop runs).
Not yet a theorem (checked on every generated AST by the driver at run time, and against the implementation
by the `srun` stream): `run_lines (render b) = semBlock b` for all blocks — the interpreter refinement and
the PEG round trip.
-/
namespace Cicada.C14
open Cicada Cicada.Locust

/-- a stray `fi` at the top: syntax error, whatever follows -/
theorem C14_stray_fi (rest : Str) : parseLines ("fi\n".toList ++ rest) = none := by
  simp [parseLines, pTop, parseFuel, pIf, pFor, pWhile, pBranch, pHead, pForHead, pCmd, kwIf, kwFor, kwWhile, kwList, kwFi,
    kwElseIf, kwElse, kwDone, pLit, startsWith, skip, isWsP, pNlOrEoi, pNewline, List.dropWhile]

theorem C14_stray_done (rest : Str) : parseLines ("done\n".toList ++ rest) = none := by
  simp [parseLines, pTop, parseFuel, pIf, pFor, pWhile, pBranch, pHead, pForHead, pCmd, kwIf, kwFor, kwWhile, kwList, kwFi,
    kwElseIf, kwElse, kwDone, pLit, startsWith, skip, isWsP, pNlOrEoi, pNewline, List.dropWhile]

theorem C14_stray_else (rest : Str) : parseLines ("else\n".toList ++ rest) = none := by
  simp [parseLines, pTop, parseFuel, pIf, pFor, pWhile, pBranch, pHead, pForHead, pCmd, kwIf, kwFor, kwWhile, kwList, kwFi,
    kwElseIf, kwElse, kwDone, pLit, startsWith, skip, isWsP, pNlOrEoi, pNewline, List.dropWhile]

/-- the snapshot's top rule (no EOI): the same text parsed "successfully" to an empty program and the rest
of the file was ignored -/
theorem C14_snapshot_skipped (rest : Str) : (pTop (parseFuel ("fi\n".toList ++ rest)) ("fi\n".toList ++ rest)).1 = [] := by
  simp [pTop, parseFuel, pIf, pFor, pWhile, pBranch, pHead, pForHead, pCmd, kwIf, kwFor, kwWhile, kwList, kwFi,
    kwElseIf, kwElse, kwDone, pLit, startsWith, skip, isWsP, pNlOrEoi, pNewline, List.dropWhile]

/-- exactly the first true arm runs; conditions after it are not evaluated -/
theorem C14_first_true_arm {σ} (sem : Sem σ) (f : Nat) (t : Str) (body : Block) (rest : Arms) (els : Block) (inLoop : Bool) (st : σ)
    (h : (sem.runLine st t).2 = some 0) :
    semArms sem (f + 1) (.cons t body rest) els inLoop st = semBlock sem f body inLoop (sem.runLine st t).1 := by
  simp [semArms, h]

/-- a failing condition skips its arm and goes on with the next one -/
theorem C14_false_arm_skipped {σ} (sem : Sem σ) (f : Nat) (t : Str) (body : Block) (rest : Arms) (els : Block) (inLoop : Bool) (st : σ)
    (h : (sem.runLine st t).2 ≠ some 0) :
    semArms sem (f + 1) (.cons t body rest) els inLoop st = semArms sem f rest els inLoop (sem.runLine st t).1 := by
  simp [semArms, h]

/-- `break` ends the innermost loop only: the loop stops, what follows the loop still runs -/
theorem C14_break_innermost {σ} (sem : Sem σ) (f : Nat) (v : Str) (w : Str) (ws : List Str) (after : Block) (st : σ) (inLoop : Bool)
    (hw : sem.words st [] = w :: ws) :
    semBlock sem (f + 4) (.cons (.for v [] (.cons .brk .nil)) after) inLoop st = semBlock sem (f + 3) after inLoop (sem.setVar st v w) := by
  simp [semBlock, semFor, hw, Outcome.bind]

end Cicada.C14
