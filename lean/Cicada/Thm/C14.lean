import Cicada.Spec.C14
import Cicada.Lemmas.Interp
/-!
# C14 — scripts execute exactly the command sequence their block structure prescribes

Model: `Model/Locust.lean` (the pest grammar read as a PEG, character level, with pest's implicit
whitespace) and `Model/ScriptRun.lean` (run_exp / run_exp_if / run_exp_test_br / run_exp_for /
run_exp_while over the pair tree); reference semantics: `Spec/C14.lean` (`semBlock`, the textbook reading).

Proved here:
* `C14_stray_*` : a block terminator with nothing to close (`fi`, `done`, `else` as the first line, whatever
  follows) makes the whole script a syntax error — nothing is silently skipped (since `fix:` 31b5572; the
  snapshot's top rule had no end-of-input anchor, refuted by `C14_snapshot_skipped`).
* `C14_first_true_arm` : in the reference semantics exactly the first arm whose condition succeeds runs, and
  no later condition is evaluated.
* `C14_break_innermost` : `break` inside a loop body ends that loop only (the statement after the loop runs).
* `C14_interpreter_refines` : **the interpreter refines the structured semantics.**  For EVERY AST `b` (any nesting of
  `if` / `else if` / `else`, `for`, `while`, `break`, `continue`), every pair tree that represents it (`RBlock`: rule
  names and the trimmed texts of CMD / TEST / FOR_VAR pairs, nothing else), every `run_command_line` behaviour, every
  state and every fuel: whatever `run_exp` returns is what `semBlock b` prescribes — same final state, same pending
  `break` / `continue` (`Lemmas/Interp.lean`, mutual induction over the interpreter's fuel with fuel-monotonicity of the
  semantics).  Hypotheses: `set -e` is off, and the lines are untouched by positional expansion.
Not a theorem (checked against pest and against the implementation by the `ptree` and `srun` streams): that the
pair tree pest builds for `render b` represents `b` — the PEG round trip.
-/
namespace Cicada.C14
open Cicada Cicada.Locust

/-- a stray `fi` at the top: syntax error, whatever follows -/
theorem C14_stray_fi (rest : Str) : parseLines ("fi\n".toList ++ rest) = none := by
  simp [parseLines, pTop, parseFuel, pIf, pFor, pWhile, pBranch, pHead, pForHead, pCmd, kwIf, kwFor, kwWhile, kwList, kwFi,
    kwElseIf, kwElse, kwDone, pLit, startsWith, skip, isWsP, pNlOrEoi, pNewline, List.dropWhile]

theorem C14_stray_done (rest : Str) : parseLines ("done\n".toList ++ rest) = none := by
  simp [parseLines, pTop, parseFuel, pIf, pFor, pWhile, pBranch, pHead, pForHead, pCmd, kwIf, kwFor, kwWhile, kwList, kwFi,
    kwElseIf, kwElse, kwDone, pLit, startsWith, skip, isWsP, pNlOrEoi, pNewline, List.dropWhile]

theorem C14_stray_else (rest : Str) : parseLines ("else\n".toList ++ rest) = none := by
  simp [parseLines, pTop, parseFuel, pIf, pFor, pWhile, pBranch, pHead, pForHead, pCmd, kwIf, kwFor, kwWhile, kwList, kwFi,
    kwElseIf, kwElse, kwDone, pLit, startsWith, skip, isWsP, pNlOrEoi, pNewline, List.dropWhile]

/-- the snapshot's top rule (no EOI): the same text parsed "successfully" to an empty program and the rest
of the file was ignored -/
theorem C14_snapshot_skipped (rest : Str) : (pTop (parseFuel ("fi\n".toList ++ rest)) ("fi\n".toList ++ rest)).1 = [] := by
  simp [pTop, parseFuel, pIf, pFor, pWhile, pBranch, pHead, pForHead, pCmd, kwIf, kwFor, kwWhile, kwList, kwFi,
    kwElseIf, kwElse, kwDone, pLit, startsWith, skip, isWsP, pNlOrEoi, pNewline, List.dropWhile]

/-- exactly the first true arm runs; conditions after it are not evaluated -/
theorem C14_first_true_arm {σ} (sem : Sem σ) (f : Nat) (t : Str) (body : Block) (rest : Arms) (els : Block) (inLoop : Bool) (st : σ)
    (h : (sem.runLine st t).2 = some 0) :
    semArms sem (f + 1) (.cons t body rest) els inLoop st = semBlock sem f body inLoop (sem.runLine st t).1 := by
  simp [semArms, h]

/-- a failing condition skips its arm and goes on with the next one -/
theorem C14_false_arm_skipped {σ} (sem : Sem σ) (f : Nat) (t : Str) (body : Block) (rest : Arms) (els : Block) (inLoop : Bool) (st : σ)
    (h : (sem.runLine st t).2 ≠ some 0) :
    semArms sem (f + 1) (.cons t body rest) els inLoop st = semArms sem f rest els inLoop (sem.runLine st t).1 := by
  simp [semArms, h]

/-- `break` ends the innermost loop only: the loop stops, what follows the loop still runs -/
theorem C14_break_innermost {σ} (sem : Sem σ) (f : Nat) (v : Str) (w : Str) (ws : List Str) (after : Block) (st : σ) (inLoop : Bool)
    (hw : sem.words st [] = w :: ws) :
    semBlock sem (f + 4) (.cons (.for v [] (.cons .brk .nil)) after) inLoop st = semBlock sem (f + 3) after inLoop (sem.setVar st v w) := by
  simp [semBlock, semFor, hw, Outcome.bind]

/-- **the interpreter refines the structured semantics** (see the header) -/
theorem C14_interpreter_refines {σ} (sem : Sem σ) (args : List Str) (hE : ∀ s, sem.exitOnError s = false)
    (b : Block) (ts : List PT) (hrep : RBlock args b ts) (f : Nat) (inLoop : Bool) (st : σ) (last : Option Int) (r : RunRes σ)
    (hrun : runExp sem args f ts inLoop st last = .ok r) :
    ∃ g fl, semBlock sem g b inLoop st = .ok (r.st, fl) ∧ FlagRel r fl :=
  (good_all sem args hE f).blk b ts inLoop st last r hrep hrun

/-- at the top level (`run_lines`: not inside a loop) nothing is pending afterwards: the script's final state is the
semantics' final state -/
theorem C14_script_refines {σ} (sem : Sem σ) (args : List Str) (hE : ∀ s, sem.exitOnError s = false)
    (b : Block) (text : Str) (root : Str) (ts : List PT) (hparse : parseLines text = some (.node "EXP" root ts))
    (hrep : RBlock args b ts) (f : Nat) (st : σ) (r : RunRes σ)
    (hrun : runLines sem args f text st = .ok (some r)) :
    ∃ g fl, semBlock sem g b false st = .ok (r.st, fl) := by
  unfold runLines at hrun
  simp only [hparse, PT.kids, Outcome.map] at hrun
  obtain ⟨r', h1, h2⟩ := bind_ok hrun
  simp only [Outcome.ok.injEq, Option.some.injEq] at h2
  subst h2
  obtain ⟨g, fl, hg, _⟩ := C14_interpreter_refines sem args hE b ts hrep f false st none r' h1
  exact ⟨g, fl, hg⟩

/-- the children of the top pair pest builds for the script of the example below -/
def exTree : List PT :=
  [.node "EXP_FOR" "for x in a b; do\nif t\nbreak\nelse\nc $x\nfi\ndone\n".toList
    [.node "FOR_HEAD" "for x in a b; do\n".toList [.node "FOR_INIT" "x in a b; do\n".toList [.node "FOR_VAR" "x".toList [], .node "TEST" "a b".toList []]],
     .node "EXP_BODY" "if t\nbreak\nelse\nc $x\nfi\n".toList
      [.node "EXP_IF" "if t\nbreak\nelse\nc $x\nfi\n".toList
        [.node "IF_IF_BR" "if t\nbreak\n".toList [.node "IF_HEAD" "if t\n".toList [.node "TEST" "t".toList []],
                                                 .node "EXP_BODY" "break\n".toList [.node "CMD" "break\n".toList []]],
         .node "IF_ELSE_BR" "else\nc $x\n".toList [.node "KW_ELSE" "else\n".toList [],
                                                  .node "EXP_BODY" "c $x\n".toList [.node "CMD" "c $x\n".toList []]]]]],
   .node "CMD" "z\n".toList []]

/-- non-vacuity: `exTree` (what `parseLines` returns for `for x in a b; do / if t / break / else / c $x / fi / done / z`,
as printed by `#eval`; pair trees of this kind are what the `ptree` stream compares with pest's) represents the
corresponding AST, with no positional parameters in play -/
example : RBlock [] (.cons (.for "x".toList "a b".toList
        (.cons (.ite (.cons "t".toList (.cons .brk .nil) .nil) (.cons (.cmd "c $x".toList) .nil)) .nil))
      (.cons (.cmd "z".toList) .nil)) exTree := by
  refine .cons (.for (by decide) (by decide) (by decide) (.cons (.ite (by decide) (.arm (Or.inl rfl) (by decide) (by decide)
    (.cons (.brk (by decide)) .nil) (.els (.cons (.cmd (by decide) ⟨by decide, by decide, by decide, by decide⟩) .nil)))) .nil))
    (.cons (.cmd (by decide) ⟨by decide, by decide, by decide, by decide⟩) .nil)

end Cicada.C14
